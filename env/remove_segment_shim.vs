// ---- environment of the slice `remove_segment` --------------------------------------------------------
// Included inside `pub mod tr { … }` after env/im_shim.vs, env/transition_spec.vs, env/schedule_shim.vs and
// env/sched_guard_shim.vs.  Everything `assume_specification` / `external_body` / `uninterp` in this file
// is an ASSUMPTION (listed in the header of slices/remove_segment.vs).
//
// Copied text (block "Schedule::replace_vehicle_by_dummy: the vocabulary of its contract" below): the whole-tour
// case of remove_segment delegates to replace_vehicle_by_dummy, which is verified in slices/dummy_ops.vs; its contract is
// stubbed in slices/remove_segment.vs with the text of that slice, so the vocabulary of the contract is copied here, text
// unchanged (env/dummy_ops_shim.vs cannot be included next to this file: it copied svc_mask, svc_filter, has_service, ids_valid,
// Schedule::{ids_ok, formations_ok, rs_ok, next_dummy_id}, lemma_tour_cost_le FROM this file):
//   * from env/dummy_ops_shim.vs: ids_lose (there copied from env/update_tours_shim.vs), Schedule::{listed_ok, needs_dummy,
//     rd_id_left, vehicle_gone_c, vehicle_gone, trips_in_new_dummy_c, trips_in_new_dummy, no_new_dummy, others_untouched_c,
//     others_untouched, rd_formations_follow_c, rd_formations_follow, rd_unserved_follow_c, rd_unserved_follow,
//     rd_transitions_follow_c, rd_transitions_follow};
//   * from env/spawn_vehicle_shim.vs: Schedule::listing (the sorted id list of a vehicle type).
// `Formations`, `moved_nd`, formations_elsewhere_untouched, moved_get_replacement come from env/train_formation_update_shim.vs
// (module `tfu` of the slice, glob-imported).  No assumption comes with the copied text (open spec functions only).
// The last block ("the whole-tour case of remove_segment") is NOT copied: depots_around, clip and the lemmas that carry
// tfu_pre / has_service / svc_filter / un_sum / the moved activities from the removed nodes to the nodes of the whole tour.
// The block after it ("CLOSURE") is NOT copied either: the induction step of C10 / C09 / C11 -- the result of remove_segment
// satisfies rs_ok again -- proved from the effect clauses of the contract (rs_effect): so_* (sched_ok in groups), listing_exact
// (formerly the premise A-listing, now PROVED: sched_vehicles is defined in env/schedule_shim.vs; lemma_listing_frame / _lose,
// lemma_sched_vehicles_lose, lemma_types_listed -- LISTING-LEMMAS, same text in env/dummy_ops_shim.vs --, lemma_listing_follows_holds,
// lemma_listing_exact_holds), listing_follows, listings_kept, maps_at, tour_facts, shrunk_tour_facts, tr_step, lemma_closure_* and their
// helpers (lemma_first_pos: text of slices/admission.vs).  Robustness rules of that block: the big open conjunctions (rs_ok, sched_ok,
// rs_effect) are unfolded only in the extraction lemmas lemma_rs_parts / lemma_so_parts / lemma_effect_*; every other lemma hides them;
// facts about the maps are POINTWISE (maps_at / lemma_maps_at for one id, lemma_vehicle_ok_at, lemma_formation_at, lemma_listed_at:
// no quantified helper facts that trigger on every `contains_key` term); every lemma verifies in isolation and under other Z3 seeds.
use vstd::std_specs::cmp::OrdSpec;

// A-display: `{}` of a Segment (hand written Display impl of the repository; a no-op outside verus!)
impl vstd::std_specs::fmt::DisplaySpecImpl for Segment {
    open spec fn fmt_req(&self, f: &std::fmt::Formatter<'_>) -> bool { true }
}

// ---- A-derive: derived PartialOrd / Ord of VehicleIdx (variant order, then the index) ------------------
pub open spec fn vidx_rank(v: VehicleIdx) -> int {
    match v { VehicleIdx::Vehicle(i) => i as int, VehicleIdx::Dummy(i) => 0x10000 + i as int }
}
impl vstd::std_specs::cmp::PartialOrdSpecImpl for VehicleIdx {
    open spec fn obeys_partial_cmp_spec() -> bool { true }
    open spec fn partial_cmp_spec(&self, other: &VehicleIdx) -> Option<core::cmp::Ordering> { Some(int_cmp(vidx_rank(*self), vidx_rank(*other))) }
}
impl vstd::std_specs::cmp::OrdSpecImpl for VehicleIdx {
    open spec fn obeys_cmp_spec() -> bool { true }
    open spec fn cmp_spec(&self, other: &VehicleIdx) -> core::cmp::Ordering { int_cmp(vidx_rank(*self), vidx_rank(*other)) }
}

// ---- A-std7: `<[T]>::binary_search`, `Result::unwrap_or_else` (belong into env/std_specs.vs) -----------
/// sorted w.r.t. `Ord::cmp` (non-strict)
pub open spec fn sorted_cmp<T: Ord>(s: Seq<T>) -> bool {
    forall|i: int, j: int| #![trigger s[i], s[j]] 0 <= i < j < s.len() ==> !(s[i].cmp_spec(&s[j]) is Greater)
}
/// what `binary_search` returns on a sorted slice
pub open spec fn bsearch_post<T: Ord>(s: Seq<T>, x: T, r: Result<usize, usize>) -> bool {
    match r {
        Ok(i) => i < s.len() && s[i as int].cmp_spec(&x) is Equal,
        Err(i) => i <= s.len()
            && (forall|j: int| 0 <= j < i ==> (#[trigger] s[j]).cmp_spec(&x) is Less)
            && (forall|j: int| i <= j < s.len() ==> (#[trigger] s[j]).cmp_spec(&x) is Greater),
    }
}
/// the position it reports (found at / to be inserted at)
pub open spec fn bs_pos(r: Result<usize, usize>) -> int { (match r { Ok(i) => i, Err(i) => i }) as int }
/// std: "Binary searches this slice for a given element.  If the slice is not sorted, the returned result is
/// unspecified and meaningless.  If the value is found then Result::Ok is returned, containing the index of
/// the matching element.  If there are multiple matches, then any one of the matches could be returned.  If
/// the value is not found then Result::Err is returned, containing the index where a matching element could
/// be inserted while maintaining sorted order."
pub assume_specification<T: Ord>[ <[T]>::binary_search ](s: &[T], x: &T) -> (r: Result<usize, usize>)
    ensures sorted_cmp(s@) ==> bsearch_post(s@, *x, r);
/// std: "Returns the contained Ok value or computes it from a closure."
pub assume_specification<T, E, F: FnOnce(E) -> T>[ Result::<T, E>::unwrap_or_else ](a: Result<T, E>, f: F) -> (r: T)
    requires a is Err ==> f.requires((a->Err_0,)),
    ensures a is Ok ==> r == a->Ok_0, a is Err ==> f.ensures((a->Err_0,), r);

// ---- the sorted list of dummy ids ---------------------------------------------------------------------
/// `new` is `old` with `id` put in at some position
pub open spec fn ids_gain(old: Seq<VehicleIdx>, new: Seq<VehicleIdx>, id: VehicleIdx) -> bool {
    exists|p: int| 0 <= p <= old.len() && new == #[trigger] old.insert(p, id)
}
/// putting x where binary_search says keeps the list sorted
pub proof fn lemma_sorted_insert(s: Seq<VehicleIdx>, x: VehicleIdx, r: Result<usize, usize>)
    requires sorted_cmp(s), bsearch_post(s, x, r),
    ensures 0 <= bs_pos(r) <= s.len() && sorted_cmp(s.insert(bs_pos(r), x)),
{
    let p = bs_pos(r);
    let t = s.insert(p, x);
    assert forall|i: int, j: int| #![trigger t[i], t[j]] 0 <= i < j < t.len() implies !(t[i].cmp_spec(&t[j]) is Greater) by {
        let a = if i < p { i } else { i - 1 };
        let b = if j < p { j } else { j - 1 };
        if i != p && j != p {
            assert(t[i] == s[a] && t[j] == s[b]);
            assert(!(s[a].cmp_spec(&s[b]) is Greater));
        } else if i == p {
            assert(t[j] == s[b]);
            if r is Ok && b > p { assert(!(s[p].cmp_spec(&s[b]) is Greater)); }
        } else {
            assert(t[i] == s[a]);
            if r is Ok { assert(!(s[a].cmp_spec(&s[p]) is Greater)); }
        }
    }
}

// =====================================================================================================
// depot usage vocabulary (C09 last part): text copied from env/depot_usage_shim.vs, which cannot be
// included next to env/schedule_shim.vs (both declare the im::HashSet shim and the Vehicle type)
// =====================================================================================================
/// the abstract depot usage: (depot, type) -> (vehicles spawned there, vehicles despawned there)
pub type UsageMap = Map<(DepotIdx, VehicleTypeIdx), (HashSet<VehicleIdx>, HashSet<VehicleIdx>)>;
pub type VehicleMap = Map<VehicleIdx, Vehicle>;
pub type TourMap = Map<VehicleIdx, Tour>;

/// `usage(d, vt).0`; "absent keys count as empty sets"
pub open spec fn sp_spawned(du: UsageMap, d: DepotIdx, vt: VehicleTypeIdx) -> Set<VehicleIdx> {
    if du.contains_key((d, vt)) { du[(d, vt)].0@ } else { Set::empty() }
}
/// `usage(d, vt).1`; "absent keys count as empty sets"
pub open spec fn sp_despawned(du: UsageMap, d: DepotIdx, vt: VehicleTypeIdx) -> Set<VehicleIdx> {
    if du.contains_key((d, vt)) { du[(d, vt)].1@ } else { Set::empty() }
}
/// the depot a start / end depot node belongs to
pub open spec fn sp_depot_idx_of(net: &Network, n: NodeIdx) -> DepotIdx {
    match net.sp_node(n) {
        Node::StartDepot((_, d)) => d.depot_idx,
        Node::EndDepot((_, d)) => d.depot_idx,
        _ => arbitrary(),
    }
}
/// "v in V of type vt whose tour's start depot node belongs to depot d"
pub open spec fn starts_at(net: &Network, vehicles: VehicleMap, tours: TourMap, v: VehicleIdx, d: DepotIdx, vt: VehicleTypeIdx) -> bool {
    &&& vehicles.contains_key(v) && tours.contains_key(v)
    &&& vehicles[v].vehicle_type.idx == vt
    &&& sp_depot_idx_of(net, sp_start_depot(&tours[v])) == d
}
/// "… whose tour's end depot node belongs to depot d"
pub open spec fn ends_at(net: &Network, vehicles: VehicleMap, tours: TourMap, v: VehicleIdx, d: DepotIdx, vt: VehicleTypeIdx) -> bool {
    &&& vehicles.contains_key(v) && tours.contains_key(v)
    &&& vehicles[v].vehicle_type.idx == vt
    &&& sp_depot_idx_of(net, sp_end_depot(&tours[v])) == d
}
/// the same, read per vehicle: v is in exactly the sets it belongs to
pub open spec fn usage_exact_for(du: UsageMap, net: &Network, vehicles: VehicleMap, tours: TourMap, v: VehicleIdx) -> bool {
    &&& forall|d: DepotIdx, vt: VehicleTypeIdx| (#[trigger] sp_spawned(du, d, vt)).contains(v) <==> starts_at(net, vehicles, tours, v, d, vt)
    &&& forall|d: DepotIdx, vt: VehicleTypeIdx| (#[trigger] sp_despawned(du, d, vt)).contains(v) <==> ends_at(net, vehicles, tours, v, d, vt)
}
/// C09: the usage table has its from-scratch value for the real vehicles `vehicles` with tours `tours`
pub open spec fn usage_exact(du: UsageMap, net: &Network, vehicles: VehicleMap, tours: TourMap) -> bool {
    forall|v: VehicleIdx| #[trigger] usage_exact_for(du, net, vehicles, tours, v)
}
/// the entries of every vehicle but v are the same in both tables
pub open spec fn usage_same_except(du0: UsageMap, du1: UsageMap, v: VehicleIdx) -> bool {
    &&& forall|d: DepotIdx, vt: VehicleTypeIdx, u: VehicleIdx| u != v ==>
            ((#[trigger] sp_spawned(du1, d, vt).contains(u)) <==> sp_spawned(du0, d, vt).contains(u))
    &&& forall|d: DepotIdx, vt: VehicleTypeIdx, u: VehicleIdx| u != v ==>
            ((#[trigger] sp_despawned(du1, d, vt).contains(u)) <==> sp_despawned(du0, d, vt).contains(u))
}
/// C09 ("… equal their from-scratch value after any modification"), one step of a modification: the
/// table was exact for the old vehicles / tours, vehicle v (and only v) changed, the table was brought
/// up to date for v and left alone for everybody else: it is exact for the new vehicles / tours
pub proof fn lemma_usage_exact_step(du0: UsageMap, du1: UsageMap, net: &Network,
        vehicles0: VehicleMap, tours0: TourMap, vehicles1: VehicleMap, tours1: TourMap, v: VehicleIdx)
    requires
        usage_exact(du0, net, vehicles0, tours0),
        usage_exact_for(du1, net, vehicles1, tours1, v),
        usage_same_except(du0, du1, v),
        forall|u: VehicleIdx| #![trigger vehicles1.contains_key(u)] #![trigger vehicles1[u]] u != v ==> (vehicles1.contains_key(u) <==> vehicles0.contains_key(u)) && vehicles1[u] == vehicles0[u],
        forall|u: VehicleIdx| #![trigger tours1.contains_key(u)] #![trigger tours1[u]] u != v ==> (tours1.contains_key(u) <==> tours0.contains_key(u)) && tours1[u] == tours0[u],
    ensures
        usage_exact(du1, net, vehicles1, tours1),
{
    assert forall|u: VehicleIdx| #[trigger] usage_exact_for(du1, net, vehicles1, tours1, u) by {
        if u != v {
            assert(usage_exact_for(du0, net, vehicles0, tours0, u));
            assert forall|d: DepotIdx, vt: VehicleTypeIdx| (#[trigger] sp_spawned(du1, d, vt)).contains(u) <==> starts_at(net, vehicles1, tours1, u, d, vt) by {
                assert(sp_spawned(du1, d, vt).contains(u) <==> sp_spawned(du0, d, vt).contains(u));
            }
            assert forall|d: DepotIdx, vt: VehicleTypeIdx| (#[trigger] sp_despawned(du1, d, vt)).contains(u) <==> ends_at(net, vehicles1, tours1, u, d, vt) by {
                assert(sp_despawned(du1, d, vt).contains(u) <==> sp_despawned(du0, d, vt).contains(u));
            }
        }
    }
}
/// a real well-formed tour over the network `net` (text as in slices/depot_usage.vs)
pub open spec fn tour_of_net(net: &Network, t: &Tour) -> bool { t.wf() && !t.is_dummy && *t.network == *net }
impl Schedule {
    /// a real vehicle of this schedule (text as in slices/depot_usage.vs)
    pub open spec fn sp_is_vehicle(&self, v: VehicleIdx) -> bool { self.vehicles@.contains_key(v) }
    pub open spec fn sp_is_dummy(&self, v: VehicleIdx) -> bool { self.dummy_tours@.contains_key(v) }
    /// part of C10 (schedule validity): a real vehicle has a real (non-dummy) well-formed tour over the
    /// schedule's network
    pub open spec fn real_tour_ok(&self, v: VehicleIdx) -> bool {
        self.tours@.contains_key(v) && tour_of_net(&self.network, &self.tours@[v])
    }
}

// =====================================================================================================
// train formations (C13: "removals keep the order"): vocabulary copied from slices/admission.vs (needed by
// env/train_formation_update_shim.vs, which the slice includes after this file)
// =====================================================================================================
/// passenger capacity / seats of a formation: the sums over its vehicles
pub open spec fn fcap(f: Seq<Vehicle>) -> int { isum(f.map_values(|v: Vehicle| v.vehicle_type.capacity as int)) }
pub open spec fn fseats(f: Seq<Vehicle>) -> int { isum(f.map_values(|v: Vehicle| v.vehicle_type.seats as int)) }
/// position of the first vehicle with the given id (s.len() if there is none)
pub open spec fn first_pos(s: Seq<Vehicle>, v: VehicleIdx) -> int
    decreases s.len(),
{
    if s.len() == 0 { 0 } else if s[0].idx == v { 0 } else { 1 + first_pos(s.drop_first(), v) }
}
pub open spec fn has_vehicle(s: Seq<Vehicle>, v: VehicleIdx) -> bool {
    exists|i: int| 0 <= i < s.len() && #[trigger] s[i].idx == v
}
/// C02: "the smaller of its vehicle type's and its route segment's maximal formation count",
/// over the limits that are present; no limit iff neither is given
pub open spec fn combined_limit(type_limit: Option<VehicleCount>, segment_limit: Option<VehicleCount>) -> Option<VehicleCount> {
    match (type_limit, segment_limit) {
        (Some(a), Some(b)) => Some(if a <= b { a } else { b }),
        (Some(a), None) => Some(a),
        (None, Some(b)) => Some(b),
        (None, None) => None,
    }
}
impl Network {
    pub open spec fn sp_trip(&self, n: NodeIdx) -> ServiceTrip { self.sp_node(n)->Service_0.1 }
    pub open spec fn is_trip(&self, n: NodeIdx) -> bool {
        self.has(n) && self.sp_node(n) is Service && self.vehicle_types.vehicle_types@.contains_key(self.sp_trip(n).vehicle_type)
    }
}
impl Schedule {
    /// the formation grows: the receiver is a real vehicle and the provider is None or a dummy
    pub open spec fn grows(&self, provider: Option<VehicleIdx>, receiver: Option<Vehicle>) -> bool {
        receiver is Some && !self.sp_is_dummy(receiver.unwrap().idx) && !(provider is Some && !self.sp_is_dummy(provider.unwrap()))
    }
    /// a real receiver takes the position of a real provider
    pub open spec fn replaces(&self, provider: Option<VehicleIdx>, receiver: Option<Vehicle>) -> bool {
        receiver is Some && !self.sp_is_dummy(receiver.unwrap().idx) && provider is Some && !self.sp_is_dummy(provider.unwrap())
    }
    /// a real provider leaves, nobody (or a dummy) takes over
    pub open spec fn shrinks(&self, provider: Option<VehicleIdx>, receiver: Option<Vehicle>) -> bool {
        !(receiver is Some && !self.sp_is_dummy(receiver.unwrap().idx)) && provider is Some && !self.sp_is_dummy(provider.unwrap())
    }
    /// C02: the number of vehicles a node may host: its tracks for a maintenance slot, the smaller of the
    /// type's and the route segment's maximal formation count for a service trip; None = unlimited
    pub open spec fn sp_node_limit(&self, node: NodeIdx) -> Option<VehicleCount> {
        match self.network.sp_node(node) {
            Node::Maintenance((_, m)) => Some(m.track_count),
            Node::Service((_, s)) => combined_limit(
                self.network.vehicle_types.vehicle_types@[s.vehicle_type].maximal_formation_count,
                s.maximal_formation_count),
            _ => None,
        }
    }
}
/// node n is an activity among the moved nodes
pub open spec fn moved_activity(net: &Network, moved: Seq<NodeIdx>, n: NodeIdx) -> bool {
    moved.contains(n) && net.sp_node(n).sp_is_activity()
}

// =====================================================================================================
// dummy tours: the service trips of a path, in order
// =====================================================================================================
pub open spec fn svc_mask(net: &Network, s: Seq<NodeIdx>) -> Seq<bool> { Seq::new(s.len(), |i: int| net.sp_node(s[i]) is Service) }
/// the service trips among the nodes s, in order
pub open spec fn svc_filter(net: &Network, s: Seq<NodeIdx>) -> Seq<NodeIdx> { mask_filter(s, svc_mask(net, s)) }
pub open spec fn has_service(net: &Network, s: Seq<NodeIdx>) -> bool {
    exists|i: int| 0 <= i < s.len() && #[trigger] net.sp_node(s[i]) is Service
}

/// what `retain(is_service)` leaves: the service trips in order; none iff there is no service trip
pub proof fn lemma_svc_filter(net: &Network, s: Seq<NodeIdx>, out: Seq<NodeIdx>)
    requires
        all_in_net(net, s),
        exists|mask: Seq<bool>| #![trigger mask_filter(s, mask)] mask.len() == s.len()
            && (forall|i: int| 0 <= i < mask.len() ==> #[trigger] mask[i] == (net.sp_node(s[i]) is Service))
            && out == mask_filter(s, mask),
    ensures
        out == svc_filter(net, s),
        out.len() == 0 <==> !has_service(net, s),
        out.len() <= s.len(),
        all_in_net(net, out),
{
    let mask = choose|mask: Seq<bool>| #![trigger mask_filter(s, mask)] mask.len() == s.len()
        && (forall|i: int| 0 <= i < mask.len() ==> #[trigger] mask[i] == (net.sp_node(s[i]) is Service))
        && out == mask_filter(s, mask);
    assert(mask =~= svc_mask(net, s));
    lemma_mask_filter_sel(s, mask);
    if has_service(net, s) {
        let i = choose|i: int| 0 <= i < s.len() && #[trigger] net.sp_node(s[i]) is Service;
        assert(mask[i] && s[i] == s[i]);
        assert(out.contains(s[i]));
    }
    if out.len() > 0 {
        assert(out.contains(out[0]));
        let p = choose|p: int| 0 <= p < s.len() && mask[p] && #[trigger] s[p] == out[0];
        assert(net.sp_node(s[p]) is Service);
    }
    assert forall|j: int| 0 <= j < out.len() implies #[trigger] net.has(out[j]) by {
        assert(out.contains(out[j]));
        let p = choose|p: int| 0 <= p < s.len() && mask[p] && #[trigger] s[p] == out[j];
        assert(net.has(s[p]));
    }
}

// =====================================================================================================
// Schedule::remove_segment: validity of the schedule as far as the operation needs it, and its effect
// =====================================================================================================
pub open spec fn ids_valid(vehicles: VehicleMap, tours: TourMap, dummies: TourMap, ids: Seq<VehicleIdx>, counter: usize) -> bool {
    &&& forall|v: VehicleIdx| #[trigger] vehicles.contains_key(v) ==> v is Vehicle && vehicles[v].idx == v
    &&& forall|v: VehicleIdx| #[trigger] vehicles.contains_key(v) <==> tours.contains_key(v)
    &&& forall|d: VehicleIdx| #[trigger] dummies.contains_key(d) ==> d is Dummy && (d->Dummy_0 as int) < counter
    &&& sorted_cmp(ids)
}
/// NOT used by slices/remove_segment.vs any more (there replace_vehicle_by_dummy is stubbed with its verified contract, see
/// the block "Schedule::replace_vehicle_by_dummy: the vocabulary of its contract" below).  Kept only because slices/swaps_sem.vs / env/swaps_sem_shim.vs still carry the previous
/// contract text of remove_segment (`r == spec_replace_by_dummy(..)`); to be deleted when that stub has been synced.
pub uninterp spec fn spec_replace_by_dummy(s: &Schedule, v: VehicleIdx) -> Result<Schedule, String>;

impl Schedule {
    /// C10: ids.  Real vehicles are stored under their own id, an id of the `Vehicle` kind, and have a tour;
    /// dummy tours are stored under ids of the `Dummy` kind that were handed out already (index below the
    /// counter); the list of dummy ids is sorted
    pub open spec fn ids_ok(&self) -> bool {
        ids_valid(self.vehicles@, self.tours@, self.dummy_tours@, self.dummy_ids_sorted@, self.vehicle_counter)
    }
    /// C10: "each non-depot node is covered by exactly one train formation", which lists the vehicles whose
    /// tours contain the node
    pub open spec fn formations_ok(&self) -> bool {
        &&& forall|n: NodeIdx| self.network.has(n) && self.network.sp_node(n).sp_is_activity() ==> #[trigger] self.train_formations@.contains_key(n)
        &&& forall|v: VehicleIdx, i: int| self.tours@.contains_key(v) && 0 < i < self.tours@[v].nodes@.len() - 1
                ==> has_vehicle(self.train_formations@[#[trigger] self.tours@[v].nodes@[i]].formation@, v)
    }
    /// C15 / C10 / C09 for the rotation cycles: one transition per vehicle type of the network, consistent with
    /// the tours, holding exactly the vehicles of its type; the maintenance violation is their sum (these
    /// are the clauses of `upd_pre`, env/sched_guard_shim.vs, that speak about the old schedule only)
    pub open spec fn transitions_ok(&self) -> bool {
        let trs = self.next_period_transitions@;
        let vts = sched_types(self);
        &&& vts.no_duplicates()
        &&& forall|vt: VehicleTypeIdx| #[trigger] trs.contains_key(vt) <==> vts.contains(vt)
        &&& forall|vt: VehicleTypeIdx| #[trigger] trs.contains_key(vt) ==> trs[vt].wf(&self.network, self.tours@)
        &&& forall|vt: VehicleTypeIdx, v: VehicleIdx| #![trigger trs[vt].has_vehicle(v)] trs.contains_key(vt)
                ==> (trs[vt].has_vehicle(v) <==> self.vehicles@.contains_key(v) && self.type_of(v) == vt)
        &&& self.maintenance_violation as int == viol_sum(trs, vts)
        // magnitude: fewer than 2^17 vehicles (ids are 16 bit)
        &&& len_sum(trs, vts) < max_vehicles()
    }
    /// schedule-level validity as far as remove_segment needs it (part of C10, C09)
    pub open spec fn rs_ok(&self) -> bool {
        &&& self.sched_ok()
        &&& self.ids_ok()
        &&& self.formations_ok()
        &&& self.transitions_ok()
        &&& usage_exact(self.depot_usage@, &self.network, self.vehicles@, self.tours@)
    }

    // ---- the segment in the provider's tour (vocabulary of Tour::remove's contract) ----------------------
    pub open spec fn seg_lo(&self, segment: Segment, v: VehicleIdx) -> int { self.tours@[v].index_of(segment.start) }
    pub open spec fn seg_hi(&self, segment: Segment, v: VehicleIdx) -> int { self.tours@[v].index_of(segment.end) }
    /// C12: Tour::remove accepts the segment
    pub open spec fn seg_removable(&self, segment: Segment, v: VehicleIdx) -> bool {
        self.tours@[v].has_node(segment.start) && self.tours@[v].has_node(segment.end)
            && self.tours@[v].removable(self.seg_lo(segment, v), self.seg_hi(segment, v))
    }
    /// the nodes the provider loses / keeps
    pub open spec fn removed_nodes(&self, segment: Segment, v: VehicleIdx) -> Seq<NodeIdx> {
        self.tours@[v].mid(self.seg_lo(segment, v), self.seg_hi(segment, v) + 1)
    }
    pub open spec fn kept_nodes(&self, segment: Segment, v: VehicleIdx) -> Seq<NodeIdx> {
        self.tours@[v].rest(self.seg_lo(segment, v), self.seg_hi(segment, v) + 1)
    }
    /// the operation gets as far as cutting the tour
    pub open spec fn removes(&self, segment: Segment, v: VehicleIdx) -> bool {
        self.vehicles@.contains_key(v) && self.seg_removable(segment, v)
    }
    /// the case split of remove_segment ("If the segment contains all non-depot nodes of the tour, the vehicle is replaced
    /// by a dummy"): nothing but depots would be left.  For the tour of a real vehicle this is exactly when Tour::remove
    /// returns no tour (C13.remove.no_tour_iff_no_activity_left), i.e. when remove_segment delegates to
    /// replace_vehicle_by_dummy; otherwise (3 or more nodes kept) the provider keeps a tour
    pub open spec fn whole_tour(&self, segment: Segment, v: VehicleIdx) -> bool { self.kept_nodes(segment, v).len() <= 2 }
    /// A-counter (magnitude): the maintenance counter of the shrunk tour is small (the counter is an
    /// uninterpreted atom of the rotation-cycle vocabulary, env/transition_spec.vs)
    pub open spec fn shrunk_counter_ok(&self, segment: Segment, v: VehicleIdx) -> bool {
        forall|t: Tour| t.nodes@ == self.kept_nodes(segment, v) && tour_of_net(&self.network, &t) && t.caches_ok()
            ==> -counter_bound() <= #[trigger] tour_counter(&t) <= counter_bound()
    }
    /// the id the next new dummy tour gets
    pub open spec fn next_dummy_id(&self) -> VehicleIdx { VehicleIdx::Dummy(self.vehicle_counter as Idx) }

    // ---- C13: the documented effect, clause by clause (the branch where the provider keeps a tour) ------
    /// "the provider loses exactly the moved nodes"
    pub open spec fn provider_shrunk(&self, segment: Segment, v: VehicleIdx, tours1: TourMap) -> bool {
        &&& tours1.contains_key(v)
        &&& tours1[v].nodes@ == self.kept_nodes(segment, v)
        &&& tours1[v].is_dummy == self.tours@[v].is_dummy && tours1[v].network == self.tours@[v].network
        &&& tours1[v].wf() && tours1[v].caches_ok()
    }
    /// "all other vehicles' tours … stay untouched"
    pub open spec fn other_tours_untouched(&self, v: VehicleIdx, tours1: TourMap) -> bool {
        &&& forall|u: VehicleIdx| #[trigger] tours1.contains_key(u) <==> self.tours@.contains_key(u)
        &&& forall|u: VehicleIdx| u != v && self.tours@.contains_key(u) ==> #[trigger] tours1[u] == self.tours@[u]
    }
    /// "removed service trips are handed back in a new dummy tour": a new dummy tour under the next id
    /// holds exactly the removed service trips in order; all other dummy tours are untouched; the sorted
    /// id list gains exactly this id
    pub open spec fn trips_handed_back(&self, removed: Seq<NodeIdx>, dummies1: TourMap, ids1: Seq<VehicleIdx>) -> bool {
        let id = self.next_dummy_id();
        &&& !self.dummy_tours@.contains_key(id)
        &&& dummies1.contains_key(id)
        &&& dummies1 == self.dummy_tours@.insert(id, dummies1[id])
        &&& dummies1[id].nodes@ == svc_filter(&self.network, removed) && dummies1[id].is_dummy && dummies1[id].network == self.network
        &&& dummies1[id].caches_ok()
        &&& ids_gain(self.dummy_ids_sorted@, ids1, id) && sorted_cmp(ids1)
    }
    /// "formations elsewhere stay untouched"; at the removed activities the provider leaves its formation,
    /// the others keep their order
    pub open spec fn formations_follow(&self, removed: Seq<NodeIdx>, v: VehicleIdx, tf1: Map<NodeIdx, TrainFormation>) -> bool {
        &&& forall|n: NodeIdx| #[trigger] tf1.contains_key(n) <==> self.train_formations@.contains_key(n)
        &&& forall|n: NodeIdx| !moved_activity(&self.network, removed, n) ==> #[trigger] tf1[n] == self.train_formations@[n]
        &&& forall|n: NodeIdx| moved_activity(&self.network, removed, n)
                ==> (#[trigger] tf1[n]).formation@ == self.train_formations@[n].formation@.remove(first_pos(self.train_formations@[n].formation@, v))
    }
    /// C09: the unserved-passenger pair changes by exactly - Σ unserved(old formation) + Σ unserved(new formation)
    /// over the removed nodes (vocabulary of env/train_formation_update_shim.vs)
    pub open spec fn unserved_follow(&self, removed: Seq<NodeIdx>, v: VehicleIdx, u1: (PassengerCount, PassengerCount)) -> bool {
        let tf0 = self.train_formations@;
        let n = removed.len() as int;
        &&& u1.0 == self.unserved_passengers.0 - self.un_sum(tf0, Some(v), None, removed, n, false, 0) + self.un_sum(tf0, Some(v), None, removed, n, true, 0)
        &&& u1.1 == self.unserved_passengers.1 - self.un_sum(tf0, Some(v), None, removed, n, false, 1) + self.un_sum(tf0, Some(v), None, removed, n, true, 1)
    }
    /// C15 / C10 / C09: the rotation cycles follow the new tours; other vehicle types are untouched
    pub open spec fn transitions_follow(&self, v: VehicleIdx, trs1: Map<VehicleTypeIdx, Transition>, mv1: MaintenanceCounter, vehicles1: VehicleMap, tours1: TourMap) -> bool {
        &&& forall|vt: VehicleTypeIdx| self.next_period_transitions@.contains_key(vt) <==> #[trigger] trs1.contains_key(vt)
        &&& forall|vt: VehicleTypeIdx| #[trigger] trs1.contains_key(vt) ==> trs1[vt].wf(&self.network, tours1)
        &&& forall|vt: VehicleTypeIdx, u: VehicleIdx| #![trigger trs1[vt].has_vehicle(u)] trs1.contains_key(vt)
                ==> (trs1[vt].has_vehicle(u) <==> (vehicles1.contains_key(u) && vtype(vehicles1[u]) == vt))
        &&& mv1 as int == viol_sum(trs1, sched_types(self))
        &&& forall|vt: VehicleTypeIdx| #[trigger] trs1.contains_key(vt) && vt != self.type_of(v) ==> trs1[vt] == self.next_period_transitions@[vt]
    }
}

// ---- lemmas ---------------------------------------------------------------------------------------------
/// the cached costs of one listed tour are part of the sum
pub proof fn lemma_tour_cost_le(tours: TourMap, vs: Seq<VehicleIdx>, j: int, k: int)
    requires 0 <= j < k <= vs.len(),
    ensures tours[vs[j]].costs as int <= pre_costs(tours, vs, k),
    decreases k,
{
    if j < k - 1 { lemma_tour_cost_le(tours, vs, j, k - 1); }
    else { lemma_pre_costs_mono(tours, vs, 0, k - 1); }
}

/// what a valid schedule provides for a real vehicle and its tour
pub proof fn lemma_provider(s: &Schedule, v: VehicleIdx)
    requires s.rs_ok(), s.vehicles@.contains_key(v),
    ensures
        s.tours@.contains_key(v), s.has_tour(v), s.sp_tour_of(v) == s.tours@[v],
        s.tours@[v].wf(), s.tours@[v].caches_ok(), tour_len_ok(s.tours@[v].nodes@), !s.tours@[v].is_dummy,
        *s.tours@[v].network == *s.network, s.network.wf(),
        v is Vehicle, !s.sp_is_dummy(v), s.vehicles@[v].idx == v,
        s.tours@[v].costs <= s.costs <= sched_cost_bound(),
        s.real_tour_ok(v),
        usage_exact_for(s.depot_usage@, &s.network, s.vehicles@, s.tours@, v),
        sorted_cmp(s.dummy_ids_sorted@),
        s.vehicle_counter <= 0xffff ==> !s.dummy_tours@.contains_key(s.next_dummy_id()),
        s.ids_ok(),
{
    let vs = sched_vehicles(s);
    assert(s.tours@.contains_key(v));
    assert(s.vehicle_ok(v));
    assert(vs.contains(v));
    let j = choose|j: int| 0 <= j < vs.len() && vs[j] == v;
    lemma_tour_cost_le(s.tours@, vs, j, vs.len() as int);
    assert(usage_exact_for(s.depot_usage@, &s.network, s.vehicles@, s.tours@, v));
    if s.vehicle_counter <= 0xffff && s.dummy_tours@.contains_key(s.next_dummy_id()) {
        assert((s.next_dummy_id()->Dummy_0 as int) < s.vehicle_counter);
    }
}

/// the removed block: nodes of the network, pairwise distinct
pub proof fn lemma_removed_block(t: &Tour, s: int, e: int)
    requires t.wf(), 0 <= s <= e < t.len(), tour_len_ok(t.nodes@),
    ensures
        all_in_net(&t.network, t.mid(s, e + 1)),
        all_in_net(&t.network, t.rest(s, e + 1)),
        t.mid(s, e + 1).no_duplicates(),
        t.mid(s, e + 1).len() == e + 1 - s,
        len_ok(t.rest(s, e + 1)),
        forall|i: int| 0 <= i < e + 1 - s ==> #[trigger] t.mid(s, e + 1)[i] == t.nodes@[s + i],
{
    reveal(Tour::mid); reveal(Tour::rest);
    let m = t.mid(s, e + 1);
    let k = t.rest(s, e + 1);
    assert forall|i: int| 0 <= i < m.len() implies #[trigger] t.network.has(m[i]) by { assert(t.network.has(t.nodes@[s + i])); }
    assert forall|i: int| 0 <= i < k.len() implies #[trigger] t.network.has(k[i]) by {
        if i < s { assert(t.network.has(t.nodes@[i])); } else { assert(k[i] == t.nodes@[e + 1 + (i - s)]); assert(t.network.has(t.nodes@[e + 1 + (i - s)])); }
    }
    assert forall|i: int, j: int| 0 <= i < m.len() && 0 <= j < m.len() && i != j implies m[i] != m[j] by {
        if m[i] == m[j] { lemma_tour_distinct(t, s + i, s + j); }
    }
}

/// after Tour::remove accepted the segment and left a tour `nt`: what the bookkeeping steps need
pub proof fn lemma_cut(s: &Schedule, segment: Segment, v: VehicleIdx, nt: Tour)
    requires
        s.rs_ok(), s.removes(segment, v), s.shrunk_counter_ok(segment, v),
        nt.nodes@ == s.kept_nodes(segment, v), nt.network == s.tours@[v].network, nt.wf(), !nt.is_dummy, nt.caches_ok(),
    ensures
        all_in_net(&s.network, s.removed_nodes(segment, v)),
        s.removed_nodes(segment, v).no_duplicates(),
        len_ok(s.removed_nodes(segment, v)),
        // every removed activity is an inner node of the tour: it has a formation that lists the provider
        forall|n: NodeIdx| moved_activity(&s.network, s.removed_nodes(segment, v), n) ==> #[trigger] s.train_formations@.contains_key(n),
        forall|n: NodeIdx| moved_activity(&s.network, s.removed_nodes(segment, v), n) ==> has_vehicle((#[trigger] s.train_formations@[n]).formation@, v),
        s.costs + nt.costs <= u64::MAX,
        tour_of_net(&s.network, &nt),
        tour_ok(&s.network, &nt),
        // the provider leaves every formation it is removed from: the formation bookkeeping succeeds
        s.all_ok(s.train_formations@, Some(v), None, s.removed_nodes(segment, v), s.removed_nodes(segment, v).len() as int),
{
    lemma_provider(s, v);
    let t0 = s.tours@[v];
    let lo = s.seg_lo(segment, v);
    let hi = s.seg_hi(segment, v);
    let removed = s.removed_nodes(segment, v);
    assert(0 <= lo <= hi < t0.len());
    lemma_removed_block(&t0, lo, hi);
    assert forall|n: NodeIdx| moved_activity(&s.network, removed, n)
        implies s.train_formations@.contains_key(n) && has_vehicle(s.train_formations@[n].formation@, v) by {
        let i = choose|i: int| 0 <= i < removed.len() && removed[i] == n;
        assert(removed[i] == t0.nodes@[lo + i]);
        lemma_tour_kinds(&t0, lo + i);
        assert(0 < lo + i < t0.nodes@.len() - 1);
        assert(s.network.has(n));
        assert(has_vehicle(s.train_formations@[s.tours@[v].nodes@[lo + i]].formation@, v));
    }
    lemma_cost_bounds(&t0.network, nt.nodes@);
    assert(-counter_bound() <= tour_counter(&nt) <= counter_bound());
    let rv: Option<Vehicle> = None;
    assert(s.shrinks(Some(v), rv));
    assert forall|j: int| 0 <= j < removed.len() && !s.network.sp_node(#[trigger] removed[j]).sp_is_depot()
        implies s.repl_ok(s.train_formations@[removed[j]].formation@, Some(v), rv, removed[j]) by {
        assert(removed.contains(removed[j]));
        assert(moved_activity(&s.network, removed, removed[j]));
    }
}

/// C09: the usage table after the bookkeeping step for the provider
pub proof fn lemma_usage_step(s: &Schedule, du1: UsageMap, tours1: TourMap, v: VehicleIdx, nt: Tour)
    requires
        s.rs_ok(), tours1 == s.tours@.insert(v, nt),
        usage_exact_for(du1, &s.network, s.vehicles@, tours1, v),
        usage_same_except(s.depot_usage@, du1, v),
    ensures usage_exact(du1, &s.network, s.vehicles@, tours1),
{
    lemma_usage_exact_step(s.depot_usage@, du1, &s.network, s.vehicles@, s.tours@, s.vehicles@, tours1, v);
}

/// what the operation did to the maps that carry ids (the clauses of the contract that lemma_ids_stay_valid builds on)
pub open spec fn ids_step(s: &Schedule, v: VehicleIdx, tours1: TourMap, dummies1: TourMap, ids1: Seq<VehicleIdx>, counter1: usize, added: bool) -> bool {
    &&& s.ids_ok() && s.vehicles@.contains_key(v) && s.vehicle_counter <= 0xffff
    &&& tours1.contains_key(v) && s.other_tours_untouched(v, tours1)
    &&& added ==> dummies1 == s.dummy_tours@.insert(s.next_dummy_id(), dummies1[s.next_dummy_id()]) && sorted_cmp(ids1) && counter1 == s.vehicle_counter + 1
    &&& !added ==> dummies1 == s.dummy_tours@ && ids1 == s.dummy_ids_sorted@ && counter1 == s.vehicle_counter
}
/// C10: the ids stay valid
pub proof fn lemma_ids_stay_valid(s: &Schedule, v: VehicleIdx, tours1: TourMap, dummies1: TourMap, ids1: Seq<VehicleIdx>, counter1: usize, added: bool)
    requires ids_step(s, v, tours1, dummies1, ids1, counter1, added),
    ensures ids_valid(s.vehicles@, tours1, dummies1, ids1, counter1),
{
    assert forall|d: VehicleIdx| #[trigger] dummies1.contains_key(d) implies d is Dummy && (d->Dummy_0 as int) < counter1 by {
        if d != s.next_dummy_id() { assert(s.dummy_tours@.contains_key(d)); }
    }
}

/// the precondition of the rotation-cycle update for one shrunk tour
pub proof fn lemma_upd_pre(s: &Schedule, v: VehicleIdx, nt: Tour, tours1: TourMap)
    requires
        s.rs_ok(), s.vehicles@.contains_key(v),
        tours1 == s.tours@.insert(v, nt),
        tour_ok(&s.network, &nt),
    ensures
        // for `vec![v]`, whatever sequence of one item its view is
        forall|cv: Seq<VehicleIdx>| cv.len() == 1 && cv[0] == v
            ==> #[trigger] s.upd_pre(s.next_period_transitions@, s.maintenance_violation as int, cv, s.vehicles@, tours1),
        forall|cv: Seq<VehicleIdx>, vt: VehicleTypeIdx| cv.len() == 1 && cv[0] == v && vt != s.type_of(v)
            ==> !#[trigger] s.touches_type(s.vehicles@, cv, vt),
{
    lemma_provider(s, v);
    assert(s.vehicle_ok(v));
    lemma_upd_pre_0(s, v, nt, tours1);
    assert forall|cv: Seq<VehicleIdx>| cv.len() == 1 && cv[0] == v
        implies #[trigger] s.upd_pre(s.next_period_transitions@, s.maintenance_violation as int, cv, s.vehicles@, tours1) by {
        assert(cv =~= seq![v]);
    }
    assert forall|cv: Seq<VehicleIdx>, vt: VehicleTypeIdx| cv.len() == 1 && cv[0] == v && vt != s.type_of(v)
        implies !#[trigger] s.touches_type(s.vehicles@, cv, vt) by {
        if s.touches_type(s.vehicles@, cv, vt) {
            let i = choose|i: int| 0 <= i < cv.len() && (#[trigger] cv[i]) is Vehicle && s.eff_type(s.vehicles@, cv[i]) == vt;
            assert(cv[i] == v);
        }
    }
}
pub proof fn lemma_upd_pre_0(s: &Schedule, v: VehicleIdx, nt: Tour, tours1: TourMap)
    requires
        s.transitions_ok(), s.ids_ok(), s.vehicles@.contains_key(v),
        s.next_period_transitions@.contains_key(s.type_of(v)),
        tours1 == s.tours@.insert(v, nt),
        tour_ok(&s.network, &nt),
    ensures
        s.upd_pre(s.next_period_transitions@, s.maintenance_violation as int, seq![v], s.vehicles@, tours1),
{
    let trs = s.next_period_transitions@;
    let cv = seq![v];
    assert(cv.len() == 1 && cv[0] == v);
    assert(s.eff_type(s.vehicles@, v) == s.type_of(v));
    assert(s.change_ok(trs, s.vehicles@, tours1, v));
    assert forall|i: int| 0 <= i < cv.len() && (#[trigger] cv[i]) is Vehicle implies s.change_ok(trs, s.vehicles@, tours1, cv[i]) by {
        assert(cv[i] == v);
    }
    assert forall|u: VehicleIdx| !real_in(cv, u) && #[trigger] s.vehicles@.contains_key(u) implies tours1.contains_key(u) && tours1[u] == s.tours@[u] by {
        assert(s.tours@.contains_key(u));
        if u == v { assert(cv[0] == v); assert(cv.contains(v)); }
    }
}
/// what the rotation-cycle update guarantees (its contract, slices/sched_guard.vs), for the single changed vehicle v
pub proof fn lemma_transitions_follow(s: &Schedule, v: VehicleIdx, trs1: Map<VehicleTypeIdx, Transition>, mv1: MaintenanceCounter, tours1: TourMap)
    requires
        forall|vt: VehicleTypeIdx| s.next_period_transitions@.contains_key(vt) <==> #[trigger] trs1.contains_key(vt),
        forall|vt: VehicleTypeIdx| #[trigger] trs1.contains_key(vt) ==> trs1[vt].wf(&s.network, tours1),
        forall|vt: VehicleTypeIdx, u: VehicleIdx| #![trigger trs1[vt].has_vehicle(u)] trs1.contains_key(vt)
            ==> (trs1[vt].has_vehicle(u) <==> (s.vehicles@.contains_key(u) && vtype(s.vehicles@[u]) == vt)),
        mv1 == viol_sum(trs1, sched_types(s)),
        forall|vt: VehicleTypeIdx| #[trigger] trs1.contains_key(vt) && vt != s.type_of(v) ==> trs1[vt] == s.next_period_transitions@[vt],
    ensures
        s.transitions_follow(v, trs1, mv1, s.vehicles@, tours1),
{
}

impl Schedule {
    /// D11: an id for a new dummy tour is available, or none is needed (no service trip among the removed nodes)
    pub open spec fn id_left(&self, segment: Segment, v: VehicleIdx) -> bool {
        !has_service(&self.network, self.removed_nodes(segment, v)) || self.vehicle_counter <= 0xffff
    }
}

// =====================================================================================================
// Schedule::replace_vehicle_by_dummy: the vocabulary of its contract (slices/dummy_ops.vs), copied from
// env/dummy_ops_shim.vs / env/spawn_vehicle_shim.vs, text unchanged (see the header of this file)
// =====================================================================================================
/// `new` is `old` with one occurrence of `id` taken out (the others keep their order)
pub open spec fn ids_lose(old: Seq<VehicleIdx>, new: Seq<VehicleIdx>, id: VehicleIdx) -> bool {
    exists|p: int| 0 <= p < old.len() && old[p] == id && new == #[trigger] old.remove(p)
}
impl Schedule {
    /// the sorted id list of a vehicle type
    pub open spec fn listing(&self, vt: VehicleTypeIdx) -> Seq<VehicleIdx> { self.vehicle_ids_grouped_and_sorted@[vt]@ }
    /// C10 ("vehicle … listings are sorted and match the stored tours") as far as the body needs it for the vehicle that goes:
    /// its type has an id list (`vehicle_ids_grouped_and_sorted[&vehicle_type_id]`), the list is sorted and holds the id
    /// (`binary_search(&vehicle_idx).unwrap()`)
    pub open spec fn listed_ok(&self, v: VehicleIdx) -> bool {
        let ty = self.type_of(v);
        &&& self.vehicle_ids_grouped_and_sorted@.contains_key(ty)
        &&& sorted_cmp(self.listing(ty))
        &&& self.listing(ty).contains(v)
    }
    /// the vehicle serves a service trip: its trips have to be handed back in a new dummy tour
    pub open spec fn needs_dummy(&self, v: VehicleIdx) -> bool { has_service(&self.network, self.tours@[v].nodes@) }
    /// D11: an id for the new dummy tour is available, or none is needed
    pub open spec fn rd_id_left(&self, v: VehicleIdx) -> bool { !self.needs_dummy(v) || self.vehicle_counter <= 0xffff }

    // ---- C13: the documented effect, clause by clause (each clause is stated over the components of the new schedule
    // -- `*_c`, opaque in the body of the function, established by a small lemma -- and read off the result by a wrapper) ----
    /// "a vehicle left without activities disappears": no vehicle, no tour under the id; exactly one occurrence of the id
    /// leaves the sorted id list of the vehicle's type, which stays sorted (and, if it was duplicate-free, does not hold
    /// the id any more)
    pub open spec fn vehicle_gone_c(&self, v: VehicleIdx, vehicles1: VehicleMap, tours1: TourMap, grouped1: Map<VehicleTypeIdx, Vec<VehicleIdx>>) -> bool {
        let ty = self.type_of(v);
        &&& !vehicles1.contains_key(v) && !tours1.contains_key(v)
        &&& grouped1.contains_key(ty)
        &&& ids_lose(self.listing(ty), grouped1[ty]@, v)
        &&& sorted_cmp(grouped1[ty]@)
        &&& self.listing(ty).no_duplicates() ==> grouped1[ty]@.no_duplicates() && !grouped1[ty]@.contains(v)
    }
    pub open spec fn vehicle_gone(&self, v: VehicleIdx, s1: &Schedule) -> bool {
        self.vehicle_gone_c(v, s1.vehicles@, s1.tours@, s1.vehicle_ids_grouped_and_sorted@)
    }
    /// "displaced or removed service trips are handed back (… in a new dummy tour)": ONE new dummy tour under the next id
    /// (an id not in use) holds exactly the service trips of the vehicle's tour, in order; the sorted list of dummy ids gains
    /// exactly this id and stays sorted; the counter advances by one
    pub open spec fn trips_in_new_dummy_c(&self, v: VehicleIdx, d1: TourMap, ids1: Seq<VehicleIdx>, counter1: usize) -> bool {
        let id = self.next_dummy_id();
        &&& !self.dummy_tours@.contains_key(id)
        &&& d1.contains_key(id)
        &&& d1 == self.dummy_tours@.insert(id, d1[id])
        &&& d1[id].nodes@ == svc_filter(&self.network, self.tours@[v].nodes@) && d1[id].is_dummy && d1[id].network == self.network
        &&& d1[id].caches_ok()
        &&& ids_gain(self.dummy_ids_sorted@, ids1, id) && sorted_cmp(ids1)
        &&& counter1 == self.vehicle_counter + 1
    }
    pub open spec fn trips_in_new_dummy(&self, v: VehicleIdx, s1: &Schedule) -> bool {
        self.trips_in_new_dummy_c(v, s1.dummy_tours@, s1.dummy_ids_sorted@, s1.vehicle_counter)
    }
    /// "(none if it served no service trip)": dummy tours, their listing and the counter are unchanged
    pub open spec fn no_new_dummy(&self, s1: &Schedule) -> bool {
        s1.dummy_tours@ == self.dummy_tours@ && s1.dummy_ids_sorted@ == self.dummy_ids_sorted@ && s1.vehicle_counter == self.vehicle_counter
    }
    /// "all other vehicles' tours … stay untouched": every other vehicle, every other tour, the id lists of the other
    /// types, every dummy tour that was there, the network
    pub open spec fn others_untouched_c(&self, v: VehicleIdx, vehicles1: VehicleMap, tours1: TourMap, grouped1: Map<VehicleTypeIdx, Vec<VehicleIdx>>, d1: TourMap) -> bool {
        let ty = self.type_of(v);
        &&& vehicles1 == self.vehicles@.remove(v)
        &&& tours1 == self.tours@.remove(v)
        &&& grouped1 == self.vehicle_ids_grouped_and_sorted@.insert(ty, grouped1[ty])
        &&& forall|d: VehicleIdx| #[trigger] self.dummy_tours@.contains_key(d) ==> d1.contains_key(d) && d1[d] == self.dummy_tours@[d]
        &&& forall|d: VehicleIdx| #[trigger] d1.contains_key(d) && d != self.next_dummy_id() ==> self.dummy_tours@.contains_key(d)
    }
    pub open spec fn others_untouched(&self, v: VehicleIdx, s1: &Schedule) -> bool {
        self.others_untouched_c(v, s1.vehicles@, s1.tours@, s1.vehicle_ids_grouped_and_sorted@, s1.dummy_tours@) && s1.network == self.network
    }
    /// "formations elsewhere … stay untouched": the formation table is what update_train_formation(Some(v), None, nodes
    /// of v's tour) makes of it (its postcondition, slices/train_formation_update.vs); spelled out: the vehicle leaves the
    /// formation of every activity of its tour (the others keep their order) and no other formation changes
    pub open spec fn rd_formations_follow_c(&self, v: VehicleIdx, tf1: Formations) -> bool {
        let nodes = self.tours@[v].nodes@;
        let tf0 = self.train_formations@;
        let rv: Option<Vehicle> = None;
        &&& self.formations_elsewhere_untouched(nodes, tf0, tf1)
        &&& self.moved_get_replacement(nodes, tf0, tf1, Some(v), rv)
        &&& forall|n: NodeIdx| moved_nd(&self.network, nodes, n)
                ==> (#[trigger] tf1[n]).formation@ == tf0[n].formation@.remove(first_pos(tf0[n].formation@, v))
    }
    pub open spec fn rd_formations_follow(&self, v: VehicleIdx, s1: &Schedule) -> bool { self.rd_formations_follow_c(v, s1.train_formations@) }
    /// C09: the unserved-passenger pair changes by exactly - Σ unserved(old formation) + Σ unserved(new formation)
    /// over the nodes of the tour
    pub open spec fn rd_unserved_follow_c(&self, v: VehicleIdx, u1: (PassengerCount, PassengerCount)) -> bool {
        let nodes = self.tours@[v].nodes@;
        let tf0 = self.train_formations@;
        let n = nodes.len() as int;
        let rv: Option<Vehicle> = None;
        &&& u1.0 == self.unserved_passengers.0 - self.un_sum(tf0, Some(v), rv, nodes, n, false, 0) + self.un_sum(tf0, Some(v), rv, nodes, n, true, 0)
        &&& u1.1 == self.unserved_passengers.1 - self.un_sum(tf0, Some(v), rv, nodes, n, false, 1) + self.un_sum(tf0, Some(v), rv, nodes, n, true, 1)
    }
    pub open spec fn rd_unserved_follow(&self, v: VehicleIdx, s1: &Schedule) -> bool { self.rd_unserved_follow_c(v, s1.unserved_passengers) }
    /// C15 / C10 / C09: the rotation cycles follow the new vehicles / tours (the postcondition of
    /// update_transitions_and_violation_fast, slices/sched_guard.vs); the other vehicle types are untouched
    pub open spec fn rd_transitions_follow_c(&self, v: VehicleIdx, trs1: Map<VehicleTypeIdx, Transition>, mv1: MaintenanceCounter, vehicles1: VehicleMap, tours1: TourMap) -> bool {
        &&& forall|vt: VehicleTypeIdx| self.next_period_transitions@.contains_key(vt) <==> #[trigger] trs1.contains_key(vt)
        &&& forall|vt: VehicleTypeIdx| #[trigger] trs1.contains_key(vt) ==> trs1[vt].wf(&self.network, tours1)
        &&& forall|vt: VehicleTypeIdx, u: VehicleIdx| #![trigger trs1[vt].has_vehicle(u)] trs1.contains_key(vt)
                ==> (trs1[vt].has_vehicle(u) <==> (vehicles1.contains_key(u) && vtype(vehicles1[u]) == vt))
        &&& mv1 as int == viol_sum(trs1, sched_types(self))
        &&& forall|vt: VehicleTypeIdx| #[trigger] trs1.contains_key(vt) && vt != self.type_of(v) ==> trs1[vt] == self.next_period_transitions@[vt]
    }
    pub open spec fn rd_transitions_follow(&self, v: VehicleIdx, s1: &Schedule) -> bool {
        self.rd_transitions_follow_c(v, s1.next_period_transitions@, s1.maintenance_violation, s1.vehicles@, s1.tours@)
    }
}

// =====================================================================================================
// the whole-tour case of remove_segment: the preconditions of replace_vehicle_by_dummy at the call
// (NOT copied: lemmas of this slice)
// =====================================================================================================
/// the node sequence `w` is the node sequence `m` with `lo` depot nodes in front of it and depot nodes behind it (the removed
/// block of a tour that loses all its activities, within the whole tour)
pub open spec fn depots_around(net: &Network, m: Seq<NodeIdx>, w: Seq<NodeIdx>, lo: int) -> bool {
    &&& 0 <= lo && lo + m.len() <= w.len()
    &&& forall|i: int| 0 <= i < m.len() ==> #[trigger] m[i] == w[lo + i]
    &&& forall|j: int| 0 <= j < w.len() && !(lo <= j < lo + m.len()) ==> net.has(#[trigger] w[j]) && net.sp_node(w[j]).sp_is_depot()
}
/// how many of the first k nodes of `w` are nodes of `m` (see depots_around)
pub open spec fn clip(x: int, len: int) -> int { if x < 0 { 0 } else if x > len { len } else { x } }

/// depots have no passengers: the unserved-passenger sums over `w` are those over `m`
pub proof fn lemma_un_sum_around(s: &Schedule, tf0: Formations, p: Option<VehicleIdx>, r: Option<Vehicle>, m: Seq<NodeIdx>, w: Seq<NodeIdx>, lo: int, k: int, after: bool, c: int)
    requires depots_around(&s.network, m, w, lo), 0 <= k <= w.len(),
    ensures s.un_sum(tf0, p, r, w, k, after, c) == s.un_sum(tf0, p, r, m, clip(k - lo, m.len() as int), after, c),
    decreases k,
{
    if k > 0 {
        lemma_un_sum_around(s, tf0, p, r, m, w, lo, k - 1, after, c);
        let j = k - 1;
        if lo <= j < lo + m.len() {
            assert(m[j - lo] == w[lo + (j - lo)]);
            assert(clip(k - lo, m.len() as int) == (j - lo) + 1);
            assert(clip(j - lo, m.len() as int) == j - lo);
        } else {
            assert(s.network.sp_node(w[j]).sp_is_depot());
            assert(unserved_at(&s.network, w[j], s.form(tf0, p, r, w[j], after), c) == 0);
            assert(clip(k - lo, m.len() as int) == clip(j - lo, m.len() as int));
        }
    }
}
/// depots are skipped by the formation bookkeeping: if it gets through the first k nodes of `w`, it gets through the
/// nodes of `m` among them
pub proof fn lemma_all_ok_around(s: &Schedule, tf0: Formations, p: Option<VehicleIdx>, r: Option<Vehicle>, m: Seq<NodeIdx>, w: Seq<NodeIdx>, lo: int, k: int)
    requires depots_around(&s.network, m, w, lo), 0 <= k <= w.len(), s.all_ok(tf0, p, r, w, k),
    ensures s.all_ok(tf0, p, r, m, clip(k - lo, m.len() as int)),
{
    assert forall|j: int| 0 <= j < clip(k - lo, m.len() as int) && !s.network.sp_node(#[trigger] m[j]).sp_is_depot()
        implies s.repl_ok(tf0[m[j]].formation@, p, r, m[j]) by {
        assert(m[j] == w[lo + j]);
        assert(!s.network.sp_node(w[lo + j]).sp_is_depot());
    }
}
/// a service trip among the nodes of `w` is one of `m`
pub proof fn lemma_has_service_around(net: &Network, m: Seq<NodeIdx>, w: Seq<NodeIdx>, lo: int)
    requires depots_around(net, m, w, lo),
    ensures has_service(net, w) == has_service(net, m),
{
    if has_service(net, m) {
        let i = choose|i: int| 0 <= i < m.len() && #[trigger] net.sp_node(m[i]) is Service;
        assert(m[i] == w[lo + i]);
        assert(net.sp_node(w[lo + i]) is Service);
    }
    if has_service(net, w) {
        let j = choose|j: int| 0 <= j < w.len() && #[trigger] net.sp_node(w[j]) is Service;
        if lo <= j < lo + m.len() {
            assert(m[j - lo] == w[lo + (j - lo)]);
            assert(net.sp_node(m[j - lo]) is Service);
        } else {
            assert(net.sp_node(w[j]).sp_is_depot());
        }
    }
}
/// the activities among the nodes of `w` are those among the nodes of `m`
pub proof fn lemma_moved_around(net: &Network, m: Seq<NodeIdx>, w: Seq<NodeIdx>, lo: int)
    requires depots_around(net, m, w, lo),
    ensures forall|n: NodeIdx| #![trigger moved_activity(net, m, n)] #![trigger moved_nd(net, w, n)] moved_activity(net, m, n) <==> moved_nd(net, w, n),
{
    assert forall|n: NodeIdx| #![trigger moved_activity(net, m, n)] #![trigger moved_nd(net, w, n)] moved_activity(net, m, n) <==> moved_nd(net, w, n) by {
        if moved_activity(net, m, n) {
            let i = choose|i: int| 0 <= i < m.len() && m[i] == n;
            assert(m[i] == w[lo + i]);
            assert(w.contains(n));
        }
        if moved_nd(net, w, n) {
            let j = choose|j: int| 0 <= j < w.len() && w[j] == n;
            if lo <= j < lo + m.len() {
                assert(m[j - lo] == w[lo + (j - lo)]);
                assert(m.contains(n));
            } else {
                assert(net.sp_node(w[j]).sp_is_depot());
            }
        }
    }
}
/// the service trips of `w`, in order, are those of `m`
pub proof fn lemma_svc_filter_around(net: &Network, m: Seq<NodeIdx>, w: Seq<NodeIdx>, lo: int)
    requires depots_around(net, m, w, lo),
    ensures svc_filter(net, w) == svc_filter(net, m),
    decreases w.len(),
{
    if w.len() == 0 {
        assert(m =~= w);
    } else {
        let j = w.len() - 1;
        let w1 = w.drop_last();
        assert(svc_mask(net, w).drop_last() =~= svc_mask(net, w1));
        if m.len() == 0 || j >= lo + m.len() {
            // the last node of `w` is a depot
            let lo1 = if m.len() == 0 { 0 } else { lo };
            assert(net.sp_node(w[j]).sp_is_depot());
            assert(depots_around(net, m, w1, lo1)) by {
                assert forall|i: int| 0 <= i < m.len() implies #[trigger] m[i] == w1[lo1 + i] by { assert(m[i] == w[lo + i]); }
                assert forall|k: int| 0 <= k < w1.len() && !(lo1 <= k < lo1 + m.len()) implies net.has(#[trigger] w1[k]) && net.sp_node(w1[k]).sp_is_depot() by {
                    assert(w1[k] == w[k]);
                }
            }
            lemma_svc_filter_around(net, m, w1, lo1);
            assert(!svc_mask(net, w).last());
        } else {
            // the last node of `w` is the last node of `m`
            let m1 = m.drop_last();
            assert(j == lo + m.len() - 1);
            assert(m[m.len() - 1] == w[lo + (m.len() - 1)]);
            assert(svc_mask(net, m).drop_last() =~= svc_mask(net, m1));
            assert(depots_around(net, m1, w1, lo)) by {
                assert forall|i: int| 0 <= i < m1.len() implies #[trigger] m1[i] == w1[lo + i] by { assert(m[i] == w[lo + i]); }
                assert forall|k: int| 0 <= k < w1.len() && !(lo <= k < lo + m1.len()) implies net.has(#[trigger] w1[k]) && net.sp_node(w1[k]).sp_is_depot() by {
                    assert(w1[k] == w[k]);
                }
            }
            lemma_svc_filter_around(net, m1, w1, lo);
            assert(svc_mask(net, w).last() == svc_mask(net, m).last());
            assert(w.last() == m.last());
        }
    }
}
/// C09 / magnitudes: the precondition of the formation bookkeeping carries over from the nodes `m` to the nodes `w` = `m`
/// with depots around it (depots have no formation and no passengers)
pub proof fn lemma_tfu_pre_around(s: &Schedule, tf0: Formations, u0: (PassengerCount, PassengerCount), p: Option<VehicleIdx>, r: Option<Vehicle>, m: Seq<NodeIdx>, w: Seq<NodeIdx>, lo: int)
    requires
        depots_around(&s.network, m, w, lo), m.len() >= 1, w.no_duplicates(),
        s.tfu_pre(tf0, u0, p, r, m),
    ensures
        s.tfu_pre(tf0, u0, p, r, w),
{
    let ml = m.len() as int;
    assert forall|i: int| 0 <= i < w.len() && s.all_ok(tf0, p, r, w, i) implies s.node_pre(tf0, p, r, #[trigger] w[i]) by {
        if lo <= i < lo + ml {
            lemma_all_ok_around(s, tf0, p, r, m, w, lo, i);
            assert(clip(i - lo, ml) == i - lo);
            assert(m[i - lo] == w[lo + (i - lo)]);
            assert(s.node_pre(tf0, p, r, m[i - lo]));
        } else {
            assert(s.network.has(w[i]) && s.network.sp_node(w[i]).sp_is_depot());
        }
    }
    lemma_arith_around(s, tf0, u0.0 as int, p, r, m, w, lo, 0);
    lemma_arith_around(s, tf0, u0.1 as int, p, r, m, w, lo, 1);
}
pub proof fn lemma_arith_around(s: &Schedule, tf0: Formations, u0: int, p: Option<VehicleIdx>, r: Option<Vehicle>, m: Seq<NodeIdx>, w: Seq<NodeIdx>, lo: int, c: int)
    requires
        depots_around(&s.network, m, w, lo), m.len() >= 1, 0 <= u0 <= u32::MAX,
        forall|k: int| 0 <= k < m.len() ==> #[trigger] s.arith_ok_at(tf0, p, r, m, u0, k, c),
    ensures
        forall|k: int| 0 <= k < w.len() ==> #[trigger] s.arith_ok_at(tf0, p, r, w, u0, k, c),
{
    let ml = m.len() as int;
    assert forall|k: int| 0 <= k < w.len() implies #[trigger] s.arith_ok_at(tf0, p, r, w, u0, k, c) by {
        let a = clip(k - lo, ml);
        let b = clip(k + 1 - lo, ml);
        lemma_un_sum_around(s, tf0, p, r, m, w, lo, k + 1, false, c);
        lemma_un_sum_around(s, tf0, p, r, m, w, lo, k, true, c);
        lemma_un_sum_around(s, tf0, p, r, m, w, lo, k + 1, true, c);
        if s.all_ok(tf0, p, r, w, k) { lemma_all_ok_around(s, tf0, p, r, m, w, lo, k); }
        if s.all_ok(tf0, p, r, w, k + 1) { lemma_all_ok_around(s, tf0, p, r, m, w, lo, k + 1); }
        if k < lo {
            // only depots so far: nothing subtracted, nothing added
            assert(a == 0 && b == 0);
            assert(s.un_sum(tf0, p, r, m, 0, false, c) == 0 && s.un_sum(tf0, p, r, m, 0, true, c) == 0);
        } else if k < lo + ml {
            assert(a == k - lo && b == a + 1);
            assert(s.arith_ok_at(tf0, p, r, m, u0, a, c));
        } else {
            // only depots are left: the state after the last node of `m`
            assert(a == ml && b == ml);
            assert(s.arith_ok_at(tf0, p, r, m, u0, ml - 1, c));
            lemma_un_sum_mono(s, tf0, p, r, m, ml - 1, ml, true, c);
            if s.all_ok(tf0, p, r, m, ml) { lemma_all_ok_prefix(s, tf0, p, r, m, ml - 1, ml); }
        }
    }
}

/// the effect of replace_vehicle_by_dummy on the formations, stated over the nodes of the whole tour (slices/dummy_ops.vs), is
/// the one remove_segment documents over the removed nodes `m` (the tour is `m` with depots around it)
pub proof fn lemma_rd_formations_around(s: &Schedule, v: VehicleIdx, m: Seq<NodeIdx>, lo: int)
    requires depots_around(&s.network, m, s.tours@[v].nodes@, lo),
    ensures forall|tf1: Formations| #[trigger] s.rd_formations_follow_c(v, tf1) ==> s.formations_follow(m, v, tf1),
{
    let w = s.tours@[v].nodes@;
    let tf0 = s.train_formations@;
    lemma_moved_around(&s.network, m, w, lo);
    assert forall|tf1: Formations| #[trigger] s.rd_formations_follow_c(v, tf1) implies s.formations_follow(m, v, tf1) by {
        assert forall|n: NodeIdx| #[trigger] tf1.contains_key(n) <==> tf0.contains_key(n) by {
            assert(tf1.dom().contains(n) <==> tf0.dom().contains(n));
        }
        assert forall|n: NodeIdx| !moved_activity(&s.network, m, n) implies #[trigger] tf1[n] == tf0[n] by {
            assert(!moved_nd(&s.network, w, n));
        }
        assert forall|n: NodeIdx| moved_activity(&s.network, m, n)
            implies (#[trigger] tf1[n]).formation@ == tf0[n].formation@.remove(first_pos(tf0[n].formation@, v)) by {
            assert(moved_nd(&s.network, w, n));
        }
    }
}
/// ... on the unserved passengers
pub proof fn lemma_rd_unserved_around(s: &Schedule, v: VehicleIdx, m: Seq<NodeIdx>, lo: int)
    requires depots_around(&s.network, m, s.tours@[v].nodes@, lo),
    ensures forall|u1: (PassengerCount, PassengerCount)| #[trigger] s.rd_unserved_follow_c(v, u1) ==> s.unserved_follow(m, v, u1),
{
    let w = s.tours@[v].nodes@;
    let tf0 = s.train_formations@;
    let rv: Option<Vehicle> = None;
    assert(clip(w.len() - lo, m.len() as int) == m.len());
    lemma_un_sum_around(s, tf0, Some(v), rv, m, w, lo, w.len() as int, false, 0);
    lemma_un_sum_around(s, tf0, Some(v), rv, m, w, lo, w.len() as int, true, 0);
    lemma_un_sum_around(s, tf0, Some(v), rv, m, w, lo, w.len() as int, false, 1);
    lemma_un_sum_around(s, tf0, Some(v), rv, m, w, lo, w.len() as int, true, 1);
}
/// ... on the dummy tours
pub proof fn lemma_rd_trips_around(s: &Schedule, v: VehicleIdx, m: Seq<NodeIdx>, lo: int)
    requires depots_around(&s.network, m, s.tours@[v].nodes@, lo),
    ensures forall|d1: TourMap, ids1: Seq<VehicleIdx>, c1: usize| #[trigger] s.trips_in_new_dummy_c(v, d1, ids1, c1) ==> s.trips_handed_back(m, d1, ids1),
{
    lemma_svc_filter_around(&s.network, m, s.tours@[v].nodes@, lo);
}
/// a real tour that gives up the block [lo ..= hi] and keeps at most two nodes: the tour is the block with at most its two
/// depots around it (no depot is stranded: only the depots at the ends can be kept)
pub proof fn lemma_whole_tour_geom(t: &Tour, lo: int, hi: int)
    requires
        t.wf(), !t.is_dummy, tour_len_ok(t.nodes@), 0 <= lo <= hi < t.len(),
        t.removable(lo, hi), t.rest(lo, hi + 1).len() <= 2,
    ensures
        depots_around(&t.network, t.mid(lo, hi + 1), t.nodes@, lo),
        t.mid(lo, hi + 1).len() >= 1,
        t.nodes@.no_duplicates(),
{
    let n = t.len();
    let m = t.mid(lo, hi + 1);
    let w = t.nodes@;
    lemma_removed_block(t, lo, hi);
    assert(t.rest(lo, hi + 1).len() == lo + (n - (hi + 1))) by { reveal(Tour::rest); }
    assert(lo <= 1 && hi >= n - 2);
    assert forall|j: int| 0 <= j < w.len() && !(lo <= j < lo + m.len()) implies t.network.has(#[trigger] w[j]) && t.network.sp_node(w[j]).sp_is_depot() by {
        lemma_tour_kinds(t, j);
        assert(j == 0 || j == n - 1);
    }
    assert forall|i: int, j: int| 0 <= i < w.len() && 0 <= j < w.len() && i != j implies w[i] != w[j] by {
        if w[i] == w[j] { lemma_tour_distinct(t, i, j); }
    }
}
/// the whole-tour case: the tour is the removed block with at most its two depots around it
pub proof fn lemma_whole_tour_around(s: &Schedule, segment: Segment, v: VehicleIdx)
    requires s.rs_ok(), s.removes(segment, v), s.whole_tour(segment, v),
    ensures
        depots_around(&s.network, s.removed_nodes(segment, v), s.tours@[v].nodes@, s.seg_lo(segment, v)),
        s.removed_nodes(segment, v).len() >= 1,
        s.tours@[v].nodes@.no_duplicates(),
{
    hide(Schedule::rs_ok);
    hide(depots_around);
    hide(usage_exact_for);
    hide(ids_valid);
    hide(sorted_cmp);
    hide(tour_wf);
    hide(Schedule::real_tour_ok);
    lemma_provider(s, v);
    let t = s.tours@[v];
    let lo = s.seg_lo(segment, v);
    let hi = s.seg_hi(segment, v);
    assert(0 <= lo <= hi < t.len());
    lemma_whole_tour_geom(&t, lo, hi);
    assert(*t.network == *s.network);
}

/// the whole-tour case ("If the segment contains all non-depot nodes of the tour, the vehicle is replaced by a dummy"): what
/// the call of replace_vehicle_by_dummy needs beyond rs_ok and listed_ok, and how its vocabulary (over the whole tour)
/// relates to the one of remove_segment (over the removed nodes)
pub proof fn lemma_whole_tour_case(s: &Schedule, segment: Segment, v: VehicleIdx)
    requires
        s.rs_ok(), s.removes(segment, v), s.whole_tour(segment, v),
        s.tfu_pre(s.train_formations@, s.unserved_passengers, Some(v), None::<Vehicle>, s.removed_nodes(segment, v)),
    ensures
        // the precondition of the formation bookkeeping for the nodes of the whole tour
        s.tfu_pre(s.train_formations@, s.unserved_passengers, Some(v), None::<Vehicle>, s.tours@[v].nodes@),
        // the tour holds a service trip iff the removed block does: an id is needed in the same cases
        s.needs_dummy(v) == has_service(&s.network, s.removed_nodes(segment, v)),
        s.rd_id_left(v) == s.id_left(segment, v),
        // the effect of replace_vehicle_by_dummy on the formations, the unserved passengers and the dummy tours, stated over the
        // nodes of the whole tour (slices/dummy_ops.vs), is the one remove_segment documents over the removed nodes
        forall|tf1: Formations| #[trigger] s.rd_formations_follow_c(v, tf1) ==> s.formations_follow(s.removed_nodes(segment, v), v, tf1),
        forall|u1: (PassengerCount, PassengerCount)| #[trigger] s.rd_unserved_follow_c(v, u1) ==> s.unserved_follow(s.removed_nodes(segment, v), v, u1),
        forall|d1: TourMap, ids1: Seq<VehicleIdx>, c1: usize| #[trigger] s.trips_in_new_dummy_c(v, d1, ids1, c1) ==> s.trips_handed_back(s.removed_nodes(segment, v), d1, ids1),
{
    hide(Schedule::rs_ok);
    hide(Schedule::tfu_pre);
    hide(Schedule::removes);
    hide(depots_around);
    hide(Schedule::rd_formations_follow_c);
    hide(Schedule::rd_unserved_follow_c);
    hide(Schedule::trips_in_new_dummy_c);
    hide(Schedule::formations_follow);
    hide(Schedule::unserved_follow);
    hide(Schedule::trips_handed_back);
    let m = s.removed_nodes(segment, v);
    let w = s.tours@[v].nodes@;
    let lo = s.seg_lo(segment, v);
    lemma_whole_tour_around(s, segment, v);
    lemma_tfu_pre_around(s, s.train_formations@, s.unserved_passengers, Some(v), None::<Vehicle>, m, w, lo);
    lemma_has_service_around(&s.network, m, w, lo);
    lemma_rd_formations_around(s, v, m, lo);
    lemma_rd_unserved_around(s, v, m, lo);
    lemma_rd_trips_around(s, v, m, lo);
}

// =====================================================================================================
// CLOSURE (C10 / C09 / C11 induction step): the result of remove_segment satisfies the schedule-invariant
// bundle `rs_ok` again.  NOT copied: vocabulary and lemmas of this slice.  Everything is proved from the EFFECT
// clauses of the contract of remove_segment (bundled in `rs_effect`, text of the tagged postconditions), so the lemmas
// below read "contract of remove_segment |- closure".  No assumption is introduced (open spec functions, proved lemmas).
// =====================================================================================================
impl Schedule {
    // ---- the conjuncts of sched_ok (env/schedule_shim.vs), grouped; text unchanged: lemma_sched_ok_split shows that
    // sched_ok is exactly their conjunction ----
    /// the network is well-formed, its depot table matches its depot nodes (the network is never modified)
    pub open spec fn so_network(&self) -> bool { self.network.wf() && depots_ok(&self.network) }
    /// "the vehicle listing is duplicate-free and matches the stored tours" (+ magnitude: at most 2^17 vehicles)
    pub open spec fn so_listing(&self) -> bool {
        let vs = sched_vehicles(self);
        &&& vs.no_duplicates()
        &&& vs.len() <= max_vehicles()
        &&& forall|v: VehicleIdx| #[trigger] vs.contains(v) <==> self.tours@.contains_key(v)
    }
    /// every stored tour is the valid tour of a real vehicle whose type has a rotation-cycle structure that holds it
    pub open spec fn so_vehicles(&self) -> bool { forall|v: VehicleIdx| #[trigger] self.tours@.contains_key(v) ==> self.vehicle_ok(v) }
    /// C09: the schedule's costs cover the costs of its tours
    pub open spec fn so_costs_cover(&self) -> bool { tours_costs(self.tours@, sched_vehicles(self)) <= self.costs }
    /// magnitude: costs <= 2^61
    pub open spec fn so_costs_small(&self) -> bool { self.costs <= sched_cost_bound() }

    /// THE EFFECT CLAUSES of the contract of remove_segment for a result s1 (the text of the tagged postconditions of
    /// slices/remove_segment.vs for `r == Ok(s1)`) that the closure proof builds on
    pub open spec fn rs_effect(&self, segment: Segment, v: VehicleIdx, s1: &Schedule) -> bool {
        let removed = self.removed_nodes(segment, v);
        &&& self.removes(segment, v)
        &&& s1.network == self.network
        &&& self.whole_tour(segment, v) ==> {
                &&& self.vehicle_gone(v, s1)
                &&& self.others_untouched(v, s1)
                &&& s1.costs == self.costs - self.tours@[v].costs
            }
        &&& !self.whole_tour(segment, v) ==> {
                &&& s1.vehicles@ == self.vehicles@ && s1.vehicle_ids_grouped_and_sorted@ == self.vehicle_ids_grouped_and_sorted@
                &&& self.provider_shrunk(segment, v, s1.tours@)
                &&& self.other_tours_untouched(v, s1.tours@)
                &&& s1.costs == self.costs + s1.tours@[v].costs - self.tours@[v].costs
            }
        &&& self.formations_follow(removed, v, s1.train_formations@)
        &&& s1.ids_ok()
        &&& usage_exact(s1.depot_usage@, &self.network, s1.vehicles@, s1.tours@)
        &&& self.transitions_follow(v, s1.next_period_transitions@, s1.maintenance_violation, s1.vehicles@, s1.tours@)
    }
    /// what rs_effect says about the two maps that carry the vehicles (both cases), for ONE id u (pointwise on purpose: a quantified
    /// version triggers on every `contains_key` term of a proof context): every other vehicle / tour is untouched; the provider is gone
    /// (whole-tour case) or keeps its vehicle entry and has a tour (partial case); no vehicle / tour is added; a vehicle keeps its type
    pub open spec fn maps_at(&self, segment: Segment, v: VehicleIdx, s1: &Schedule, u: VehicleIdx) -> bool {
        &&& self.vehicles@.contains_key(v) && self.tours@.contains_key(v)
        &&& u != v ==> (s1.tours@.contains_key(u) <==> self.tours@.contains_key(u)) && (s1.vehicles@.contains_key(u) <==> self.vehicles@.contains_key(u))
        &&& u == v ==> (s1.tours@.contains_key(u) <==> !self.whole_tour(segment, v)) && (s1.vehicles@.contains_key(u) <==> !self.whole_tour(segment, v))
        &&& u != v && self.tours@.contains_key(u) ==> s1.tours@[u] == self.tours@[u]
        &&& s1.vehicles@.contains_key(u) ==> self.vehicles@.contains_key(u) && s1.vehicles@[u] == self.vehicles@[u] && s1.type_of(u) == self.type_of(u)
        &&& s1.tours@.contains_key(u) <==> s1.vehicles@.contains_key(u)
        &&& self.tours@.contains_key(u) <==> self.vehicles@.contains_key(u)
    }
    /// the effect on the listing (PROVED: lemma_listing_follows_holds; it implies listing_exact(result): lemma_listing_follows): the
    /// listing of the result follows the grouped id lists -- unchanged in the partial case (vehicle_set_unchanged: network and grouped
    /// id lists are the same), one occurrence of the id taken out in the whole-tour case (vehicle_gone: exactly one occurrence leaves
    /// the list of the vehicle's type; others_untouched: the lists of the other types are the same)
    pub open spec fn listing_follows(&self, segment: Segment, v: VehicleIdx, s1: &Schedule) -> bool {
        if self.whole_tour(segment, v) { ids_lose(sched_vehicles(self), sched_vehicles(s1), v) }
        else { sched_vehicles(s1) == sched_vehicles(self) }
    }
    /// C10 listings, vehicle by vehicle (the whole-tour-case precondition `listed_ok` of the NEXT modification): every
    /// vehicle that stays and was listed (its type has an id list, sorted, holding the id) still is
    pub open spec fn listings_kept(&self, s1: &Schedule) -> bool {
        forall|u: VehicleIdx| self.vehicles@.contains_key(u) && self.listed_ok(u) && #[trigger] s1.vehicles@.contains_key(u) ==> s1.listed_ok(u)
    }
}
/// (formerly A-listing, the PREMISE of the listing / costs-cover clauses of the closure; now PROVED for the result:
/// lemma_listing_exact_holds) the two conjuncts of sched_ok that say what the listing IS -- duplicate-free, lists exactly the vehicles
/// that have a tour.  The vehicle listing `sched_vehicles` is DEFINED in env/schedule_shim.vs ("per vehicle type of the network, the
/// type's sorted id list", concatenated), so the listing of the RESULT follows from the effect clauses about the network and the
/// grouped id lists.  (Same text as rd_listing_exact of env/dummy_ops_shim.vs.)
pub open spec fn listing_exact(s: &Schedule) -> bool {
    let vs = sched_vehicles(s);
    &&& vs.no_duplicates()
    &&& forall|v: VehicleIdx| #[trigger] vs.contains(v) <==> s.tours@.contains_key(v)
}
/// sched_ok is the conjunction of its five groups (nothing dropped, nothing weakened)
pub proof fn lemma_sched_ok_split(s: &Schedule)
    ensures s.sched_ok() <==> (s.so_network() && s.so_listing() && s.so_vehicles() && s.so_costs_cover() && s.so_costs_small()),
{
}

/// [text of slices/admission.vs]
pub proof fn lemma_first_pos(s: Seq<Vehicle>, v: VehicleIdx)
    ensures
        0 <= first_pos(s, v) <= s.len(),
        forall|i: int| 0 <= i < first_pos(s, v) ==> (#[trigger] s[i]).idx != v,
        first_pos(s, v) < s.len() ==> s[first_pos(s, v)].idx == v,
        has_vehicle(s, v) <==> first_pos(s, v) < s.len(),
    decreases s.len(),
{
    if s.len() == 0 {
    } else if s[0].idx == v {
    } else {
        let t = s.drop_first();
        lemma_first_pos(t, v);
        assert forall|i: int| 0 <= i < first_pos(s, v) implies (#[trigger] s[i]).idx != v by {
            if i > 0 { assert(t[i - 1] == s[i]); }
        }
        if first_pos(s, v) < s.len() { assert(t[first_pos(t, v)] == s[first_pos(s, v)]); }
        if has_vehicle(s, v) {
            let i = choose|i: int| 0 <= i < s.len() && #[trigger] s[i].idx == v;
            assert(t[i - 1].idx == v);
        }
    }
}
/// "removals keep the order": when vehicle v leaves a formation, every other vehicle of the formation stays
pub proof fn lemma_has_vehicle_remove(f: Seq<Vehicle>, v: VehicleIdx, u: VehicleIdx)
    requires has_vehicle(f, v), has_vehicle(f, u), u != v,
    ensures has_vehicle(f.remove(first_pos(f, v)), u),
{
    lemma_first_pos(f, v);
    let p = first_pos(f, v);
    let d = f.remove(p);
    let i = choose|i: int| 0 <= i < f.len() && #[trigger] f[i].idx == u;
    if i < p { assert(d[i].idx == u); } else { assert(d[i - 1] == f[i]); assert(d[i - 1].idx == u); }
}

/// the range of a removable segment
pub proof fn lemma_seg_range(s: &Schedule, segment: Segment, v: VehicleIdx)
    requires s.removes(segment, v),
    ensures 0 <= s.seg_lo(segment, v) <= s.seg_hi(segment, v) < s.tours@[v].len(),
{
}
/// the kept nodes: how many, which
pub proof fn lemma_kept(t: &Tour, lo: int, hi: int)
    requires t.wf(), 0 <= lo <= hi < t.len(),
    ensures
        t.rest(lo, hi + 1).len() == lo + t.len() - (hi + 1),
        forall|i: int| 0 <= i < lo ==> #[trigger] t.rest(lo, hi + 1)[i] == t.nodes@[i],
        forall|i: int| lo <= i < lo + t.len() - (hi + 1) ==> #[trigger] t.rest(lo, hi + 1)[i] == t.nodes@[i + (hi + 1 - lo)],
        // a kept node is none of the removed ones (the nodes of a tour are pairwise distinct)
        forall|j: int| 0 <= j < t.len() && !(lo <= j <= hi) ==> !t.mid(lo, hi + 1).contains(#[trigger] t.nodes@[j]),
{
    reveal(Tour::mid); reveal(Tour::rest);
    let m = t.mid(lo, hi + 1);
    assert forall|j: int| 0 <= j < t.len() && !(lo <= j <= hi) implies !m.contains(#[trigger] t.nodes@[j]) by {
        if m.contains(t.nodes@[j]) {
            let k = choose|k: int| 0 <= k < m.len() && m[k] == t.nodes@[j];
            assert(m[k] == t.nodes@[lo + k]);
            lemma_tour_distinct(t, j, lo + k);
        }
    }
}
// ---- the bundles, conjunct by conjunct: the ONLY places where rs_ok / sched_ok / rs_effect are unfolded; every closure lemma below
// hides them and works on the conjuncts it needs (robustness: small contexts, no big open conjunctions) ----
/// rs_ok, conjunct by conjunct
pub proof fn lemma_rs_parts(s: &Schedule)
    requires s.rs_ok(),
    ensures s.sched_ok(), s.ids_ok(), s.formations_ok(), s.transitions_ok(), usage_exact(s.depot_usage@, &s.network, s.vehicles@, s.tours@),
{
    hide(Schedule::sched_ok);
    hide(Schedule::formations_ok);
    hide(Schedule::transitions_ok);
    hide(ids_valid);
    hide(usage_exact);
}
/// sched_ok, group by group
pub proof fn lemma_so_parts(s: &Schedule)
    requires s.rs_ok(),
    ensures s.so_network(), s.so_listing(), s.so_vehicles(), s.so_costs_cover(), s.so_costs_small(),
{
    hide(Schedule::rs_ok);
    hide(Schedule::sched_ok);
    hide(Schedule::so_network);
    hide(Schedule::so_listing);
    hide(Schedule::so_vehicles);
    hide(Schedule::so_costs_cover);
    hide(Schedule::so_costs_small);
    lemma_rs_parts(s);
    lemma_sched_ok_split(s);
}
impl Schedule {
    /// what a valid schedule provides for the tour of a real vehicle (the tour clauses of vehicle_ok)
    pub open spec fn tour_facts(&self, v: VehicleIdx) -> bool {
        let t = self.tours@[v];
        t.wf() && !t.is_dummy && *t.network == *self.network && t.caches_ok() && tour_len_ok(t.nodes@)
    }
    /// rs_effect, partial case: the provider's new tour
    pub open spec fn shrunk_tour_facts(&self, segment: Segment, v: VehicleIdx, s1: &Schedule) -> bool {
        let t = s1.tours@[v];
        &&& s1.tours@.contains_key(v)
        &&& t.nodes@ == self.kept_nodes(segment, v)
        &&& t.is_dummy == self.tours@[v].is_dummy && t.network == self.tours@[v].network
        &&& t.wf() && t.caches_ok()
    }
}
/// vehicle_ok, the clauses about the tour and the existence of the type's rotation-cycle structure
pub proof fn lemma_vehicle_ok_parts(s: &Schedule, u: VehicleIdx)
    requires s.vehicle_ok(u),
    ensures s.vehicles@.contains_key(u), s.tour_facts(u), s.next_period_transitions@.contains_key(s.type_of(u)),
{
    hide(Tour::wf);
    hide(Tour::caches_ok);
    hide(TView::wf_cycles);
    hide(TView::wf_lookup);
}
/// vehicle_ok from its parts: a valid tour, a rotation-cycle structure of the vehicle's type that is consistent with the tours and holds the vehicle
pub proof fn lemma_vehicle_ok_from(s1: &Schedule, u: VehicleIdx)
    requires
        s1.vehicles@.contains_key(u), s1.tour_facts(u),
        s1.next_period_transitions@.contains_key(s1.type_of(u)),
        s1.next_period_transitions@[s1.type_of(u)].wf(&s1.network, s1.tours@),
        s1.next_period_transitions@[s1.type_of(u)].has_vehicle(u),
    ensures s1.vehicle_ok(u),
{
    hide(Tour::wf);
    hide(Tour::caches_ok);
    hide(TView::wf_cycles);
    hide(TView::wf_lookup);
    hide(TView::wf_counters);
    hide(TView::wf_empty);
    hide(tour_ok);
    let tr = s1.transition_of(u);
    assert(tr == s1.next_period_transitions@[s1.type_of(u)]);
    assert(tr@.wf_tours(&s1.network, s1.tours@));
    assert forall|i: int, a: int| 0 <= i < tr.n() && 0 <= a < tr.cyc(i).len() implies s1.tours@.contains_key(#[trigger] tr.cyc(i)[a]) by {
        assert(s1.tours@.contains_key(tr@.cyc(i)[a]));
    }
}
/// a consistent rotation-cycle structure has duplicate-free, disjoint cycles and an exact lookup
pub proof fn lemma_wf_parts(t: Transition, net: &Network, tours: TourMap)
    requires t.wf(net, tours),
    ensures t@.wf_cycles(), t@.wf_lookup(),
{
    hide(TView::wf_cycles);
    hide(TView::wf_lookup);
    hide(TView::wf_tours);
    hide(TView::wf_counters);
    hide(TView::wf_empty);
}
/// the provider (a real vehicle of a valid schedule): its entries and its tour
pub proof fn lemma_provider_facts(s: &Schedule, v: VehicleIdx)
    requires s.rs_ok(), s.vehicles@.contains_key(v),
    ensures s.tours@.contains_key(v), s.tour_facts(v), s.ids_ok(), s.vehicle_ok(v),
{
    hide(Schedule::rs_ok);
    hide(Schedule::sched_ok);
    hide(Schedule::formations_ok);
    hide(Schedule::transitions_ok);
    hide(Schedule::vehicle_ok);
    hide(Schedule::tour_facts);
    hide(usage_exact);
    lemma_rs_parts(s);
    lemma_so_parts(s);
    assert(s.tours@.contains_key(v));
    assert(s.vehicle_ok(v));
    lemma_vehicle_ok_parts(s, v);
}
/// rs_effect, the conjuncts that both cases share
pub proof fn lemma_effect_basic(s: &Schedule, segment: Segment, v: VehicleIdx, s1: &Schedule)
    requires s.rs_effect(segment, v, s1),
    ensures
        s.removes(segment, v), s.vehicles@.contains_key(v),
        s1.network == s.network,
        s1.ids_ok(),
        s.formations_follow(s.removed_nodes(segment, v), v, s1.train_formations@),
        usage_exact(s1.depot_usage@, &s.network, s1.vehicles@, s1.tours@),
        s.transitions_follow(v, s1.next_period_transitions@, s1.maintenance_violation, s1.vehicles@, s1.tours@),
{
    hide(Schedule::seg_removable);
    hide(Schedule::whole_tour);
    hide(Schedule::vehicle_gone);
    hide(Schedule::others_untouched);
    hide(Schedule::provider_shrunk);
    hide(Schedule::formations_follow);
    hide(Schedule::transitions_follow);
    hide(Schedule::other_tours_untouched);
    hide(Schedule::removed_nodes);
    hide(ids_valid);
    hide(usage_exact);
}
/// rs_effect, costs (C09)
pub proof fn lemma_effect_costs(s: &Schedule, segment: Segment, v: VehicleIdx, s1: &Schedule)
    requires s.rs_effect(segment, v, s1),
    ensures
        s.whole_tour(segment, v) ==> s1.costs == s.costs - s.tours@[v].costs,
        !s.whole_tour(segment, v) ==> s1.costs == s.costs + s1.tours@[v].costs - s.tours@[v].costs,
{
    hide(Schedule::removes);
    hide(Schedule::whole_tour);
    hide(Schedule::vehicle_gone);
    hide(Schedule::others_untouched);
    hide(Schedule::provider_shrunk);
    hide(Schedule::formations_follow);
    hide(Schedule::transitions_follow);
    hide(Schedule::other_tours_untouched);
    hide(Schedule::removed_nodes);
    hide(ids_valid);
    hide(usage_exact);
}
/// rs_effect, the grouped id lists: untouched (partial case); the list of the provider's type loses one occurrence of the id and
/// stays sorted, the other lists are untouched (whole-tour case)
pub proof fn lemma_effect_grouped(s: &Schedule, segment: Segment, v: VehicleIdx, s1: &Schedule)
    requires s.rs_effect(segment, v, s1),
    ensures
        s.whole_tour(segment, v) ==> s.vehicle_gone_c(v, s1.vehicles@, s1.tours@, s1.vehicle_ids_grouped_and_sorted@)
            && s1.vehicle_ids_grouped_and_sorted@ == s.vehicle_ids_grouped_and_sorted@.insert(s.type_of(v), s1.vehicle_ids_grouped_and_sorted@[s.type_of(v)]),
        !s.whole_tour(segment, v) ==> s1.vehicle_ids_grouped_and_sorted@ == s.vehicle_ids_grouped_and_sorted@,
{
    hide(Schedule::removes);
    hide(Schedule::whole_tour);
    hide(Schedule::vehicle_gone_c);
    hide(Schedule::provider_shrunk);
    hide(Schedule::formations_follow);
    hide(Schedule::transitions_follow);
    hide(Schedule::other_tours_untouched);
    hide(Schedule::removed_nodes);
    hide(ids_valid);
    hide(usage_exact);
}
/// rs_effect, partial case: the provider's new tour
pub proof fn lemma_effect_shrunk(s: &Schedule, segment: Segment, v: VehicleIdx, s1: &Schedule)
    requires s.rs_effect(segment, v, s1), !s.whole_tour(segment, v),
    ensures s.shrunk_tour_facts(segment, v, s1),
{
    hide(Schedule::removes);
    hide(Schedule::whole_tour);
    hide(Schedule::formations_follow);
    hide(Schedule::transitions_follow);
    hide(Schedule::other_tours_untouched);
    hide(Schedule::removed_nodes);
    hide(Schedule::kept_nodes);
    hide(Tour::wf);
    hide(Tour::caches_ok);
    hide(ids_valid);
    hide(usage_exact);
}
/// rs_effect, the maps `vehicles` and `tours` as functions of the old ones
pub proof fn lemma_effect_maps(s: &Schedule, segment: Segment, v: VehicleIdx, s1: &Schedule)
    requires s.rs_effect(segment, v, s1),
    ensures
        s.whole_tour(segment, v) ==> s1.vehicles@ == s.vehicles@.remove(v) && s1.tours@ == s.tours@.remove(v),
        !s.whole_tour(segment, v) ==> s1.vehicles@ == s.vehicles@ && s1.tours@.contains_key(v) && s.other_tours_untouched(v, s1.tours@),
{
    hide(Schedule::removes);
    hide(Schedule::whole_tour);
    hide(Schedule::vehicle_gone);
    hide(Schedule::formations_follow);
    hide(Schedule::transitions_follow);
    hide(Schedule::other_tours_untouched);
    hide(Schedule::removed_nodes);
    hide(Schedule::kept_nodes);
    hide(Tour::wf);
    hide(Tour::caches_ok);
    hide(ids_valid);
    hide(usage_exact);
}
/// the effect clauses, read as facts about the entries of ONE id in the maps `vehicles` and `tours`
pub proof fn lemma_maps_at(s: &Schedule, segment: Segment, v: VehicleIdx, s1: &Schedule, u: VehicleIdx)
    requires s.rs_ok(), s.rs_effect(segment, v, s1),
    ensures s.maps_at(segment, v, s1, u),
{
    hide(Schedule::rs_ok);
    hide(Schedule::rs_effect);
    hide(Schedule::sched_ok);
    hide(Schedule::formations_ok);
    hide(Schedule::transitions_ok);
    hide(Schedule::transitions_follow);
    hide(Schedule::formations_follow);
    hide(Schedule::removes);
    hide(Schedule::whole_tour);
    hide(Schedule::removed_nodes);
    hide(usage_exact);
    hide(sorted_cmp);
    lemma_rs_parts(s);
    lemma_effect_basic(s, segment, v, s1);
    lemma_effect_maps(s, segment, v, s1);
    assert(s.ids_ok() && s1.ids_ok());
    assert(s.tours@.contains_key(v));
}

/// every removed activity is an inner node of the provider's tour: its formation lists the provider (formations_ok)
pub proof fn lemma_removed_listed(s: &Schedule, segment: Segment, v: VehicleIdx)
    requires s.formations_ok(), s.removes(segment, v), s.tours@.contains_key(v), s.tour_facts(v),
    ensures
        forall|n: NodeIdx| moved_activity(&s.network, s.removed_nodes(segment, v), n) ==> has_vehicle((#[trigger] s.train_formations@[n]).formation@, v),
{
    hide(Tour::caches_ok);
    hide(has_vehicle);
    let t0 = s.tours@[v];
    let lo = s.seg_lo(segment, v);
    let hi = s.seg_hi(segment, v);
    let removed = s.removed_nodes(segment, v);
    lemma_seg_range(s, segment, v);
    lemma_removed_block(&t0, lo, hi);
    assert forall|n: NodeIdx| moved_activity(&s.network, removed, n) implies has_vehicle((#[trigger] s.train_formations@[n]).formation@, v) by {
        let i = choose|i: int| 0 <= i < removed.len() && removed[i] == n;
        assert(removed[i] == t0.nodes@[lo + i]);
        lemma_tour_kinds(&t0, lo + i);
        assert(0 < lo + i < t0.nodes@.len() - 1);
        assert(has_vehicle(s.train_formations@[s.tours@[v].nodes@[lo + i]].formation@, v));
    }
}

// ---- sched_ok: network, vehicle_ok ----------------------------------------------------------------------
/// the shrunk tour of the provider is a valid tour again (the magnitude: it is not longer than the old one)
pub proof fn lemma_shrunk_tour_facts(s: &Schedule, segment: Segment, v: VehicleIdx, s1: &Schedule)
    requires s.removes(segment, v), s.tour_facts(v), s.shrunk_tour_facts(segment, v, s1), s1.network == s.network,
    ensures s1.tour_facts(v),
{
    hide(Tour::caches_ok);
    hide(Schedule::seg_removable);
    lemma_seg_range(s, segment, v);
    let t0 = s.tours@[v];
    lemma_kept(&t0, s.seg_lo(segment, v), s.seg_hi(segment, v));
}
/// CLOSURE, sched_ok (network; every stored tour is a valid tour of a real vehicle held by a consistent rotation-cycle structure)
pub proof fn lemma_closure_vehicles(s: &Schedule, segment: Segment, v: VehicleIdx, s1: &Schedule)
    requires s.rs_ok(), s.rs_effect(segment, v, s1),
    ensures s1.so_network(), s1.so_vehicles(),
{
    hide(Schedule::rs_ok);
    hide(Schedule::rs_effect);
    hide(Schedule::vehicle_ok);
    hide(Schedule::tour_facts);
    hide(Schedule::shrunk_tour_facts);
    hide(Schedule::so_listing);
    hide(Schedule::so_costs_cover);
    hide(Schedule::formations_follow);
    hide(Schedule::transitions_follow);
    hide(Schedule::removes);
    hide(Schedule::whole_tour);
    hide(Schedule::maps_at);
    hide(TView::wf);
    hide(ids_valid);
    hide(usage_exact);
    hide(depots_ok);
    lemma_so_parts(s);
    lemma_effect_basic(s, segment, v, s1);
    assert(s1.so_network());
    assert forall|u: VehicleIdx| #[trigger] s1.tours@.contains_key(u) implies s1.vehicle_ok(u) by {
        lemma_vehicle_ok_at(s, segment, v, s1, u);
    }
}
/// ... for one vehicle
pub proof fn lemma_vehicle_ok_at(s: &Schedule, segment: Segment, v: VehicleIdx, s1: &Schedule, u: VehicleIdx)
    requires s.rs_ok(), s.rs_effect(segment, v, s1), s1.tours@.contains_key(u),
    ensures s1.vehicle_ok(u),
{
    hide(Schedule::rs_ok);
    hide(Schedule::rs_effect);
    hide(Schedule::vehicle_ok);
    hide(Schedule::tour_facts);
    hide(Schedule::shrunk_tour_facts);
    hide(Schedule::so_listing);
    hide(Schedule::so_costs_cover);
    hide(Schedule::so_network);
    hide(Schedule::formations_follow);
    hide(Schedule::removes);
    hide(Schedule::whole_tour);
    hide(TView::wf);
    hide(ids_valid);
    hide(usage_exact);
    lemma_so_parts(s);
    lemma_effect_basic(s, segment, v, s1);
    lemma_maps_at(s, segment, v, s1, u);
    lemma_provider_facts(s, v);
    assert(s.tours@.contains_key(u) && s1.vehicles@.contains_key(u));
    assert(s.vehicle_ok(u));
    lemma_vehicle_ok_parts(s, u);
    let trs1 = s1.next_period_transitions@;
    let ty = s1.type_of(u);
    assert(ty == s.type_of(u));
    assert(trs1.contains_key(ty));
    assert(trs1[ty].wf(&s.network, s1.tours@));
    assert(vtype(s1.vehicles@[u]) == ty);
    assert(trs1[ty].has_vehicle(u));
    if u != v {
        assert(s1.tours@[u] == s.tours@[u]);
        reveal(Schedule::tour_facts);
        assert(s1.tour_facts(u));
    } else {
        assert(!s.whole_tour(segment, v));
        lemma_effect_shrunk(s, segment, v, s1);
        lemma_shrunk_tour_facts(s, segment, v, s1);
    }
    lemma_vehicle_ok_from(s1, u);
}

// ---- formations_ok -----------------------------------------------------------------------------------------
/// every formation is still there
pub proof fn lemma_form_keys(s: &Schedule, removed: Seq<NodeIdx>, v: VehicleIdx, tf1: Formations, n: NodeIdx)
    requires s.formations_follow(removed, v, tf1),
    ensures tf1.contains_key(n) <==> s.train_formations@.contains_key(n),
{
}
/// the formation of a node that another vehicle u serves still lists u
pub proof fn lemma_form_other(s: &Schedule, removed: Seq<NodeIdx>, v: VehicleIdx, u: VehicleIdx, n: NodeIdx, tf1: Formations)
    requires
        s.formations_follow(removed, v, tf1), u != v,
        has_vehicle(s.train_formations@[n].formation@, u),
        moved_activity(&s.network, removed, n) ==> has_vehicle(s.train_formations@[n].formation@, v),
    ensures has_vehicle(tf1[n].formation@, u),
{
    hide(has_vehicle);
    let tf0 = s.train_formations@;
    if moved_activity(&s.network, removed, n) {
        lemma_has_vehicle_remove(tf0[n].formation@, v, u);
        assert(tf1[n].formation@ == tf0[n].formation@.remove(first_pos(tf0[n].formation@, v)));
    } else {
        assert(tf1[n] == tf0[n]);
    }
}
/// a kept inner node of the provider's tour is none of the removed nodes: its formation is untouched and lists the provider
pub proof fn lemma_form_kept(s: &Schedule, segment: Segment, v: VehicleIdx, i: int, tf1: Formations)
    requires
        s.formations_ok(), s.removes(segment, v), s.tours@.contains_key(v), s.tour_facts(v),
        s.formations_follow(s.removed_nodes(segment, v), v, tf1),
        0 < i < s.kept_nodes(segment, v).len() - 1,
    ensures has_vehicle(tf1[s.kept_nodes(segment, v)[i]].formation@, v),
{
    hide(Tour::caches_ok);
    hide(Schedule::seg_removable);
    hide(has_vehicle);
    let t0 = s.tours@[v];
    let lo = s.seg_lo(segment, v);
    let hi = s.seg_hi(segment, v);
    let removed = s.removed_nodes(segment, v);
    let tf0 = s.train_formations@;
    lemma_seg_range(s, segment, v);
    lemma_kept(&t0, lo, hi);
    let j = if i < lo { i } else { i + (hi + 1 - lo) };
    let n = s.kept_nodes(segment, v)[i];
    assert(n == t0.nodes@[j]);
    assert(0 < j < t0.nodes@.len() - 1 && !(lo <= j <= hi));
    assert(has_vehicle(tf0[s.tours@[v].nodes@[j]].formation@, v));
    assert(!removed.contains(t0.nodes@[j]));
    assert(!moved_activity(&s.network, removed, n));
    assert(tf1[n] == tf0[n]);
}
/// CLOSURE, formations_ok: every activity has a formation; the formation of every inner node of a tour lists the vehicle
pub proof fn lemma_closure_formations(s: &Schedule, segment: Segment, v: VehicleIdx, s1: &Schedule)
    requires s.rs_ok(), s.rs_effect(segment, v, s1),
    ensures s1.formations_ok(),
{
    hide(Schedule::rs_ok);
    hide(Schedule::rs_effect);
    hide(Schedule::formations_follow);
    hide(Schedule::transitions_follow);
    hide(Schedule::removes);
    hide(Schedule::removed_nodes);
    hide(has_vehicle);
    hide(ids_valid);
    hide(usage_exact);
    lemma_rs_parts(s);
    lemma_effect_basic(s, segment, v, s1);
    let removed = s.removed_nodes(segment, v);
    let tf0 = s.train_formations@;
    let tf1 = s1.train_formations@;
    assert forall|n: NodeIdx| s1.network.has(n) && s1.network.sp_node(n).sp_is_activity() implies #[trigger] tf1.contains_key(n) by {
        assert(tf0.contains_key(n));
        lemma_form_keys(s, removed, v, tf1, n);
    }
    assert forall|u: VehicleIdx, i: int| s1.tours@.contains_key(u) && 0 < i < s1.tours@[u].nodes@.len() - 1
        implies has_vehicle(tf1[#[trigger] s1.tours@[u].nodes@[i]].formation@, u) by {
        lemma_formation_at(s, segment, v, s1, u, i);
    }
}
/// ... for one inner node of one tour
pub proof fn lemma_formation_at(s: &Schedule, segment: Segment, v: VehicleIdx, s1: &Schedule, u: VehicleIdx, i: int)
    requires s.rs_ok(), s.rs_effect(segment, v, s1), s1.tours@.contains_key(u), 0 < i < s1.tours@[u].nodes@.len() - 1,
    ensures has_vehicle(s1.train_formations@[s1.tours@[u].nodes@[i]].formation@, u),
{
    hide(Schedule::rs_ok);
    hide(Schedule::rs_effect);
    hide(Schedule::sched_ok);
    hide(Schedule::transitions_ok);
    hide(Schedule::vehicle_ok);
    hide(Schedule::tour_facts);
    hide(Schedule::shrunk_tour_facts);
    hide(Schedule::formations_follow);
    hide(Schedule::transitions_follow);
    hide(Schedule::removes);
    hide(Schedule::whole_tour);
    hide(Schedule::kept_nodes);
    hide(Schedule::removed_nodes);
    hide(has_vehicle);
    hide(moved_activity);
    hide(ids_valid);
    hide(usage_exact);
    lemma_rs_parts(s);
    lemma_effect_basic(s, segment, v, s1);
    lemma_maps_at(s, segment, v, s1, u);
    lemma_provider_facts(s, v);
    let removed = s.removed_nodes(segment, v);
    let tf0 = s.train_formations@;
    let tf1 = s1.train_formations@;
    let n = s1.tours@[u].nodes@[i];
    if u != v {
        assert(s.tours@.contains_key(u) && s1.tours@[u] == s.tours@[u]);
        assert(has_vehicle(tf0[s.tours@[u].nodes@[i]].formation@, u));
        lemma_removed_listed(s, segment, v);
        assert(moved_activity(&s.network, removed, n) ==> has_vehicle(tf0[n].formation@, v));
        lemma_form_other(s, removed, v, u, n, tf1);
    } else {
        assert(!s.whole_tour(segment, v));
        lemma_effect_shrunk(s, segment, v, s1);
        reveal(Schedule::shrunk_tour_facts);
        assert(s1.tours@[v].nodes@ == s.kept_nodes(segment, v));
        lemma_form_kept(s, segment, v, i, tf1);
    }
}

// ---- transitions_ok ----------------------------------------------------------------------------------------
/// the vehicles in the first k cycles, one after the other
pub open spec fn flat_cycles(cs: Seq<TransitionCycle>, k: int) -> Seq<VehicleIdx>
    decreases k,
{
    if k <= 0 { Seq::empty() } else { flat_cycles(cs, k - 1) + cs[k - 1].cycle@ }
}
/// x is a vehicle of one of the first k cycles
pub open spec fn in_cycles(t: TView, k: int, x: VehicleIdx) -> bool {
    exists|i: int, a: int| 0 <= i < k && 0 <= a < t.cyc(i).len() && #[trigger] t.cyc(i)[a] == x
}
pub open spec fn lens_upto(cs: Seq<TransitionCycle>, k: int) -> int
    decreases k,
{
    if k <= 0 { 0 } else { lens_upto(cs, k - 1) + cs[k - 1].cycle@.len() }
}
pub proof fn lemma_lens_upto(cs: Seq<TransitionCycle>, k: int)
    requires 0 <= k <= cs.len(),
    ensures lens_upto(cs, k) == sum_seq(lens_of(cs.take(k))),
    decreases k,
{
    if k > 0 {
        lemma_lens_upto(cs, k - 1);
        assert(lens_of(cs.take(k)).drop_last() =~= lens_of(cs.take(k - 1)));
        assert(lens_of(cs.take(k)).last() == cs[k - 1].cycle@.len());
    } else {
        assert(lens_of(cs.take(0)).len() == 0);
    }
}
/// the cycles of a rotation-cycle structure are duplicate-free and pairwise disjoint: listed one after the other they form a
/// duplicate-free sequence of total_len vehicles
pub proof fn lemma_flat_cycles(t: TView, k: int)
    requires t.wf_cycles(), 0 <= k <= t.n(),
    ensures
        flat_cycles(t.cycles, k).len() == lens_upto(t.cycles, k),
        flat_cycles(t.cycles, k).no_duplicates(),
        forall|x: VehicleIdx| #[trigger] flat_cycles(t.cycles, k).contains(x) <==> in_cycles(t, k, x),
    decreases k,
{
    if k > 0 {
        lemma_flat_cycles(t, k - 1);
        let a = flat_cycles(t.cycles, k - 1);
        let c = t.cyc(k - 1);
        let f = flat_cycles(t.cycles, k);
        assert(f == a + c);
        assert(c.no_duplicates());
        assert forall|i: int, j: int| 0 <= i < a.len() && 0 <= j < c.len() implies a[i] != c[j] by {
            assert(a.contains(a[i]));
            assert(in_cycles(t, k - 1, a[i]));
            let (i0, a0) = choose|i0: int, a0: int| 0 <= i0 < k - 1 && 0 <= a0 < t.cyc(i0).len() && #[trigger] t.cyc(i0)[a0] == a[i];
            assert(t.cyc(i0)[a0] != t.cyc(k - 1)[j]);
        }
        vstd::seq_lib::lemma_no_dup_in_concat(a, c);
        assert forall|x: VehicleIdx| #[trigger] f.contains(x) <==> in_cycles(t, k, x) by {
            if f.contains(x) {
                let p = choose|p: int| 0 <= p < f.len() && f[p] == x;
                if p < a.len() {
                    assert(a[p] == x);
                    assert(a.contains(x));
                    assert(in_cycles(t, k - 1, x));
                    let (i0, a0) = choose|i0: int, a0: int| 0 <= i0 < k - 1 && 0 <= a0 < t.cyc(i0).len() && #[trigger] t.cyc(i0)[a0] == x;
                    assert(0 <= i0 < k && t.cyc(i0)[a0] == x);
                } else {
                    assert(c[p - a.len()] == x);
                    assert(t.cyc(k - 1)[p - a.len()] == x);
                }
            }
            if in_cycles(t, k, x) {
                let (i0, a0) = choose|i0: int, a0: int| 0 <= i0 < k && 0 <= a0 < t.cyc(i0).len() && #[trigger] t.cyc(i0)[a0] == x;
                if i0 < k - 1 {
                    assert(in_cycles(t, k - 1, x));
                    assert(a.contains(x));
                    let p = choose|p: int| 0 <= p < a.len() && a[p] == x;
                    assert(f[p] == x);
                } else {
                    assert(f[a.len() + a0] == x);
                }
            }
        }
    }
}
/// magnitude (fewer than 2^17 vehicles): a rotation-cycle structure that holds only vehicles of another one is not longer
pub proof fn lemma_total_len_le(t1: TView, t0: TView)
    requires
        t1.wf_cycles(), t1.wf_lookup(), t0.wf_cycles(), t0.wf_lookup(),
        forall|x: VehicleIdx| #[trigger] t1.lookup.contains_key(x) ==> t0.lookup.contains_key(x),
    ensures
        t1.total_len() <= t0.total_len(),
{
    let f1 = flat_cycles(t1.cycles, t1.n());
    let f0 = flat_cycles(t0.cycles, t0.n());
    lemma_flat_cycles(t1, t1.n());
    lemma_flat_cycles(t0, t0.n());
    lemma_lens_upto(t1.cycles, t1.n());
    lemma_lens_upto(t0.cycles, t0.n());
    assert(t1.cycles.take(t1.n()) =~= t1.cycles);
    assert(t0.cycles.take(t0.n()) =~= t0.cycles);
    assert forall|x: VehicleIdx| f1.contains(x) implies f0.contains(x) by {
        assert(in_cycles(t1, t1.n(), x));
        let (i1, a1) = choose|i1: int, a1: int| 0 <= i1 < t1.n() && 0 <= a1 < t1.cyc(i1).len() && #[trigger] t1.cyc(i1)[a1] == x;
        assert(t1.lookup.contains_key(t1.cyc(i1)[a1]));
        assert(t0.lookup.contains_key(x));
        let c = t0.cyc(t0.cycle_of(x));
        assert(c.contains(x));
        let a0 = choose|a0: int| 0 <= a0 < c.len() && c[a0] == x;
        assert(t0.cyc(t0.cycle_of(x))[a0] == x);
        assert(in_cycles(t0, t0.n(), x));
    }
    f1.unique_seq_to_set();
    f0.unique_seq_to_set();
    assert(f1.to_set().subset_of(f0.to_set()));
    vstd::set_lib::lemma_len_subset(f1.to_set(), f0.to_set());
}
impl Schedule {
    /// what the closure of transitions_ok builds on: the old invariant, the provider's type has a rotation-cycle structure
    /// (vehicle_ok), the effect clause about the rotation cycles, the network is the same, no vehicle is added and a vehicle that
    /// stays keeps its entry (hence its type)
    pub open spec fn tr_step(&self, v: VehicleIdx, s1: &Schedule) -> bool {
        &&& self.transitions_ok()
        &&& self.vehicles@.contains_key(v)
        &&& self.next_period_transitions@.contains_key(self.type_of(v))
        &&& s1.network == self.network
        &&& self.transitions_follow(v, s1.next_period_transitions@, s1.maintenance_violation, s1.vehicles@, s1.tours@)
        &&& forall|u: VehicleIdx| #[trigger] s1.vehicles@.contains_key(u) ==> self.vehicles@.contains_key(u) && s1.vehicles@[u] == self.vehicles@[u]
    }
}
/// the vehicle types and the keys of the transition table are the same
pub proof fn lemma_tr_keys(s: &Schedule, v: VehicleIdx, s1: &Schedule)
    requires s.tr_step(v, s1),
    ensures
        sched_types(s).no_duplicates(), sched_types(s1) == sched_types(s), sched_types(s).contains(s.type_of(v)),
        s1.next_period_transitions@.contains_key(s.type_of(v)),
        forall|vt: VehicleTypeIdx| #[trigger] s1.next_period_transitions@.contains_key(vt) <==> sched_types(s).contains(vt),
{
    hide(TView::wf);
    let trs = s.next_period_transitions@;
    assert forall|vt: VehicleTypeIdx| #[trigger] s1.next_period_transitions@.contains_key(vt) <==> sched_types(s).contains(vt) by {
        assert(trs.contains_key(vt) <==> sched_types(s).contains(vt));
    }
}
/// the structure of the provider's type holds only vehicles it held before: it is not longer (magnitude "fewer than 2^17 vehicles")
pub proof fn lemma_tr_len(s: &Schedule, v: VehicleIdx, s1: &Schedule)
    requires s.tr_step(v, s1), s1.next_period_transitions@.contains_key(s.type_of(v)),
    ensures s1.next_period_transitions@[s.type_of(v)].total_len() <= s.next_period_transitions@[s.type_of(v)].total_len(),
{
    hide(TView::wf);
    hide(TView::wf_cycles);
    hide(TView::wf_lookup);
    let ty = s.type_of(v);
    let t0 = s.next_period_transitions@[ty];
    let t1 = s1.next_period_transitions@[ty];
    assert(t0.wf(&s.network, s.tours@));
    assert(t1.wf(&s.network, s1.tours@));
    lemma_wf_parts(t0, &s.network, s.tours@);
    lemma_wf_parts(t1, &s.network, s1.tours@);
    assert forall|x: VehicleIdx| #[trigger] t1@.lookup.contains_key(x) implies t0@.lookup.contains_key(x) by {
        assert(t1.has_vehicle(x));
        assert(s1.vehicles@.contains_key(x) && vtype(s1.vehicles@[x]) == ty);
        assert(s.vehicles@.contains_key(x) && s.type_of(x) == ty);
        assert(t0.has_vehicle(x));
    }
    lemma_total_len_le(t1@, t0@);
}
/// the number of vehicles in the cycles when the structures of all types but one are the same and that one is not longer
pub proof fn lemma_len_sum_step(trs: Map<VehicleTypeIdx, Transition>, trs1: Map<VehicleTypeIdx, Transition>, vts: Seq<VehicleTypeIdx>, ty: VehicleTypeIdx)
    requires
        vts.no_duplicates(), vts.contains(ty),
        forall|i: int| 0 <= i < vts.len() && vts[i] != ty ==> trs1[#[trigger] vts[i]] == trs[vts[i]],
        trs1[ty].total_len() <= trs[ty].total_len(),
    ensures len_sum(trs1, vts) <= len_sum(trs, vts),
{
    let trs2 = trs.insert(ty, trs1[ty]);
    assert forall|i: int| 0 <= i < vts.len() implies trs1[#[trigger] vts[i]] == trs2[vts[i]] by {}
    lemma_type_sums_frame(trs1, trs2, vts);
    lemma_type_sums_insert(trs, vts, ty, trs1[ty]);
}
/// every structure holds exactly the vehicles of its type (the effect clause, in the words of transitions_ok)
pub proof fn lemma_tr_membership(s: &Schedule, v: VehicleIdx, s1: &Schedule)
    requires s.tr_step(v, s1),
    ensures
        forall|vt: VehicleTypeIdx, u: VehicleIdx| #![trigger s1.next_period_transitions@[vt].has_vehicle(u)] s1.next_period_transitions@.contains_key(vt)
            ==> (s1.next_period_transitions@[vt].has_vehicle(u) <==> s1.vehicles@.contains_key(u) && s1.type_of(u) == vt),
        forall|vt: VehicleTypeIdx| #[trigger] s1.next_period_transitions@.contains_key(vt) ==> s1.next_period_transitions@[vt].wf(&s1.network, s1.tours@),
        s1.maintenance_violation as int == viol_sum(s1.next_period_transitions@, sched_types(s1)),
{
    hide(TView::wf);
    hide(Schedule::transitions_ok);
    let trs1 = s1.next_period_transitions@;
    assert forall|vt: VehicleTypeIdx, u: VehicleIdx| #![trigger trs1[vt].has_vehicle(u)] trs1.contains_key(vt)
        implies (trs1[vt].has_vehicle(u) <==> s1.vehicles@.contains_key(u) && s1.type_of(u) == vt) by {
        assert(trs1[vt].has_vehicle(u) <==> (s1.vehicles@.contains_key(u) && vtype(s1.vehicles@[u]) == vt));
    }
}
/// transitions_ok again
pub proof fn lemma_transitions_step(s: &Schedule, v: VehicleIdx, s1: &Schedule)
    requires s.tr_step(v, s1),
    ensures s1.transitions_ok(),
{
    hide(TView::wf);
    hide(Schedule::transitions_follow);
    hide(Transition::has_vehicle);
    lemma_tr_keys(s, v, s1);
    lemma_tr_len(s, v, s1);
    lemma_tr_membership(s, v, s1);
    let trs = s.next_period_transitions@;
    let trs1 = s1.next_period_transitions@;
    let vts = sched_types(s);
    let ty = s.type_of(v);
    assert forall|i: int| 0 <= i < vts.len() && vts[i] != ty implies trs1[#[trigger] vts[i]] == trs[vts[i]] by {
        assert(vts.contains(vts[i]));
        assert(trs1.contains_key(vts[i]));
        reveal(Schedule::transitions_follow);
    }
    lemma_len_sum_step(trs, trs1, vts, ty);
}
/// CLOSURE, transitions_ok: one consistent rotation-cycle structure per vehicle type, holding exactly the vehicles of the type;
/// the violation is their sum; fewer than 2^17 vehicles (no vehicle is added)
pub proof fn lemma_closure_transitions(s: &Schedule, segment: Segment, v: VehicleIdx, s1: &Schedule)
    requires s.rs_ok(), s.rs_effect(segment, v, s1),
    ensures s1.transitions_ok(),
{
    hide(Schedule::rs_ok);
    hide(Schedule::rs_effect);
    hide(Schedule::sched_ok);
    hide(Schedule::formations_ok);
    hide(Schedule::transitions_ok);
    hide(Schedule::vehicle_ok);
    hide(Schedule::tour_facts);
    hide(Schedule::formations_follow);
    hide(Schedule::transitions_follow);
    hide(Schedule::removes);
    hide(Schedule::whole_tour);
    hide(Schedule::maps_at);
    hide(ids_valid);
    hide(usage_exact);
    lemma_rs_parts(s);
    lemma_effect_basic(s, segment, v, s1);
    lemma_provider_facts(s, v);
    lemma_vehicle_ok_parts(s, v);
    assert forall|u: VehicleIdx| #[trigger] s1.vehicles@.contains_key(u) implies s.vehicles@.contains_key(u) && s1.vehicles@[u] == s.vehicles@[u] by {
        lemma_maps_at(s, segment, v, s1, u);
        reveal(Schedule::maps_at);
    }
    assert(s.tr_step(v, s1));
    lemma_transitions_step(s, v, s1);
}

// ---- sched_ok: listing, costs --------------------------------------------------------------------------------
/// the sum of the listed tours' costs when the tour of ONE listed vehicle is replaced
pub proof fn lemma_pre_costs_update(t0: TourMap, t1: TourMap, vs: Seq<VehicleIdx>, p: int, k: int)
    requires
        vs.no_duplicates(), 0 <= p < vs.len(), 0 <= k <= vs.len(),
        forall|j: int| 0 <= j < vs.len() && j != p ==> t1[#[trigger] vs[j]] == t0[vs[j]],
    ensures
        pre_costs(t1, vs, k) == pre_costs(t0, vs, k) + (if p < k { t1[vs[p]].costs as int - t0[vs[p]].costs as int } else { 0 }),
    decreases k,
{
    if k > 0 { lemma_pre_costs_update(t0, t1, vs, p, k - 1); }
}
/// the sum of the listed tours' costs when ONE vehicle leaves the listing
pub proof fn lemma_pre_costs_remove(t0: TourMap, t1: TourMap, vs: Seq<VehicleIdx>, p: int, k: int)
    requires
        0 <= p < vs.len(), 0 <= k <= vs.len() - 1,
        forall|j: int| 0 <= j < vs.len() && j != p ==> t1[#[trigger] vs[j]] == t0[vs[j]],
    ensures
        pre_costs(t1, vs.remove(p), k) == (if k <= p { pre_costs(t0, vs, k) } else { pre_costs(t0, vs, k + 1) - t0[vs[p]].costs as int }),
    decreases k,
{
    if k > 0 {
        lemma_pre_costs_remove(t0, t1, vs, p, k - 1);
        let d = vs.remove(p);
        if k - 1 < p { assert(d[k - 1] == vs[k - 1]); } else { assert(d[k - 1] == vs[k]); }
        assert(pre_costs(t1, d, k) == pre_costs(t1, d, k - 1) + t1[d[k - 1]].costs as int);
        assert(pre_costs(t0, vs, k + 1) == pre_costs(t0, vs, k) + t0[vs[k]].costs as int);
        assert(pre_costs(t0, vs, k) == pre_costs(t0, vs, k - 1) + t0[vs[k - 1]].costs as int);
    }
}
/// the sum over the first k listed vehicles only depends on the first k entries of the listing
pub proof fn lemma_pre_costs_prefix(t: TourMap, a: Seq<VehicleIdx>, b: Seq<VehicleIdx>, k: int)
    requires 0 <= k <= a.len(), k <= b.len(), forall|j: int| 0 <= j < k ==> #[trigger] a[j] == b[j],
    ensures pre_costs(t, a, k) == pre_costs(t, b, k),
    decreases k,
{
    if k > 0 { lemma_pre_costs_prefix(t, a, b, k - 1); }
}
/// the sum of the listed tours' costs does not depend on the order of a duplicate-free listing
pub proof fn lemma_pre_costs_perm(t: TourMap, a: Seq<VehicleIdx>, b: Seq<VehicleIdx>)
    requires a.no_duplicates(), b.no_duplicates(), forall|x: VehicleIdx| a.contains(x) <==> b.contains(x),
    ensures a.len() == b.len(), pre_costs(t, a, a.len() as int) == pre_costs(t, b, b.len() as int),
    decreases a.len(),
{
    if a.len() == 0 {
        if b.len() > 0 { assert(b.contains(b[0])); }
    } else {
        let n = a.len() as int;
        let m = b.len() as int;
        let x = a[n - 1];
        assert(a.contains(x));
        let p = choose|p: int| 0 <= p < b.len() && b[p] == x;
        let a1 = a.drop_last();
        let b1 = b.remove(p);
        lemma_remove_contains(b, p);
        assert(a1 =~= a.remove(n - 1));
        lemma_remove_contains(a, n - 1);
        lemma_pre_costs_perm(t, a1, b1);
        lemma_pre_costs_prefix(t, a, a1, n - 1);
        lemma_pre_costs_remove(t, t, b, p, m - 1);
        assert(pre_costs(t, a, n) == pre_costs(t, a, n - 1) + t[a[n - 1]].costs as int);
        assert(pre_costs(t, b, m) == pre_costs(t, b, m - 1) + t[b[m - 1]].costs as int);
    }
}
// ---- the vehicle listing as a function of the grouped id lists ---------------------------------------------------
// sched_vehicles(s) is DEFINED (env/schedule_shim.vs): listing_of(vehicle types of the network, grouped id lists) = the id lists of
// the network's vehicle types, one after the other.  [LISTING-LEMMAS: same text in env/remove_segment_shim.vs and env/dummy_ops_shim.vs]
/// the listing only depends on the id lists of the listed types
pub proof fn lemma_listing_frame(types: Seq<VehicleTypeIdx>, a: Map<VehicleTypeIdx, Vec<VehicleIdx>>, b: Map<VehicleTypeIdx, Vec<VehicleIdx>>)
    requires forall|i: int| 0 <= i < types.len() ==> a[#[trigger] types[i]]@ == b[types[i]]@,
    ensures listing_of(types, a) == listing_of(types, b),
    decreases types.len(),
{
    if types.len() > 0 {
        let d = types.drop_last();
        assert forall|i: int| 0 <= i < d.len() implies a[#[trigger] d[i]]@ == b[d[i]]@ by { assert(d[i] == types[i]); }
        lemma_listing_frame(d, a, b);
        assert(types.last() == types[types.len() - 1]);
    }
}
/// taking one position out of a concatenation takes it out of the part it lies in
pub proof fn lemma_concat_remove(a: Seq<VehicleIdx>, b: Seq<VehicleIdx>, p: int)
    requires 0 <= p < a.len() + b.len(),
    ensures
        p < a.len() ==> (a + b).remove(p) == a.remove(p) + b && (a + b)[p] == a[p],
        p >= a.len() ==> (a + b).remove(p) == a + b.remove(p - a.len()) && (a + b)[p] == b[p - a.len()],
{
    if p < a.len() { assert((a + b).remove(p) =~= a.remove(p) + b); }
    else { assert((a + b).remove(p) =~= a + b.remove(p - a.len())); }
}
/// if the id list of ONE listed type loses one occurrence of v (the type list is duplicate-free: the type is listed once) and the
/// lists of the other listed types are the same, the listing loses one occurrence of v (the other entries keep their order)
pub proof fn lemma_listing_lose(types: Seq<VehicleTypeIdx>, g0: Map<VehicleTypeIdx, Vec<VehicleIdx>>, g1: Map<VehicleTypeIdx, Vec<VehicleIdx>>, ty: VehicleTypeIdx, v: VehicleIdx)
    requires
        types.no_duplicates(), types.contains(ty),
        forall|i: int| 0 <= i < types.len() && types[i] != ty ==> g1[#[trigger] types[i]]@ == g0[types[i]]@,
        ids_lose(g0[ty]@, g1[ty]@, v),
    ensures ids_lose(listing_of(types, g0), listing_of(types, g1), v),
    decreases types.len(),
{
    let n = types.len() as int;
    let k = choose|k: int| 0 <= k < types.len() && types[k] == ty;
    let d = types.drop_last();
    let last = types[n - 1];
    assert(types.last() == last);
    let a0 = listing_of(d, g0);
    let a1 = listing_of(d, g1);
    assert(listing_of(types, g0) == a0 + g0[last]@);
    assert(listing_of(types, g1) == a1 + g1[last]@);
    if last == ty {
        // the type is the last one listed: the lists of the types before it are the same
        assert forall|i: int| 0 <= i < d.len() implies g0[#[trigger] d[i]]@ == g1[d[i]]@ by {
            assert(d[i] == types[i]);
            assert(types[i] != types[n - 1]);
        }
        lemma_listing_frame(d, g0, g1);
        let l0 = g0[ty]@;
        let p = choose|p: int| 0 <= p < l0.len() && l0[p] == v && g1[ty]@ == #[trigger] l0.remove(p);
        lemma_concat_remove(a0, l0, a0.len() + p);
        assert(listing_of(types, g1) == (a0 + l0).remove(a0.len() + p));
    } else {
        // the type is listed before the last one, whose list is the same
        assert(k < n - 1);
        assert(d[k] == ty);
        assert forall|i: int, j: int| 0 <= i < d.len() && 0 <= j < d.len() && i != j implies d[i] != d[j] by {
            assert(d[i] == types[i] && d[j] == types[j]);
        }
        assert forall|i: int| 0 <= i < d.len() && d[i] != ty implies g1[#[trigger] d[i]]@ == g0[d[i]]@ by { assert(d[i] == types[i]); }
        lemma_listing_lose(d, g0, g1, ty, v);
        let q = choose|q: int| 0 <= q < a0.len() && a0[q] == v && a1 == #[trigger] a0.remove(q);
        let l = g0[last]@;
        assert(g1[types[n - 1]]@ == l);
        lemma_concat_remove(a0, l, q);
        assert(listing_of(types, g1) == (a0 + l).remove(q));
    }
}
/// ... for two schedules over the same vehicle types: the id list of type `ty` loses one occurrence of v, the other lists are the same
pub proof fn lemma_sched_vehicles_lose(s: &Schedule, s1: &Schedule, ty: VehicleTypeIdx, v: VehicleIdx)
    requires
        s.network.vehicle_types.ids_sorted@.no_duplicates(),
        s.network.vehicle_types.ids_sorted@.contains(ty),
        s1.network.vehicle_types.ids_sorted@ == s.network.vehicle_types.ids_sorted@,
        s1.vehicle_ids_grouped_and_sorted@ == s.vehicle_ids_grouped_and_sorted@.insert(ty, s1.vehicle_ids_grouped_and_sorted@[ty]),
        ids_lose(s.vehicle_ids_grouped_and_sorted@[ty]@, s1.vehicle_ids_grouped_and_sorted@[ty]@, v),
    ensures ids_lose(sched_vehicles(s), sched_vehicles(s1), v),
{
    hide(ids_lose);
    reveal(sched_vehicles);
    let types = s.network.vehicle_types.ids_sorted@;
    let g0 = s.vehicle_ids_grouped_and_sorted@;
    let g1 = s1.vehicle_ids_grouped_and_sorted@;
    assert forall|i: int| 0 <= i < types.len() && types[i] != ty implies g1[#[trigger] types[i]]@ == g0[types[i]]@ by {}
    lemma_listing_lose(types, g0, g1, ty, v);
}
/// C10 (transitions_ok: one rotation-cycle structure per vehicle type of the network, the type list is duplicate-free): a type that
/// has a rotation-cycle structure is listed, once
pub proof fn lemma_types_listed(s: &Schedule, ty: VehicleTypeIdx)
    requires s.transitions_ok(), s.next_period_transitions@.contains_key(ty),
    ensures s.network.vehicle_types.ids_sorted@.no_duplicates(), s.network.vehicle_types.ids_sorted@.contains(ty),
{
    hide(TView::wf);
    assert(sched_types(s) == s.network.vehicle_types.ids_sorted@);
}
// [end of LISTING-LEMMAS]

/// the listing of the result FOLLOWS the grouped id lists (listing_follows; formerly a premise): the network is the same; in the
/// partial case the grouped id lists are the same (lemma_sched_vehicles_frame); in the whole-tour case the list of the provider's type
/// -- a listed type: it has a rotation-cycle structure; listed once: transitions_ok says the type list is duplicate-free -- loses one
/// occurrence of the id and the other lists are the same (vehicle_gone, others_untouched)
pub proof fn lemma_listing_follows_holds(s: &Schedule, segment: Segment, v: VehicleIdx, s1: &Schedule)
    requires s.rs_ok(), s.rs_effect(segment, v, s1),
    ensures s.listing_follows(segment, v, s1),
{
    hide(Schedule::rs_ok);
    hide(Schedule::rs_effect);
    hide(Schedule::sched_ok);
    hide(Schedule::formations_ok);
    hide(Schedule::transitions_ok);
    hide(Schedule::vehicle_ok);
    hide(Schedule::tour_facts);
    hide(Schedule::formations_follow);
    hide(Schedule::transitions_follow);
    hide(Schedule::removes);
    hide(Schedule::whole_tour);
    hide(Schedule::removed_nodes);
    hide(ids_valid);
    hide(usage_exact);
    hide(ids_lose);
    hide(sorted_cmp);
    lemma_rs_parts(s);
    lemma_effect_basic(s, segment, v, s1);
    lemma_effect_grouped(s, segment, v, s1);
    assert(s1.network.vehicle_types.ids_sorted@ == s.network.vehicle_types.ids_sorted@);
    if s.whole_tour(segment, v) {
        let ty = s.type_of(v);
        lemma_provider_facts(s, v);
        lemma_vehicle_ok_parts(s, v);
        lemma_types_listed(s, ty);
        assert(ids_lose(s.vehicle_ids_grouped_and_sorted@[ty]@, s1.vehicle_ids_grouped_and_sorted@[ty]@, v));
        lemma_sched_vehicles_lose(s, s1, ty, v);
    } else {
        lemma_sched_vehicles_frame(s1, s);
    }
}
/// the listing of the result is exact (listing_exact) if it follows the grouped id lists (listing_follows)
pub proof fn lemma_listing_follows(s: &Schedule, segment: Segment, v: VehicleIdx, s1: &Schedule)
    requires s.rs_ok(), s.rs_effect(segment, v, s1), s.listing_follows(segment, v, s1),
    ensures listing_exact(s1),
{
    hide(Schedule::rs_ok);
    hide(Schedule::rs_effect);
    hide(Schedule::so_vehicles);
    hide(Schedule::so_network);
    hide(Schedule::so_costs_cover);
    hide(Schedule::whole_tour);
    hide(Schedule::maps_at);
    lemma_so_parts(s);
    let vs = sched_vehicles(s);
    let vs1 = sched_vehicles(s1);
    lemma_maps_at(s, segment, v, s1, v);
    assert(s.tours@.contains_key(v)) by { reveal(Schedule::maps_at); }
    assert(vs.contains(v));
    if s.whole_tour(segment, v) {
        let p = choose|p: int| 0 <= p < vs.len() && vs[p] == v && vs1 == #[trigger] vs.remove(p);
        lemma_remove_contains(vs, p);
    }
    assert forall|u: VehicleIdx| #[trigger] vs1.contains(u) <==> s1.tours@.contains_key(u) by {
        assert(vs.contains(u) <==> s.tours@.contains_key(u));
        lemma_maps_at(s, segment, v, s1, u);
        reveal(Schedule::maps_at);
    }
}
/// the listing of the result IS exact (listing_exact = the two conjuncts of sched_ok that say what the listing is; formerly the premise
/// A-listing): it follows the grouped id lists (lemma_listing_follows_holds), and the listing of `self` was exact (sched_ok)
pub proof fn lemma_listing_exact_holds(s: &Schedule, segment: Segment, v: VehicleIdx, s1: &Schedule)
    requires s.rs_ok(), s.rs_effect(segment, v, s1),
    ensures s.listing_follows(segment, v, s1), listing_exact(s1),
{
    hide(Schedule::rs_ok);
    hide(Schedule::rs_effect);
    hide(Schedule::listing_follows);
    hide(listing_exact);
    lemma_listing_follows_holds(s, segment, v, s1);
    lemma_listing_follows(s, segment, v, s1);
}
/// the listed tours' costs after one step: the duplicate-free listing vs1 lists the vehicles of the duplicate-free listing vs --
/// but v if `gone` --, the tours of all vehicles but v are the same
pub proof fn lemma_costs_step(t0: TourMap, t1: TourMap, vs: Seq<VehicleIdx>, vs1: Seq<VehicleIdx>, v: VehicleIdx, gone: bool)
    requires
        vs.no_duplicates(), vs1.no_duplicates(), vs.contains(v),
        forall|u: VehicleIdx| u != v && #[trigger] vs.contains(u) ==> t1[u] == t0[u],
        forall|u: VehicleIdx| #[trigger] vs1.contains(u) <==> vs.contains(u) && !(gone && u == v),
    ensures
        gone ==> vs1.len() == vs.len() - 1 && tours_costs(t1, vs1) == tours_costs(t0, vs) - t0[v].costs,
        !gone ==> vs1.len() == vs.len() && tours_costs(t1, vs1) == tours_costs(t0, vs) - t0[v].costs + t1[v].costs,
{
    let n = vs.len() as int;
    let p = choose|p: int| 0 <= p < vs.len() && vs[p] == v;
    assert forall|j: int| 0 <= j < vs.len() && j != p implies t1[#[trigger] vs[j]] == t0[vs[j]] by {
        assert(vs[j] != vs[p]);
        assert(vs.contains(vs[j]));
    }
    if gone {
        let d = vs.remove(p);
        lemma_remove_contains(vs, p);
        lemma_pre_costs_perm(t1, vs1, d);
        lemma_pre_costs_remove(t0, t1, vs, p, n - 1);
        if n - 1 <= p { assert(p == n - 1); }
        assert(pre_costs(t0, vs, n) == pre_costs(t0, vs, n - 1) + t0[vs[n - 1]].costs as int);
    } else {
        lemma_pre_costs_perm(t1, vs1, vs);
        lemma_pre_costs_update(t0, t1, vs, p, n);
    }
}
/// CLOSURE, sched_ok (listing, C09 costs): the listing of the result is duplicate-free and matches the stored tours (listing_exact:
/// lemma_listing_exact_holds; no premise any more), at most 2^17 vehicles, the costs cover the tours' costs
pub proof fn lemma_closure_listing(s: &Schedule, segment: Segment, v: VehicleIdx, s1: &Schedule)
    requires s.rs_ok(), s.rs_effect(segment, v, s1),
    ensures listing_exact(s1), s1.so_listing(), s1.so_costs_cover(),
{
    hide(Schedule::rs_ok);
    hide(Schedule::rs_effect);
    hide(Schedule::so_vehicles);
    hide(Schedule::so_network);
    hide(Schedule::whole_tour);
    hide(Schedule::maps_at);
    hide(Schedule::listing_follows);
    lemma_listing_exact_holds(s, segment, v, s1);
    lemma_so_parts(s);
    lemma_effect_costs(s, segment, v, s1);
    let vs = sched_vehicles(s);
    let vs1 = sched_vehicles(s1);
    let gone = s.whole_tour(segment, v);
    lemma_maps_at(s, segment, v, s1, v);
    assert(s.tours@.contains_key(v)) by { reveal(Schedule::maps_at); }
    assert(vs.contains(v));
    assert forall|u: VehicleIdx| u != v && #[trigger] vs.contains(u) implies s1.tours@[u] == s.tours@[u] by {
        assert(s.tours@.contains_key(u));
        lemma_maps_at(s, segment, v, s1, u);
        reveal(Schedule::maps_at);
    }
    assert forall|u: VehicleIdx| #[trigger] vs1.contains(u) <==> vs.contains(u) && !(gone && u == v) by {
        assert(vs.contains(u) <==> s.tours@.contains_key(u));
        assert(vs1.contains(u) <==> s1.tours@.contains_key(u));
        lemma_maps_at(s, segment, v, s1, u);
        reveal(Schedule::maps_at);
    }
    lemma_costs_step(s.tours@, s1.tours@, vs, vs1, v, gone);
}

// ---- listed_ok, vehicle by vehicle -------------------------------------------------------------------------
/// an id list that loses one occurrence of v keeps every other id
pub proof fn lemma_lose_keeps(l: Seq<VehicleIdx>, l1: Seq<VehicleIdx>, v: VehicleIdx, u: VehicleIdx)
    requires ids_lose(l, l1, v), l.contains(u), u != v,
    ensures l1.contains(u),
{
    let p = choose|p: int| 0 <= p < l.len() && l[p] == v && l1 == #[trigger] l.remove(p);
    let i = choose|i: int| 0 <= i < l.len() && l[i] == u;
    if i < p { assert(l.remove(p)[i] == u); } else { assert(l.remove(p)[i - 1] == u); }
}
/// C10 listings: the id lists keep listing (sorted) every vehicle that stays
pub proof fn lemma_closure_listed(s: &Schedule, segment: Segment, v: VehicleIdx, s1: &Schedule)
    requires s.rs_ok(), s.rs_effect(segment, v, s1),
    ensures s.listings_kept(s1),
{
    hide(Schedule::rs_ok);
    hide(Schedule::rs_effect);
    hide(Schedule::listed_ok);
    assert forall|u: VehicleIdx| s.vehicles@.contains_key(u) && s.listed_ok(u) && #[trigger] s1.vehicles@.contains_key(u) implies s1.listed_ok(u) by {
        lemma_listed_at(s, segment, v, s1, u);
    }
}
/// ... for one vehicle
pub proof fn lemma_listed_at(s: &Schedule, segment: Segment, v: VehicleIdx, s1: &Schedule, u: VehicleIdx)
    requires s.rs_ok(), s.rs_effect(segment, v, s1), s.vehicles@.contains_key(u), s.listed_ok(u), s1.vehicles@.contains_key(u),
    ensures s1.listed_ok(u),
{
    hide(Schedule::rs_ok);
    hide(Schedule::rs_effect);
    hide(Schedule::whole_tour);
    hide(ids_lose);
    hide(sorted_cmp);
    lemma_effect_grouped(s, segment, v, s1);
    lemma_maps_at(s, segment, v, s1, u);
    let ty = s.type_of(v);
    let tu = s.type_of(u);
    let g0 = s.vehicle_ids_grouped_and_sorted@;
    let g1 = s1.vehicle_ids_grouped_and_sorted@;
    assert(s1.type_of(u) == tu);
    if s.whole_tour(segment, v) {
        assert(g1 == g0.insert(ty, g1[ty]));
        if tu == ty {
            assert(u != v);
            lemma_lose_keeps(s.listing(ty), g1[ty]@, v, u);
        } else {
            assert(g1.contains_key(tu) && g1[tu] == g0[tu]);
        }
    } else {
        assert(g1 == g0);
    }
}

// ---- rs_ok -------------------------------------------------------------------------------------------------
/// CLOSURE, the whole bundle: under the magnitude hypothesis on the result's costs (it holds in the whole-tour case: the costs
/// shrink) the result satisfies rs_ok again (no premise about the listing any more: lemma_closure_listing)
pub proof fn lemma_closure_rs_ok(s: &Schedule, segment: Segment, v: VehicleIdx, s1: &Schedule)
    requires s.rs_ok(), s.rs_effect(segment, v, s1), s1.costs <= sched_cost_bound(),
    ensures s1.rs_ok(),
{
    hide(Schedule::rs_effect);
    hide(Schedule::sched_ok);
    hide(Schedule::formations_ok);
    hide(Schedule::transitions_ok);
    hide(Schedule::so_network);
    hide(Schedule::so_vehicles);
    hide(Schedule::so_listing);
    hide(Schedule::so_costs_cover);
    hide(Schedule::formations_follow);
    hide(Schedule::transitions_follow);
    hide(Schedule::removes);
    hide(Schedule::removed_nodes);
    hide(listing_exact);
    hide(ids_valid);
    hide(usage_exact);
    lemma_effect_basic(s, segment, v, s1);
    lemma_closure_vehicles(s, segment, v, s1);
    lemma_closure_formations(s, segment, v, s1);
    lemma_closure_transitions(s, segment, v, s1);
    lemma_closure_listing(s, segment, v, s1);
    lemma_sched_ok_split(s1);
}
/// the closure clauses for every result that the effect clauses of the contract describe (the form the body of
/// remove_segment uses: both of its exits -- the delegation to replace_vehicle_by_dummy and Schedule::new -- are tails)
pub proof fn lemma_closure(s: &Schedule, segment: Segment, v: VehicleIdx)
    requires s.rs_ok(),
    ensures
        forall|s1: Schedule| #![trigger s1.so_network()] #![trigger s1.so_vehicles()] #![trigger s1.formations_ok()] #![trigger s1.transitions_ok()] #![trigger s.listings_kept(&s1)]
            s.rs_effect(segment, v, &s1) ==> s1.so_network() && s1.so_vehicles() && s1.formations_ok() && s1.transitions_ok() && s.listings_kept(&s1),
        forall|s1: Schedule| #![trigger s1.so_listing()] #![trigger s1.so_costs_cover()] #![trigger s1.rs_ok()] #![trigger listing_exact(&s1)] #![trigger s.listing_follows(segment, v, &s1)]
            s.rs_effect(segment, v, &s1)
                ==> s.listing_follows(segment, v, &s1) && listing_exact(&s1) && s1.so_listing() && s1.so_costs_cover() && (s1.costs <= sched_cost_bound() ==> s1.rs_ok()),
{
    hide(Schedule::rs_ok);
    hide(Schedule::rs_effect);
    hide(Schedule::formations_ok);
    hide(Schedule::transitions_ok);
    hide(Schedule::so_vehicles);
    hide(Schedule::so_listing);
    hide(Schedule::so_costs_cover);
    hide(Schedule::so_network);
    hide(Schedule::listing_follows);
    hide(Schedule::listings_kept);
    hide(listing_exact);
    assert forall|s1: Schedule| #![trigger s1.so_network()] #![trigger s1.so_vehicles()] #![trigger s1.formations_ok()] #![trigger s1.transitions_ok()] #![trigger s.listings_kept(&s1)]
        s.rs_effect(segment, v, &s1) implies s1.so_network() && s1.so_vehicles() && s1.formations_ok() && s1.transitions_ok() && s.listings_kept(&s1) by {
        lemma_closure_vehicles(s, segment, v, &s1);
        lemma_closure_formations(s, segment, v, &s1);
        lemma_closure_transitions(s, segment, v, &s1);
        lemma_closure_listed(s, segment, v, &s1);
    }
    assert forall|s1: Schedule| #![trigger s1.so_listing()] #![trigger s1.so_costs_cover()] #![trigger s1.rs_ok()] #![trigger listing_exact(&s1)] #![trigger s.listing_follows(segment, v, &s1)]
        s.rs_effect(segment, v, &s1)
        implies s.listing_follows(segment, v, &s1) && listing_exact(&s1) && s1.so_listing() && s1.so_costs_cover() && (s1.costs <= sched_cost_bound() ==> s1.rs_ok()) by {
        lemma_listing_exact_holds(s, segment, v, &s1);
        lemma_closure_listing(s, segment, v, &s1);
        if s1.costs <= sched_cost_bound() { lemma_closure_rs_ok(s, segment, v, &s1); }
    }
}
