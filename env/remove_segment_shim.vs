// ---- environment of the slice `remove_segment` --------------------------------------------------------
// Included inside `pub mod tr { … }` after env/im_shim.vs, env/transition_spec.vs, env/schedule_shim.vs and
// env/sched_guard_shim.vs.  Everything `assume_specification` / `external_body` / `uninterp` in this file
// is an ASSUMPTION (listed in the header of slices/remove_segment.vs).
use vstd::std_specs::cmp::OrdSpec;

// A-display: `{}` of a Segment (hand written Display impl of the repository; a no-op outside verus!)
impl vstd::std_specs::fmt::DisplaySpecImpl for Segment {
    open spec fn fmt_req(&self, f: &std::fmt::Formatter<'_>) -> bool { true }
}

// ---- A-derive: derived PartialOrd / Ord of VehicleIdx (variant order, then the index) ------------------
pub open spec fn vidx_rank(v: VehicleIdx) -> int {
    match v { VehicleIdx::Vehicle(i) => i as int, VehicleIdx::Dummy(i) => 0x10000 + i as int }
}
impl vstd::std_specs::cmp::PartialOrdSpecImpl for VehicleIdx {
    open spec fn obeys_partial_cmp_spec() -> bool { true }
    open spec fn partial_cmp_spec(&self, other: &VehicleIdx) -> Option<core::cmp::Ordering> { Some(int_cmp(vidx_rank(*self), vidx_rank(*other))) }
}
impl vstd::std_specs::cmp::OrdSpecImpl for VehicleIdx {
    open spec fn obeys_cmp_spec() -> bool { true }
    open spec fn cmp_spec(&self, other: &VehicleIdx) -> core::cmp::Ordering { int_cmp(vidx_rank(*self), vidx_rank(*other)) }
}

// ---- A-std7: `<[T]>::binary_search`, `Result::unwrap_or_else` (belong into env/std_specs.vs) -----------
/// sorted w.r.t. `Ord::cmp` (non-strict)
pub open spec fn sorted_cmp<T: Ord>(s: Seq<T>) -> bool {
    forall|i: int, j: int| #![trigger s[i], s[j]] 0 <= i < j < s.len() ==> !(s[i].cmp_spec(&s[j]) is Greater)
}
/// what `binary_search` returns on a sorted slice
pub open spec fn bsearch_post<T: Ord>(s: Seq<T>, x: T, r: Result<usize, usize>) -> bool {
    match r {
        Ok(i) => i < s.len() && s[i as int].cmp_spec(&x) is Equal,
        Err(i) => i <= s.len()
            && (forall|j: int| 0 <= j < i ==> (#[trigger] s[j]).cmp_spec(&x) is Less)
            && (forall|j: int| i <= j < s.len() ==> (#[trigger] s[j]).cmp_spec(&x) is Greater),
    }
}
/// the position it reports (found at / to be inserted at)
pub open spec fn bs_pos(r: Result<usize, usize>) -> int { (match r { Ok(i) => i, Err(i) => i }) as int }
/// std: "Binary searches this slice for a given element.  If the slice is not sorted, the returned result is
/// unspecified and meaningless.  If the value is found then Result::Ok is returned, containing the index of
/// the matching element.  If there are multiple matches, then any one of the matches could be returned.  If
/// the value is not found then Result::Err is returned, containing the index where a matching element could
/// be inserted while maintaining sorted order."
pub assume_specification<T: Ord>[ <[T]>::binary_search ](s: &[T], x: &T) -> (r: Result<usize, usize>)
    ensures sorted_cmp(s@) ==> bsearch_post(s@, *x, r);
/// std: "Returns the contained Ok value or computes it from a closure."
pub assume_specification<T, E, F: FnOnce(E) -> T>[ Result::<T, E>::unwrap_or_else ](a: Result<T, E>, f: F) -> (r: T)
    requires a is Err ==> f.requires((a->Err_0,)),
    ensures a is Ok ==> r == a->Ok_0, a is Err ==> f.ensures((a->Err_0,), r);

// ---- the sorted list of dummy ids ---------------------------------------------------------------------
/// `new` is `old` with `id` put in at some position
pub open spec fn ids_gain(old: Seq<VehicleIdx>, new: Seq<VehicleIdx>, id: VehicleIdx) -> bool {
    exists|p: int| 0 <= p <= old.len() && new == #[trigger] old.insert(p, id)
}
/// putting x where binary_search says keeps the list sorted
pub proof fn lemma_sorted_insert(s: Seq<VehicleIdx>, x: VehicleIdx, r: Result<usize, usize>)
    requires sorted_cmp(s), bsearch_post(s, x, r),
    ensures 0 <= bs_pos(r) <= s.len() && sorted_cmp(s.insert(bs_pos(r), x)),
{
    let p = bs_pos(r);
    let t = s.insert(p, x);
    assert forall|i: int, j: int| #![trigger t[i], t[j]] 0 <= i < j < t.len() implies !(t[i].cmp_spec(&t[j]) is Greater) by {
        let a = if i < p { i } else { i - 1 };
        let b = if j < p { j } else { j - 1 };
        if i != p && j != p {
            assert(t[i] == s[a] && t[j] == s[b]);
            assert(!(s[a].cmp_spec(&s[b]) is Greater));
        } else if i == p {
            assert(t[j] == s[b]);
            if r is Ok && b > p { assert(!(s[p].cmp_spec(&s[b]) is Greater)); }
        } else {
            assert(t[i] == s[a]);
            if r is Ok { assert(!(s[a].cmp_spec(&s[p]) is Greater)); }
        }
    }
}

// =====================================================================================================
// depot usage vocabulary (C09 last part): text copied from env/depot_usage_shim.vs, which cannot be
// included next to env/schedule_shim.vs (both declare the im::HashSet shim and the Vehicle type)
// =====================================================================================================
/// the abstract depot usage: (depot, type) -> (vehicles spawned there, vehicles despawned there)
pub type UsageMap = Map<(DepotIdx, VehicleTypeIdx), (HashSet<VehicleIdx>, HashSet<VehicleIdx>)>;
pub type VehicleMap = Map<VehicleIdx, Vehicle>;
pub type TourMap = Map<VehicleIdx, Tour>;

/// `usage(d, vt).0`; "absent keys count as empty sets"
pub open spec fn sp_spawned(du: UsageMap, d: DepotIdx, vt: VehicleTypeIdx) -> Set<VehicleIdx> {
    if du.contains_key((d, vt)) { du[(d, vt)].0@ } else { Set::empty() }
}
/// `usage(d, vt).1`; "absent keys count as empty sets"
pub open spec fn sp_despawned(du: UsageMap, d: DepotIdx, vt: VehicleTypeIdx) -> Set<VehicleIdx> {
    if du.contains_key((d, vt)) { du[(d, vt)].1@ } else { Set::empty() }
}
/// the depot a start / end depot node belongs to
pub open spec fn sp_depot_idx_of(net: &Network, n: NodeIdx) -> DepotIdx {
    match net.sp_node(n) {
        Node::StartDepot((_, d)) => d.depot_idx,
        Node::EndDepot((_, d)) => d.depot_idx,
        _ => arbitrary(),
    }
}
/// "v in V of type vt whose tour's start depot node belongs to depot d"
pub open spec fn starts_at(net: &Network, vehicles: VehicleMap, tours: TourMap, v: VehicleIdx, d: DepotIdx, vt: VehicleTypeIdx) -> bool {
    &&& vehicles.contains_key(v) && tours.contains_key(v)
    &&& vehicles[v].vehicle_type.idx == vt
    &&& sp_depot_idx_of(net, sp_start_depot(&tours[v])) == d
}
/// "… whose tour's end depot node belongs to depot d"
pub open spec fn ends_at(net: &Network, vehicles: VehicleMap, tours: TourMap, v: VehicleIdx, d: DepotIdx, vt: VehicleTypeIdx) -> bool {
    &&& vehicles.contains_key(v) && tours.contains_key(v)
    &&& vehicles[v].vehicle_type.idx == vt
    &&& sp_depot_idx_of(net, sp_end_depot(&tours[v])) == d
}
/// the same, read per vehicle: v is in exactly the sets it belongs to
pub open spec fn usage_exact_for(du: UsageMap, net: &Network, vehicles: VehicleMap, tours: TourMap, v: VehicleIdx) -> bool {
    &&& forall|d: DepotIdx, vt: VehicleTypeIdx| (#[trigger] sp_spawned(du, d, vt)).contains(v) <==> starts_at(net, vehicles, tours, v, d, vt)
    &&& forall|d: DepotIdx, vt: VehicleTypeIdx| (#[trigger] sp_despawned(du, d, vt)).contains(v) <==> ends_at(net, vehicles, tours, v, d, vt)
}
/// C09: the usage table has its from-scratch value for the real vehicles `vehicles` with tours `tours`
pub open spec fn usage_exact(du: UsageMap, net: &Network, vehicles: VehicleMap, tours: TourMap) -> bool {
    forall|v: VehicleIdx| #[trigger] usage_exact_for(du, net, vehicles, tours, v)
}
/// the entries of every vehicle but v are the same in both tables
pub open spec fn usage_same_except(du0: UsageMap, du1: UsageMap, v: VehicleIdx) -> bool {
    &&& forall|d: DepotIdx, vt: VehicleTypeIdx, u: VehicleIdx| u != v ==>
            ((#[trigger] sp_spawned(du1, d, vt).contains(u)) <==> sp_spawned(du0, d, vt).contains(u))
    &&& forall|d: DepotIdx, vt: VehicleTypeIdx, u: VehicleIdx| u != v ==>
            ((#[trigger] sp_despawned(du1, d, vt).contains(u)) <==> sp_despawned(du0, d, vt).contains(u))
}
/// C09 ("… equal their from-scratch value after any modification"), one step of a modification: the
/// table was exact for the old vehicles / tours, vehicle v (and only v) changed, the table was brought
/// up to date for v and left alone for everybody else: it is exact for the new vehicles / tours
pub proof fn lemma_usage_exact_step(du0: UsageMap, du1: UsageMap, net: &Network,
        vehicles0: VehicleMap, tours0: TourMap, vehicles1: VehicleMap, tours1: TourMap, v: VehicleIdx)
    requires
        usage_exact(du0, net, vehicles0, tours0),
        usage_exact_for(du1, net, vehicles1, tours1, v),
        usage_same_except(du0, du1, v),
        forall|u: VehicleIdx| #![trigger vehicles1.contains_key(u)] #![trigger vehicles1[u]] u != v ==> (vehicles1.contains_key(u) <==> vehicles0.contains_key(u)) && vehicles1[u] == vehicles0[u],
        forall|u: VehicleIdx| #![trigger tours1.contains_key(u)] #![trigger tours1[u]] u != v ==> (tours1.contains_key(u) <==> tours0.contains_key(u)) && tours1[u] == tours0[u],
    ensures
        usage_exact(du1, net, vehicles1, tours1),
{
    assert forall|u: VehicleIdx| #[trigger] usage_exact_for(du1, net, vehicles1, tours1, u) by {
        if u != v {
            assert(usage_exact_for(du0, net, vehicles0, tours0, u));
            assert forall|d: DepotIdx, vt: VehicleTypeIdx| (#[trigger] sp_spawned(du1, d, vt)).contains(u) <==> starts_at(net, vehicles1, tours1, u, d, vt) by {
                assert(sp_spawned(du1, d, vt).contains(u) <==> sp_spawned(du0, d, vt).contains(u));
            }
            assert forall|d: DepotIdx, vt: VehicleTypeIdx| (#[trigger] sp_despawned(du1, d, vt)).contains(u) <==> ends_at(net, vehicles1, tours1, u, d, vt) by {
                assert(sp_despawned(du1, d, vt).contains(u) <==> sp_despawned(du0, d, vt).contains(u));
            }
        }
    }
}
/// a real well-formed tour over the network `net` (text as in slices/depot_usage.vs)
pub open spec fn tour_of_net(net: &Network, t: &Tour) -> bool { t.wf() && !t.is_dummy && *t.network == *net }
impl Schedule {
    /// a real vehicle of this schedule (text as in slices/depot_usage.vs)
    pub open spec fn sp_is_vehicle(&self, v: VehicleIdx) -> bool { self.vehicles@.contains_key(v) }
    pub open spec fn sp_is_dummy(&self, v: VehicleIdx) -> bool { self.dummy_tours@.contains_key(v) }
    /// part of C10 (schedule validity): a real vehicle has a real (non-dummy) well-formed tour over the
    /// schedule's network
    pub open spec fn real_tour_ok(&self, v: VehicleIdx) -> bool {
        self.tours@.contains_key(v) && tour_of_net(&self.network, &self.tours@[v])
    }
}

// =====================================================================================================
// train formations (C13: "removals keep the order"): vocabulary copied from slices/admission.vs (needed by
// env/train_formation_update_shim.vs, which the slice includes after this file)
// =====================================================================================================
/// passenger capacity / seats of a formation: the sums over its vehicles
pub open spec fn fcap(f: Seq<Vehicle>) -> int { isum(f.map_values(|v: Vehicle| v.vehicle_type.capacity as int)) }
pub open spec fn fseats(f: Seq<Vehicle>) -> int { isum(f.map_values(|v: Vehicle| v.vehicle_type.seats as int)) }
/// position of the first vehicle with the given id (s.len() if there is none)
pub open spec fn first_pos(s: Seq<Vehicle>, v: VehicleIdx) -> int
    decreases s.len(),
{
    if s.len() == 0 { 0 } else if s[0].idx == v { 0 } else { 1 + first_pos(s.drop_first(), v) }
}
pub open spec fn has_vehicle(s: Seq<Vehicle>, v: VehicleIdx) -> bool {
    exists|i: int| 0 <= i < s.len() && #[trigger] s[i].idx == v
}
/// C02: "the smaller of its vehicle type's and its route segment's maximal formation count",
/// over the limits that are present; no limit iff neither is given
pub open spec fn combined_limit(type_limit: Option<VehicleCount>, segment_limit: Option<VehicleCount>) -> Option<VehicleCount> {
    match (type_limit, segment_limit) {
        (Some(a), Some(b)) => Some(if a <= b { a } else { b }),
        (Some(a), None) => Some(a),
        (None, Some(b)) => Some(b),
        (None, None) => None,
    }
}
impl Network {
    pub open spec fn sp_trip(&self, n: NodeIdx) -> ServiceTrip { self.sp_node(n)->Service_0.1 }
    pub open spec fn is_trip(&self, n: NodeIdx) -> bool {
        self.has(n) && self.sp_node(n) is Service && self.vehicle_types.vehicle_types@.contains_key(self.sp_trip(n).vehicle_type)
    }
}
impl Schedule {
    /// the formation grows: the receiver is a real vehicle and the provider is None or a dummy
    pub open spec fn grows(&self, provider: Option<VehicleIdx>, receiver: Option<Vehicle>) -> bool {
        receiver is Some && !self.sp_is_dummy(receiver.unwrap().idx) && !(provider is Some && !self.sp_is_dummy(provider.unwrap()))
    }
    /// a real receiver takes the position of a real provider
    pub open spec fn replaces(&self, provider: Option<VehicleIdx>, receiver: Option<Vehicle>) -> bool {
        receiver is Some && !self.sp_is_dummy(receiver.unwrap().idx) && provider is Some && !self.sp_is_dummy(provider.unwrap())
    }
    /// a real provider leaves, nobody (or a dummy) takes over
    pub open spec fn shrinks(&self, provider: Option<VehicleIdx>, receiver: Option<Vehicle>) -> bool {
        !(receiver is Some && !self.sp_is_dummy(receiver.unwrap().idx)) && provider is Some && !self.sp_is_dummy(provider.unwrap())
    }
    /// C02: the number of vehicles a node may host: its tracks for a maintenance slot, the smaller of the
    /// type's and the route segment's maximal formation count for a service trip; None = unlimited
    pub open spec fn sp_node_limit(&self, node: NodeIdx) -> Option<VehicleCount> {
        match self.network.sp_node(node) {
            Node::Maintenance((_, m)) => Some(m.track_count),
            Node::Service((_, s)) => combined_limit(
                self.network.vehicle_types.vehicle_types@[s.vehicle_type].maximal_formation_count,
                s.maximal_formation_count),
            _ => None,
        }
    }
}
/// node n is an activity among the moved nodes
pub open spec fn moved_activity(net: &Network, moved: Seq<NodeIdx>, n: NodeIdx) -> bool {
    moved.contains(n) && net.sp_node(n).sp_is_activity()
}

// =====================================================================================================
// dummy tours: the service trips of a path, in order
// =====================================================================================================
pub open spec fn svc_mask(net: &Network, s: Seq<NodeIdx>) -> Seq<bool> { Seq::new(s.len(), |i: int| net.sp_node(s[i]) is Service) }
/// the service trips among the nodes s, in order
pub open spec fn svc_filter(net: &Network, s: Seq<NodeIdx>) -> Seq<NodeIdx> { mask_filter(s, svc_mask(net, s)) }
pub open spec fn has_service(net: &Network, s: Seq<NodeIdx>) -> bool {
    exists|i: int| 0 <= i < s.len() && #[trigger] net.sp_node(s[i]) is Service
}

/// what `retain(is_service)` leaves: the service trips in order; none iff there is no service trip
pub proof fn lemma_svc_filter(net: &Network, s: Seq<NodeIdx>, out: Seq<NodeIdx>)
    requires
        all_in_net(net, s),
        exists|mask: Seq<bool>| #![trigger mask_filter(s, mask)] mask.len() == s.len()
            && (forall|i: int| 0 <= i < mask.len() ==> #[trigger] mask[i] == (net.sp_node(s[i]) is Service))
            && out == mask_filter(s, mask),
    ensures
        out == svc_filter(net, s),
        out.len() == 0 <==> !has_service(net, s),
        out.len() <= s.len(),
        all_in_net(net, out),
{
    let mask = choose|mask: Seq<bool>| #![trigger mask_filter(s, mask)] mask.len() == s.len()
        && (forall|i: int| 0 <= i < mask.len() ==> #[trigger] mask[i] == (net.sp_node(s[i]) is Service))
        && out == mask_filter(s, mask);
    assert(mask =~= svc_mask(net, s));
    lemma_mask_filter_sel(s, mask);
    if has_service(net, s) {
        let i = choose|i: int| 0 <= i < s.len() && #[trigger] net.sp_node(s[i]) is Service;
        assert(mask[i] && s[i] == s[i]);
        assert(out.contains(s[i]));
    }
    if out.len() > 0 {
        assert(out.contains(out[0]));
        let p = choose|p: int| 0 <= p < s.len() && mask[p] && #[trigger] s[p] == out[0];
        assert(net.sp_node(s[p]) is Service);
    }
    assert forall|j: int| 0 <= j < out.len() implies #[trigger] net.has(out[j]) by {
        assert(out.contains(out[j]));
        let p = choose|p: int| 0 <= p < s.len() && mask[p] && #[trigger] s[p] == out[j];
        assert(net.has(s[p]));
    }
}

// =====================================================================================================
// Schedule::remove_segment: validity of the schedule as far as the operation needs it, and its effect
// =====================================================================================================
pub open spec fn ids_valid(vehicles: VehicleMap, tours: TourMap, dummies: TourMap, ids: Seq<VehicleIdx>, counter: usize) -> bool {
    &&& forall|v: VehicleIdx| #[trigger] vehicles.contains_key(v) ==> v is Vehicle && vehicles[v].idx == v
    &&& forall|v: VehicleIdx| #[trigger] vehicles.contains_key(v) <==> tours.contains_key(v)
    &&& forall|d: VehicleIdx| #[trigger] dummies.contains_key(d) ==> d is Dummy && (d->Dummy_0 as int) < counter
    &&& sorted_cmp(ids)
}
/// the outcome of Schedule::replace_vehicle_by_dummy (not under contract here)
pub uninterp spec fn spec_replace_by_dummy(s: &Schedule, v: VehicleIdx) -> Result<Schedule, String>;

impl Schedule {
    /// C10: ids.  Real vehicles are stored under their own id, an id of the `Vehicle` kind, and have a tour;
    /// dummy tours are stored under ids of the `Dummy` kind that were handed out already (index below the
    /// counter); the list of dummy ids is sorted
    pub open spec fn ids_ok(&self) -> bool {
        ids_valid(self.vehicles@, self.tours@, self.dummy_tours@, self.dummy_ids_sorted@, self.vehicle_counter)
    }
    /// C10: "each non-depot node is covered by exactly one train formation", which lists the vehicles whose
    /// tours contain the node
    pub open spec fn formations_ok(&self) -> bool {
        &&& forall|n: NodeIdx| self.network.has(n) && self.network.sp_node(n).sp_is_activity() ==> #[trigger] self.train_formations@.contains_key(n)
        &&& forall|v: VehicleIdx, i: int| self.tours@.contains_key(v) && 0 < i < self.tours@[v].nodes@.len() - 1
                ==> has_vehicle(self.train_formations@[#[trigger] self.tours@[v].nodes@[i]].formation@, v)
    }
    /// C15 / C10 / C09 for the rotation cycles: one transition per vehicle type of the network, consistent with
    /// the tours, holding exactly the vehicles of its type; the maintenance violation is their sum (these
    /// are the clauses of `upd_pre`, env/sched_guard_shim.vs, that speak about the old schedule only)
    pub open spec fn transitions_ok(&self) -> bool {
        let trs = self.next_period_transitions@;
        let vts = sched_types(self);
        &&& vts.no_duplicates()
        &&& forall|vt: VehicleTypeIdx| #[trigger] trs.contains_key(vt) <==> vts.contains(vt)
        &&& forall|vt: VehicleTypeIdx| #[trigger] trs.contains_key(vt) ==> trs[vt].wf(&self.network, self.tours@)
        &&& forall|vt: VehicleTypeIdx, v: VehicleIdx| #![trigger trs[vt].has_vehicle(v)] trs.contains_key(vt)
                ==> (trs[vt].has_vehicle(v) <==> self.vehicles@.contains_key(v) && self.type_of(v) == vt)
        &&& self.maintenance_violation as int == viol_sum(trs, vts)
        // magnitude: fewer than 2^17 vehicles (ids are 16 bit)
        &&& len_sum(trs, vts) < max_vehicles()
    }
    /// schedule-level validity as far as remove_segment needs it (part of C10, C09)
    pub open spec fn rs_ok(&self) -> bool {
        &&& self.sched_ok()
        &&& self.ids_ok()
        &&& self.formations_ok()
        &&& self.transitions_ok()
        &&& usage_exact(self.depot_usage@, &self.network, self.vehicles@, self.tours@)
    }

    // ---- the segment in the provider's tour (vocabulary of Tour::remove's contract) ----------------------
    pub open spec fn seg_lo(&self, segment: Segment, v: VehicleIdx) -> int { self.tours@[v].index_of(segment.start) }
    pub open spec fn seg_hi(&self, segment: Segment, v: VehicleIdx) -> int { self.tours@[v].index_of(segment.end) }
    /// C12: Tour::remove accepts the segment
    pub open spec fn seg_removable(&self, segment: Segment, v: VehicleIdx) -> bool {
        self.tours@[v].has_node(segment.start) && self.tours@[v].has_node(segment.end)
            && self.tours@[v].removable(self.seg_lo(segment, v), self.seg_hi(segment, v))
    }
    /// the nodes the provider loses / keeps
    pub open spec fn removed_nodes(&self, segment: Segment, v: VehicleIdx) -> Seq<NodeIdx> {
        self.tours@[v].mid(self.seg_lo(segment, v), self.seg_hi(segment, v) + 1)
    }
    pub open spec fn kept_nodes(&self, segment: Segment, v: VehicleIdx) -> Seq<NodeIdx> {
        self.tours@[v].rest(self.seg_lo(segment, v), self.seg_hi(segment, v) + 1)
    }
    /// the operation gets as far as cutting the tour
    pub open spec fn removes(&self, segment: Segment, v: VehicleIdx) -> bool {
        self.vehicles@.contains_key(v) && self.seg_removable(segment, v)
    }
    /// A-counter (magnitude): the maintenance counter of the shrunk tour is small (the counter is an
    /// uninterpreted atom of the rotation-cycle vocabulary, env/transition_spec.vs)
    pub open spec fn shrunk_counter_ok(&self, segment: Segment, v: VehicleIdx) -> bool {
        forall|t: Tour| t.nodes@ == self.kept_nodes(segment, v) && tour_of_net(&self.network, &t) && t.caches_ok()
            ==> -counter_bound() <= #[trigger] tour_counter(&t) <= counter_bound()
    }
    /// the id the next new dummy tour gets
    pub open spec fn next_dummy_id(&self) -> VehicleIdx { VehicleIdx::Dummy(self.vehicle_counter as Idx) }

    // ---- C13: the documented effect, clause by clause (the branch where the provider keeps a tour) ------
    /// "the provider loses exactly the moved nodes"
    pub open spec fn provider_shrunk(&self, segment: Segment, v: VehicleIdx, tours1: TourMap) -> bool {
        &&& tours1.contains_key(v)
        &&& tours1[v].nodes@ == self.kept_nodes(segment, v)
        &&& tours1[v].is_dummy == self.tours@[v].is_dummy && tours1[v].network == self.tours@[v].network
        &&& tours1[v].wf() && tours1[v].caches_ok()
    }
    /// "all other vehicles' tours … stay untouched"
    pub open spec fn other_tours_untouched(&self, v: VehicleIdx, tours1: TourMap) -> bool {
        &&& forall|u: VehicleIdx| #[trigger] tours1.contains_key(u) <==> self.tours@.contains_key(u)
        &&& forall|u: VehicleIdx| u != v && self.tours@.contains_key(u) ==> #[trigger] tours1[u] == self.tours@[u]
    }
    /// "removed service trips are handed back in a new dummy tour": a new dummy tour under the next id
    /// holds exactly the removed service trips in order; all other dummy tours are untouched; the sorted
    /// id list gains exactly this id
    pub open spec fn trips_handed_back(&self, removed: Seq<NodeIdx>, dummies1: TourMap, ids1: Seq<VehicleIdx>) -> bool {
        let id = self.next_dummy_id();
        &&& !self.dummy_tours@.contains_key(id)
        &&& dummies1.contains_key(id)
        &&& dummies1 == self.dummy_tours@.insert(id, dummies1[id])
        &&& dummies1[id].nodes@ == svc_filter(&self.network, removed) && dummies1[id].is_dummy && dummies1[id].network == self.network
        &&& dummies1[id].caches_ok()
        &&& ids_gain(self.dummy_ids_sorted@, ids1, id) && sorted_cmp(ids1)
    }
    /// "formations elsewhere stay untouched"; at the removed activities the provider leaves its formation,
    /// the others keep their order
    pub open spec fn formations_follow(&self, removed: Seq<NodeIdx>, v: VehicleIdx, tf1: Map<NodeIdx, TrainFormation>) -> bool {
        &&& forall|n: NodeIdx| #[trigger] tf1.contains_key(n) <==> self.train_formations@.contains_key(n)
        &&& forall|n: NodeIdx| !moved_activity(&self.network, removed, n) ==> #[trigger] tf1[n] == self.train_formations@[n]
        &&& forall|n: NodeIdx| moved_activity(&self.network, removed, n)
                ==> (#[trigger] tf1[n]).formation@ == self.train_formations@[n].formation@.remove(first_pos(self.train_formations@[n].formation@, v))
    }
    /// C09: the unserved-passenger pair changes by exactly - Σ unserved(old formation) + Σ unserved(new formation)
    /// over the removed nodes (vocabulary of env/train_formation_update_shim.vs)
    pub open spec fn unserved_follow(&self, removed: Seq<NodeIdx>, v: VehicleIdx, u1: (PassengerCount, PassengerCount)) -> bool {
        let tf0 = self.train_formations@;
        let n = removed.len() as int;
        &&& u1.0 == self.unserved_passengers.0 - self.un_sum(tf0, Some(v), None, removed, n, false, 0) + self.un_sum(tf0, Some(v), None, removed, n, true, 0)
        &&& u1.1 == self.unserved_passengers.1 - self.un_sum(tf0, Some(v), None, removed, n, false, 1) + self.un_sum(tf0, Some(v), None, removed, n, true, 1)
    }
    /// C15 / C10 / C09: the rotation cycles follow the new tours; other vehicle types are untouched
    pub open spec fn transitions_follow(&self, v: VehicleIdx, trs1: Map<VehicleTypeIdx, Transition>, mv1: MaintenanceCounter, vehicles1: VehicleMap, tours1: TourMap) -> bool {
        &&& forall|vt: VehicleTypeIdx| self.next_period_transitions@.contains_key(vt) <==> #[trigger] trs1.contains_key(vt)
        &&& forall|vt: VehicleTypeIdx| #[trigger] trs1.contains_key(vt) ==> trs1[vt].wf(&self.network, tours1)
        &&& forall|vt: VehicleTypeIdx, u: VehicleIdx| #![trigger trs1[vt].has_vehicle(u)] trs1.contains_key(vt)
                ==> (trs1[vt].has_vehicle(u) <==> (vehicles1.contains_key(u) && vtype(vehicles1[u]) == vt))
        &&& mv1 as int == viol_sum(trs1, sched_types(self))
        &&& forall|vt: VehicleTypeIdx| #[trigger] trs1.contains_key(vt) && vt != self.type_of(v) ==> trs1[vt] == self.next_period_transitions@[vt]
    }
}

// ---- lemmas ---------------------------------------------------------------------------------------------
/// the cached costs of one listed tour are part of the sum
pub proof fn lemma_tour_cost_le(tours: TourMap, vs: Seq<VehicleIdx>, j: int, k: int)
    requires 0 <= j < k <= vs.len(),
    ensures tours[vs[j]].costs as int <= pre_costs(tours, vs, k),
    decreases k,
{
    if j < k - 1 { lemma_tour_cost_le(tours, vs, j, k - 1); }
    else { lemma_pre_costs_mono(tours, vs, 0, k - 1); }
}

/// what a valid schedule provides for a real vehicle and its tour
pub proof fn lemma_provider(s: &Schedule, v: VehicleIdx)
    requires s.rs_ok(), s.vehicles@.contains_key(v),
    ensures
        s.tours@.contains_key(v), s.has_tour(v), s.sp_tour_of(v) == s.tours@[v],
        s.tours@[v].wf(), s.tours@[v].caches_ok(), tour_len_ok(s.tours@[v].nodes@), !s.tours@[v].is_dummy,
        *s.tours@[v].network == *s.network, s.network.wf(),
        v is Vehicle, !s.sp_is_dummy(v), s.vehicles@[v].idx == v,
        s.tours@[v].costs <= s.costs <= sched_cost_bound(),
        s.real_tour_ok(v),
        usage_exact_for(s.depot_usage@, &s.network, s.vehicles@, s.tours@, v),
        sorted_cmp(s.dummy_ids_sorted@),
        s.vehicle_counter <= 0xffff ==> !s.dummy_tours@.contains_key(s.next_dummy_id()),
        s.ids_ok(),
{
    let vs = sched_vehicles(s);
    assert(s.tours@.contains_key(v));
    assert(s.vehicle_ok(v));
    assert(vs.contains(v));
    let j = choose|j: int| 0 <= j < vs.len() && vs[j] == v;
    lemma_tour_cost_le(s.tours@, vs, j, vs.len() as int);
    assert(usage_exact_for(s.depot_usage@, &s.network, s.vehicles@, s.tours@, v));
    if s.vehicle_counter <= 0xffff && s.dummy_tours@.contains_key(s.next_dummy_id()) {
        assert((s.next_dummy_id()->Dummy_0 as int) < s.vehicle_counter);
    }
}

/// the removed block: nodes of the network, pairwise distinct
pub proof fn lemma_removed_block(t: &Tour, s: int, e: int)
    requires t.wf(), 0 <= s <= e < t.len(), tour_len_ok(t.nodes@),
    ensures
        all_in_net(&t.network, t.mid(s, e + 1)),
        all_in_net(&t.network, t.rest(s, e + 1)),
        t.mid(s, e + 1).no_duplicates(),
        t.mid(s, e + 1).len() == e + 1 - s,
        len_ok(t.rest(s, e + 1)),
        forall|i: int| 0 <= i < e + 1 - s ==> #[trigger] t.mid(s, e + 1)[i] == t.nodes@[s + i],
{
    reveal(Tour::mid); reveal(Tour::rest);
    let m = t.mid(s, e + 1);
    let k = t.rest(s, e + 1);
    assert forall|i: int| 0 <= i < m.len() implies #[trigger] t.network.has(m[i]) by { assert(t.network.has(t.nodes@[s + i])); }
    assert forall|i: int| 0 <= i < k.len() implies #[trigger] t.network.has(k[i]) by {
        if i < s { assert(t.network.has(t.nodes@[i])); } else { assert(k[i] == t.nodes@[e + 1 + (i - s)]); assert(t.network.has(t.nodes@[e + 1 + (i - s)])); }
    }
    assert forall|i: int, j: int| 0 <= i < m.len() && 0 <= j < m.len() && i != j implies m[i] != m[j] by {
        if m[i] == m[j] { lemma_tour_distinct(t, s + i, s + j); }
    }
}

/// after Tour::remove accepted the segment and left a tour `nt`: what the bookkeeping steps need
pub proof fn lemma_cut(s: &Schedule, segment: Segment, v: VehicleIdx, nt: Tour)
    requires
        s.rs_ok(), s.removes(segment, v), s.shrunk_counter_ok(segment, v),
        nt.nodes@ == s.kept_nodes(segment, v), nt.network == s.tours@[v].network, nt.wf(), !nt.is_dummy, nt.caches_ok(),
    ensures
        all_in_net(&s.network, s.removed_nodes(segment, v)),
        s.removed_nodes(segment, v).no_duplicates(),
        len_ok(s.removed_nodes(segment, v)),
        // every removed activity is an inner node of the tour: it has a formation that lists the provider
        forall|n: NodeIdx| moved_activity(&s.network, s.removed_nodes(segment, v), n) ==> #[trigger] s.train_formations@.contains_key(n),
        forall|n: NodeIdx| moved_activity(&s.network, s.removed_nodes(segment, v), n) ==> has_vehicle((#[trigger] s.train_formations@[n]).formation@, v),
        s.costs + nt.costs <= u64::MAX,
        tour_of_net(&s.network, &nt),
        tour_ok(&s.network, &nt),
        // the provider leaves every formation it is removed from: the formation bookkeeping succeeds
        s.all_ok(s.train_formations@, Some(v), None, s.removed_nodes(segment, v), s.removed_nodes(segment, v).len() as int),
{
    lemma_provider(s, v);
    let t0 = s.tours@[v];
    let lo = s.seg_lo(segment, v);
    let hi = s.seg_hi(segment, v);
    let removed = s.removed_nodes(segment, v);
    assert(0 <= lo <= hi < t0.len());
    lemma_removed_block(&t0, lo, hi);
    assert forall|n: NodeIdx| moved_activity(&s.network, removed, n)
        implies s.train_formations@.contains_key(n) && has_vehicle(s.train_formations@[n].formation@, v) by {
        let i = choose|i: int| 0 <= i < removed.len() && removed[i] == n;
        assert(removed[i] == t0.nodes@[lo + i]);
        lemma_tour_kinds(&t0, lo + i);
        assert(0 < lo + i < t0.nodes@.len() - 1);
        assert(s.network.has(n));
        assert(has_vehicle(s.train_formations@[s.tours@[v].nodes@[lo + i]].formation@, v));
    }
    lemma_cost_bounds(&t0.network, nt.nodes@);
    assert(-counter_bound() <= tour_counter(&nt) <= counter_bound());
    let rv: Option<Vehicle> = None;
    assert(s.shrinks(Some(v), rv));
    assert forall|j: int| 0 <= j < removed.len() && !s.network.sp_node(#[trigger] removed[j]).sp_is_depot()
        implies s.repl_ok(s.train_formations@[removed[j]].formation@, Some(v), rv, removed[j]) by {
        assert(removed.contains(removed[j]));
        assert(moved_activity(&s.network, removed, removed[j]));
    }
}

/// C09: the usage table after the bookkeeping step for the provider
pub proof fn lemma_usage_step(s: &Schedule, du1: UsageMap, tours1: TourMap, v: VehicleIdx, nt: Tour)
    requires
        s.rs_ok(), tours1 == s.tours@.insert(v, nt),
        usage_exact_for(du1, &s.network, s.vehicles@, tours1, v),
        usage_same_except(s.depot_usage@, du1, v),
    ensures usage_exact(du1, &s.network, s.vehicles@, tours1),
{
    lemma_usage_exact_step(s.depot_usage@, du1, &s.network, s.vehicles@, s.tours@, s.vehicles@, tours1, v);
}

/// what the operation did to the maps that carry ids (the clauses of the contract that lemma_ids_stay_valid builds on)
pub open spec fn ids_step(s: &Schedule, v: VehicleIdx, tours1: TourMap, dummies1: TourMap, ids1: Seq<VehicleIdx>, counter1: usize, added: bool) -> bool {
    &&& s.ids_ok() && s.vehicles@.contains_key(v) && s.vehicle_counter <= 0xffff
    &&& tours1.contains_key(v) && s.other_tours_untouched(v, tours1)
    &&& added ==> dummies1 == s.dummy_tours@.insert(s.next_dummy_id(), dummies1[s.next_dummy_id()]) && sorted_cmp(ids1) && counter1 == s.vehicle_counter + 1
    &&& !added ==> dummies1 == s.dummy_tours@ && ids1 == s.dummy_ids_sorted@ && counter1 == s.vehicle_counter
}
/// C10: the ids stay valid
pub proof fn lemma_ids_stay_valid(s: &Schedule, v: VehicleIdx, tours1: TourMap, dummies1: TourMap, ids1: Seq<VehicleIdx>, counter1: usize, added: bool)
    requires ids_step(s, v, tours1, dummies1, ids1, counter1, added),
    ensures ids_valid(s.vehicles@, tours1, dummies1, ids1, counter1),
{
    assert forall|d: VehicleIdx| #[trigger] dummies1.contains_key(d) implies d is Dummy && (d->Dummy_0 as int) < counter1 by {
        if d != s.next_dummy_id() { assert(s.dummy_tours@.contains_key(d)); }
    }
}

/// the precondition of the rotation-cycle update for one shrunk tour
pub proof fn lemma_upd_pre(s: &Schedule, v: VehicleIdx, nt: Tour, tours1: TourMap)
    requires
        s.rs_ok(), s.vehicles@.contains_key(v),
        tours1 == s.tours@.insert(v, nt),
        tour_ok(&s.network, &nt),
    ensures
        // for `vec![v]`, whatever sequence of one item its view is
        forall|cv: Seq<VehicleIdx>| cv.len() == 1 && cv[0] == v
            ==> #[trigger] s.upd_pre(s.next_period_transitions@, s.maintenance_violation as int, cv, s.vehicles@, tours1),
        forall|cv: Seq<VehicleIdx>, vt: VehicleTypeIdx| cv.len() == 1 && cv[0] == v && vt != s.type_of(v)
            ==> !#[trigger] s.touches_type(s.vehicles@, cv, vt),
{
    lemma_provider(s, v);
    assert(s.vehicle_ok(v));
    lemma_upd_pre_0(s, v, nt, tours1);
    assert forall|cv: Seq<VehicleIdx>| cv.len() == 1 && cv[0] == v
        implies #[trigger] s.upd_pre(s.next_period_transitions@, s.maintenance_violation as int, cv, s.vehicles@, tours1) by {
        assert(cv =~= seq![v]);
    }
    assert forall|cv: Seq<VehicleIdx>, vt: VehicleTypeIdx| cv.len() == 1 && cv[0] == v && vt != s.type_of(v)
        implies !#[trigger] s.touches_type(s.vehicles@, cv, vt) by {
        if s.touches_type(s.vehicles@, cv, vt) {
            let i = choose|i: int| 0 <= i < cv.len() && (#[trigger] cv[i]) is Vehicle && s.eff_type(s.vehicles@, cv[i]) == vt;
            assert(cv[i] == v);
        }
    }
}
pub proof fn lemma_upd_pre_0(s: &Schedule, v: VehicleIdx, nt: Tour, tours1: TourMap)
    requires
        s.transitions_ok(), s.ids_ok(), s.vehicles@.contains_key(v),
        s.next_period_transitions@.contains_key(s.type_of(v)),
        tours1 == s.tours@.insert(v, nt),
        tour_ok(&s.network, &nt),
    ensures
        s.upd_pre(s.next_period_transitions@, s.maintenance_violation as int, seq![v], s.vehicles@, tours1),
{
    let trs = s.next_period_transitions@;
    let cv = seq![v];
    assert(cv.len() == 1 && cv[0] == v);
    assert(s.eff_type(s.vehicles@, v) == s.type_of(v));
    assert(s.change_ok(trs, s.vehicles@, tours1, v));
    assert forall|i: int| 0 <= i < cv.len() && (#[trigger] cv[i]) is Vehicle implies s.change_ok(trs, s.vehicles@, tours1, cv[i]) by {
        assert(cv[i] == v);
    }
    assert forall|u: VehicleIdx| !real_in(cv, u) && #[trigger] s.vehicles@.contains_key(u) implies tours1.contains_key(u) && tours1[u] == s.tours@[u] by {
        assert(s.tours@.contains_key(u));
        if u == v { assert(cv[0] == v); assert(cv.contains(v)); }
    }
}
/// what the rotation-cycle update guarantees (its contract, slices/sched_guard.vs), for the single changed vehicle v
pub proof fn lemma_transitions_follow(s: &Schedule, v: VehicleIdx, trs1: Map<VehicleTypeIdx, Transition>, mv1: MaintenanceCounter, tours1: TourMap)
    requires
        forall|vt: VehicleTypeIdx| s.next_period_transitions@.contains_key(vt) <==> #[trigger] trs1.contains_key(vt),
        forall|vt: VehicleTypeIdx| #[trigger] trs1.contains_key(vt) ==> trs1[vt].wf(&s.network, tours1),
        forall|vt: VehicleTypeIdx, u: VehicleIdx| #![trigger trs1[vt].has_vehicle(u)] trs1.contains_key(vt)
            ==> (trs1[vt].has_vehicle(u) <==> (s.vehicles@.contains_key(u) && vtype(s.vehicles@[u]) == vt)),
        mv1 == viol_sum(trs1, sched_types(s)),
        forall|vt: VehicleTypeIdx| #[trigger] trs1.contains_key(vt) && vt != s.type_of(v) ==> trs1[vt] == s.next_period_transitions@[vt],
    ensures
        s.transitions_follow(v, trs1, mv1, s.vehicles@, tours1),
{
}

impl Schedule {
    /// D11: an id for a new dummy tour is available, or none is needed (no service trip among the removed nodes)
    pub open spec fn id_left(&self, segment: Segment, v: VehicleIdx) -> bool {
        !has_service(&self.network, self.removed_nodes(segment, v)) || self.vehicle_counter <= 0xffff
    }
}
