// ---- environment of the slice `sched_ctor` (Schedule::compute_unserved_passengers / empty / from_tours) ----
// Included inside `pub mod tr { … }` after env/im_shim.vs, env/transition_spec.vs, env/schedule_shim.vs,
// env/sched_guard_shim.vs and env/spawn_vehicle_shim.vs (nothing is copied from them: they are included as they are).
// Everything `external_body` / `uninterp` / `axiom` in this file is an ASSUMPTION (listed in the header of
// slices/sched_ctor.vs): A-iter (SeqIter::fold), A-index (all_service_seq), A-im (FromIterator of im::HashMap), A-map
// (StdHashMap: `for` over a std HashMap by value).  The rest are open spec functions and proved lemmas.

// =====================================================================================================
// A-iter: `Iterator::fold` (std: "Folds every element into an accumulator by applying an operation, returning the
// final result … the closure is applied left to right, the first call gets `init`")
// =====================================================================================================
/// b is a value the accumulator can have after the first k items: b == init for k == 0, otherwise the closure
/// returned b when it was applied to such a value for k - 1 and to item k - 1
pub open spec fn fold_rel<T, B, F: Fn(B, T) -> B>(s: Seq<T>, init: B, f: F, k: int, b: B) -> bool
    decreases k,
{
    if k <= 0 { b == init } else { exists|b0: B| fold_rel(s, init, f, k - 1, b0) && #[trigger] f.ensures((b0, s[k - 1]), b) }
}
impl<T> SeqIter<T> {
    /// left fold, in order.  The closure must be callable on every accumulator value that can arise (for the u32
    /// additions of compute_unserved_passengers: no partial sum overflows -- see lemma_fold_adds_pairs)
    #[verifier::external_body]
    pub fn fold<B, F: Fn(B, T) -> B>(self, init: B, f: F) -> (r: B)
        requires forall|k: int, b: B| 0 <= k < self@.len() && #[trigger] fold_rel(self@, init, f, k, b) ==> f.requires((b, self@[k])),
        ensures fold_rel(self@, init, f, self@.len() as int, r),
    { unimplemented!() }
}

// ---- pairs of passenger counts ---------------------------------------------------------------------------
pub type UPair = (PassengerCount, PassengerCount);
pub open spec fn pcomp(p: UPair, c: int) -> int { if c == 0 { p.0 as int } else { p.1 as int } }
/// component c of the sum of the first k pairs
pub open spec fn pair_sum(s: Seq<UPair>, k: int, c: int) -> int
    decreases k,
{
    if k <= 0 { 0 } else { pair_sum(s, k - 1, c) + pcomp(s[k - 1], c) }
}
pub proof fn lemma_pair_sum_mono(s: Seq<UPair>, a: int, b: int, c: int)
    requires 0 <= a <= b,
    ensures 0 <= pair_sum(s, a, c) <= pair_sum(s, b, c),
    decreases b,
{
    if a < b { lemma_pair_sum_mono(s, a, b - 1, c); }
    else if a > 0 { lemma_pair_sum_mono(s, a - 1, b - 1, c); }
}
/// the closure adds component-wise and can be called whenever neither addition overflows
pub open spec fn adds_pairs<F: Fn(UPair, UPair) -> UPair>(f: F) -> bool {
    &&& forall|b: UPair, x: UPair| b.0 + x.0 <= u32::MAX && b.1 + x.1 <= u32::MAX ==> #[trigger] f.requires((b, x))
    &&& forall|b: UPair, x: UPair, r: UPair| #[trigger] f.ensures((b, x), r) ==> r.0 == b.0 + x.0 && r.1 == b.1 + x.1
}
/// folding with a component-wise addition from (0, 0): the accumulator after k items is the pair of the partial
/// sums; if the total sums fit into u32 so does every partial sum, i.e. the closure can be called
pub broadcast proof fn lemma_fold_adds_pairs<F: Fn(UPair, UPair) -> UPair>(s: Seq<UPair>, init: UPair, f: F, k: int, b: UPair)
    requires
        adds_pairs(f), 0 <= k <= s.len(), init == (0u32, 0u32),
        pair_sum(s, s.len() as int, 0) <= u32::MAX, pair_sum(s, s.len() as int, 1) <= u32::MAX,
        #[trigger] fold_rel(s, init, f, k, b),
    ensures
        b.0 == pair_sum(s, k, 0), b.1 == pair_sum(s, k, 1),
        k < s.len() ==> f.requires((b, s[k])),
    decreases k,
{
    if k > 0 {
        let b0 = choose|b0: UPair| fold_rel(s, init, f, k - 1, b0) && #[trigger] f.ensures((b0, s[k - 1]), b);
        lemma_fold_adds_pairs(s, init, f, k - 1, b0);
        lemma_pair_sum_mono(s, k, s.len() as int, 0);
        lemma_pair_sum_mono(s, k, s.len() as int, 1);
    }
    if k < s.len() {
        lemma_pair_sum_mono(s, k + 1, s.len() as int, 0);
        lemma_pair_sum_mono(s, k + 1, s.len() as int, 1);
    }
}

// =====================================================================================================
// C09: the unserved passengers of a schedule from scratch
// =====================================================================================================
/// A-index: the service nodes of the network in the order `Network::all_service_nodes` yields them (the values of
/// `nodes_sorted_by_start` that are service trips: by start time)
pub uninterp spec fn all_service_seq(net: &Network) -> Seq<NodeIdx>;
/// A-index (how Network::new fills `nodes_sorted_by_start`): the enumeration lists every service trip of the
/// network exactly once and nothing else
pub open spec fn service_enum_ok(net: &Network) -> bool {
    let s = all_service_seq(net);
    &&& s.no_duplicates()
    &&& forall|i: int| 0 <= i < s.len() ==> net.has(#[trigger] s[i]) && net.sp_node(s[i]) is Service
    &&& forall|n: NodeIdx| net.has(n) && net.sp_node(n) is Service ==> #[trigger] s.contains(n)
}
/// component c of the sum, over the first k nodes of s, of the unserved passengers of the node with its formation in tf
/// (`unserved_at`: env/train_formation_update_shim.vs -- demand above capacity / seated demand above seats)
pub open spec fn un_total(net: &Network, tf: Formations, s: Seq<NodeIdx>, k: int, c: int) -> int
    decreases k,
{
    if k <= 0 { 0 } else { un_total(net, tf, s, k - 1, c) + unserved_at(net, s[k - 1], tf[s[k - 1]].formation@, c) }
}
/// C09 "cached aggregates equal recomputation": the from-scratch value of the unserved-passengers pair
pub open spec fn unserved_from_scratch(net: &Network, tf: Formations, c: int) -> int {
    un_total(net, tf, all_service_seq(net), all_service_seq(net).len() as int, c)
}
/// m lists, node by node, the pair compute_unserved_passengers_at_node yields
pub open spec fn maps_unserved(net: &Network, tf: Formations, s: Seq<NodeIdx>, m: Seq<UPair>) -> bool {
    &&& m.len() == s.len()
    &&& forall|i: int| 0 <= i < s.len() ==> (#[trigger] m[i]).0 == unserved_at(net, s[i], tf[s[i]].formation@, 0)
            && m[i].1 == unserved_at(net, s[i], tf[s[i]].formation@, 1)
}
pub broadcast proof fn lemma_pair_sum_unserved(net: &Network, tf: Formations, s: Seq<NodeIdx>, m: Seq<UPair>, k: int, c: int)
    requires maps_unserved(net, tf, s, m), 0 <= k <= s.len(), c == 0 || c == 1,
    ensures #![trigger pair_sum(m, k, c), un_total(net, tf, s, k, c)] pair_sum(m, k, c) == un_total(net, tf, s, k, c),
    decreases k,
{
    if k > 0 { lemma_pair_sum_unserved(net, tf, s, m, k - 1, c); }
}

// ---- sums over node lists: a duplicate-free list only contributes what the full enumeration contributes ------
pub proof fn lemma_nsum_zero(s: Seq<NodeIdx>, g: spec_fn(NodeIdx) -> int)
    requires forall|i: int| 0 <= i < s.len() ==> g(#[trigger] s[i]) == 0,
    ensures nsum(s, g) == 0,
{
    assert forall|i: int| 0 <= i < s.len() implies 0 <= #[trigger] g(s[i]) <= 0 by {}
    lemma_nsum_nonneg(s, g, 0);
}
pub proof fn lemma_nsum_remove(s: Seq<NodeIdx>, g: spec_fn(NodeIdx) -> int, p: int)
    requires 0 <= p < s.len(),
    ensures nsum(s, g) == nsum(s.remove(p), g) + g(s[p]),
{
    let a = s.subrange(0, p);
    let b = s.subrange(p + 1, s.len() as int);
    assert(s =~= a + seq![s[p]] + b);
    assert(s.remove(p) =~= a + b);
    lemma_nsum_append(a + seq![s[p]], b, g);
    lemma_nsum_append(a, seq![s[p]], g);
    lemma_nsum_append(a, b, g);
    assert(seq![s[p]].map_values(g) =~= seq![g(s[p])]);
    lemma_isum_one(g(s[p]));
}
pub proof fn lemma_remove_no_dup(s: Seq<NodeIdx>, p: int)
    requires 0 <= p < s.len(), s.no_duplicates(),
    ensures s.remove(p).no_duplicates(), !s.remove(p).contains(s[p]),
        forall|x: NodeIdx| x != s[p] && s.contains(x) ==> #[trigger] s.remove(p).contains(x),
        forall|i: int| 0 <= i < s.remove(p).len() ==> s.contains(#[trigger] s.remove(p)[i]),
{
    let t = s.remove(p);
    assert forall|i: int, j: int| 0 <= i < t.len() && 0 <= j < t.len() && i != j implies t[i] != t[j] by {
        let a = if i < p { i } else { i + 1 };
        let b = if j < p { j } else { j + 1 };
        assert(t[i] == s[a] && t[j] == s[b]);
    }
    if t.contains(s[p]) {
        let i = choose|i: int| 0 <= i < t.len() && t[i] == s[p];
        let a = if i < p { i } else { i + 1 };
        assert(t[i] == s[a]);
    }
    assert forall|x: NodeIdx| x != s[p] && s.contains(x) implies #[trigger] t.contains(x) by {
        let i = choose|i: int| 0 <= i < s.len() && s[i] == x;
        if i < p { assert(t[i] == x); } else { assert(t[i - 1] == x); }
    }
    assert forall|i: int| 0 <= i < t.len() implies s.contains(#[trigger] t[i]) by {
        let a = if i < p { i } else { i + 1 };
        assert(t[i] == s[a]);
    }
}
pub proof fn lemma_nsum_drop_last(a: Seq<NodeIdx>, g: spec_fn(NodeIdx) -> int)
    requires a.len() > 0,
    ensures nsum(a, g) == nsum(a.drop_last(), g) + g(a.last()),
{
    assert(a.map_values(g).drop_last() =~= a.drop_last().map_values(g));
}
/// a duplicate-free list s whose nodes with a non-zero (non-negative) weight all occur in the duplicate-free list a
/// weighs at most as much as a
pub proof fn lemma_nsum_sub(s: Seq<NodeIdx>, a: Seq<NodeIdx>, g: spec_fn(NodeIdx) -> int)
    requires
        s.no_duplicates(), a.no_duplicates(),
        forall|n: NodeIdx| 0 <= #[trigger] g(n),
        forall|i: int| 0 <= i < s.len() && g(#[trigger] s[i]) != 0 ==> a.contains(s[i]),
    ensures nsum(s, g) <= nsum(a, g),
    decreases a.len(),
{
    if a.len() == 0 {
        assert forall|i: int| 0 <= i < s.len() implies g(#[trigger] s[i]) == 0 by {
            if g(s[i]) != 0 { assert(a.contains(s[i])); }
        }
        lemma_nsum_zero(s, g);
        assert(a.map_values(g) =~= Seq::<int>::empty());
    } else {
        let x = a.last();
        let d = a.drop_last();
        lemma_nsum_drop_last(a, g);
        if s.contains(x) {
            let p = choose|p: int| 0 <= p < s.len() && s[p] == x;
            let t = s.remove(p);
            lemma_nsum_remove(s, g, p);
            lemma_remove_no_dup(s, p);
            assert forall|i: int| 0 <= i < t.len() && g(#[trigger] t[i]) != 0 implies d.contains(t[i]) by {
                assert(s.contains(t[i]));
                let j = choose|j: int| 0 <= j < s.len() && s[j] == t[i];
                assert(a.contains(s[j]));
                lemma_drop_last_contains(a);
            }
            lemma_drop_last_contains(a);
            lemma_nsum_sub(t, d, g);
        } else {
            assert forall|i: int| 0 <= i < s.len() && g(#[trigger] s[i]) != 0 implies d.contains(s[i]) by {
                assert(s.contains(s[i]));
                lemma_drop_last_contains(a);
            }
            lemma_drop_last_contains(a);
            lemma_nsum_sub(s, d, g);
        }
    }
}
/// the weight function of the unserved passengers
pub open spec fn un_fn(net: &Network, tf: Formations, c: int) -> spec_fn(NodeIdx) -> int {
    |n: NodeIdx| unserved_at(net, n, tf[n].formation@, c)
}
pub proof fn lemma_un_total_nsum(net: &Network, tf: Formations, s: Seq<NodeIdx>, k: int, c: int)
    requires 0 <= k <= s.len(),
    ensures un_total(net, tf, s, k, c) == nsum(s.take(k), un_fn(net, tf, c)),
    decreases k,
{
    let g = un_fn(net, tf, c);
    if k > 0 {
        lemma_un_total_nsum(net, tf, s, k - 1, c);
        lemma_nsum_drop_last(s.take(k), g);
        assert(s.take(k).drop_last() =~= s.take(k - 1));
    } else {
        assert(s.take(0).map_values(g) =~= Seq::<int>::empty());
    }
}
/// Schedule::un_sum over the old formations is un_total
pub proof fn lemma_un_old_total(sch: &Schedule, tf: Formations, s: Seq<NodeIdx>, k: int, c: int)
    ensures sch.un_sum(tf, None, None, s, k, false, c) == un_total(&sch.network, tf, s, k, c),
    decreases k,
{
    if k > 0 { lemma_un_old_total(sch, tf, s, k - 1, c); }
}
/// C09, the form the u32 subtractions of update_train_formation need (clause of sv_formations_ok): if the cached pair
/// is the from-scratch value, it covers the contribution of any duplicate-free list of nodes of the network
pub proof fn lemma_total_covers_lists(sch: &Schedule, c: int)
    requires
        service_enum_ok(&sch.network), c == 0 || c == 1,
        sch.unserved_c(c) == unserved_from_scratch(&sch.network, sch.train_formations@, c),
    ensures
        forall|s: Seq<NodeIdx>| #![trigger sch.un_old(s, s.len() as int, c)] s.no_duplicates() && all_in_net(&sch.network, s)
            ==> sch.un_old(s, s.len() as int, c) <= sch.unserved_c(c),
{
    let net = &sch.network;
    let tf = sch.train_formations@;
    let a = all_service_seq(net);
    let g = un_fn(net, tf, c);
    assert forall|s: Seq<NodeIdx>| #![trigger sch.un_old(s, s.len() as int, c)] s.no_duplicates() && all_in_net(net, s)
        implies sch.un_old(s, s.len() as int, c) <= sch.unserved_c(c) by {
        lemma_un_old_total(sch, tf, s, s.len() as int, c);
        lemma_un_total_nsum(net, tf, s, s.len() as int, c);
        lemma_un_total_nsum(net, tf, a, a.len() as int, c);
        assert(s.take(s.len() as int) =~= s);
        assert(a.take(a.len() as int) =~= a);
        assert forall|i: int| 0 <= i < s.len() && g(#[trigger] s[i]) != 0 implies a.contains(s[i]) by {
            assert(net.has(s[i]));
            assert(net.sp_node(s[i]) is Service);
        }
        lemma_nsum_sub(s, a, g);
    }
}

// =====================================================================================================
// Schedule::empty
// =====================================================================================================
/// the rotation cycles of no vehicles: no cycle, no lookup entry, no reusable empty cycle, totals 0
pub open spec fn empty_transition(t: &Transition) -> bool {
    &&& t.cycles@.len() == 0
    &&& t.total_maintenance_violation == 0
    &&& t.total_maintenance_counter == 0
    &&& t.cycle_lookup@ == Map::<VehicleIdx, CycleIdx>::empty()
    &&& t.empty_cycles@.len() == 0
}
/// C15 for the empty transition: it is consistent with any tours, holds no vehicle and no violation
pub proof fn lemma_empty_transition(t: &Transition, net: &Network, tours: Map<VehicleIdx, Tour>)
    requires empty_transition(t), net.wf(),
    ensures t.wf(net, tours), t.total_len() == 0, forall|v: VehicleIdx| !#[trigger] t.has_vehicle(v),
{
    assert(lens_of(t@.cycles) =~= Seq::<int>::empty());
    assert(counters_of(t@.cycles) =~= Seq::<int>::empty());
    assert(violations_of(t@.cycles) =~= Seq::<int>::empty());
    assert(t@.empty =~= Seq::<CycleIdx>::empty());
}
/// A-im: `iter.collect::<im::HashMap<K, V>>()` (FromIterator for im::HashMap inserts the pairs in order): the keys of the
/// result are exactly the first components, and every key maps to the second component of SOME pair with that key (in
/// fact the last one; not needed here).  Text as for std's HashMap in env/network_new_shim.vs.
pub uninterp spec fn imhm_source<K, V>(m: self::im::HashMap<K, V>) -> Seq<(K, V)>;
impl<K, V> VCollect<(K, V)> for self::im::HashMap<K, V> {
    open spec fn collected(&self) -> Seq<(K, V)> { imhm_source(*self) }
}
pub broadcast axiom fn axiom_imhm_collect<K, V>(m: self::im::HashMap<K, V>)
    ensures
        forall|k: K| #[trigger] m@.contains_key(k) ==> exists|i: int| 0 <= i < imhm_source(m).len() && #[trigger] imhm_source(m)[i] == (k, m@[k]),
        forall|i: int| 0 <= i < imhm_source(m).len() ==> m@.contains_key((#[trigger] imhm_source(m)[i]).0),
        #[trigger] imhm_source(m).len() >= 0;

/// the nodes `Network::coverable_nodes` yields: the service trips, then the maintenance slots
pub open spec fn coverable_seq(net: &Network) -> Seq<NodeIdx> { all_service_seq(net) + net.maintenance_nodes@ }
/// A-index for the maintenance slots (how Network::new fills `maintenance_nodes`; cf. a_index in env/json_writer_shim.vs):
/// every maintenance slot of the network is listed
pub open spec fn maintenance_listed(net: &Network) -> bool {
    forall|n: NodeIdx| net.has(n) && net.sp_node(n) is Maintenance ==> #[trigger] net.maintenance_nodes@.contains(n)
}
/// every entry is an empty formation
pub open spec fn formations_empty(tf: Formations) -> bool {
    forall|n: NodeIdx| #[trigger] tf.contains_key(n) ==> tf[n].formation@.len() == 0
}
/// the table has exactly the nodes of s as keys
pub open spec fn formation_keys(tf: Formations, s: Seq<NodeIdx>) -> bool {
    forall|n: NodeIdx| #[trigger] tf.contains_key(n) <==> s.contains(n)
}
/// (type ascription helpers: the code leaves the types of its `collect()` results to inference)
pub open spec fn view_trs(m: &HashMap<VehicleTypeIdx, Transition>) -> Map<VehicleTypeIdx, Transition> { m@ }
pub open spec fn view_lists(m: &HashMap<VehicleTypeIdx, Vec<VehicleIdx>>) -> Map<VehicleTypeIdx, Vec<VehicleIdx>> { m@ }
/// component c of the demand (passengers / seated passengers) of the first k nodes of s
pub open spec fn demand_sum(net: &Network, s: Seq<NodeIdx>, k: int, c: int) -> int
    decreases k,
{
    if k <= 0 { 0 } else { demand_sum(net, s, k - 1, c) + (if c == 0 { net.sp_trip(s[k - 1]).passengers as int } else { net.sp_trip(s[k - 1]).seated as int }) }
}
/// the whole demand of the instance
pub open spec fn demand_total(net: &Network, c: int) -> int { demand_sum(net, all_service_seq(net), all_service_seq(net).len() as int, c) }
pub proof fn lemma_fcap_empty(f: Seq<Vehicle>)
    requires f.len() == 0,
    ensures fcap(f) == 0, fseats(f) == 0,
{
    assert(f.map_values(|v: Vehicle| v.vehicle_type.capacity as int) =~= Seq::<int>::empty());
    assert(f.map_values(|v: Vehicle| v.vehicle_type.seats as int) =~= Seq::<int>::empty());
}
/// with empty formations nobody is served: the unserved passengers are the demand
pub proof fn lemma_un_total_empty(net: &Network, tf: Formations, s: Seq<NodeIdx>, k: int, c: int)
    requires
        0 <= k <= s.len(), c == 0 || c == 1,
        forall|i: int| 0 <= i < s.len() ==> net.sp_node(#[trigger] s[i]) is Service && tf[s[i]].formation@.len() == 0,
    ensures un_total(net, tf, s, k, c) == demand_sum(net, s, k, c),
    decreases k,
{
    if k > 0 {
        lemma_un_total_empty(net, tf, s, k - 1, c);
        lemma_fcap_empty(tf[s[k - 1]].formation@);
    }
}
/// the sums over the vehicle types of empty transitions are 0
pub proof fn lemma_type_sums_empty(trs: Map<VehicleTypeIdx, Transition>, vts: Seq<VehicleTypeIdx>)
    requires forall|i: int| 0 <= i < vts.len() ==> empty_transition(&#[trigger] trs[vts[i]]),
    ensures viol_sum(trs, vts) == 0, len_sum(trs, vts) == 0,
    decreases vts.len(),
{
    if vts.len() > 0 {
        let d = vts.drop_last();
        assert forall|i: int| 0 <= i < d.len() implies empty_transition(&#[trigger] trs[d[i]]) by { assert(d[i] == vts[i]); }
        lemma_type_sums_empty(trs, d);
        assert(vts.last() == vts[vts.len() - 1]);
        let t = trs[vts.last()];
        assert(lens_of(t@.cycles) =~= Seq::<int>::empty());
    }
}
/// instance validity as far as the schedule invariant sv_ok needs it beyond Network::wf: A-index for the depot node
/// lists (depot_lists_ok), the listed vehicle types are pairwise distinct, and the vehicle type every service trip
/// prescribes is a vehicle type of the network (A-types)
pub open spec fn instance_ok(net: &Network) -> bool {
    &&& depot_lists_ok(net)
    &&& net.vehicle_types.ids_sorted@.no_duplicates()
    &&& forall|n: NodeIdx| net.has(n) && #[trigger] net.sp_node(n) is Service ==> net.is_trip(n)
}
impl Schedule {
    /// C10, base case: the schedule without vehicles
    pub open spec fn is_empty_schedule(&self) -> bool {
        &&& self.vehicles@ == Map::<VehicleIdx, Vehicle>::empty()
        &&& self.tours@ == Map::<VehicleIdx, Tour>::empty()
        &&& self.dummy_tours@ == Map::<VehicleIdx, Tour>::empty()
        &&& self.dummy_ids_sorted@.len() == 0
        &&& self.vehicle_counter == 0
        &&& self.depot_usage@ == Map::<(DepotIdx, VehicleTypeIdx), (HashSet<VehicleIdx>, HashSet<VehicleIdx>)>::empty()
        // exactly the coverable nodes have a formation, an EMPTY one
        &&& forall|n: NodeIdx| #[trigger] self.train_formations@.contains_key(n) <==> coverable_seq(&self.network).contains(n)
        &&& forall|n: NodeIdx| #[trigger] self.train_formations@.contains_key(n) ==> self.train_formations@[n].formation@.len() == 0
        // exactly the listed vehicle types have an id list, an EMPTY one, and a transition, the one of no vehicles
        &&& forall|vt: VehicleTypeIdx| #[trigger] self.vehicle_ids_grouped_and_sorted@.contains_key(vt) <==> sched_types(self).contains(vt)
        &&& forall|vt: VehicleTypeIdx| #[trigger] self.vehicle_ids_grouped_and_sorted@.contains_key(vt) ==> self.listing(vt).len() == 0
        &&& forall|vt: VehicleTypeIdx| #[trigger] self.next_period_transitions@.contains_key(vt) <==> sched_types(self).contains(vt)
        &&& forall|vt: VehicleTypeIdx| #[trigger] self.next_period_transitions@.contains_key(vt) ==> empty_transition(&self.next_period_transitions@[vt])
    }
}
/// C10 / C09: the empty schedule satisfies the schedule invariants the modifications take as precondition
pub proof fn lemma_empty_invariants(s: &Schedule)
    requires
        s.is_empty_schedule(), s.network.wf(), service_enum_ok(&s.network), maintenance_listed(&s.network),
        s.maintenance_violation == 0,
        s.unserved_c(0) == unserved_from_scratch(&s.network, s.train_formations@, 0),
        s.unserved_c(1) == unserved_from_scratch(&s.network, s.train_formations@, 1),
    ensures
        s.sv_ids_ok(),
        usage_exact(s.depot_usage@, &s.network, s.vehicles@, s.tours@),
        s.listings_match(),
        instance_ok(&s.network) ==> s.sv_formations_ok(),
        instance_ok(&s.network) ==> s.transitions_ok(),
        instance_ok(&s.network) && s.costs <= sched_cost_bound() ==> s.sv_ok(),
        viol_sum(s.next_period_transitions@, sched_types(s)) == 0,
{
    {
        let trs = s.next_period_transitions@;
        let vts = sched_types(s);
        assert forall|i: int| 0 <= i < vts.len() implies empty_transition(&#[trigger] trs[vts[i]]) by {
            assert(vts.contains(vts[i]));
            assert(trs.contains_key(vts[i]));
        }
        lemma_type_sums_empty(trs, vts);
    }
    let net = &s.network;
    let tf = s.train_formations@;
    // ids
    assert forall|vt: VehicleTypeIdx| #[trigger] s.vehicle_ids_grouped_and_sorted@.contains_key(vt) implies sorted_cmp(s.listing(vt)) by {
        assert(s.listing(vt).len() == 0);
    }
    // depot usage: the empty table is exact for no vehicles
    assert forall|v: VehicleIdx| #[trigger] usage_exact_for(s.depot_usage@, net, s.vehicles@, s.tours@, v) by {}
    // listings
    assert forall|vt: VehicleTypeIdx, v: VehicleIdx| #![trigger s.vehicle_ids_grouped_and_sorted@[vt]@.contains(v)] s.vehicle_ids_grouped_and_sorted@.contains_key(vt)
        implies (s.vehicle_ids_grouped_and_sorted@[vt]@.contains(v) <==> s.vehicles@.contains_key(v) && vtype(s.vehicles@[v]) == vt) by {
        assert(s.listing(vt).len() == 0);
    }
    if instance_ok(net) {
        // formations
        assert forall|n: NodeIdx| net.has(n) && net.sp_node(n).sp_is_activity() implies #[trigger] tf.contains_key(n) by {
            let a = all_service_seq(net);
            let m = net.maintenance_nodes@;
            if net.sp_node(n) is Service {
                assert(a.contains(n));
                let i = choose|i: int| 0 <= i < a.len() && a[i] == n;
                assert(coverable_seq(net)[i] == n);
            } else {
                assert(m.contains(n));
                let i = choose|i: int| 0 <= i < m.len() && m[i] == n;
                assert(coverable_seq(net)[a.len() + i] == n);
            }
        }
        assert forall|n: NodeIdx, vt: VehicleTypeIdx| #![trigger tf[n], s.vtypes()[vt]] tf.contains_key(n) && s.vtypes().contains_key(vt)
            implies fcap(tf[n].formation@) + s.vtypes()[vt].capacity <= u32::MAX && fseats(tf[n].formation@) + s.vtypes()[vt].seats <= u32::MAX by {
            lemma_fcap_empty(tf[n].formation@);
        }
        lemma_total_covers_lists(s, 0);
        lemma_total_covers_lists(s, 1);
        assert forall|q: Seq<NodeIdx>, c: int| #![trigger s.un_old(q, q.len() as int, c)] q.no_duplicates() && all_in_net(net, q) && (c == 0 || c == 1)
            implies s.un_old(q, q.len() as int, c) <= s.unserved_c(c) by {}
        assert(s.sv_formations_ok());
        // transitions
        let trs = s.next_period_transitions@;
        let vts = sched_types(s);
        assert forall|vt: VehicleTypeIdx| #[trigger] trs.contains_key(vt) implies trs[vt].wf(net, s.tours@) by {
            lemma_empty_transition(&trs[vt], net, s.tours@);
        }
        assert forall|vt: VehicleTypeIdx, v: VehicleIdx| #![trigger trs[vt].has_vehicle(v)] trs.contains_key(vt)
            implies (trs[vt].has_vehicle(v) <==> s.vehicles@.contains_key(v) && s.type_of(v) == vt) by {
            lemma_empty_transition(&trs[vt], net, s.tours@);
        }
        assert forall|i: int| 0 <= i < vts.len() implies empty_transition(&#[trigger] trs[vts[i]]) by {
            assert(vts.contains(vts[i]));
            assert(trs.contains_key(vts[i]));
        }
        lemma_type_sums_empty(trs, vts);
        assert(s.transitions_ok());
    }
}

// =====================================================================================================
// Schedule::from_tours
// =====================================================================================================
// ---- A-map: a std `HashMap<K, V>` that is consumed by a `for` loop.  The slice declares `StdHashMap` (the name under
// which solution/src/schedule.rs imports std's HashMap) as this opaque type; view = the abstract `Map<K, V>`.  Assumed
// semantics of `IntoIterator for HashMap` (std: "an iterator visiting all key-value pairs in arbitrary order"): every
// entry exactly once, in SOME order (`entries`)
#[verifier::external_body]
#[verifier::reject_recursive_types(K)]
#[verifier::accept_recursive_types(V)]
pub struct StdHashMap<K, V> { inner: std::collections::HashMap<K, V> }
impl<K, V> View for StdHashMap<K, V> {
    type V = Map<K, V>;
    uninterp spec fn view(&self) -> Map<K, V>;
}
/// the order in which the `for` loop visits the entries of the map
pub uninterp spec fn entries<K, V>(m: StdHashMap<K, V>) -> Seq<(K, V)>;
pub open spec fn entries_ok<K, V>(m: StdHashMap<K, V>) -> bool {
    let e = entries(m);
    &&& forall|i: int, j: int| 0 <= i < j < e.len() ==> (#[trigger] e[i]).0 != (#[trigger] e[j]).0
    &&& forall|i: int| 0 <= i < e.len() ==> m@.contains_key((#[trigger] e[i]).0) && m@[e[i].0] == e[i].1
    &&& forall|k: K| m@.contains_key(k) ==> exists|i: int| 0 <= i < e.len() && (#[trigger] e[i]).0 == k
}
impl<K, V> IntoIterator for StdHashMap<K, V> {
    type Item = (K, V);
    type IntoIter = SeqIter<(K, V)>;
    #[verifier::external_body]
    fn into_iter(self) -> (r: SeqIter<(K, V)>)
        ensures r@ == entries(self), entries_ok(self),
    { unimplemented!() }
}

// ---- the given tours, in the order from_tours spawns them -------------------------------------------------
/// one given tour with the vehicle type it is given for
pub type JobV = (VehicleTypeIdx, Vec<NodeIdx>);
pub type TourEntries = Seq<(VehicleTypeIdx, Vec<Vec<NodeIdx>>)>;
/// the first j tours of one entry of the map
pub open spec fn jobs_of_entry(e: (VehicleTypeIdx, Vec<Vec<NodeIdx>>), j: int) -> Seq<JobV> {
    Seq::new(j as nat, |i: int| (e.0, e.1@[i]))
}
/// the tours of the first k entries, entry by entry
pub open spec fn jobs_upto(es: TourEntries, k: int) -> Seq<JobV>
    decreases k,
{
    if k <= 0 { Seq::empty() } else { jobs_upto(es, k - 1) + jobs_of_entry(es[k - 1], es[k - 1].1@.len() as int) }
}
/// all given tours: "for (vehicle_type, tours) in tours { for tour in tours { … } }"
pub open spec fn all_jobs(es: TourEntries) -> Seq<JobV> { jobs_upto(es, es.len() as int) }
/// the tours spawned so far are a prefix of all tours; the next one is the j-th tour of entry oi
pub proof fn lemma_jobs_prefix(es: TourEntries, oi: int, j: int, k: int)
    requires 0 <= oi < k <= es.len(), 0 <= j < es[oi].1@.len(),
    ensures ({
        let d = jobs_upto(es, oi) + jobs_of_entry(es[oi], j);
        let a = jobs_upto(es, k);
        d.len() < a.len() && a.take(d.len() as int) == d && a[d.len() as int] == (es[oi].0, es[oi].1@[j])
    }),
    decreases k,
{
    let d = jobs_upto(es, oi) + jobs_of_entry(es[oi], j);
    let a = jobs_upto(es, k);
    if k == oi + 1 {
        let full = jobs_of_entry(es[oi], es[oi].1@.len() as int);
        assert(a == jobs_upto(es, oi) + full);
        assert(a.take(d.len() as int) =~= d);
        assert(a[d.len() as int] == full[j]);
    } else {
        lemma_jobs_prefix(es, oi, j, k - 1);
        let b = jobs_upto(es, k - 1);
        assert(a == b + jobs_of_entry(es[k - 1], es[k - 1].1@.len() as int));
        assert(a.take(d.len() as int) =~= b.take(d.len() as int));
        assert(a[d.len() as int] == b[d.len() as int]);
    }
}

// ---- magnitudes (stated preconditions) -------------------------------------------------------------------------
/// A-cost (magnitude): the costs of one tour are at most 2^44, so that the u64 cost figure of up to 2^16 vehicles
/// (plus a staff term of at most 2^60) stays below 2^61 (sched_cost_bound)
pub open spec const TOUR_COST_MAX: int = 0x1000_0000_0000;
pub open spec const STAFF_COST_MAX: int = 0x1000_0000_0000_0000;
/// A-cap (magnitude): capacity and seats of one vehicle are at most 2^15 - 1, so that the u32 capacity / seat sums of a
/// formation of up to 2^16 + 1 vehicles fit
pub open spec const CAP_MAX: int = 0x7fff;
pub open spec fn caps_ok(net: &Network) -> bool {
    forall|vt: VehicleTypeIdx| #[trigger] net.vehicle_types.vehicle_types@.contains_key(vt)
        ==> net.vehicle_types.vehicle_types@[vt].capacity <= CAP_MAX && net.vehicle_types.vehicle_types@[vt].seats <= CAP_MAX
}
/// A-counter, as `Schedule::spawn_counter_ok` (env/spawn_vehicle_shim.vs), which only depends on the network
pub open spec fn path_counter_ok(net: &Network, path: Seq<NodeIdx>) -> bool {
    forall|t: Tour| depots_added(net, path, t.nodes@) && tour_of_net(net, &t) && t.caches_ok()
        ==> -counter_bound() <= #[trigger] tour_counter(&t) <= counter_bound()
}
/// A-cost for whatever tour the path becomes
pub open spec fn path_cost_ok(net: &Network, path: Seq<NodeIdx>) -> bool {
    forall|t: Tour| depots_added(net, path, t.nodes@) && #[trigger] tour_of_net(net, &t) && t.caches_ok() ==> t.costs <= TOUR_COST_MAX
}
/// what from_tours needs of one given tour: its vehicle type is a listed type of the network stored under its own index
/// (type_known), the tour is not empty, its nodes are nodes of the network, A-len, A-counter, A-cost
pub open spec fn job_ok(net: &Network, job: JobV) -> bool {
    let p = job.1@;
    &&& net.vehicle_types.vehicle_types@.contains_key(job.0) && net.vehicle_types.vehicle_types@[job.0].idx == job.0
    &&& net.vehicle_types.ids_sorted@.contains(job.0)
    &&& p.len() >= 1 && all_in_net(net, p) && tour_len_ok(p)
    &&& path_counter_ok(net, p) && path_cost_ok(net, p)
}
/// a formation of at most k vehicles whose capacity / seat sums are small
pub open spec fn form_small(f: Seq<Vehicle>, k: int) -> bool {
    f.len() <= k && fcap(f) <= f.len() * CAP_MAX && fseats(f) <= f.len() * CAP_MAX
}

/// the vehicle ids in the order they are handed out
pub open spec fn all_ids() -> Seq<VehicleIdx> { Seq::new(0x10000, |i: int| VehicleIdx::Vehicle(i as Idx)) }
impl Schedule {
    /// C14 "every flow unit is decoded into exactly one tour" / C13: the i-th given tour is the tour of the vehicle with
    /// id i, a vehicle of the given type: the given nodes in order with depots at the ends (depots_added), no activity
    /// lost, only nodes compatible with the type, a valid real tour of the network with exact caches
    pub open spec fn vehicle_of_job(&self, i: int, job: JobV) -> bool {
        let id = VehicleIdx::Vehicle(i as Idx);
        &&& self.vehicles@.contains_key(id) && self.tours@.contains_key(id)
        &&& self.vehicles@[id].idx == id && vtype(self.vehicles@[id]) == job.0 && self.vehicles@[id].vehicle_type == self.vtypes()[job.0]
        &&& depots_added(&self.network, job.1@, self.tours@[id].nodes@)
        &&& activities_kept(&self.network, job.1@, self.tours@[id].nodes@)
        &&& all_compatible(&self.network, self.tours@[id].nodes@, job.0)
        &&& tour_of_net(&self.network, &self.tours@[id]) && self.tours@[id].caches_ok()
    }
    pub open spec fn staff_term(&self) -> int { self.network.number_of_service_nodes * self.network.config.costs.staff }
    /// the state of from_tours after the tours `done` have been spawned: the schedule invariant of the modifications
    /// (sv_ok, listings_match), one vehicle per tour with ids 0, 1, 2, … in order of creation, no dummies, and what is
    /// needed to re-establish sv_ok after the next spawn (exact unserved passengers, small formations, cost magnitude)
    #[verifier::opaque]
    pub open spec fn ft_inv(&self, net: Arc<Network>, done: Seq<JobV>) -> bool {
        let tf = self.train_formations@;
        &&& self.network == net
        &&& service_enum_ok(&self.network) && caps_ok(&self.network)
        &&& self.sv_ok() && self.listings_match()
        &&& self.vehicle_counter == done.len() && done.len() <= 0x10000
        &&& forall|v: VehicleIdx| #[trigger] self.vehicles@.contains_key(v) <==> v is Vehicle && (v->Vehicle_0 as int) < done.len()
        &&& self.vehicles@.dom().len() == done.len()
        &&& forall|i: int| 0 <= i < done.len() ==> self.vehicle_of_job(i, #[trigger] done[i])
        &&& self.dummy_tours@ == Map::<VehicleIdx, Tour>::empty() && self.dummy_ids_sorted@.len() == 0
        &&& forall|vt: VehicleTypeIdx| #[trigger] self.vehicle_ids_grouped_and_sorted@.contains_key(vt) <==> sched_types(self).contains(vt)
        &&& forall|n: NodeIdx| #[trigger] tf.contains_key(n) ==> form_small(tf[n].formation@, done.len() as int)
        &&& self.unserved_c(0) == unserved_from_scratch(&self.network, tf, 0)
        &&& self.unserved_c(1) == unserved_from_scratch(&self.network, tf, 1)
        &&& self.staff_term() <= STAFF_COST_MAX && self.costs <= self.staff_term() + done.len() * TOUR_COST_MAX
        // C09: the cost figure is the staff term plus the costs of the tours of vehicles 0, 1, …, done.len() - 1
        &&& self.costs == self.staff_term() + pre_costs(self.tours@, all_ids(), done.len() as int)
    }
}
/// C06: "`result.unwrap()` -- every spawn succeeds".  The contract of spawn_vehicle_for_path (slices/spawn_vehicle.vs) does
/// not say WHEN the result is Ok (only when it is Err for sure), so success cannot be derived from a condition on the
/// input; it is stated about the function's behaviour instead: whatever spawn_vehicle_for_path returns (`call_ensures`:
/// the relation between the arguments and the result of an actual call) for a schedule in the state from_tours can be in
/// after the first n tours and the n-th given tour, is Ok
pub open spec fn every_spawn_succeeds(net: Arc<Network>, jobs: Seq<JobV>) -> bool {
    forall|s: Schedule, n: int, r: Result<(Schedule, VehicleIdx), String>|
        0 <= n < jobs.len() && s.ft_inv(net, jobs.take(n))
        && #[trigger] call_ensures(Schedule::spawn_vehicle_for_path, (&s, jobs[n].0, jobs[n].1), r)
        ==> r is Ok
}

// ---- sums: two duplicate-free lists that agree on the nodes with a non-zero weight weigh the same ---------------
pub proof fn lemma_nsum_same(a: Seq<NodeIdx>, s: Seq<NodeIdx>, d: spec_fn(NodeIdx) -> int)
    requires
        a.no_duplicates(), s.no_duplicates(),
        forall|y: NodeIdx| #[trigger] d(y) != 0 ==> (a.contains(y) <==> s.contains(y)),
    ensures nsum(a, d) == nsum(s, d),
    decreases a.len(),
{
    if a.len() == 0 {
        assert forall|i: int| 0 <= i < s.len() implies d(#[trigger] s[i]) == 0 by {
            if d(s[i]) != 0 { assert(s.contains(s[i])); assert(a.contains(s[i])); }
        }
        lemma_nsum_zero(s, d);
        assert(a.map_values(d) =~= Seq::<int>::empty());
    } else {
        let x = a.last();
        let a1 = a.drop_last();
        lemma_nsum_drop_last(a, d);
        lemma_drop_last_contains(a);
        assert(a.contains(x)) by { assert(a[a.len() - 1] == x); }
        if s.contains(x) {
            let p = choose|p: int| 0 <= p < s.len() && s[p] == x;
            let s1 = s.remove(p);
            lemma_nsum_remove(s, d, p);
            lemma_remove_no_dup(s, p);
            assert forall|y: NodeIdx| #[trigger] d(y) != 0 implies (a1.contains(y) <==> s1.contains(y)) by {
                if y != x {
                    if s1.contains(y) { let i = choose|i: int| 0 <= i < s1.len() && s1[i] == y; assert(s.contains(s1[i])); }
                }
            }
            lemma_nsum_same(a1, s1, d);
        } else {
            assert(d(x) == 0);
            assert forall|y: NodeIdx| #[trigger] d(y) != 0 implies (a1.contains(y) <==> s.contains(y)) by {}
            lemma_nsum_same(a1, s, d);
        }
    }
}
pub proof fn lemma_nsum_diff(s: Seq<NodeIdx>, g1: spec_fn(NodeIdx) -> int, g0: spec_fn(NodeIdx) -> int, d: spec_fn(NodeIdx) -> int)
    requires forall|n: NodeIdx| #[trigger] d(n) == g1(n) - g0(n),
    ensures nsum(s, d) == nsum(s, g1) - nsum(s, g0),
    decreases s.len(),
{
    if s.len() == 0 {
        assert(s.map_values(d) =~= Seq::<int>::empty());
        assert(s.map_values(g1) =~= Seq::<int>::empty());
        assert(s.map_values(g0) =~= Seq::<int>::empty());
    } else {
        lemma_nsum_diff(s.drop_last(), g1, g0, d);
        lemma_nsum_drop_last(s, d);
        lemma_nsum_drop_last(s, g1);
        lemma_nsum_drop_last(s, g0);
    }
}
/// the change of the unserved passengers at one node
pub open spec fn un_diff_fn(net: &Network, tf0: Formations, tf1: Formations, c: int) -> spec_fn(NodeIdx) -> int {
    |n: NodeIdx| unserved_at(net, n, tf1[n].formation@, c) - unserved_at(net, n, tf0[n].formation@, c)
}
/// Schedule::un_sum over the new formations of the moved nodes is un_total over the new table
pub proof fn lemma_un_new_total(sch: &Schedule, tf0: Formations, tf1: Formations, rv: Option<Vehicle>, s: Seq<NodeIdx>, k: int, c: int)
    requires 0 <= k <= s.len(), sch.moved_get_replacement(s, tf0, tf1, None, rv),
    ensures sch.un_sum(tf0, None, rv, s, k, true, c) == un_total(&sch.network, tf1, s, k, c),
    decreases k,
{
    if k > 0 {
        lemma_un_new_total(sch, tf0, tf1, rv, s, k - 1, c);
        let n = s[k - 1];
        if !sch.network.sp_node(n).sp_is_depot() {
            assert(s.contains(n));
            assert(moved_nd(&sch.network, s, n));
            assert(tf1[n].formation@ == sch.repl_seq(tf0[n].formation@, None, rv));
        }
    }
}
/// C09: the exact delta update_train_formation applies keeps the cached unserved passengers at their from-scratch value
pub proof fn lemma_step_unserved(s0: &Schedule, s1: &Schedule, id: VehicleIdx, c: int)
    requires
        c == 0 || c == 1, service_enum_ok(&s0.network), s1.network == s0.network,
        s0.formations_follow(s1, id),
        tour_of_net(&s0.network, &s1.tours@[id]),
        s0.unserved_c(c) == unserved_from_scratch(&s0.network, s0.train_formations@, c),
    ensures s1.unserved_c(c) == unserved_from_scratch(&s1.network, s1.train_formations@, c),
{
    let net = &s0.network;
    let tf0 = s0.train_formations@;
    let tf1 = s1.train_formations@;
    let rv = Some(s1.vehicles@[id]);
    let t = &s1.tours@[id];
    let s = t.nodes@;
    let n = s.len() as int;
    let a = all_service_seq(net);
    let g0 = un_fn(net, tf0, c);
    let g1 = un_fn(net, tf1, c);
    let d = un_diff_fn(net, tf0, tf1, c);
    // what is subtracted / added, as sums over the nodes of the new tour
    lemma_un_old(s0, tf0, None, rv, s, n, c);
    lemma_un_old_total(s0, tf0, s, n, c);
    lemma_un_total_nsum(net, tf0, s, n, c);
    lemma_un_new_total(s0, tf0, tf1, rv, s, n, c);
    lemma_un_total_nsum(net, tf1, s, n, c);
    assert(s.take(n) =~= s);
    // the totals
    lemma_un_total_nsum(net, tf0, a, a.len() as int, c);
    lemma_un_total_nsum(net, tf1, a, a.len() as int, c);
    assert(a.take(a.len() as int) =~= a);
    lemma_nsum_diff(a, g1, g0, d);
    lemma_nsum_diff(s, g1, g0, d);
    assert(s.no_duplicates()) by {
        assert forall|i: int, j: int| 0 <= i < s.len() && 0 <= j < s.len() && i != j implies s[i] != s[j] by {
            if s[i] == s[j] { lemma_tour_distinct(t, i, j); }
        }
    }
    assert forall|y: NodeIdx| #[trigger] d(y) != 0 implies (a.contains(y) <==> s.contains(y)) by {
        if !moved_nd(net, s, y) { assert(tf1[y] == tf0[y]); }
        assert(s.contains(y));
        let i = choose|i: int| 0 <= i < s.len() && s[i] == y;
        lemma_tour_kinds(t, i);
        assert(net.has(y));
        assert(net.sp_node(y) is Service);
        assert(a.contains(y));
    }
    lemma_nsum_same(a, s, d);
}

// ---- counting: the rotation cycles of all types together hold at most as many vehicles as the schedule has ---------
/// the vehicles in the first k cycles
pub open spec fn cyc_elems(t: TView, k: int) -> Set<VehicleIdx>
    decreases k,
{
    if k <= 0 { Set::empty() } else { cyc_elems(t, k - 1).union(t.cyc(k - 1).to_set()) }
}
pub proof fn lemma_cyc_elems_member(t: TView, k: int, v: VehicleIdx)
    requires 0 <= k <= t.n(),
    ensures cyc_elems(t, k).contains(v) <==> exists|i: int| 0 <= i < k && (#[trigger] t.cyc(i)).contains(v),
    decreases k,
{
    if k > 0 {
        lemma_cyc_elems_member(t, k - 1, v);
        if cyc_elems(t, k).contains(v) {
            if t.cyc(k - 1).contains(v) { assert(0 <= k - 1 < k && t.cyc(k - 1).contains(v)); }
            else {
                let i = choose|i: int| 0 <= i < k - 1 && (#[trigger] t.cyc(i)).contains(v);
                assert(0 <= i < k && t.cyc(i).contains(v));
            }
        }
        if exists|i: int| 0 <= i < k && (#[trigger] t.cyc(i)).contains(v) {
            let i = choose|i: int| 0 <= i < k && (#[trigger] t.cyc(i)).contains(v);
            if i < k - 1 { assert(0 <= i < k - 1 && t.cyc(i).contains(v)); }
        }
    }
}
pub proof fn lemma_cyc_elems_len(t: TView, k: int)
    requires t.wf_cycles(), 0 <= k <= t.n(),
    ensures cyc_elems(t, k).len() == sum_seq(lens_of(t.cycles).take(k)),
    decreases k,
{
    let l = lens_of(t.cycles);
    if k > 0 {
        lemma_cyc_elems_len(t, k - 1);
        let a = cyc_elems(t, k - 1);
        let b = t.cyc(k - 1).to_set();
        assert(a.disjoint(b)) by {
            assert forall|v: VehicleIdx| !(a.contains(v) && b.contains(v)) by {
                if a.contains(v) && b.contains(v) {
                    lemma_cyc_elems_member(t, k - 1, v);
                    let i = choose|i: int| 0 <= i < k - 1 && (#[trigger] t.cyc(i)).contains(v);
                    let x = choose|x: int| 0 <= x < t.cyc(i).len() && t.cyc(i)[x] == v;
                    let ck = t.cyc(k - 1);
                    let y = choose|y: int| 0 <= y < ck.len() && ck[y] == v;
                    assert(t.cyc(i)[x] != t.cyc(k - 1)[y]);
                }
            }
        }
        vstd::set_lib::lemma_set_disjoint_lens(a, b);
        t.cyc(k - 1).unique_seq_to_set();
        assert(l.take(k).drop_last() =~= l.take(k - 1));
        assert(l.take(k).last() == t.cyc(k - 1).len());
    } else {
        assert(l.take(0) =~= Seq::<int>::empty());
    }
}
/// C15: a consistent transition holds as many vehicles as its lookup has keys
pub proof fn lemma_total_len_is_lookup(t: TView)
    requires t.wf_cycles(), t.wf_lookup(),
    ensures t.total_len() == t.lookup.dom().len(),
{
    let l = lens_of(t.cycles);
    lemma_cyc_elems_len(t, t.n());
    assert(l.take(t.n()) =~= l);
    assert(cyc_elems(t, t.n()) =~= t.lookup.dom()) by {
        assert forall|v: VehicleIdx| cyc_elems(t, t.n()).contains(v) <==> t.lookup.dom().contains(v) by {
            lemma_cyc_elems_member(t, t.n(), v);
            if cyc_elems(t, t.n()).contains(v) {
                let i = choose|i: int| 0 <= i < t.n() && (#[trigger] t.cyc(i)).contains(v);
                let x = choose|x: int| 0 <= x < t.cyc(i).len() && t.cyc(i)[x] == v;
                assert(t.lookup.contains_key(t.cyc(i)[x]));
            }
            if t.lookup.contains_key(v) {
                assert(0 <= t.cycle_of(v) < t.n() && t.cyc(t.cycle_of(v)).contains(v));
            }
        }
    }
}
/// the vehicles of one type
pub open spec fn typed_vehicles(vehicles: VehicleMap, vt: VehicleTypeIdx) -> Set<VehicleIdx> {
    vehicles.dom().filter(|v: VehicleIdx| vtype(vehicles[v]) == vt)
}
/// the vehicles of the first k listed types
pub open spec fn typed_union(vehicles: VehicleMap, vts: Seq<VehicleTypeIdx>, k: int) -> Set<VehicleIdx>
    decreases k,
{
    if k <= 0 { Set::empty() } else { typed_union(vehicles, vts, k - 1).union(typed_vehicles(vehicles, vts[k - 1])) }
}
pub proof fn lemma_typed_union(vehicles: VehicleMap, trs: Map<VehicleTypeIdx, Transition>, vts: Seq<VehicleTypeIdx>, k: int)
    requires
        vts.no_duplicates(), 0 <= k <= vts.len(),
        forall|i: int| 0 <= i < vts.len() ==> (#[trigger] trs[vts[i]]).total_len() == typed_vehicles(vehicles, vts[i]).len(),
    ensures
        typed_union(vehicles, vts, k).len() == len_sum(trs, vts.take(k)),
        typed_union(vehicles, vts, k).subset_of(vehicles.dom()),
        forall|v: VehicleIdx| typed_union(vehicles, vts, k).contains(v) ==> exists|j: int| 0 <= j < k && vtype(vehicles[v]) == #[trigger] vts[j],
    decreases k,
{
    if k > 0 {
        lemma_typed_union(vehicles, trs, vts, k - 1);
        let a = typed_union(vehicles, vts, k - 1);
        let b = typed_vehicles(vehicles, vts[k - 1]);
        assert(a.disjoint(b)) by {
            assert forall|v: VehicleIdx| !(a.contains(v) && b.contains(v)) by {
                if a.contains(v) && b.contains(v) {
                    let j = choose|j: int| 0 <= j < k - 1 && vtype(vehicles[v]) == #[trigger] vts[j];
                    assert(vts[j] != vts[k - 1]);
                }
            }
        }
        vstd::set_lib::lemma_set_disjoint_lens(a, b);
        let tk = vts.take(k);
        assert(tk.drop_last() =~= vts.take(k - 1));
        assert(tk.last() == vts[k - 1]);
        assert forall|v: VehicleIdx| typed_union(vehicles, vts, k).contains(v) implies exists|j: int| 0 <= j < k && vtype(vehicles[v]) == #[trigger] vts[j] by {
            if a.contains(v) {
                let j = choose|j: int| 0 <= j < k - 1 && vtype(vehicles[v]) == #[trigger] vts[j];
                assert(0 <= j < k && vtype(vehicles[v]) == vts[j]);
            } else {
                assert(0 <= k - 1 < k && vtype(vehicles[v]) == vts[k - 1]);
            }
        }
    } else {
        assert(vts.take(0) =~= Seq::<VehicleTypeIdx>::empty());
    }
}
/// (magnitude clause of transitions_ok) the cycles of all listed types hold at most as many vehicles as there are
pub proof fn lemma_len_sum_le_vehicles(s: &Schedule)
    requires
        sched_types(s).no_duplicates(),
        forall|vt: VehicleTypeIdx| #[trigger] s.next_period_transitions@.contains_key(vt) <==> sched_types(s).contains(vt),
        forall|vt: VehicleTypeIdx| #[trigger] s.next_period_transitions@.contains_key(vt) ==> s.next_period_transitions@[vt].wf(&s.network, s.tours@),
        forall|vt: VehicleTypeIdx, v: VehicleIdx| #![trigger s.next_period_transitions@[vt].has_vehicle(v)] s.next_period_transitions@.contains_key(vt)
            ==> (s.next_period_transitions@[vt].has_vehicle(v) <==> s.vehicles@.contains_key(v) && vtype(s.vehicles@[v]) == vt),
    ensures len_sum(s.next_period_transitions@, sched_types(s)) <= s.vehicles@.dom().len(),
{
    let trs = s.next_period_transitions@;
    let vts = sched_types(s);
    let vehicles = s.vehicles@;
    assert forall|i: int| 0 <= i < vts.len() implies (#[trigger] trs[vts[i]]).total_len() == typed_vehicles(vehicles, vts[i]).len() by {
        let vt = vts[i];
        assert(vts.contains(vt));
        assert(trs.contains_key(vt));
        let t = trs[vt];
        assert(t.wf(&s.network, s.tours@));
        lemma_total_len_is_lookup(t@);
        assert(t@.lookup.dom() =~= typed_vehicles(vehicles, vt)) by {
            assert forall|v: VehicleIdx| t@.lookup.dom().contains(v) <==> typed_vehicles(vehicles, vt).contains(v) by {
                assert(t.has_vehicle(v) <==> vehicles.contains_key(v) && vtype(vehicles[v]) == vt);
            }
        }
    }
    lemma_typed_union(vehicles, trs, vts, vts.len() as int);
    assert(vts.take(vts.len() as int) =~= vts);
    vstd::set_lib::lemma_len_subset(typed_union(vehicles, vts, vts.len() as int), vehicles.dom());
}

// ---- from_tours: the loop invariant is established by Schedule::empty, implies the precondition of
// spawn_vehicle_for_path, and is re-established by its postcondition -------------------------------------------
pub proof fn lemma_ft_init(s: &Schedule, net: Arc<Network>)
    requires
        s.network == net, s.is_empty_schedule(), s.sv_ok(), s.listings_match(),
        s.costs == s.staff_term(), s.staff_term() <= STAFF_COST_MAX,
        s.unserved_c(0) == unserved_from_scratch(&s.network, s.train_formations@, 0),
        s.unserved_c(1) == unserved_from_scratch(&s.network, s.train_formations@, 1),
        service_enum_ok(&s.network), caps_ok(&s.network),
    ensures s.ft_inv(net, Seq::<JobV>::empty()),
{
    reveal(Schedule::ft_inv);
    let tf = s.train_formations@;
    assert(s.vehicles@.dom() =~= Set::<VehicleIdx>::empty());
    assert forall|n: NodeIdx| #[trigger] tf.contains_key(n) implies form_small(tf[n].formation@, 0) by {
        lemma_fcap_empty(tf[n].formation@);
    }
}
pub proof fn lemma_ft_call(s: &Schedule, net: Arc<Network>, done: Seq<JobV>, job: JobV)
    requires s.ft_inv(net, done), job_ok(&net, job),
    ensures
        s.network == net, s.sv_ok(), s.listings_match(), s.type_known(job.0),
        job.1@.len() >= 1, all_in_net(&s.network, job.1@), tour_len_ok(job.1@), s.spawn_counter_ok(job.1@),
{
    reveal(Schedule::ft_inv);
}
/// C06 / C17 "There should be at least the overflow depot available.": n is a start depot node of the network whose depot lists
/// the vehicle type of every given tour WITHOUT per-type limit and whose total capacity is at least the number of given tours.
/// The overflow depot Network::new adds is meant to be such a depot: it lists every vehicle type of the network without limit
/// (slices/network_new.vs, C17.overflow_depot.no_per_type_limit_for_any_type); its total capacity is a computed number (C17,
/// finding D5) that is NOT related to the number of tours handed to from_tours in any slice -- hence a stated precondition
pub open spec fn depot_hosts_all(net: &Network, jobs: Seq<JobV>, n: NodeIdx) -> bool {
    let dep = net.sp_depot(net.sp_depot_idx_of(n));
    &&& net.start_depot_nodes@.contains(n)
    &&& forall|i: int| 0 <= i < jobs.len() ==> dep.allowed_types@.contains_key((#[trigger] jobs[i]).0) && dep.allowed_types@[jobs[i].0] is None
    &&& jobs.len() <= dep.total_capacity
}
pub open spec fn some_depot_hosts_all(net: &Network, jobs: Seq<JobV>) -> bool {
    exists|n: NodeIdx| #[trigger] depot_hosts_all(net, jobs, n)
}
/// C06: the preconditions spawn_vehicle_for_path got from find_best_start_depot_for_spawning hold in EVERY state from_tours can be
/// in before it spawns the next given tour: the usage table is exact (clause of sv_ok), so it only counts the vehicles spawned
/// so far -- fewer than there are given tours, hence fewer than the total capacity of the depot that hosts them all, which
/// lists the type without limit (lemma_depot_without_type_limit_suffices); the counts are small for the same reason
pub proof fn lemma_ft_call_depot(s: &Schedule, net: Arc<Network>, jobs: Seq<JobV>, done: Seq<JobV>, job: JobV)
    requires
        s.ft_inv(net, done), done.len() < jobs.len(), jobs[done.len() as int] == job, job_ok(&net, job),
        net.start_depots_ok(), some_depot_hosts_all(&net, jobs),
    ensures
        s.network.start_depots_ok(),
        s.usage_counts_small(job.0, s.depot_usage@),
        s.some_depot_has_room(job.0, s.depot_usage@), // @obl C06.from_tours.expect_in_find_best_start_depot_cannot_panic
{
    reveal(Schedule::ft_inv);
    let du = s.depot_usage@;
    assert(s.network.vehicle_types.ids_sorted@ == sched_types(s));
    // magnitude: the counts of an exact usage table are at most the number of vehicles
    lemma_usage_counts_small(s, job.0);
    let n = choose|n: NodeIdx| #[trigger] depot_hosts_all(&net, jobs, n);
    let d = s.network.sp_depot_idx_of(n);
    // in total at most done.len() vehicles start at the depot: fewer than there are given tours
    lemma_usage_counts_le_vehicles(s, d, job.0);
    assert(jobs[done.len() as int].0 == job.0);
    lemma_depot_without_type_limit_suffices(s, n, job.0, du);
}
/// C10 (ids) after one spawn
pub proof fn lemma_step_ids(s0: &Schedule, s1: &Schedule, vt: VehicleTypeIdx, path: Seq<NodeIdx>, id: VehicleIdx)
    requires s0.sv_ids_ok(), s0.vehicle_counter <= 0xffff, s0.spawned(vt, path, s1, id), s0.listed(vt, s1, id),
    ensures s1.sv_ids_ok(),
{
    assert forall|v: VehicleIdx| #[trigger] s1.vehicles@.contains_key(v)
        implies v is Vehicle && (v->Vehicle_0 as int) < s1.vehicle_counter && s1.vehicles@[v].idx == v by {
        if v != id { assert(s0.vehicles@.contains_key(v)); }
    }
    assert forall|v: VehicleIdx| #[trigger] s1.vehicles@.contains_key(v) <==> s1.tours@.contains_key(v) by {
        if v != id { assert(s0.vehicles@.contains_key(v) <==> s0.tours@.contains_key(v)); }
    }
    assert forall|t: VehicleTypeIdx| #[trigger] s1.vehicle_ids_grouped_and_sorted@.contains_key(t) implies sorted_cmp(s1.listing(t)) by {
        if t != vt { assert(s0.vehicle_ids_grouped_and_sorted@.contains_key(t)); assert(s1.listing(t) == s0.listing(t)); }
    }
}
/// the formations stay small: every formation gained at most the new vehicle
pub proof fn lemma_step_forms(s0: &Schedule, s1: &Schedule, id: VehicleIdx, k: int)
    requires
        s0.formations_follow(s1, id), !s0.dummy_tours@.contains_key(s1.vehicles@[id].idx),
        s1.vehicles@[id].vehicle_type.capacity <= CAP_MAX, s1.vehicles@[id].vehicle_type.seats <= CAP_MAX,
        forall|n: NodeIdx| #[trigger] s0.train_formations@.contains_key(n) ==> form_small(s0.train_formations@[n].formation@, k),
    ensures
        forall|n: NodeIdx| #[trigger] s1.train_formations@.contains_key(n) ==> form_small(s1.train_formations@[n].formation@, k + 1),
{
    let tf0 = s0.train_formations@;
    let tf1 = s1.train_formations@;
    let vh = s1.vehicles@[id];
    let rv = Some(vh);
    let nodes = s1.tours@[id].nodes@;
    assert(s0.grows(None, rv));
    assert forall|n: NodeIdx| #[trigger] tf1.contains_key(n) implies form_small(tf1[n].formation@, k + 1) by {
        assert(tf0.dom().contains(n));
        assert(tf0.contains_key(n));
        let f = tf0[n].formation@;
        if moved_nd(&s0.network, nodes, n) {
            assert(tf1[n].formation@ == s0.repl_seq(f, None, rv));
            assert(tf1[n].formation@ == f.push(vh));
            lemma_fcap_push(f, vh);
            assert((f.len() + 1) * CAP_MAX == f.len() * CAP_MAX + CAP_MAX) by (nonlinear_arith);
        } else {
            assert(tf1[n] == tf0[n]);
        }
    }
}
pub proof fn lemma_ft_step(s0: &Schedule, s1: &Schedule, net: Arc<Network>, done: Seq<JobV>, job: JobV, id: VehicleIdx)
    requires
        s0.ft_inv(net, done), job_ok(&net, job), s0.vehicle_counter <= 0xffff,
        // the postcondition of spawn_vehicle_for_path(job.0, job.1) -> Ok((s1, id))
        all_compatible(&s0.network, s1.tours@[id].nodes@, job.0),
        s0.spawned(job.0, job.1@, s1, id),
        activities_kept(&s0.network, job.1@, s1.tours@[id].nodes@),
        s0.listed(job.0, s1, id),
        s1.listings_match(),
        s0.formations_follow(s1, id),
        s1.costs == s0.costs + s1.tours@[id].costs,
        usage_exact(s1.depot_usage@, &s0.network, s1.vehicles@, s1.tours@),
        s0.transitions_follow(job.0, s1),
    ensures s1.ft_inv(net, done.push(job)),
{
    reveal(Schedule::ft_inv);
    let vt = job.0;
    let path = job.1@;
    let k = done.len() as int;
    let d1 = done.push(job);
    let tf0 = s0.train_formations@;
    let tf1 = s1.train_formations@;
    let vh = s1.vehicles@[id];
    assert(id == VehicleIdx::Vehicle(k as Idx));
    assert(s1.network == net);
    // ids
    lemma_step_ids(s0, s1, vt, path, id);
    assert forall|v: VehicleIdx| #[trigger] s1.vehicles@.contains_key(v) <==> v is Vehicle && (v->Vehicle_0 as int) < d1.len() by {
        if v != id { assert(s0.vehicles@.contains_key(v) <==> v is Vehicle && (v->Vehicle_0 as int) < k); }
    }
    assert(s1.vehicles@.dom() =~= s0.vehicles@.dom().insert(id));
    // C14: one vehicle per given tour
    assert forall|i: int| 0 <= i < d1.len() implies s1.vehicle_of_job(i, #[trigger] d1[i]) by {
        if i < k {
            assert(s0.vehicle_of_job(i, done[i]));
            assert(VehicleIdx::Vehicle(i as Idx) != id);
        }
    }
    // the id lists
    assert forall|t: VehicleTypeIdx| #[trigger] s1.vehicle_ids_grouped_and_sorted@.contains_key(t) <==> sched_types(s1).contains(t) by {
        assert(s0.vehicle_ids_grouped_and_sorted@.contains_key(t) <==> sched_types(s0).contains(t));
    }
    // formations
    assert(vh.vehicle_type == s0.vtypes()[vt]);
    lemma_step_forms(s0, s1, id, k);
    lemma_step_unserved(s0, s1, id, 0);
    lemma_step_unserved(s0, s1, id, 1);
    lemma_total_covers_lists(s1, 0);
    lemma_total_covers_lists(s1, 1);
    assert(s1.sv_formations_ok()) by {
        assert forall|n: NodeIdx| s1.network.has(n) && s1.network.sp_node(n).sp_is_activity() implies #[trigger] tf1.contains_key(n) by {
            assert(tf0.contains_key(n));
            assert(tf1.dom().contains(n));
        }
        assert forall|n: NodeIdx| #[trigger] tf1.contains_key(n) implies tf1[n].formation@.len() <= max_vehicles() by {
            assert(form_small(tf1[n].formation@, k + 1));
        }
        assert forall|n: NodeIdx, t: VehicleTypeIdx| #![trigger tf1[n], s1.vtypes()[t]] tf1.contains_key(n) && s1.vtypes().contains_key(t)
            implies fcap(tf1[n].formation@) + s1.vtypes()[t].capacity <= u32::MAX && fseats(tf1[n].formation@) + s1.vtypes()[t].seats <= u32::MAX by {
            let f = tf1[n].formation@;
            assert(form_small(f, k + 1));
            assert(f.len() * CAP_MAX <= 0x10000 * CAP_MAX) by (nonlinear_arith) requires f.len() <= 0x10000, CAP_MAX == 0x7fff;
        }
        assert forall|q: Seq<NodeIdx>, c: int| #![trigger s1.un_old(q, q.len() as int, c)] q.no_duplicates() && all_in_net(&s1.network, q) && (c == 0 || c == 1)
            implies s1.un_old(q, q.len() as int, c) <= s1.unserved_c(c) by {}
    }
    // rotation cycles
    assert(s1.transitions_ok()) by {
        let trs1 = s1.next_period_transitions@;
        assert(sched_types(s1) == sched_types(s0));
        assert forall|t: VehicleTypeIdx| #[trigger] trs1.contains_key(t) <==> sched_types(s1).contains(t) by {
            assert(s0.next_period_transitions@.contains_key(t) <==> sched_types(s0).contains(t));
        }
        lemma_len_sum_le_vehicles(s1);
    }
    // costs
    assert(s1.tours@[id].costs <= TOUR_COST_MAX) by {
        assert(path_cost_ok(&net, path));
        assert(tour_of_net(&net, &s1.tours@[id]));
    }
    assert((k + 1) * TOUR_COST_MAX == k * TOUR_COST_MAX + TOUR_COST_MAX) by (nonlinear_arith);
    assert(STAFF_COST_MAX + (k + 1) * TOUR_COST_MAX <= sched_cost_bound()) by (nonlinear_arith)
        requires 0 <= k < 0x10000, STAFF_COST_MAX == 0x1000_0000_0000_0000, TOUR_COST_MAX == 0x1000_0000_0000, sched_cost_bound() == 0x2000_0000_0000_0000;
    assert(s1.staff_term() == s0.staff_term());
    assert(s1.sv_ok());
    // C09: the cost figure
    assert forall|j: int| 0 <= j < k implies s0.tours@[#[trigger] all_ids()[j]] == s1.tours@[all_ids()[j]] by {
        assert(all_ids()[j] != id);
    }
    lemma_pre_costs_frame(s0.tours@, s1.tours@, all_ids(), k);
    assert(all_ids()[k] == id);
}
/// the number of tours in the first k entries
pub open spec fn tours_total(es: TourEntries, k: int) -> int
    decreases k,
{
    if k <= 0 { 0 } else { tours_total(es, k - 1) + es[k - 1].1@.len() }
}
pub proof fn lemma_jobs_len(es: TourEntries, k: int)
    ensures jobs_upto(es, k).len() == tours_total(es, k),
    decreases k,
{
    if k > 0 { lemma_jobs_len(es, k - 1); }
}
/// what from_tours guarantees about its result (the readable part of ft_inv)
pub open spec fn from_tours_post(s: &Schedule, net: Arc<Network>, jobs: Seq<JobV>) -> bool {
    &&& s.network == net
    // "the number of vehicles is the number of given tours": ids 0, 1, 2, … in order of creation
    &&& s.vehicle_counter == jobs.len() && s.vehicles@.dom().len() == jobs.len()
    &&& forall|v: VehicleIdx| #[trigger] s.vehicles@.contains_key(v) <==> v is Vehicle && (v->Vehicle_0 as int) < jobs.len()
    // "every given tour becomes the tour of exactly one vehicle of the given type": the i-th given tour is the tour of vehicle i
    &&& forall|i: int| 0 <= i < jobs.len() ==> s.vehicle_of_job(i, #[trigger] jobs[i])
    // no dummy tours
    &&& s.dummy_tours@ == Map::<VehicleIdx, Tour>::empty() && s.dummy_ids_sorted@.len() == 0
}
pub proof fn lemma_ft_post(s: &Schedule, net: Arc<Network>, jobs: Seq<JobV>)
    requires s.ft_inv(net, jobs),
    ensures
        from_tours_post(s, net, jobs), s.sv_ok(), s.listings_match(),
        s.unserved_c(0) == unserved_from_scratch(&s.network, s.train_formations@, 0),
        s.unserved_c(1) == unserved_from_scratch(&s.network, s.train_formations@, 1),
        s.costs == s.staff_term() + pre_costs(s.tours@, all_ids(), jobs.len() as int),
{
    reveal(Schedule::ft_inv);
}
