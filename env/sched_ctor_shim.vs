// ---- environment of the slice `sched_ctor` (Schedule::compute_unserved_passengers / empty / from_tours) ----
// Included inside `pub mod tr { … }` after env/im_shim.vs, env/transition_spec.vs, env/schedule_shim.vs,
// env/sched_guard_shim.vs and env/spawn_vehicle_shim.vs (nothing is copied from them: they are included as they are).
// Everything `external_body` / `uninterp` / `axiom` in this file is an ASSUMPTION (listed in the header of
// slices/sched_ctor.vs): A-iter (SeqIter::fold), A-index (all_service_seq), A-im (FromIterator of im::HashMap).
// The rest are open spec functions and proved lemmas.

// =====================================================================================================
// A-iter: `Iterator::fold` (std: "Folds every element into an accumulator by applying an operation, returning the
// final result … the closure is applied left to right, the first call gets `init`")
// =====================================================================================================
/// b is a value the accumulator can have after the first k items: b == init for k == 0, otherwise the closure
/// returned b when it was applied to such a value for k - 1 and to item k - 1
pub open spec fn fold_rel<T, B, F: Fn(B, T) -> B>(s: Seq<T>, init: B, f: F, k: int, b: B) -> bool
    decreases k,
{
    if k <= 0 { b == init } else { exists|b0: B| fold_rel(s, init, f, k - 1, b0) && #[trigger] f.ensures((b0, s[k - 1]), b) }
}
impl<T> SeqIter<T> {
    /// left fold, in order.  The closure must be callable on every accumulator value that can arise (for the u32
    /// additions of compute_unserved_passengers: no partial sum overflows -- see lemma_fold_adds_pairs)
    #[verifier::external_body]
    pub fn fold<B, F: Fn(B, T) -> B>(self, init: B, f: F) -> (r: B)
        requires forall|k: int, b: B| 0 <= k < self@.len() && #[trigger] fold_rel(self@, init, f, k, b) ==> f.requires((b, self@[k])),
        ensures fold_rel(self@, init, f, self@.len() as int, r),
    { unimplemented!() }
}

// ---- pairs of passenger counts ---------------------------------------------------------------------------
pub type UPair = (PassengerCount, PassengerCount);
pub open spec fn pcomp(p: UPair, c: int) -> int { if c == 0 { p.0 as int } else { p.1 as int } }
/// component c of the sum of the first k pairs
pub open spec fn pair_sum(s: Seq<UPair>, k: int, c: int) -> int
    decreases k,
{
    if k <= 0 { 0 } else { pair_sum(s, k - 1, c) + pcomp(s[k - 1], c) }
}
pub proof fn lemma_pair_sum_mono(s: Seq<UPair>, a: int, b: int, c: int)
    requires 0 <= a <= b,
    ensures 0 <= pair_sum(s, a, c) <= pair_sum(s, b, c),
    decreases b,
{
    if a < b { lemma_pair_sum_mono(s, a, b - 1, c); }
    else if a > 0 { lemma_pair_sum_mono(s, a - 1, b - 1, c); }
}
/// the closure adds component-wise and can be called whenever neither addition overflows
pub open spec fn adds_pairs<F: Fn(UPair, UPair) -> UPair>(f: F) -> bool {
    &&& forall|b: UPair, x: UPair| b.0 + x.0 <= u32::MAX && b.1 + x.1 <= u32::MAX ==> #[trigger] f.requires((b, x))
    &&& forall|b: UPair, x: UPair, r: UPair| #[trigger] f.ensures((b, x), r) ==> r.0 == b.0 + x.0 && r.1 == b.1 + x.1
}
/// folding with a component-wise addition from (0, 0): the accumulator after k items is the pair of the partial
/// sums; if the total sums fit into u32 so does every partial sum, i.e. the closure can be called
pub broadcast proof fn lemma_fold_adds_pairs<F: Fn(UPair, UPair) -> UPair>(s: Seq<UPair>, init: UPair, f: F, k: int, b: UPair)
    requires
        adds_pairs(f), 0 <= k <= s.len(), init == (0u32, 0u32),
        pair_sum(s, s.len() as int, 0) <= u32::MAX, pair_sum(s, s.len() as int, 1) <= u32::MAX,
        #[trigger] fold_rel(s, init, f, k, b),
    ensures
        b.0 == pair_sum(s, k, 0), b.1 == pair_sum(s, k, 1),
        k < s.len() ==> f.requires((b, s[k])),
    decreases k,
{
    if k > 0 {
        let b0 = choose|b0: UPair| fold_rel(s, init, f, k - 1, b0) && #[trigger] f.ensures((b0, s[k - 1]), b);
        lemma_fold_adds_pairs(s, init, f, k - 1, b0);
        lemma_pair_sum_mono(s, k, s.len() as int, 0);
        lemma_pair_sum_mono(s, k, s.len() as int, 1);
    }
    if k < s.len() {
        lemma_pair_sum_mono(s, k + 1, s.len() as int, 0);
        lemma_pair_sum_mono(s, k + 1, s.len() as int, 1);
    }
}

// =====================================================================================================
// C09: the unserved passengers of a schedule from scratch
// =====================================================================================================
/// A-index: the service nodes of the network in the order `Network::all_service_nodes` yields them (the values of
/// `nodes_sorted_by_start` that are service trips: by start time)
pub uninterp spec fn all_service_seq(net: &Network) -> Seq<NodeIdx>;
/// A-index (how Network::new fills `nodes_sorted_by_start`): the enumeration lists every service trip of the
/// network exactly once and nothing else
pub open spec fn service_enum_ok(net: &Network) -> bool {
    let s = all_service_seq(net);
    &&& s.no_duplicates()
    &&& forall|i: int| 0 <= i < s.len() ==> net.has(#[trigger] s[i]) && net.sp_node(s[i]) is Service
    &&& forall|n: NodeIdx| net.has(n) && net.sp_node(n) is Service ==> #[trigger] s.contains(n)
}
/// component c of the sum, over the first k nodes of s, of the unserved passengers of the node with its formation in tf
/// (`unserved_at`: env/train_formation_update_shim.vs -- demand above capacity / seated demand above seats)
pub open spec fn un_total(net: &Network, tf: Formations, s: Seq<NodeIdx>, k: int, c: int) -> int
    decreases k,
{
    if k <= 0 { 0 } else { un_total(net, tf, s, k - 1, c) + unserved_at(net, s[k - 1], tf[s[k - 1]].formation@, c) }
}
/// C09 "cached aggregates equal recomputation": the from-scratch value of the unserved-passengers pair
pub open spec fn unserved_from_scratch(net: &Network, tf: Formations, c: int) -> int {
    un_total(net, tf, all_service_seq(net), all_service_seq(net).len() as int, c)
}
/// m lists, node by node, the pair compute_unserved_passengers_at_node yields
pub open spec fn maps_unserved(net: &Network, tf: Formations, s: Seq<NodeIdx>, m: Seq<UPair>) -> bool {
    &&& m.len() == s.len()
    &&& forall|i: int| 0 <= i < s.len() ==> (#[trigger] m[i]).0 == unserved_at(net, s[i], tf[s[i]].formation@, 0)
            && m[i].1 == unserved_at(net, s[i], tf[s[i]].formation@, 1)
}
pub broadcast proof fn lemma_pair_sum_unserved(net: &Network, tf: Formations, s: Seq<NodeIdx>, m: Seq<UPair>, k: int, c: int)
    requires maps_unserved(net, tf, s, m), 0 <= k <= s.len(), c == 0 || c == 1,
    ensures #![trigger pair_sum(m, k, c), un_total(net, tf, s, k, c)] pair_sum(m, k, c) == un_total(net, tf, s, k, c),
    decreases k,
{
    if k > 0 { lemma_pair_sum_unserved(net, tf, s, m, k - 1, c); }
}

// ---- sums over node lists: a duplicate-free list only contributes what the full enumeration contributes ------
pub proof fn lemma_nsum_zero(s: Seq<NodeIdx>, g: spec_fn(NodeIdx) -> int)
    requires forall|i: int| 0 <= i < s.len() ==> g(#[trigger] s[i]) == 0,
    ensures nsum(s, g) == 0,
{
    assert forall|i: int| 0 <= i < s.len() implies 0 <= #[trigger] g(s[i]) <= 0 by {}
    lemma_nsum_nonneg(s, g, 0);
}
pub proof fn lemma_nsum_remove(s: Seq<NodeIdx>, g: spec_fn(NodeIdx) -> int, p: int)
    requires 0 <= p < s.len(),
    ensures nsum(s, g) == nsum(s.remove(p), g) + g(s[p]),
{
    let a = s.subrange(0, p);
    let b = s.subrange(p + 1, s.len() as int);
    assert(s =~= a + seq![s[p]] + b);
    assert(s.remove(p) =~= a + b);
    lemma_nsum_append(a + seq![s[p]], b, g);
    lemma_nsum_append(a, seq![s[p]], g);
    lemma_nsum_append(a, b, g);
    assert(seq![s[p]].map_values(g) =~= seq![g(s[p])]);
    lemma_isum_one(g(s[p]));
}
pub proof fn lemma_remove_no_dup(s: Seq<NodeIdx>, p: int)
    requires 0 <= p < s.len(), s.no_duplicates(),
    ensures s.remove(p).no_duplicates(), !s.remove(p).contains(s[p]),
        forall|x: NodeIdx| x != s[p] && s.contains(x) ==> #[trigger] s.remove(p).contains(x),
        forall|i: int| 0 <= i < s.remove(p).len() ==> s.contains(#[trigger] s.remove(p)[i]),
{
    let t = s.remove(p);
    assert forall|i: int, j: int| 0 <= i < t.len() && 0 <= j < t.len() && i != j implies t[i] != t[j] by {
        let a = if i < p { i } else { i + 1 };
        let b = if j < p { j } else { j + 1 };
        assert(t[i] == s[a] && t[j] == s[b]);
    }
    if t.contains(s[p]) {
        let i = choose|i: int| 0 <= i < t.len() && t[i] == s[p];
        let a = if i < p { i } else { i + 1 };
        assert(t[i] == s[a]);
    }
    assert forall|x: NodeIdx| x != s[p] && s.contains(x) implies #[trigger] t.contains(x) by {
        let i = choose|i: int| 0 <= i < s.len() && s[i] == x;
        if i < p { assert(t[i] == x); } else { assert(t[i - 1] == x); }
    }
    assert forall|i: int| 0 <= i < t.len() implies s.contains(#[trigger] t[i]) by {
        let a = if i < p { i } else { i + 1 };
        assert(t[i] == s[a]);
    }
}
pub proof fn lemma_nsum_drop_last(a: Seq<NodeIdx>, g: spec_fn(NodeIdx) -> int)
    requires a.len() > 0,
    ensures nsum(a, g) == nsum(a.drop_last(), g) + g(a.last()),
{
    assert(a.map_values(g).drop_last() =~= a.drop_last().map_values(g));
}
/// a duplicate-free list s whose nodes with a non-zero (non-negative) weight all occur in the duplicate-free list a
/// weighs at most as much as a
pub proof fn lemma_nsum_sub(s: Seq<NodeIdx>, a: Seq<NodeIdx>, g: spec_fn(NodeIdx) -> int)
    requires
        s.no_duplicates(), a.no_duplicates(),
        forall|n: NodeIdx| 0 <= #[trigger] g(n),
        forall|i: int| 0 <= i < s.len() && g(#[trigger] s[i]) != 0 ==> a.contains(s[i]),
    ensures nsum(s, g) <= nsum(a, g),
    decreases a.len(),
{
    if a.len() == 0 {
        assert forall|i: int| 0 <= i < s.len() implies g(#[trigger] s[i]) == 0 by {
            if g(s[i]) != 0 { assert(a.contains(s[i])); }
        }
        lemma_nsum_zero(s, g);
        assert(a.map_values(g) =~= Seq::<int>::empty());
    } else {
        let x = a.last();
        let d = a.drop_last();
        lemma_nsum_drop_last(a, g);
        if s.contains(x) {
            let p = choose|p: int| 0 <= p < s.len() && s[p] == x;
            let t = s.remove(p);
            lemma_nsum_remove(s, g, p);
            lemma_remove_no_dup(s, p);
            assert forall|i: int| 0 <= i < t.len() && g(#[trigger] t[i]) != 0 implies d.contains(t[i]) by {
                assert(s.contains(t[i]));
                let j = choose|j: int| 0 <= j < s.len() && s[j] == t[i];
                assert(a.contains(s[j]));
                lemma_drop_last_contains(a);
            }
            lemma_drop_last_contains(a);
            lemma_nsum_sub(t, d, g);
        } else {
            assert forall|i: int| 0 <= i < s.len() && g(#[trigger] s[i]) != 0 implies d.contains(s[i]) by {
                assert(s.contains(s[i]));
                lemma_drop_last_contains(a);
            }
            lemma_drop_last_contains(a);
            lemma_nsum_sub(s, d, g);
        }
    }
}
/// the weight function of the unserved passengers
pub open spec fn un_fn(net: &Network, tf: Formations, c: int) -> spec_fn(NodeIdx) -> int {
    |n: NodeIdx| unserved_at(net, n, tf[n].formation@, c)
}
pub proof fn lemma_un_total_nsum(net: &Network, tf: Formations, s: Seq<NodeIdx>, k: int, c: int)
    requires 0 <= k <= s.len(),
    ensures un_total(net, tf, s, k, c) == nsum(s.take(k), un_fn(net, tf, c)),
    decreases k,
{
    let g = un_fn(net, tf, c);
    if k > 0 {
        lemma_un_total_nsum(net, tf, s, k - 1, c);
        lemma_nsum_drop_last(s.take(k), g);
        assert(s.take(k).drop_last() =~= s.take(k - 1));
    } else {
        assert(s.take(0).map_values(g) =~= Seq::<int>::empty());
    }
}
/// Schedule::un_sum over the old formations is un_total
pub proof fn lemma_un_old_total(sch: &Schedule, tf: Formations, s: Seq<NodeIdx>, k: int, c: int)
    ensures sch.un_sum(tf, None, None, s, k, false, c) == un_total(&sch.network, tf, s, k, c),
    decreases k,
{
    if k > 0 { lemma_un_old_total(sch, tf, s, k - 1, c); }
}
/// C09, the form the u32 subtractions of update_train_formation need (clause of sv_formations_ok): if the cached pair
/// is the from-scratch value, it covers the contribution of any duplicate-free list of nodes of the network
pub proof fn lemma_total_covers_lists(sch: &Schedule, c: int)
    requires
        service_enum_ok(&sch.network), c == 0 || c == 1,
        sch.unserved_c(c) == unserved_from_scratch(&sch.network, sch.train_formations@, c),
    ensures
        forall|s: Seq<NodeIdx>| #![trigger sch.un_old(s, s.len() as int, c)] s.no_duplicates() && all_in_net(&sch.network, s)
            ==> sch.un_old(s, s.len() as int, c) <= sch.unserved_c(c),
{
    let net = &sch.network;
    let tf = sch.train_formations@;
    let a = all_service_seq(net);
    let g = un_fn(net, tf, c);
    assert forall|s: Seq<NodeIdx>| #![trigger sch.un_old(s, s.len() as int, c)] s.no_duplicates() && all_in_net(net, s)
        implies sch.un_old(s, s.len() as int, c) <= sch.unserved_c(c) by {
        lemma_un_old_total(sch, tf, s, s.len() as int, c);
        lemma_un_total_nsum(net, tf, s, s.len() as int, c);
        lemma_un_total_nsum(net, tf, a, a.len() as int, c);
        assert(s.take(s.len() as int) =~= s);
        assert(a.take(a.len() as int) =~= a);
        assert forall|i: int| 0 <= i < s.len() && g(#[trigger] s[i]) != 0 implies a.contains(s[i]) by {
            assert(net.has(s[i]));
            assert(net.sp_node(s[i]) is Service);
        }
        lemma_nsum_sub(s, a, g);
    }
}

// =====================================================================================================
// Schedule::empty
// =====================================================================================================
/// the rotation cycles of no vehicles: no cycle, no lookup entry, no reusable empty cycle, totals 0
pub open spec fn empty_transition(t: &Transition) -> bool {
    &&& t.cycles@.len() == 0
    &&& t.total_maintenance_violation == 0
    &&& t.total_maintenance_counter == 0
    &&& t.cycle_lookup@ == Map::<VehicleIdx, CycleIdx>::empty()
    &&& t.empty_cycles@.len() == 0
}
/// C15 for the empty transition: it is consistent with any tours, holds no vehicle and no violation
pub proof fn lemma_empty_transition(t: &Transition, net: &Network, tours: Map<VehicleIdx, Tour>)
    requires empty_transition(t), net.wf(),
    ensures t.wf(net, tours), t.total_len() == 0, forall|v: VehicleIdx| !#[trigger] t.has_vehicle(v),
{
    assert(lens_of(t@.cycles) =~= Seq::<int>::empty());
    assert(counters_of(t@.cycles) =~= Seq::<int>::empty());
    assert(violations_of(t@.cycles) =~= Seq::<int>::empty());
    assert(t@.empty =~= Seq::<CycleIdx>::empty());
}
/// A-im: `iter.collect::<im::HashMap<K, V>>()` (FromIterator for im::HashMap inserts the pairs in order): the keys of the
/// result are exactly the first components, and every key maps to the second component of SOME pair with that key (in
/// fact the last one; not needed here).  Text as for std's HashMap in env/network_new_shim.vs.
pub uninterp spec fn imhm_source<K, V>(m: self::im::HashMap<K, V>) -> Seq<(K, V)>;
impl<K, V> VCollect<(K, V)> for self::im::HashMap<K, V> {
    open spec fn collected(&self) -> Seq<(K, V)> { imhm_source(*self) }
}
pub broadcast axiom fn axiom_imhm_collect<K, V>(m: self::im::HashMap<K, V>)
    ensures
        forall|k: K| #[trigger] m@.contains_key(k) ==> exists|i: int| 0 <= i < imhm_source(m).len() && #[trigger] imhm_source(m)[i] == (k, m@[k]),
        forall|i: int| 0 <= i < imhm_source(m).len() ==> m@.contains_key((#[trigger] imhm_source(m)[i]).0),
        #[trigger] imhm_source(m).len() >= 0;

/// the nodes `Network::coverable_nodes` yields: the service trips, then the maintenance slots
pub open spec fn coverable_seq(net: &Network) -> Seq<NodeIdx> { all_service_seq(net) + net.maintenance_nodes@ }
/// A-index for the maintenance slots (how Network::new fills `maintenance_nodes`; cf. a_index in env/json_writer_shim.vs):
/// every maintenance slot of the network is listed
pub open spec fn maintenance_listed(net: &Network) -> bool {
    forall|n: NodeIdx| net.has(n) && net.sp_node(n) is Maintenance ==> #[trigger] net.maintenance_nodes@.contains(n)
}
/// every entry is an empty formation
pub open spec fn formations_empty(tf: Formations) -> bool {
    forall|n: NodeIdx| #[trigger] tf.contains_key(n) ==> tf[n].formation@.len() == 0
}
/// the table has exactly the nodes of s as keys
pub open spec fn formation_keys(tf: Formations, s: Seq<NodeIdx>) -> bool {
    forall|n: NodeIdx| #[trigger] tf.contains_key(n) <==> s.contains(n)
}
/// (type ascription helpers: the code leaves the types of its `collect()` results to inference)
pub open spec fn view_trs(m: &HashMap<VehicleTypeIdx, Transition>) -> Map<VehicleTypeIdx, Transition> { m@ }
pub open spec fn view_lists(m: &HashMap<VehicleTypeIdx, Vec<VehicleIdx>>) -> Map<VehicleTypeIdx, Vec<VehicleIdx>> { m@ }
/// component c of the demand (passengers / seated passengers) of the first k nodes of s
pub open spec fn demand_sum(net: &Network, s: Seq<NodeIdx>, k: int, c: int) -> int
    decreases k,
{
    if k <= 0 { 0 } else { demand_sum(net, s, k - 1, c) + (if c == 0 { net.sp_trip(s[k - 1]).passengers as int } else { net.sp_trip(s[k - 1]).seated as int }) }
}
/// the whole demand of the instance
pub open spec fn demand_total(net: &Network, c: int) -> int { demand_sum(net, all_service_seq(net), all_service_seq(net).len() as int, c) }
pub proof fn lemma_fcap_empty(f: Seq<Vehicle>)
    requires f.len() == 0,
    ensures fcap(f) == 0, fseats(f) == 0,
{
    assert(f.map_values(|v: Vehicle| v.vehicle_type.capacity as int) =~= Seq::<int>::empty());
    assert(f.map_values(|v: Vehicle| v.vehicle_type.seats as int) =~= Seq::<int>::empty());
}
/// with empty formations nobody is served: the unserved passengers are the demand
pub proof fn lemma_un_total_empty(net: &Network, tf: Formations, s: Seq<NodeIdx>, k: int, c: int)
    requires
        0 <= k <= s.len(), c == 0 || c == 1,
        forall|i: int| 0 <= i < s.len() ==> net.sp_node(#[trigger] s[i]) is Service && tf[s[i]].formation@.len() == 0,
    ensures un_total(net, tf, s, k, c) == demand_sum(net, s, k, c),
    decreases k,
{
    if k > 0 {
        lemma_un_total_empty(net, tf, s, k - 1, c);
        lemma_fcap_empty(tf[s[k - 1]].formation@);
    }
}
/// the sums over the vehicle types of empty transitions are 0
pub proof fn lemma_type_sums_empty(trs: Map<VehicleTypeIdx, Transition>, vts: Seq<VehicleTypeIdx>)
    requires forall|i: int| 0 <= i < vts.len() ==> empty_transition(&#[trigger] trs[vts[i]]),
    ensures viol_sum(trs, vts) == 0, len_sum(trs, vts) == 0,
    decreases vts.len(),
{
    if vts.len() > 0 {
        let d = vts.drop_last();
        assert forall|i: int| 0 <= i < d.len() implies empty_transition(&#[trigger] trs[d[i]]) by { assert(d[i] == vts[i]); }
        lemma_type_sums_empty(trs, d);
        assert(vts.last() == vts[vts.len() - 1]);
        let t = trs[vts.last()];
        assert(lens_of(t@.cycles) =~= Seq::<int>::empty());
    }
}
/// instance validity as far as the schedule invariant sv_ok needs it beyond Network::wf: A-index for the depot node
/// lists (depot_lists_ok), the listed vehicle types are pairwise distinct, and the vehicle type every service trip
/// prescribes is a vehicle type of the network (A-types)
pub open spec fn instance_ok(net: &Network) -> bool {
    &&& depot_lists_ok(net)
    &&& net.vehicle_types.ids_sorted@.no_duplicates()
    &&& forall|n: NodeIdx| net.has(n) && #[trigger] net.sp_node(n) is Service ==> net.is_trip(n)
}
impl Schedule {
    /// C10, base case: the schedule without vehicles
    pub open spec fn is_empty_schedule(&self) -> bool {
        &&& self.vehicles@ == Map::<VehicleIdx, Vehicle>::empty()
        &&& self.tours@ == Map::<VehicleIdx, Tour>::empty()
        &&& self.dummy_tours@ == Map::<VehicleIdx, Tour>::empty()
        &&& self.dummy_ids_sorted@.len() == 0
        &&& self.vehicle_counter == 0
        &&& self.depot_usage@ == Map::<(DepotIdx, VehicleTypeIdx), (HashSet<VehicleIdx>, HashSet<VehicleIdx>)>::empty()
        // exactly the coverable nodes have a formation, an EMPTY one
        &&& forall|n: NodeIdx| #[trigger] self.train_formations@.contains_key(n) <==> coverable_seq(&self.network).contains(n)
        &&& forall|n: NodeIdx| #[trigger] self.train_formations@.contains_key(n) ==> self.train_formations@[n].formation@.len() == 0
        // exactly the listed vehicle types have an id list, an EMPTY one, and a transition, the one of no vehicles
        &&& forall|vt: VehicleTypeIdx| #[trigger] self.vehicle_ids_grouped_and_sorted@.contains_key(vt) <==> sched_types(self).contains(vt)
        &&& forall|vt: VehicleTypeIdx| #[trigger] self.vehicle_ids_grouped_and_sorted@.contains_key(vt) ==> self.listing(vt).len() == 0
        &&& forall|vt: VehicleTypeIdx| #[trigger] self.next_period_transitions@.contains_key(vt) <==> sched_types(self).contains(vt)
        &&& forall|vt: VehicleTypeIdx| #[trigger] self.next_period_transitions@.contains_key(vt) ==> empty_transition(&self.next_period_transitions@[vt])
    }
}
/// C10 / C09: the empty schedule satisfies the schedule invariants the modifications take as precondition
pub proof fn lemma_empty_invariants(s: &Schedule)
    requires
        s.is_empty_schedule(), s.network.wf(), service_enum_ok(&s.network), maintenance_listed(&s.network),
        s.maintenance_violation == 0,
        s.unserved_c(0) == unserved_from_scratch(&s.network, s.train_formations@, 0),
        s.unserved_c(1) == unserved_from_scratch(&s.network, s.train_formations@, 1),
    ensures
        s.sv_ids_ok(),
        usage_exact(s.depot_usage@, &s.network, s.vehicles@, s.tours@),
        s.listings_match(),
        instance_ok(&s.network) ==> s.sv_formations_ok(),
        instance_ok(&s.network) ==> s.transitions_ok(),
        instance_ok(&s.network) && s.costs <= sched_cost_bound() ==> s.sv_ok(),
        viol_sum(s.next_period_transitions@, sched_types(s)) == 0,
{
    {
        let trs = s.next_period_transitions@;
        let vts = sched_types(s);
        assert forall|i: int| 0 <= i < vts.len() implies empty_transition(&#[trigger] trs[vts[i]]) by {
            assert(vts.contains(vts[i]));
            assert(trs.contains_key(vts[i]));
        }
        lemma_type_sums_empty(trs, vts);
    }
    let net = &s.network;
    let tf = s.train_formations@;
    // ids
    assert forall|vt: VehicleTypeIdx| #[trigger] s.vehicle_ids_grouped_and_sorted@.contains_key(vt) implies sorted_cmp(s.listing(vt)) by {
        assert(s.listing(vt).len() == 0);
    }
    // depot usage: the empty table is exact for no vehicles
    assert forall|v: VehicleIdx| #[trigger] usage_exact_for(s.depot_usage@, net, s.vehicles@, s.tours@, v) by {}
    // listings
    assert forall|vt: VehicleTypeIdx, v: VehicleIdx| #![trigger s.vehicle_ids_grouped_and_sorted@[vt]@.contains(v)] s.vehicle_ids_grouped_and_sorted@.contains_key(vt)
        implies (s.vehicle_ids_grouped_and_sorted@[vt]@.contains(v) <==> s.vehicles@.contains_key(v) && vtype(s.vehicles@[v]) == vt) by {
        assert(s.listing(vt).len() == 0);
    }
    if instance_ok(net) {
        // formations
        assert forall|n: NodeIdx| net.has(n) && net.sp_node(n).sp_is_activity() implies #[trigger] tf.contains_key(n) by {
            let a = all_service_seq(net);
            let m = net.maintenance_nodes@;
            if net.sp_node(n) is Service {
                assert(a.contains(n));
                let i = choose|i: int| 0 <= i < a.len() && a[i] == n;
                assert(coverable_seq(net)[i] == n);
            } else {
                assert(m.contains(n));
                let i = choose|i: int| 0 <= i < m.len() && m[i] == n;
                assert(coverable_seq(net)[a.len() + i] == n);
            }
        }
        assert forall|n: NodeIdx, vt: VehicleTypeIdx| #![trigger tf[n], s.vtypes()[vt]] tf.contains_key(n) && s.vtypes().contains_key(vt)
            implies fcap(tf[n].formation@) + s.vtypes()[vt].capacity <= u32::MAX && fseats(tf[n].formation@) + s.vtypes()[vt].seats <= u32::MAX by {
            lemma_fcap_empty(tf[n].formation@);
        }
        lemma_total_covers_lists(s, 0);
        lemma_total_covers_lists(s, 1);
        assert forall|q: Seq<NodeIdx>, c: int| #![trigger s.un_old(q, q.len() as int, c)] q.no_duplicates() && all_in_net(net, q) && (c == 0 || c == 1)
            implies s.un_old(q, q.len() as int, c) <= s.unserved_c(c) by {}
        assert(s.sv_formations_ok());
        // transitions
        let trs = s.next_period_transitions@;
        let vts = sched_types(s);
        assert forall|vt: VehicleTypeIdx| #[trigger] trs.contains_key(vt) implies trs[vt].wf(net, s.tours@) by {
            lemma_empty_transition(&trs[vt], net, s.tours@);
        }
        assert forall|vt: VehicleTypeIdx, v: VehicleIdx| #![trigger trs[vt].has_vehicle(v)] trs.contains_key(vt)
            implies (trs[vt].has_vehicle(v) <==> s.vehicles@.contains_key(v) && s.type_of(v) == vt) by {
            lemma_empty_transition(&trs[vt], net, s.tours@);
        }
        assert forall|i: int| 0 <= i < vts.len() implies empty_transition(&#[trigger] trs[vts[i]]) by {
            assert(vts.contains(vts[i]));
            assert(trs.contains_key(vts[i]));
        }
        lemma_type_sums_empty(trs, vts);
        assert(s.transitions_ok());
    }
}
