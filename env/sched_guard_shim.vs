// ---- environment of the slice `sched_guard` -----------------------------------------------------------
// Included inside `pub mod tr { … }` after env/im_shim.vs, env/transition_spec.vs and env/schedule_shim.vs.

// ---- A-im (continued): `keys()` of im::HashMap, itertools `contains` --------------------------------
impl<K, V> self::im::HashMap<K, V> {
    /// im: `keys(&self) -> Keys<'_, K, V>`: an iterator over the keys of the map (every key shows up,
    /// nothing but keys shows up; the order is unspecified)
    #[verifier::external_body]
    pub fn keys<'a>(&'a self) -> (r: SeqIter<&'a K>)
        ensures
            forall|k: K| #[trigger] self@.contains_key(k) <==> seq_has(r@, k),
    { unimplemented!() }
}
/// some item of the sequence equals x
pub open spec fn seq_has<'a, T>(s: Seq<&'a T>, x: T) -> bool {
    exists|i: int| 0 <= i < s.len() && *(#[trigger] s[i]) == x
}
impl<'a, T> SeqIter<&'a T> {
    /// itertools: `contains(&mut self, query) -> bool`: true iff some item of the iterator equals the
    /// query (`==` of the item type; for the index types the derived, structural one: A-derive).
    /// Declared with `self` by value (the only call site applies it to the temporary `m.keys()`).
    #[verifier::external_body]
    pub fn contains(self, query: &T) -> (r: bool)
        ensures r == seq_has(self@, *query),
    { unimplemented!() }
}

// ---- C01, type clause ---------------------------------------------------------------------------------
impl Network {
    /// C01: "a vehicle only serves departure segments whose route prescribes its own vehicle type":
    /// a node is compatible with a vehicle type unless it is a service trip of another type
    pub open spec fn sp_compatible(&self, n: NodeIdx, vt: VehicleTypeIdx) -> bool {
        self.sp_node(n) is Service ==> self.sp_node(n)->Service_0.1.vehicle_type == vt
    }
}
pub open spec fn vtype(vh: Vehicle) -> VehicleTypeIdx { vh.vehicle_type.idx }

impl Schedule {
    /// the tour `tour_of` looks up: the vehicle's tour, a dummy's tour otherwise
    pub open spec fn has_tour(&self, v: VehicleIdx) -> bool { self.tours@.contains_key(v) || self.dummy_tours@.contains_key(v) }
    pub open spec fn sp_tour_of(&self, v: VehicleIdx) -> Tour {
        if self.tours@.contains_key(v) { self.tours@[v] } else { self.dummy_tours@[v] }
    }
    /// [i ..= j] is an occurrence of the segment in the tour
    pub open spec fn seg_at(t: &Tour, segment: Segment, i: int, j: int) -> bool {
        0 <= i <= j < t.len() && t.nodes@[i] == segment.start && t.nodes@[j] == segment.end
    }
}

/// a segment occurs at most once in a well-formed tour (its nodes are pairwise distinct); an occurrence
/// that is not made of depots only does not consist of one depot
pub proof fn lemma_segment_unique(s: &Schedule, provider: VehicleIdx, segment: Segment)
    requires
        s.sp_tour_of(provider).wf(),
        exists|i: int, j: int| #[trigger] Schedule::seg_at(&s.sp_tour_of(provider), segment, i, j)
            && !all_depots(&s.network, s.sp_tour_of(provider).nodes@.subrange(i, j + 1)),
        *s.sp_tour_of(provider).network == *s.network,
    ensures
        !(s.network.sp_node(segment.start).sp_is_depot() && segment.start == segment.end),
        forall|i: int, j: int| #[trigger] Schedule::seg_at(&s.sp_tour_of(provider), segment, i, j)
            ==> !all_depots(&s.network, s.sp_tour_of(provider).nodes@.subrange(i, j + 1)),
{
    let t = s.sp_tour_of(provider);
    let (i0, j0) = choose|i: int, j: int| #[trigger] Schedule::seg_at(&t, segment, i, j) && !all_depots(&s.network, t.nodes@.subrange(i, j + 1));
    assert forall|i: int, j: int| #[trigger] Schedule::seg_at(&t, segment, i, j) implies i == i0 && j == j0 by {
        lemma_tour_distinct(&t, i, i0);
        lemma_tour_distinct(&t, j, j0);
    }
    if segment.start == segment.end {
        lemma_tour_distinct(&t, i0, j0);
        let sub = t.nodes@.subrange(i0, j0 + 1);
        assert(sub.len() == 1 && sub[0] == segment.start);
    }
}

// ======================================================================================================
// (A) update of the rotation cycles and of the maintenance violation for a list of changed vehicles
// ======================================================================================================
/// the items of a sequence of references
pub open spec fn derefs<'a>(s: Seq<&'a VehicleIdx>) -> Seq<VehicleIdx> { Seq::new(s.len(), |i: int| *s[i]) }
/// x is one of the first k vehicles of the list
pub open spec fn done(rc: Seq<VehicleIdx>, k: int, x: VehicleIdx) -> bool { exists|j: int| 0 <= j < k && #[trigger] rc[j] == x }
/// x is a real vehicle of the list of changed vehicles
pub open spec fn real_in(cv: Seq<VehicleIdx>, x: VehicleIdx) -> bool { x is Vehicle && cv.contains(x) }
/// `out` is what `cv.iter().filter(|v| v.is_real())` yields
pub open spec fn is_real_filter<'a>(cv: Seq<VehicleIdx>, out: Seq<&'a VehicleIdx>) -> bool {
    exists|s: Seq<&'a VehicleIdx>, mask: Seq<bool>| #![trigger mask_filter(s, mask)]
        s.len() == cv.len() && mask.len() == cv.len()
        && (forall|i: int| 0 <= i < cv.len() ==> *(#[trigger] s[i]) == cv[i])
        && (forall|i: int| 0 <= i < cv.len() ==> #[trigger] mask[i] == (*s[i] is Vehicle))
        && out == mask_filter(s, mask)
}
/// what a mask filter selects
pub proof fn lemma_mask_filter_sel<T>(s: Seq<T>, mask: Seq<bool>)
    requires mask.len() == s.len(),
    ensures
        mask_filter(s, mask).len() <= s.len(),
        forall|x: T| #[trigger] mask_filter(s, mask).contains(x) <==> exists|p: int| 0 <= p < s.len() && mask[p] && #[trigger] s[p] == x,
        (forall|p: int, q: int| 0 <= p < q < s.len() && mask[p] && mask[q] ==> #[trigger] s[p] != #[trigger] s[q]) ==> mask_filter(s, mask).no_duplicates(),
    decreases s.len(),
{
    let r = mask_filter(s, mask);
    if s.len() == 0 {
        assert forall|x: T| #[trigger] r.contains(x) <==> exists|p: int| 0 <= p < s.len() && mask[p] && #[trigger] s[p] == x by {}
    } else {
        let s1 = s.drop_last();
        let m1 = mask.drop_last();
        let r1 = mask_filter(s1, m1);
        let y = s.last();
        let n = s.len() as int;
        lemma_mask_filter_sel(s1, m1);
        assert forall|x: T| #[trigger] r.contains(x) <==> exists|p: int| 0 <= p < s.len() && mask[p] && #[trigger] s[p] == x by {
            if r.contains(x) {
                let i = choose|i: int| 0 <= i < r.len() && r[i] == x;
                if mask.last() && i == r1.len() {
                    assert(mask[n - 1] && s[n - 1] == x);
                } else {
                    assert(r1[i] == x);
                    assert(r1.contains(x));
                    let p = choose|p: int| 0 <= p < s1.len() && m1[p] && #[trigger] s1[p] == x;
                    assert(mask[p] && s[p] == x);
                }
            }
            if exists|p: int| 0 <= p < s.len() && mask[p] && #[trigger] s[p] == x {
                let p = choose|p: int| 0 <= p < s.len() && mask[p] && #[trigger] s[p] == x;
                if p == n - 1 {
                    assert(r == r1.push(y));
                    assert(r[r1.len() as int] == x);
                } else {
                    assert(m1[p] && s1[p] == x);
                    assert(r1.contains(x));
                    let i = choose|i: int| 0 <= i < r1.len() && r1[i] == x;
                    assert(r[i] == x);
                }
            }
        }
        if forall|p: int, q: int| 0 <= p < q < s.len() && mask[p] && mask[q] ==> #[trigger] s[p] != #[trigger] s[q] {
            assert forall|p: int, q: int| 0 <= p < q < s1.len() && m1[p] && m1[q] implies #[trigger] s1[p] != #[trigger] s1[q] by {
                assert(s[p] != s[q]);
            }
            assert(r1.no_duplicates());
            if mask.last() {
                assert(!r1.contains(y)) by {
                    if r1.contains(y) {
                        let p = choose|p: int| 0 <= p < s1.len() && m1[p] && #[trigger] s1[p] == y;
                        assert(s[p] != s[n - 1]);
                    }
                }
                lemma_push_contains(r1, y);
            }
        }
    }
}
/// the real vehicles of the list, in order: pairwise distinct if the caller guarantees that no real
/// vehicle is listed twice
pub proof fn lemma_real_filter<'a>(cv: Seq<VehicleIdx>, out: Seq<&'a VehicleIdx>)
    requires
        is_real_filter(cv, out),
        forall|i: int, j: int| 0 <= i < j < cv.len() && cv[i] is Vehicle ==> #[trigger] cv[i] != #[trigger] cv[j],
    ensures
        derefs(out).no_duplicates(),
        derefs(out).len() <= cv.len(),
        forall|j: int| 0 <= j < out.len() ==> real_in(cv, #[trigger] derefs(out)[j]),
        forall|x: VehicleIdx| real_in(cv, x) ==> #[trigger] derefs(out).contains(x),
{
    let (s, mask) = choose|s: Seq<&'a VehicleIdx>, mask: Seq<bool>| #![trigger mask_filter(s, mask)]
        s.len() == cv.len() && mask.len() == cv.len()
        && (forall|i: int| 0 <= i < cv.len() ==> *(#[trigger] s[i]) == cv[i])
        && (forall|i: int| 0 <= i < cv.len() ==> #[trigger] mask[i] == (*s[i] is Vehicle))
        && out == mask_filter(s, mask);
    lemma_mask_filter_sel(s, mask);
    let rc = derefs(out);
    assert forall|p: int, q: int| 0 <= p < q < s.len() && mask[p] && mask[q] implies #[trigger] s[p] != #[trigger] s[q] by {
        assert(cv[p] != cv[q]);
    }
    assert(out.no_duplicates());
    assert forall|i: int, j: int| 0 <= i < rc.len() && 0 <= j < rc.len() && i != j implies rc[i] != rc[j] by {
        assert(out[i] != out[j]);
    }
    assert forall|j: int| 0 <= j < out.len() implies real_in(cv, #[trigger] rc[j]) by {
        assert(out.contains(out[j]));
        let p = choose|p: int| 0 <= p < s.len() && mask[p] && #[trigger] s[p] == out[j];
        assert(cv[p] == rc[j]);
    }
    assert forall|x: VehicleIdx| real_in(cv, x) implies #[trigger] rc.contains(x) by {
        let p = choose|p: int| 0 <= p < cv.len() && cv[p] == x;
        assert(mask[p] && *s[p] == x);
        assert(out.contains(s[p]));
        let j = choose|j: int| 0 <= j < out.len() && out[j] == s[p];
        assert(rc[j] == x);
    }
}

/// the vehicle types of the schedule's network
pub open spec fn sched_types(s: &Schedule) -> Seq<VehicleTypeIdx> { s.network.vehicle_types.ids_sorted@ }
/// C09: the maintenance violation from scratch: the sum of the violations of the listed types' transitions
pub open spec fn viol_sum(trs: Map<VehicleTypeIdx, Transition>, vts: Seq<VehicleTypeIdx>) -> int
    decreases vts.len(),
{
    if vts.len() == 0 { 0 } else { viol_sum(trs, vts.drop_last()) + trs[vts.last()].total_maintenance_violation as int }
}
/// the number of vehicles in the cycles of the listed types' transitions
pub open spec fn len_sum(trs: Map<VehicleTypeIdx, Transition>, vts: Seq<VehicleTypeIdx>) -> int
    decreases vts.len(),
{
    if vts.len() == 0 { 0 } else { len_sum(trs, vts.drop_last()) + trs[vts.last()].total_len() }
}
pub proof fn lemma_type_sums_frame(t1: Map<VehicleTypeIdx, Transition>, t2: Map<VehicleTypeIdx, Transition>, vts: Seq<VehicleTypeIdx>)
    requires forall|i: int| 0 <= i < vts.len() ==> t1[#[trigger] vts[i]] == t2[vts[i]],
    ensures viol_sum(t1, vts) == viol_sum(t2, vts), len_sum(t1, vts) == len_sum(t2, vts),
    decreases vts.len(),
{
    if vts.len() > 0 {
        let d = vts.drop_last();
        assert forall|i: int| 0 <= i < d.len() implies t1[#[trigger] d[i]] == t2[d[i]] by { assert(d[i] == vts[i]); }
        lemma_type_sums_frame(t1, t2, d);
        assert(vts.last() == vts[vts.len() - 1]);
    }
}
/// replacing the transition of one listed type
pub proof fn lemma_type_sums_insert(trs: Map<VehicleTypeIdx, Transition>, vts: Seq<VehicleTypeIdx>, vt: VehicleTypeIdx, nt: Transition)
    requires vts.no_duplicates(), vts.contains(vt),
    ensures
        viol_sum(trs.insert(vt, nt), vts) == viol_sum(trs, vts) - trs[vt].total_maintenance_violation + nt.total_maintenance_violation,
        len_sum(trs.insert(vt, nt), vts) == len_sum(trs, vts) - trs[vt].total_len() + nt.total_len(),
    decreases vts.len(),
{
    let d = vts.drop_last();
    let n = vts.len() as int;
    let t2 = trs.insert(vt, nt);
    if vts.last() == vt {
        assert forall|i: int| 0 <= i < d.len() implies trs[#[trigger] d[i]] == t2[d[i]] by {
            assert(vts[i] != vts[n - 1]);
        }
        lemma_type_sums_frame(trs, t2, d);
    } else {
        let i = choose|i: int| 0 <= i < vts.len() && vts[i] == vt;
        assert(d[i] == vt);
        assert(d.no_duplicates()) by {
            assert forall|a: int, b: int| 0 <= a < d.len() && 0 <= b < d.len() && a != b implies d[a] != d[b] by {
                assert(vts[a] != vts[b]);
            }
        }
        lemma_type_sums_insert(trs, d, vt, nt);
    }
}
/// magnitudes: the violation is at most 2^41 per vehicle
pub proof fn lemma_type_sums_bounds(net: &Network, tours: Map<VehicleIdx, Tour>, trs: Map<VehicleTypeIdx, Transition>, vts: Seq<VehicleTypeIdx>)
    requires forall|i: int| 0 <= i < vts.len() ==> (#[trigger] trs[vts[i]]).wf_but_empty(net, tours),
    ensures
        0 <= viol_sum(trs, vts) <= len_sum(trs, vts) * vehicle_bound(),
        forall|i: int| 0 <= i < vts.len() ==> 0 <= (#[trigger] trs[vts[i]]).total_len() <= len_sum(trs, vts),
    decreases vts.len(),
{
    if vts.len() > 0 {
        let d = vts.drop_last();
        let n = vts.len() as int;
        let t = trs[vts.last()];
        assert(vts.last() == vts[n - 1]);
        assert forall|i: int| 0 <= i < d.len() implies (#[trigger] trs[d[i]]).wf_but_empty(net, tours) by { assert(d[i] == vts[i]); }
        lemma_type_sums_bounds(net, tours, trs, d);
        t@.lemma_bounds(net, tours);
        lemma_sum_nonneg(lens_of(t@.cycles));
        let a = len_sum(trs, d); let b = t.total_len();
        assert((a + b) * vehicle_bound() == a * vehicle_bound() + b * vehicle_bound()) by (nonlinear_arith);
        assert forall|i: int| 0 <= i < vts.len() implies 0 <= (#[trigger] trs[vts[i]]).total_len() <= len_sum(trs, vts) by {
            if i < n - 1 { assert(d[i] == vts[i]); assert(0 <= trs[d[i]].total_len() <= len_sum(trs, d)); }
        }
    } else {
        assert(0 * vehicle_bound() == 0);
    }
}

/// C15: consistency of a transition only depends on the tours of the vehicles in its cycles
pub proof fn lemma_wf_same_tours(t: TView, net: &Network, tours: Map<VehicleIdx, Tour>, tours2: Map<VehicleIdx, Tour>)
    requires
        t.wf(net, tours),
        forall|x: VehicleIdx| #[trigger] t.lookup.contains_key(x) ==> (tours.contains_key(x) ==> tours2.contains_key(x)) && tours2[x] == tours[x],
    ensures t.wf(net, tours2),
{
    assert forall|i: int, a: int| 0 <= i < t.n() && 0 <= a < t.cyc(i).len()
        implies tours2.contains_key(#[trigger] t.cyc(i)[a]) && tour_ok(net, &tours2[t.cyc(i)[a]]) by {
        assert(t.lookup.contains_key(t.cyc(i)[a]));
    }
    assert forall|i: int| 0 <= i < t.n()
        implies t.cycles[i].maintenance_counter == spec_cycle_counter(net, tours2, #[trigger] t.cyc(i)) by {
        let c = t.cyc(i);
        assert forall|a: int| 0 <= a < c.len() implies tours[#[trigger] c[a]] == tours2[c[a]] by {
            assert(t.lookup.contains_key(t.cyc(i)[a]));
        }
        lemma_counter_same(net, tours, tours2, c);
    }
}
/// same cycles, same number of vehicles
pub proof fn lemma_same_cycles_len(a: &Transition, b: &Transition)
    requires a.n() == b.n(), forall|i: int| 0 <= i < a.n() ==> #[trigger] b.cyc(i) == a.cyc(i),
    ensures b.total_len() == a.total_len(),
{
    assert(lens_of(b@.cycles) =~= lens_of(a@.cycles)) by {
        assert forall|i: int| 0 <= i < a.n() implies lens_of(b@.cycles)[i] == lens_of(a@.cycles)[i] by {
            assert(b.cyc(i) == a.cyc(i));
        }
    }
}
/// a vehicle put into a cycle of its own (a new one or a re-used empty one): one more vehicle
pub proof fn lemma_own_cycle_len(a: &Transition, b: &Transition, v: VehicleIdx)
    requires
        a.wf_empty(),
        0 <= b.cycle_of(v) < b.n() && b.cyc(b.cycle_of(v)) == seq![v],
        a.empty_cycles@.len() == 0 ==> b.n() == a.n() + 1 && b.cycle_of(v) == a.n(),
        a.empty_cycles@.len() > 0 ==> b.n() == a.n() && b.cycle_of(v) == a.empty_cycles@.last(),
        forall|i: int| 0 <= i < a.n() && i != b.cycle_of(v) ==> #[trigger] b.cyc(i) == a.cyc(i),
    ensures b.total_len() == a.total_len() + 1,
{
    let k = b.cycle_of(v);
    let la = lens_of(a@.cycles);
    let lb = lens_of(b@.cycles);
    assert(b.cyc(k).len() == 1);
    if a.empty_cycles@.len() == 0 {
        assert(lb =~= la.push(1)) by {
            assert forall|i: int| 0 <= i < a.n() implies lb[i] == la[i] by { assert(b.cyc(i) == a.cyc(i)); }
        }
        lemma_sum_push(la, 1);
    } else {
        assert(a@.empty.contains(a@.empty.last()));
        assert(a.cyc(k).len() == 0);
        assert(lb =~= la.update(k, 1)) by {
            assert forall|i: int| 0 <= i < a.n() && i != k implies lb[i] == la[i] by { assert(b.cyc(i) == a.cyc(i)); }
        }
        lemma_sum_update(la, k, 1);
    }
}

impl Schedule {
    /// the type of v: the one of the new vehicle map if v is there, the one of the old schedule otherwise
    pub open spec fn eff_type(&self, vehicles: Map<VehicleIdx, Vehicle>, v: VehicleIdx) -> VehicleTypeIdx {
        if vehicles.contains_key(v) { vtype(vehicles[v]) } else { vtype(self.vehicles@[v]) }
    }
    /// v is a vehicle of type vt after the first k updates
    pub open spec fn member_at(&self, vehicles: Map<VehicleIdx, Vehicle>, rc: Seq<VehicleIdx>, k: int, v: VehicleIdx, vt: VehicleTypeIdx) -> bool {
        self.eff_type(vehicles, v) == vt && (if done(rc, k, v) { vehicles.contains_key(v) } else { self.vehicles@.contains_key(v) })
    }
    /// some changed real vehicle is of type vt
    pub open spec fn type_touched(&self, vehicles: Map<VehicleIdx, Vehicle>, rc: Seq<VehicleIdx>, k: int, vt: VehicleTypeIdx) -> bool {
        exists|j: int| 0 <= j < k && self.eff_type(vehicles, #[trigger] rc[j]) == vt
    }
    /// what the caller guarantees about one changed real vehicle: it is a vehicle of the old or of the
    /// new schedule (or both), its type has a transition, and if it stays it has an admissible new tour
    pub open spec fn change_ok(&self, trs: Map<VehicleTypeIdx, Transition>, vehicles: Map<VehicleIdx, Vehicle>, tours: Map<VehicleIdx, Tour>, v: VehicleIdx) -> bool {
        &&& self.vehicles@.contains_key(v) || vehicles.contains_key(v)
        &&& trs.contains_key(self.eff_type(vehicles, v))
        &&& vehicles.contains_key(v) ==> tours.contains_key(v) && tour_ok(&self.network, &tours[v])
    }
    /// the precondition of update_transitions_and_violation_fast
    pub open spec fn upd_pre(&self, trs: Map<VehicleTypeIdx, Transition>, mv: int, cv: Seq<VehicleIdx>, vehicles: Map<VehicleIdx, Vehicle>, tours: Map<VehicleIdx, Tour>) -> bool {
        let vts = sched_types(self);
        // there is one transition per vehicle type of the network
        &&& vts.no_duplicates()
        &&& forall|vt: VehicleTypeIdx| #[trigger] trs.contains_key(vt) <==> vts.contains(vt)
        // C15 / C10 for the old schedule: every transition is consistent with the old tours and holds
        // exactly the old vehicles of its type
        &&& forall|vt: VehicleTypeIdx| #[trigger] trs.contains_key(vt) ==> trs[vt].wf(&self.network, self.tours@)
        &&& forall|vt: VehicleTypeIdx, v: VehicleIdx| #![trigger trs[vt].has_vehicle(v)] trs.contains_key(vt)
                ==> (trs[vt].has_vehicle(v) <==> self.vehicles@.contains_key(v) && self.type_of(v) == vt)
        // C09 for the old schedule
        &&& mv == viol_sum(trs, vts)
        // caller-side assumption: no real vehicle is listed twice (update_vehicle / remove_vehicle read
        // the vehicle's previous tour from the OLD schedule)
        &&& forall|i: int, j: int| 0 <= i < j < cv.len() && cv[i] is Vehicle ==> #[trigger] cv[i] != #[trigger] cv[j]
        // every changed real vehicle is in one of the three cases
        &&& forall|i: int| 0 <= i < cv.len() && (#[trigger] cv[i]) is Vehicle ==> self.change_ok(trs, vehicles, tours, cv[i])
        // all other vehicles are vehicles of both schedules or of none, with the same tour
        &&& forall|v: VehicleIdx| !real_in(cv, v) ==> (self.vehicles@.contains_key(v) <==> #[trigger] vehicles.contains_key(v))
        &&& forall|v: VehicleIdx| !real_in(cv, v) && #[trigger] vehicles.contains_key(v) ==> tours.contains_key(v) && tours[v] == self.tours@[v]
        // a vehicle keeps its type
        &&& forall|v: VehicleIdx| self.vehicles@.contains_key(v) && #[trigger] vehicles.contains_key(v) ==> vtype(vehicles[v]) == self.type_of(v)
        // magnitudes: at most 2^17 vehicles in total (so that the i64 sums stay below 2^59)
        &&& len_sum(trs, vts) + cv.len() <= max_vehicles()
    }
    /// the state after the first k updates (rc = the changed real vehicles): every transition is consistent
    /// with the tours updated so far and holds exactly the vehicles of its type (new membership for the
    /// vehicles already processed, old membership for the others)
    pub open spec fn inv_at(&self, trs0: Map<VehicleTypeIdx, Transition>, trs: Map<VehicleTypeIdx, Transition>, upd: Map<VehicleIdx, &Tour>,
        vehicles: Map<VehicleIdx, Vehicle>, tours: Map<VehicleIdx, Tour>, rc: Seq<VehicleIdx>, k: int) -> bool {
        &&& forall|vt: VehicleTypeIdx| trs0.contains_key(vt) <==> #[trigger] trs.contains_key(vt)
        &&& forall|vt: VehicleTypeIdx| #[trigger] trs.contains_key(vt) ==> trs[vt].wf(&self.network, eff_tours(upd, self.tours@))
        &&& forall|vt: VehicleTypeIdx, v: VehicleIdx| #![trigger trs[vt].has_vehicle(v)] trs.contains_key(vt)
                ==> (trs[vt].has_vehicle(v) <==> self.member_at(vehicles, rc, k, v, vt))
        &&& forall|v: VehicleIdx| #[trigger] upd.contains_key(v) <==> (done(rc, k, v) && vehicles.contains_key(v))
        &&& forall|v: VehicleIdx| #[trigger] upd.contains_key(v) ==> *upd[v] == tours[v]
        &&& forall|vt: VehicleTypeIdx| #[trigger] trs.contains_key(vt) && !self.type_touched(vehicles, rc, k, vt) ==> trs[vt] == trs0[vt]
    }
}

impl Schedule {
    /// some real vehicle of the list of changed vehicles is of type vt
    pub open spec fn touches_type(&self, vehicles: Map<VehicleIdx, Vehicle>, cv: Seq<VehicleIdx>, vt: VehicleTypeIdx) -> bool {
        exists|i: int| 0 <= i < cv.len() && (#[trigger] cv[i]) is Vehicle && self.eff_type(vehicles, cv[i]) == vt
    }
}

/// the old schedule's state is the state after 0 updates
pub proof fn lemma_init(s: &Schedule, trs: Map<VehicleTypeIdx, Transition>, mv: int, cv: Seq<VehicleIdx>, vehicles: Map<VehicleIdx, Vehicle>, tours: Map<VehicleIdx, Tour>, rc: Seq<VehicleIdx>)
    requires s.upd_pre(trs, mv, cv, vehicles, tours),
    ensures s.inv_at(trs, trs, Map::<VehicleIdx, &Tour>::empty(), vehicles, tours, rc, 0),
{
    let upd = Map::<VehicleIdx, &Tour>::empty();
    assert(eff_tours(upd, s.tours@) =~= s.tours@);
    assert forall|vt: VehicleTypeIdx, v: VehicleIdx| #![trigger trs[vt].has_vehicle(v)] trs.contains_key(vt)
        implies (trs[vt].has_vehicle(v) <==> s.member_at(vehicles, rc, 0, v, vt)) by {
        assert(!done(rc, 0, v));
    }
}

/// one update: the transition of the type of the k-th changed vehicle v is replaced by `nt`, which is
/// consistent with the tours updated so far plus v's new tour and has gained / kept / lost v
pub proof fn lemma_step(s: &Schedule, trs0: Map<VehicleTypeIdx, Transition>, trs: Map<VehicleTypeIdx, Transition>, upd: Map<VehicleIdx, &Tour>, upd2: Map<VehicleIdx, &Tour>,
    vehicles: Map<VehicleIdx, Vehicle>, tours: Map<VehicleIdx, Tour>, rc: Seq<VehicleIdx>, k: int, nt: Transition)
    requires
        s.inv_at(trs0, trs, upd, vehicles, tours, rc, k),
        0 <= k < rc.len(),
        rc.no_duplicates(),
        trs.contains_key(s.eff_type(vehicles, rc[k])),
        ({
            let v = rc[k];
            let ot = trs[s.eff_type(vehicles, v)];
            let e = eff_tours(upd, s.tours@);
            if vehicles.contains_key(v) {
                &&& upd2 == upd.insert(v, &tours[v])
                &&& nt.wf(&s.network, e.insert(v, tours[v]))
                &&& forall|x: VehicleIdx| #[trigger] nt.has_vehicle(x) <==> (ot.has_vehicle(x) || x == v)
            } else {
                &&& upd2 == upd
                &&& nt.wf(&s.network, e)
                &&& forall|x: VehicleIdx| #[trigger] nt.has_vehicle(x) <==> (ot.has_vehicle(x) && x != v)
            }
        }),
    ensures
        s.inv_at(trs0, trs.insert(s.eff_type(vehicles, rc[k]), nt), upd2, vehicles, tours, rc, k + 1),
{
    let v = rc[k];
    let vt0 = s.eff_type(vehicles, v);
    let ot = trs[vt0];
    let e = eff_tours(upd, s.tours@);
    let e2 = eff_tours(upd2, s.tours@);
    let trs2 = trs.insert(vt0, nt);
    assert(!done(rc, k, v)) by {
        if done(rc, k, v) {
            let j = choose|j: int| 0 <= j < k && #[trigger] rc[j] == v;
            assert(rc[j] == rc[k]);
        }
    }
    assert forall|x: VehicleIdx| done(rc, k + 1, x) <==> (done(rc, k, x) || x == v) by {
        if done(rc, k + 1, x) {
            let j = choose|j: int| 0 <= j < k + 1 && #[trigger] rc[j] == x;
            if j < k { assert(done(rc, k, x)); }
        }
        if done(rc, k, x) {
            let j = choose|j: int| 0 <= j < k && #[trigger] rc[j] == x;
            assert(0 <= j < k + 1 && rc[j] == x);
        }
        if x == v { assert(rc[k] == x); }
    }
    if vehicles.contains_key(v) { assert(e2 =~= e.insert(v, tours[v])); }
    // consistency with the tours
    assert forall|vt: VehicleTypeIdx| #[trigger] trs2.contains_key(vt) implies trs2[vt].wf(&s.network, e2) by {
        if vt != vt0 {
            assert(trs.contains_key(vt));
            assert forall|x: VehicleIdx| #[trigger] trs[vt]@.lookup.contains_key(x) implies (e.contains_key(x) ==> e2.contains_key(x)) && e2[x] == e[x] by {
                assert(trs[vt].has_vehicle(x));
                assert(s.member_at(vehicles, rc, k, x, vt));
                assert(x != v);
            }
            lemma_wf_same_tours(trs[vt]@, &s.network, e, e2);
        }
    }
    // membership
    assert forall|vt: VehicleTypeIdx, x: VehicleIdx| #![trigger trs2[vt].has_vehicle(x)] trs2.contains_key(vt)
        implies (trs2[vt].has_vehicle(x) <==> s.member_at(vehicles, rc, k + 1, x, vt)) by {
        assert(trs.contains_key(vt));
        assert(trs[vt].has_vehicle(x) <==> s.member_at(vehicles, rc, k, x, vt));
        assert(done(rc, k + 1, x) <==> (done(rc, k, x) || x == v));
        if vt == vt0 {
            assert(nt.has_vehicle(x) <==> (ot.has_vehicle(x) || x == v) && (vehicles.contains_key(v) || x != v));
        }
    }
    // the tours updated so far
    assert forall|x: VehicleIdx| #[trigger] upd2.contains_key(x) <==> (done(rc, k + 1, x) && vehicles.contains_key(x)) by {
        assert(done(rc, k + 1, x) <==> (done(rc, k, x) || x == v));
        assert(upd.contains_key(x) <==> (done(rc, k, x) && vehicles.contains_key(x)));
    }
    assert forall|x: VehicleIdx| #[trigger] upd2.contains_key(x) implies *upd2[x] == tours[x] by {
        if x != v { assert(upd.contains_key(x)); }
    }
    // untouched types
    assert forall|vt: VehicleTypeIdx| #[trigger] trs2.contains_key(vt) && !s.type_touched(vehicles, rc, k + 1, vt) implies trs2[vt] == trs0[vt] by {
        if vt == vt0 { assert(s.eff_type(vehicles, rc[k]) == vt); }
        if s.type_touched(vehicles, rc, k, vt) {
            let j = choose|j: int| 0 <= j < k && s.eff_type(vehicles, #[trigger] rc[j]) == vt;
            assert(0 <= j < k + 1 && s.eff_type(vehicles, rc[j]) == vt);
        }
    }
    assert forall|vt: VehicleTypeIdx| trs0.contains_key(vt) <==> #[trigger] trs2.contains_key(vt) by {
        assert(trs0.contains_key(vt) <==> trs.contains_key(vt));
    }
}

/// after all updates: every transition is consistent with the new tours and holds exactly the new
/// vehicles of its type
pub proof fn lemma_finish(s: &Schedule, trs0: Map<VehicleTypeIdx, Transition>, mv0: int, trs: Map<VehicleTypeIdx, Transition>, upd: Map<VehicleIdx, &Tour>,
    cv: Seq<VehicleIdx>, vehicles: Map<VehicleIdx, Vehicle>, tours: Map<VehicleIdx, Tour>, rc: Seq<VehicleIdx>)
    requires
        s.upd_pre(trs0, mv0, cv, vehicles, tours),
        s.inv_at(trs0, trs, upd, vehicles, tours, rc, rc.len() as int),
        forall|j: int| 0 <= j < rc.len() ==> real_in(cv, #[trigger] rc[j]),
        forall|x: VehicleIdx| real_in(cv, x) ==> #[trigger] rc.contains(x),
    ensures
        forall|vt: VehicleTypeIdx| #[trigger] trs.contains_key(vt) ==> trs[vt].wf(&s.network, tours),
        forall|vt: VehicleTypeIdx, v: VehicleIdx| #![trigger trs[vt].has_vehicle(v)] trs.contains_key(vt)
            ==> (trs[vt].has_vehicle(v) <==> (vehicles.contains_key(v) && vtype(vehicles[v]) == vt)),
        forall|vt: VehicleTypeIdx| #[trigger] trs.contains_key(vt) && !s.touches_type(vehicles, cv, vt) ==> trs[vt] == trs0[vt],
{
    let n = rc.len() as int;
    let e = eff_tours(upd, s.tours@);
    assert forall|x: VehicleIdx| done(rc, n, x) <==> real_in(cv, x) by {
        if done(rc, n, x) {
            let j = choose|j: int| 0 <= j < n && #[trigger] rc[j] == x;
            assert(real_in(cv, rc[j]));
        }
        if real_in(cv, x) {
            assert(rc.contains(x));
            let j = choose|j: int| 0 <= j < rc.len() && rc[j] == x;
            assert(0 <= j < n && rc[j] == x);
        }
    }
    assert forall|vt: VehicleTypeIdx, v: VehicleIdx| #![trigger trs[vt].has_vehicle(v)] trs.contains_key(vt)
        implies (trs[vt].has_vehicle(v) <==> (vehicles.contains_key(v) && vtype(vehicles[v]) == vt)) by {
        assert(trs[vt].has_vehicle(v) <==> s.member_at(vehicles, rc, n, v, vt));
        assert(done(rc, n, v) <==> real_in(cv, v));
    }
    assert forall|vt: VehicleTypeIdx| #[trigger] trs.contains_key(vt) implies trs[vt].wf(&s.network, tours) by {
        assert forall|x: VehicleIdx| #[trigger] trs[vt]@.lookup.contains_key(x) implies (e.contains_key(x) ==> tours.contains_key(x)) && tours[x] == e[x] by {
            assert(trs[vt].has_vehicle(x));
            assert(s.member_at(vehicles, rc, n, x, vt));
            assert(done(rc, n, x) <==> real_in(cv, x));
            if real_in(cv, x) {
                let i = choose|i: int| 0 <= i < cv.len() && cv[i] == x;
                assert(s.change_ok(trs0, vehicles, tours, cv[i]));
                assert(upd.contains_key(x));
            } else {
                assert(vehicles.contains_key(x));
                assert(!upd.contains_key(x));
            }
        }
        lemma_wf_same_tours(trs[vt]@, &s.network, e, tours);
    }
    assert forall|vt: VehicleTypeIdx| #[trigger] trs.contains_key(vt) && !s.touches_type(vehicles, cv, vt) implies trs[vt] == trs0[vt] by {
        if s.type_touched(vehicles, rc, n, vt) {
            let j = choose|j: int| 0 <= j < n && s.eff_type(vehicles, #[trigger] rc[j]) == vt;
            assert(real_in(cv, rc[j]));
            let i = choose|i: int| 0 <= i < cv.len() && cv[i] == rc[j];
            assert(cv[i] is Vehicle && s.eff_type(vehicles, cv[i]) == vt);
        }
    }
}
