// ---- A-im (continued): shim for `im::HashSet` -------------------------------------------------------
// Included inside `pub mod tr { use super::*; use self::im::HashMap; use self::im_set::HashSet; … }`
// after env/im_shim.vs.  The type is opaque; no method is declared (the depot bookkeeping that uses the
// sets is not under contract here).
pub mod im_set {
use vstd::prelude::*;

#[verifier::external_body]
#[verifier::reject_recursive_types(T)]
pub struct HashSet<T> { inner: std::collections::HashSet<T> }

impl<T> View for HashSet<T> {
    type V = Set<T>;
    uninterp spec fn view(&self) -> Set<T>;
}
impl<T> Clone for HashSet<T> {
    #[verifier::external_body]
    fn clone(&self) -> (r: Self)
        ensures r@ == self@,
    { unimplemented!() }
}
} // mod im_set

// ---- solution: Vehicle, TrainFormation, Schedule (verbatim type definitions) ------------------------
//@item solution/src/vehicle.rs struct Vehicle : plain
//@drop-derive Clone
//@end
//@item solution/src/train_formation.rs struct TrainFormation : plain
//@drop-derive Clone
//@end
//@item solution/src/schedule.rs type DepotUsage : plain
//@end
//@item solution/src/schedule.rs struct Schedule : plain
//@drop-derive Clone
//@end

// ---- spec vocabulary for schedule-level C05 (written from the property text) ------------------------
/// the depot a depot node belongs to
pub open spec fn sp_depot_idx(net: &Network, n: NodeIdx) -> DepotIdx {
    match net.sp_node(n) {
        Node::StartDepot((_, d)) => d.depot_idx,
        Node::EndDepot((_, d)) => d.depot_idx,
        _ => arbitrary(),
    }
}
/// the end node of a depot (third component of the network's depot table)
pub open spec fn sp_end_depot_node(net: &Network, d: DepotIdx) -> NodeIdx { net.depots@[d].2 }

/// A-depots: how Network::new builds the depot table: every depot node belongs to a depot of the
/// table, and the table's end node of a depot is an end-depot node of the network that belongs to
/// this depot
pub open spec fn depots_ok(net: &Network) -> bool {
    &&& forall|n: NodeIdx| #[trigger] net.nodes@.contains_key(n) && net.nodes@[n].sp_is_depot()
            ==> net.depots@.contains_key(sp_depot_idx(net, n))
    &&& forall|d: DepotIdx| #[trigger] net.depots@.contains_key(d)
            ==> net.has(sp_end_depot_node(net, d)) && net.sp_node(sp_end_depot_node(net, d)) is EndDepot
                && sp_depot_idx(net, sp_end_depot_node(net, d)) == d
}

/// the id lists of the given types, one after the other
pub open spec fn listing_of(types: Seq<VehicleTypeIdx>, lists: Map<VehicleTypeIdx, Vec<VehicleIdx>>) -> Seq<VehicleIdx>
    decreases types.len(),
{
    if types.len() == 0 { Seq::empty() } else { listing_of(types.drop_last(), lists) + lists[types.last()]@ }
}
/// the vehicles in the order `Schedule::vehicles_iter_all` yields them: per vehicle type of the network (in the
/// order of `VehicleTypes::iter`), the type's sorted id list -- the body of vehicles_iter_all is
/// `vehicle_types().iter().collect::<Vec<_>>().into_iter().flat_map(|vt| self.vehicles_iter(vt))` with
/// `vehicles_iter(vt) = self.vehicle_ids_grouped_and_sorted[&vt].iter().copied()` (A-iter: flat_map concatenates).
/// Opaque: the slices use it as an atom; lemma_sched_vehicles_frame is what they need of the definition.
#[verifier::opaque]
pub open spec fn sched_vehicles(s: &Schedule) -> Seq<VehicleIdx> {
    listing_of(s.network.vehicle_types.ids_sorted@, s.vehicle_ids_grouped_and_sorted@)
}
/// the listing only depends on the network's vehicle types and on the id lists
pub proof fn lemma_sched_vehicles_frame(a: &Schedule, b: &Schedule)
    requires
        a.network.vehicle_types.ids_sorted@ == b.network.vehicle_types.ids_sorted@,
        a.vehicle_ids_grouped_and_sorted@ == b.vehicle_ids_grouped_and_sorted@,
    ensures sched_vehicles(a) == sched_vehicles(b),
{
    reveal(sched_vehicles);
}

/// magnitude of the schedule's cost figure (2^61) and of one leg's cost (lemma_leg_facts)
pub open spec fn sched_cost_bound() -> int { 0x2000_0000_0000_0000 }
pub open spec fn leg_cost_bound() -> int { 0x1fff_e000_0000 }

/// sum of the cached costs of the tours of the first k vehicles of vs
pub open spec fn pre_costs(tours: Map<VehicleIdx, Tour>, vs: Seq<VehicleIdx>, k: int) -> int
    decreases k,
{
    if k <= 0 { 0 } else { pre_costs(tours, vs, k - 1) + tours[vs[k - 1]].costs as int }
}
/// C09: the costs of all tours of the listed vehicles
pub open spec fn tours_costs(tours: Map<VehicleIdx, Tour>, vs: Seq<VehicleIdx>) -> int { pre_costs(tours, vs, vs.len() as int) }
pub proof fn lemma_pre_costs_mono(tours: Map<VehicleIdx, Tour>, vs: Seq<VehicleIdx>, k1: int, k2: int)
    requires 0 <= k1 <= k2,
    ensures 0 <= pre_costs(tours, vs, k1) <= pre_costs(tours, vs, k2),
    decreases k2,
{
    if k1 < k2 { lemma_pre_costs_mono(tours, vs, k1, k2 - 1); }
    else if k1 > 0 { lemma_pre_costs_mono(tours, vs, k1 - 1, k2 - 1); }
}
/// the sum only depends on the tours of the vehicles it ranges over
pub proof fn lemma_pre_costs_frame(t1: Map<VehicleIdx, Tour>, t2: Map<VehicleIdx, Tour>, vs: Seq<VehicleIdx>, k: int)
    requires 0 <= k <= vs.len(), forall|j: int| 0 <= j < k ==> t1[#[trigger] vs[j]] == t2[vs[j]],
    ensures pre_costs(t1, vs, k) == pre_costs(t2, vs, k),
    decreases k,
{
    if k > 0 { lemma_pre_costs_frame(t1, t2, vs, k - 1); }
}

impl Schedule {
    pub open spec fn type_of(&self, v: VehicleIdx) -> VehicleTypeIdx { self.vehicles@[v].vehicle_type.idx }
    /// the rotation cycles of v's type
    pub open spec fn transition_of(&self, v: VehicleIdx) -> Transition { self.next_period_transitions@[self.type_of(v)] }
    /// C05: the cyclic successor of v
    pub open spec fn succ_of(&self, v: VehicleIdx) -> VehicleIdx { self.transition_of(v).succ_of(v) }
    /// C05: the end node of the depot where the successor of v starts
    pub open spec fn aligned_end_node(&self, v: VehicleIdx) -> NodeIdx {
        sp_end_depot_node(&self.network, sp_depot_idx(&self.network, sp_start_depot(&self.tours@[self.succ_of(v)])))
    }
    /// what the schedule must provide for one real vehicle
    pub open spec fn vehicle_ok(&self, v: VehicleIdx) -> bool {
        let t = self.tours@[v];
        let tr = self.transition_of(v);
        &&& self.vehicles@.contains_key(v)
        &&& t.wf() && !t.is_dummy && *t.network == *self.network && t.caches_ok() && tour_len_ok(t.nodes@)
        &&& self.next_period_transitions@.contains_key(self.type_of(v))
        &&& tr.wf_cycles() && tr.wf_lookup() && tr.has_vehicle(v)
        // the cycles only contain vehicles that have tours
        &&& forall|i: int, a: int| 0 <= i < tr.n() && 0 <= a < tr.cyc(i).len() ==> self.tours@.contains_key(#[trigger] tr.cyc(i)[a])
    }
    /// schedule-level validity as far as end-depot reassignment needs it (part of C10)
    pub open spec fn sched_ok(&self) -> bool {
        let vs = sched_vehicles(self);
        &&& self.network.wf()
        &&& depots_ok(&self.network)
        // the vehicle listing is duplicate-free and matches the stored tours
        &&& vs.no_duplicates()
        &&& vs.len() <= max_vehicles()
        &&& forall|v: VehicleIdx| #[trigger] vs.contains(v) <==> self.tours@.contains_key(v)
        &&& forall|v: VehicleIdx| #[trigger] self.tours@.contains_key(v) ==> self.vehicle_ok(v)
        // magnitudes (C09: the schedule's costs are the tours' costs plus the staff term)
        &&& tours_costs(self.tours@, vs) <= self.costs <= sched_cost_bound()
    }
    /// C05/C13: `t` is the tour of v with the end depot aligned to the successor's start depot and
    /// nothing else changed
    pub open spec fn aligned(&self, v: VehicleIdx, t: Tour) -> bool {
        let o = self.tours@[v];
        &&& t.nodes@ == o.nodes@.update(o.nodes@.len() - 1, self.aligned_end_node(v))
        &&& t.is_dummy == o.is_dummy
        &&& t.network == o.network
        &&& t.wf()
        &&& t.caches_ok()
    }
    /// everything the loop body needs about vehicle v
    pub open spec fn step_ok(&self, v: VehicleIdx) -> bool {
        let succ = self.succ_of(v);
        let sd = sp_start_depot(&self.tours@[succ]);
        let d = sp_depot_idx(&self.network, sd);
        &&& self.tours@.contains_key(v) && self.vehicle_ok(v)
        &&& self.tours@.contains_key(succ) && self.vehicle_ok(succ)
        &&& self.network.has(sd) && self.network.sp_node(sd) is StartDepot
        &&& self.network.depots@.contains_key(d)
        &&& self.network.has(self.aligned_end_node(v)) && self.network.sp_node(self.aligned_end_node(v)) is EndDepot
        &&& sp_depot_idx(&self.network, self.aligned_end_node(v)) == d
    }
}

/// the successor of a vehicle of a valid schedule has a valid tour; its start depot has an end node
pub proof fn lemma_step_ok(s: &Schedule, v: VehicleIdx)
    requires s.sched_ok(), s.tours@.contains_key(v),
    ensures s.step_ok(v),
{
    assert(s.vehicle_ok(v));
    let tr = s.transition_of(v);
    let k = tr.cycle_of(v);
    let c = tr.cyc(k);
    assert(tr@.lookup.contains_key(v));
    assert(0 <= k < tr.n() && c.contains(v));
    let p = c.index_of(v);
    assert(0 <= p < c.len() && c[p] == v);
    lemma_mod_next(p, c.len() as int);
    let q = (p + 1) % (c.len() as int);
    let succ = s.succ_of(v);
    assert(succ == tr.cyc(k)[q]);
    assert(s.tours@.contains_key(tr.cyc(k)[q]));
    assert(s.vehicle_ok(succ));
    let t = s.tours@[succ];
    assert(t.network.has(t.nodes@[0]));
    let sd = sp_start_depot(&t);
    assert(s.network.nodes@.contains_key(sd));
    let d = sp_depot_idx(&s.network, sd);
    assert(s.network.depots@.contains_key(d));
}

/// C09 for a depot-only change: replacing the end depot changes the costs by the difference of the
/// last leg's costs, which is small
pub proof fn lemma_end_depot_costs(t: &Tour, nt: &Tour, e: NodeIdx)
    requires
        t.wf(), !t.is_dummy, t.caches_ok(), tour_len_ok(t.nodes@),
        t.network.has(e), t.network.sp_node(e) is EndDepot,
        nt.nodes@ == t.nodes@.update(t.nodes@.len() - 1, e), nt.network == t.network, nt.caches_ok(),
    ensures
        -leg_cost_bound() <= nt.costs - t.costs <= leg_cost_bound(),
{
    let net = &t.network;
    let old = t.nodes@;
    let n = old.len() as int;
    let head = old.subrange(0, n - 1);
    assert(old =~= head + seq![old[n - 1]]);
    assert(nt.nodes@ =~= head + seq![e]);
    lemma_sums_snoc(net, head, old[n - 1]);
    lemma_sums_snoc(net, head, e);
    lemma_tour_kinds(t, n - 1);
    lemma_tour_kinds(t, n - 2);
    lemma_depot_zero(net, old[n - 1]);
    lemma_depot_zero(net, e);
    assert(net.has(old[n - 1]) && net.has(old[n - 2]));
    assert(head.last() == old[n - 2]);
    lemma_leg_facts(net, old[n - 2], old[n - 1]);
    lemma_leg_facts(net, old[n - 2], e);
}
