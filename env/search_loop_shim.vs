// ---- shim for slice `search_loop` (C08): rapid_solve's parallel local search ------------------------------
// Included inside `pub mod tr { … }` after env/objective_eval_shim.vs (whose vocabulary `ival`, `all_integer`,
// `first_diff`, `common_len`, `lex_upto` IS the lexicographic order used here; no second order is defined).
// Everything `external_body` / `axiom` / `assume_specification` / hand-declared in this file is an ASSUMPTION (listed in
// the header of slices/search_loop.vs); the `proof fn`s are proved.

// ---- A-std: std::time (text of env/pipeline_shim.vs) --------------------------------------------------------
#[verifier::external_type_specification]
#[verifier::external_body]
pub struct ExInstant(std::time::Instant);
// (std::time::Duration = core::time::Duration is already declared by vstd)
/// time stamps carry no contract: nothing in C08 may depend on them
pub assume_specification[ std::time::Instant::now ]() -> std::time::Instant;
pub assume_specification[ std::time::Instant::duration_since ](a: &std::time::Instant, earlier: std::time::Instant) -> std::time::Duration;
/// (not used by the unchanged source: keeps an edit that passes a time limit to `with_options` decidable)
pub assume_specification[ core::time::Duration::from_secs ](secs: u64) -> core::time::Duration;

// ---- A-lib (R7a): `<` on ObjectiveValue ----------------------------------------------------------------------
/// what `ObjectiveValue::partial_cmp(x, y)` carries inside its `Some(..)`.  Uninterpreted: all that is known is
/// axiom_ov_cmp_lex, i.e. the VERIFIED postcondition of `ObjectiveValue::partial_cmp` in slice `objective_eval`
/// (obligation C08.objective_value.partial_cmp_is_some_lexicographic_cmp), under the precondition verified there.
pub uninterp spec fn ov_cmp(x: ObjectiveValue, y: ObjectiveValue) -> core::cmp::Ordering;
/// A-lib (R7a): for Integer vectors, `partial_cmp` is the lexicographic comparison of the common prefix
pub axiom fn axiom_ov_cmp_lex(x: ObjectiveValue, y: ObjectiveValue)
    requires all_integer(x.objective_vector@), all_integer(y.objective_vector@),
    ensures lex_upto(x.objective_vector@, y.objective_vector@, common_len(x.objective_vector@, y.objective_vector@), ov_cmp(x, y));
/// A-std: `a < b` on a type with a hand-written `partial_cmp` is std's default `PartialOrd::lt`:
/// `partial_cmp(a, b) == Some(Less)` (vstd's specification of `lt` / `le` / `gt` / `ge` in terms of `partial_cmp_spec`);
/// A-lib: `partial_cmp` is `Some(self.cmp(other))`, never None.  (`==` of ObjectiveValue is not under contract.)
impl vstd::std_specs::cmp::PartialEqSpecImpl for ObjectiveValue {
    open spec fn obeys_eq_spec() -> bool { false }
    open spec fn eq_spec(&self, other: &ObjectiveValue) -> bool { true }
}
impl vstd::std_specs::cmp::PartialOrdSpecImpl for ObjectiveValue {
    open spec fn obeys_partial_cmp_spec() -> bool { true }
    open spec fn partial_cmp_spec(&self, other: &ObjectiveValue) -> Option<core::cmp::Ordering> { Some(ov_cmp(*self, *other)) }
}
/// the trait impls `<` resolves to (bodies: slice `objective_eval`, where `cmp` / `partial_cmp` are verified verbatim as
/// inherent methods because they need the precondition "all entries are Integer": mixed variants panic)
impl PartialEq for ObjectiveValue { #[verifier::external_body] fn eq(&self, other: &ObjectiveValue) -> bool { unimplemented!() } }
impl PartialOrd for ObjectiveValue { #[verifier::external_body] fn partial_cmp(&self, other: &ObjectiveValue) -> Option<core::cmp::Ordering> { unimplemented!() } }

// ---- C08 vocabulary: strictly better / not worse, on vectors of one objective ---------------------------------
/// "x is strictly better than y" = `x < y` of the code
pub open spec fn ov_lt(x: ObjectiveValue, y: ObjectiveValue) -> bool { ov_cmp(x, y) is Less }
/// "x is not worse than y" = `x <= y` of the code
pub open spec fn ov_le(x: ObjectiveValue, y: ObjectiveValue) -> bool { !(ov_cmp(x, y) is Greater) }
/// a vector as an objective with k levels reports it: k Integer entries (`<` panics on mixed variants and, on vectors of
/// different length, compares the common prefix only -- Observations 1, 2 of slice `objective_eval`; the order is a
/// transitive order only on vectors of ONE length)
pub open spec fn ov_wf(x: ObjectiveValue, k: int) -> bool { x.objective_vector@.len() == k && all_integer(x.objective_vector@) }

/// the first position below m where a and b differ; m if there is none
pub open spec fn first_diff_idx(a: Seq<BaseValue>, b: Seq<BaseValue>, m: int) -> int
    decreases m,
{
    if m <= 0 { 0 } else {
        let p = first_diff_idx(a, b, m - 1);
        if p < m - 1 { p } else if ival(a[m - 1]) != ival(b[m - 1]) { m - 1 } else { m }
    }
}
/// (proved) it is what its name says
pub proof fn lemma_first_diff_idx(a: Seq<BaseValue>, b: Seq<BaseValue>, m: int)
    requires 0 <= m,
    ensures
        0 <= first_diff_idx(a, b, m) <= m,
        forall|j: int| 0 <= j < first_diff_idx(a, b, m) ==> ival(#[trigger] a[j]) == ival(b[j]),
        first_diff_idx(a, b, m) < m ==> first_diff(a, b, first_diff_idx(a, b, m)),
    decreases m,
{
    if m > 0 { lemma_first_diff_idx(a, b, m - 1); }
}
/// (proved) `lex_upto` determines its result: Equal without a difference, else the integer order at the first one
pub proof fn lemma_lex_value(a: Seq<BaseValue>, b: Seq<BaseValue>, m: int, r: core::cmp::Ordering)
    requires 0 <= m, lex_upto(a, b, m, r),
    ensures r == (if first_diff_idx(a, b, m) == m { core::cmp::Ordering::Equal } else { int_cmp(ival(a[first_diff_idx(a, b, m)]), ival(b[first_diff_idx(a, b, m)])) }),
{
    lemma_first_diff_idx(a, b, m);
    let p = first_diff_idx(a, b, m);
    if p < m {
        assert(first_diff(a, b, p));
        assert(ival(a[p]) != ival(b[p]));
    }
}
/// (proved) TRANSITIVITY of the lexicographic order on the first m positions
pub proof fn lemma_lex_trans(a: Seq<BaseValue>, b: Seq<BaseValue>, c: Seq<BaseValue>, m: int, ab: core::cmp::Ordering, bc: core::cmp::Ordering, ac: core::cmp::Ordering)
    requires 0 <= m, lex_upto(a, b, m, ab), lex_upto(b, c, m, bc), lex_upto(a, c, m, ac), !(ab is Greater), !(bc is Greater),
    ensures !(ac is Greater), ab is Less || bc is Less ==> ac is Less,
{
    lemma_lex_value(a, b, m, ab);
    lemma_lex_value(b, c, m, bc);
    lemma_first_diff_idx(a, b, m);
    lemma_first_diff_idx(b, c, m);
    let p = first_diff_idx(a, b, m);
    let q = first_diff_idx(b, c, m);
    let k = if p <= q { p } else { q };
    if k < m {
        // a and c agree before k and differ at k, where a is smaller
        assert forall|j: int| 0 <= j < k implies ival(#[trigger] a[j]) == ival(c[j]) by {
            assert(ival(a[j]) == ival(b[j]));
            assert(ival(b[j]) == ival(c[j]));
        }
        if p < q { assert(ival(b[k]) == ival(c[k])); }
        if q < p { assert(ival(a[k]) == ival(b[k])); }
        assert(ival(a[k]) < ival(c[k]));
        assert(first_diff(a, c, k));
    } else {
        assert forall|i: int| 0 <= i < m implies ival(#[trigger] a[i]) == ival(c[i]) by {
            assert(ival(a[i]) == ival(b[i]));
            assert(ival(b[i]) == ival(c[i]));
        }
    }
}
/// (proved) the order of the code is irreflexive and transitive on the vectors of one objective; `<` implies `<=`
pub proof fn lemma_ov_trans(x: ObjectiveValue, y: ObjectiveValue, z: ObjectiveValue, k: int)
    requires ov_wf(x, k), ov_wf(y, k), ov_wf(z, k), ov_le(x, y), ov_le(y, z),
    ensures ov_le(x, z), ov_lt(x, y) || ov_lt(y, z) ==> ov_lt(x, z),
{
    axiom_ov_cmp_lex(x, y); axiom_ov_cmp_lex(y, z); axiom_ov_cmp_lex(x, z);
    lemma_lex_trans(x.objective_vector@, y.objective_vector@, z.objective_vector@, k, ov_cmp(x, y), ov_cmp(y, z), ov_cmp(x, z));
}
pub proof fn lemma_ov_refl(x: ObjectiveValue, k: int)
    requires ov_wf(x, k),
    ensures ov_cmp(x, x) is Equal, ov_le(x, x), !ov_lt(x, x),
{
    axiom_ov_cmp_lex(x, x);
}
/// (proved) the comparison only looks at the entries: two vectors with the same entries compare alike
pub proof fn lemma_ov_cmp_same_entries(x: ObjectiveValue, y: ObjectiveValue, y2: ObjectiveValue, k: int)
    requires ov_wf(x, k), ov_wf(y, k), ov_wf(y2, k), y.objective_vector@ =~= y2.objective_vector@,
    ensures ov_cmp(x, y) == ov_cmp(x, y2),
{
    axiom_ov_cmp_lex(x, y); axiom_ov_cmp_lex(x, y2);
    lemma_lex_value(x.objective_vector@, y.objective_vector@, k, ov_cmp(x, y));
    lemma_lex_value(x.objective_vector@, y2.objective_vector@, k, ov_cmp(x, y2));
}

// ---- C08 vocabulary: "e is the evaluation of s under objective o" (generic copy of evaluate_post of slice objective_eval) ---
/// the postcondition of Objective::evaluate (verified in slice `objective_eval`), self := o, solution := s, r := e
pub open spec fn is_evaluation<S>(o: Objective<S>, s: S, e: EvaluatedSolution<S>) -> bool {
    &&& e.solution == s
    &&& e.objective_value.objective_vector@.len() == o.hierarchy_levels@.len()
    &&& forall|i: int| 0 <= i < o.hierarchy_levels@.len() ==> #[trigger] e.objective_value.objective_vector@[i] == lc_value(o.hierarchy_levels@[i], &s)
}
/// PRECONDITION of every evaluation: the precondition of Objective::evaluate (slice `objective_eval`: no overflow in any
/// level, the hook `ind_req`) and every level value is an Integer (for the objective of solver::objective::build and a
/// schedule with `agg_fit` both are PROVED there: lemma_reported_vector)
pub open spec fn eval_ok<S>(o: Objective<S>, s: &S) -> bool {
    &&& ind_req(s)
    &&& forall|i: int| 0 <= i < o.hierarchy_levels@.len() ==> lc_req(#[trigger] o.hierarchy_levels@[i], s)
    &&& forall|i: int| 0 <= i < o.hierarchy_levels@.len() ==> lc_value(#[trigger] o.hierarchy_levels@[i], s) is Integer
}
/// (proved) such an evaluation is a well-formed vector of this objective
pub proof fn lemma_evaluation_wf<S>(o: Objective<S>, s: S, e: EvaluatedSolution<S>)
    requires eval_ok(o, &s), is_evaluation(o, s, e),
    ensures ov_wf(e.objective_value, o.hierarchy_levels@.len() as int),
{
    assert forall|i: int| 0 <= i < e.objective_value.objective_vector@.len() implies (#[trigger] e.objective_value.objective_vector@[i]) is Integer by {
        assert(lc_value(o.hierarchy_levels@[i], &s) is Integer);
    }
}

// ---- A-lib (rayon): the parallel iterator of the neighbourhood ------------------------------------------------------
/// A-lib: a rayon `ParallelIterator` stands for the sequence `self@` of its items (in SOME order; rayon fixes none and
/// nothing below depends on one).  Own type (not env/seqiter.vs's SeqIter): only `map` and `min_by` are specified.
#[verifier::external_body]
#[verifier::accept_recursive_types(T)]
pub struct ParIter<T> { inner: std::vec::IntoIter<T> }
impl<T> View for ParIter<T> {
    type V = Seq<T>;
    uninterp spec fn view(&self) -> Seq<T>;
}
/// (trigger helper: "look at position i", always true)
pub open spec fn par_pos(i: int) -> bool { true }
impl<T> ParIter<T> {
    /// A-lib (rayon `ParallelIterator::map`): the closure is applied to every item (on some thread); one result per item
    #[verifier::external_body]
    pub fn map<U, F: Fn(T) -> U>(self, f: F) -> (r: ParIter<U>)
        requires forall|i: int| 0 <= i < self@.len() ==> f.requires((#[trigger] self@[i],)),
        ensures r@.len() == self@.len(), forall|i: int| 0 <= i < self@.len() ==> f.ensures((self@[i],), #[trigger] r@[i]),
    { unimplemented!() }
    /// A-lib (rayon `ParallelIterator::min_by`): None iff there is no item; otherwise one of the items, and it is minimal:
    /// for every item, the comparison of the result with that item has an outcome that is not Greater.  (Which of several
    /// minimal items is returned is not specified.  rayon reduces pairwise and does not literally compare the result with
    /// every item: the statement is its documented meaning for a comparison that is a total preorder on the items.)
    #[verifier::external_body]
    pub fn min_by<F: Fn(&T, &T) -> core::cmp::Ordering>(self, f: F) -> (r: Option<T>)
        requires forall|i: int, j: int| #![trigger self@[i], self@[j]] 0 <= i < self@.len() && 0 <= j < self@.len() ==> f.requires((&self@[i], &self@[j])),
        ensures
            r is None <==> self@.len() == 0,
            r is Some ==> exists|i: int| 0 <= i < self@.len() && #[trigger] self@[i] == r->Some_0,
            r is Some ==> forall|i: int| 0 <= i < self@.len() && #[trigger] par_pos(i) ==> exists|o: core::cmp::Ordering| #[trigger] f.ensures((&r->Some_0, &self@[i]), o) && !(o is Greater),
    { unimplemented!() }
}
/// the neighbours `neighbors_of` yields
pub uninterp spec fn neighbors_spec<S, N>(n: N, s: S) -> Seq<S>;
/// A-lib (interface stub): rapid_solve's `pub trait ParallelNeighborhood<S: Send>: Send + Sync { fn neighbors_of<'a>(&'a self,
/// current_solution: &'a S) -> impl ParallelIterator<Item = S> + 'a; }` with the rayon iterator replaced by the shim type
pub trait ParallelNeighborhood<S>: Sized {
    fn neighbors_of<'a>(&'a self, current_solution: &'a S) -> (r: ParIter<S>)
        ensures r@ == neighbors_spec::<S, Self>(*self, *current_solution);
}
/// (proved) if the best evaluated neighbour is not strictly better than `sol`, no evaluation of a neighbour it was compared
/// with is: e has the entries of the evaluation m that was compared (both evaluate nb), best <= m, so e < sol would give
/// best < sol by transitivity
pub proof fn lemma_no_better_step<S>(o: Objective<S>, nb: S, e: EvaluatedSolution<S>, best: EvaluatedSolution<S>, sol: EvaluatedSolution<S>, k: int)
    requires
        k == o.hierarchy_levels@.len(), eval_ok(o, &nb), is_evaluation(o, nb, e),
        exists|m: EvaluatedSolution<S>| #[trigger] is_evaluation(o, nb, m) && ov_le(best.objective_value, m.objective_value),
        ov_wf(best.objective_value, k), ov_wf(sol.objective_value, k),
        !ov_lt(best.objective_value, sol.objective_value),
    ensures !ov_lt(e.objective_value, sol.objective_value),
{
    let m = choose|m: EvaluatedSolution<S>| #[trigger] is_evaluation(o, nb, m) && ov_le(best.objective_value, m.objective_value);
    lemma_evaluation_wf(o, nb, e);
    lemma_evaluation_wf(o, nb, m);
    assert(m.objective_value.objective_vector@ =~= e.objective_value.objective_vector@);
    lemma_ov_cmp_same_entries(best.objective_value, m.objective_value, e.objective_value, k);
    if ov_lt(e.objective_value, sol.objective_value) {
        lemma_ov_trans(best.objective_value, e.objective_value, sol.objective_value, k);
    }
}
/// the objective / the neighbours of a ParallelMinimizer (spec-level projections through the `Arc`s)
pub open spec fn pm_objective<S, N>(m: &ParallelMinimizer<S, N>) -> Objective<S> { *m.objective }
pub open spec fn pm_neighbors<S, N>(m: &ParallelMinimizer<S, N>, s: &S) -> Seq<S> { neighbors_spec(*m.neighborhood, *s) }

// ---- A-lib: FunctionBetweenSteps -----------------------------------------------------------------------------------
/// rapid_solve: `pub type FunctionBetweenSteps<S> = Box<dyn Fn(u32, &EvaluatedSolution<S>, Option<&EvaluatedSolution<S>>,
/// Arc<Objective<S>>, Option<Instant>, Option<stdtime::Duration>, Option<u32>) + Send + Sync>`.  Verus rejects the type
/// ("dyn with more that one trait"), so it is an opaque struct here that implements `Fn` with exactly these argument
/// types (impls `#[verifier::external]`): the call `(self.function_between_steps)(..)` of the loop stays verbatim and
/// becomes a call with precondition `f.requires(args)`, no postcondition, no access to the caller's state (all arguments
/// are shared references or copies: Rust's type system)
#[verifier::external_body]
#[verifier::reject_recursive_types(S)]
pub struct FunctionBetweenSteps<S> {
    f: Box<dyn Fn(u32, &EvaluatedSolution<S>, Option<&EvaluatedSolution<S>>, Arc<Objective<S>>, Option<std::time::Instant>, Option<std::time::Duration>, Option<u32>) + Send + Sync>,
}
#[verifier::external]
impl<'a, 'b, S> FnOnce<(u32, &'a EvaluatedSolution<S>, Option<&'b EvaluatedSolution<S>>, Arc<Objective<S>>, Option<std::time::Instant>, Option<std::time::Duration>, Option<u32>)> for FunctionBetweenSteps<S> {
    type Output = ();
    extern "rust-call" fn call_once(self, a: (u32, &'a EvaluatedSolution<S>, Option<&'b EvaluatedSolution<S>>, Arc<Objective<S>>, Option<std::time::Instant>, Option<std::time::Duration>, Option<u32>)) { (self.f)(a.0, a.1, a.2, a.3, a.4, a.5, a.6) }
}
#[verifier::external]
impl<'a, 'b, S> FnMut<(u32, &'a EvaluatedSolution<S>, Option<&'b EvaluatedSolution<S>>, Arc<Objective<S>>, Option<std::time::Instant>, Option<std::time::Duration>, Option<u32>)> for FunctionBetweenSteps<S> {
    extern "rust-call" fn call_mut(&mut self, a: (u32, &'a EvaluatedSolution<S>, Option<&'b EvaluatedSolution<S>>, Arc<Objective<S>>, Option<std::time::Instant>, Option<std::time::Duration>, Option<u32>)) { (self.f)(a.0, a.1, a.2, a.3, a.4, a.5, a.6) }
}
#[verifier::external]
impl<'a, 'b, S> Fn<(u32, &'a EvaluatedSolution<S>, Option<&'b EvaluatedSolution<S>>, Arc<Objective<S>>, Option<std::time::Instant>, Option<std::time::Duration>, Option<u32>)> for FunctionBetweenSteps<S> {
    extern "rust-call" fn call(&self, a: (u32, &'a EvaluatedSolution<S>, Option<&'b EvaluatedSolution<S>>, Arc<Objective<S>>, Option<std::time::Instant>, Option<std::time::Duration>, Option<u32>)) { (self.f)(a.0, a.1, a.2, a.3, a.4, a.5, a.6) }
}
/// PRECONDITION of the search: the function between steps accepts every argument tuple (it does not panic); it is not
/// under contract (printing only)
pub open spec fn fbs_total<S>(f: FunctionBetweenSteps<S>) -> bool {
    forall|a: u32, b: &EvaluatedSolution<S>, c: Option<&EvaluatedSolution<S>>, d: Arc<Objective<S>>, e: Option<std::time::Instant>, g: Option<std::time::Duration>, h: Option<u32>|
        #[trigger] f.requires((a, b, c, d, e, g, h))
}

// ---- A-dyn: the local improver behind `Box<dyn ParallelLocalImprover<S>>` -------------------------------------------
/// A-dyn (interface stub): rapid_solve's `pub trait ParallelLocalImprover<S>: Send + Sync { fn improve(&self, solution:
/// &EvaluatedSolution<S>) -> Option<EvaluatedSolution<S>>; }` (vx cannot extract trait items; the marker bounds are dropped)
pub trait ParallelLocalImprover<S> {
    fn improve(&self, solution: &EvaluatedSolution<S>) -> Option<EvaluatedSolution<S>>;
}
/// what calling `improve` through the trait object yields / needs
pub uninterp spec fn improve_spec<S>(imp: Box<dyn ParallelLocalImprover<S>>, sol: EvaluatedSolution<S>) -> Option<EvaluatedSolution<S>>;
pub uninterp spec fn improver_req<S>(imp: Box<dyn ParallelLocalImprover<S>>, sol: EvaluatedSolution<S>) -> bool;
/// A-dyn (call stub, pattern of BoxedIndicatorCall in env/objective_eval_shim.vs): the method call
/// `self.local_improver.improve(&current_solution)` on a `Box<dyn ParallelLocalImprover<S>>` receiver resolves to this
/// extension method; the improver is a FUNCTION of the box and the solution (`improve_spec`; `&self`, no interior state)
pub trait BoxedImproverCall<S> {
    spec fn call_req(&self, solution: &EvaluatedSolution<S>) -> bool;
    spec fn call_value(&self, solution: &EvaluatedSolution<S>) -> Option<EvaluatedSolution<S>>;
    fn improve(&self, solution: &EvaluatedSolution<S>) -> (r: Option<EvaluatedSolution<S>>)
        requires self.call_req(solution),
        ensures r == self.call_value(solution);
}
impl<S> BoxedImproverCall<S> for Box<dyn ParallelLocalImprover<S>> {
    open spec fn call_req(&self, solution: &EvaluatedSolution<S>) -> bool { improver_req(*self, *solution) }
    open spec fn call_value(&self, solution: &EvaluatedSolution<S>) -> Option<EvaluatedSolution<S>> { improve_spec(*self, *solution) }
    #[verifier::external_body]
    fn improve(&self, solution: &EvaluatedSolution<S>) -> (r: Option<EvaluatedSolution<S>>) { (**self).improve(solution) }
}
/// THE IMPROVER CONTRACT (from the trait's documentation: "Determines for a given solution the best neighbor that has an
/// smaller ObjectiveValue"), a HYPOTHESIS of `solve` about the boxed improver: on a well-formed vector of the objective
/// (k Integer levels) it can be called, and what it returns is strictly smaller and again such a vector
pub open spec fn improver_step_ok<S>(imp: Box<dyn ParallelLocalImprover<S>>, sol: EvaluatedSolution<S>, k: int) -> bool {
    &&& improver_req(imp, sol)
    &&& improve_spec(imp, sol) is Some ==> ov_lt(improve_spec(imp, sol)->Some_0.objective_value, sol.objective_value) && ov_wf(improve_spec(imp, sol)->Some_0.objective_value, k)
}
pub open spec fn improver_ok<S>(imp: Box<dyn ParallelLocalImprover<S>>, k: int) -> bool {
    forall|sol: EvaluatedSolution<S>| ov_wf(sol.objective_value, k) ==> #[trigger] improver_step_ok(imp, sol, k)
}
/// the solution after n accepted steps from e (None: the search stopped earlier)
pub open spec fn nth_step<S>(imp: Box<dyn ParallelLocalImprover<S>>, e: EvaluatedSolution<S>, n: nat) -> Option<EvaluatedSolution<S>>
    decreases n,
{
    if n == 0 { Some(e) } else {
        match nth_step(imp, e, (n - 1) as nat) { Some(x) => improve_spec(imp, x), None => None }
    }
}
/// GHOST BOUND (precondition of `solve` when there is no iteration limit): the improver admits no chain of b consecutive
/// improving steps -- `iteration_counter` is a u32
pub open spec fn chains_shorter_than<S>(imp: Box<dyn ParallelLocalImprover<S>>, b: int) -> bool {
    forall|e: EvaluatedSolution<S>, n: nat| (#[trigger] nth_step(imp, e, n)) is Some ==> n < b
}

// ---- A-dyn: the default improver ------------------------------------------------------------------------------------
/// the trait impl the coercion `Box::new(ParallelMinimizer::new(..)) as Box<dyn ParallelLocalImprover<S>>` needs; its body is
/// the `improve` verified verbatim in the slice (emitted there as an inherent method: a trait impl cannot carry `requires`)
impl<S, N: ParallelNeighborhood<S>> ParallelLocalImprover<S> for ParallelMinimizer<S, N> {
    #[verifier::external_body]
    fn improve(&self, solution: &EvaluatedSolution<S>) -> Option<EvaluatedSolution<S>> { unimplemented!() }
}
pub open spec fn minimizer_box<S: 'static, N: ParallelNeighborhood<S> + 'static>(m: ParallelMinimizer<S, N>) -> Box<dyn ParallelLocalImprover<S>> { Box::new(m) }
/// copy of the VERIFIED contract of ParallelMinimizer::improve (the slice states `pm_improve_post` as its last postcondition)
pub open spec fn pm_improve_pre<S, N>(m: &ParallelMinimizer<S, N>, solution: &EvaluatedSolution<S>) -> bool {
    &&& ov_wf(solution.objective_value, pm_objective(m).hierarchy_levels@.len() as int)
    &&& forall|i: int| #![trigger pm_neighbors(m, &solution.solution)[i]] 0 <= i < pm_neighbors(m, &solution.solution).len() ==> eval_ok(pm_objective(m), &pm_neighbors(m, &solution.solution)[i])
}
pub open spec fn pm_improve_post<S, N>(m: &ParallelMinimizer<S, N>, solution: &EvaluatedSolution<S>, r: Option<EvaluatedSolution<S>>) -> bool {
    &&& r is Some ==> ov_lt(r->Some_0.objective_value, solution.objective_value)
    &&& r is Some ==> exists|i: int| 0 <= i < pm_neighbors(m, &solution.solution).len() && is_evaluation(pm_objective(m), #[trigger] pm_neighbors(m, &solution.solution)[i], r->Some_0)
    &&& r is None <==> (forall|i: int, e: EvaluatedSolution<S>| 0 <= i < pm_neighbors(m, &solution.solution).len() && #[trigger] is_evaluation(pm_objective(m), pm_neighbors(m, &solution.solution)[i], e) ==> !ov_lt(e.objective_value, solution.objective_value))
}
/// A-dyn: dynamic dispatch on a boxed ParallelMinimizer runs ParallelMinimizer::improve: same precondition, and the result
/// satisfies its verified postcondition
pub axiom fn axiom_dyn_minimizer<S: 'static, N: ParallelNeighborhood<S> + 'static>(m: ParallelMinimizer<S, N>, sol: EvaluatedSolution<S>)
    ensures
        improver_req(minimizer_box(m), sol) == pm_improve_pre(&m, &sol),
        pm_improve_pre(&m, &sol) ==> pm_improve_post(&m, &sol, #[trigger] improve_spec(minimizer_box(m), sol));
/// HYPOTHESIS for the default improver: every neighbour of every solution can be evaluated (magnitudes, `ind_req`)
pub open spec fn neighbours_evaluable<S, N>(m: &ParallelMinimizer<S, N>) -> bool {
    forall|s: S, i: int| #![trigger pm_neighbors(m, &s)[i]] 0 <= i < pm_neighbors(m, &s).len() ==> eval_ok(pm_objective(m), &pm_neighbors(m, &s)[i])
}
/// (proved) the default improver satisfies the improver contract
pub proof fn lemma_minimizer_is_ok<S: 'static, N: ParallelNeighborhood<S> + 'static>(m: ParallelMinimizer<S, N>)
    requires neighbours_evaluable(&m),
    ensures improver_ok(minimizer_box(m), pm_objective(&m).hierarchy_levels@.len() as int), // @obl C08.search.default_improver_satisfies_the_improver_contract
{
    let k = pm_objective(&m).hierarchy_levels@.len() as int;
    let imp = minimizer_box(m);
    assert forall|sol: EvaluatedSolution<S>| ov_wf(sol.objective_value, k) implies #[trigger] improver_step_ok(imp, sol, k) by {
        axiom_dyn_minimizer(m, sol);
        assert(pm_improve_pre(&m, &sol));
        let r = improve_spec(imp, sol);
        if r is Some {
            let i = choose|i: int| 0 <= i < pm_neighbors(&m, &sol.solution).len() && is_evaluation(pm_objective(&m), #[trigger] pm_neighbors(&m, &sol.solution)[i], r->Some_0);
            lemma_evaluation_wf(pm_objective(&m), pm_neighbors(&m, &sol.solution)[i], r->Some_0);
        }
    }
}

// ---- the solver ---------------------------------------------------------------------------------------------------
/// spec-level projection through the `Arc`
pub open spec fn pls_objective<S>(s: &ParallelLocalSearchSolver<S>) -> Objective<S> { *s.objective }
/// A-lib (out of slice): solver::local_search::neighborhood::RSSchedParallelNeighborhood (opaque; its generators are the
/// subject of slice `neighborhood_gen`)
#[verifier::external_body]
pub struct RSSchedParallelNeighborhood { _p: () }
impl ParallelNeighborhood<ScheduleWithInfo> for RSSchedParallelNeighborhood {
    #[verifier::external_body]
    fn neighbors_of<'a>(&'a self, current_solution: &'a ScheduleWithInfo) -> (r: ParIter<ScheduleWithInfo>) { unimplemented!() }
}
