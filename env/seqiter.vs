// ---- A-iter: shim iterator.  `SeqIter<T>` stands for any std / itertools iterator whose remaining
// items are the sequence `self@`; each adapter carries the *assumed* semantics of the std adapter of
// the same name.  R5 rewrites `.iter()` / `.into_iter()` / `(a..b)` at the head of an adapter chain
// to `.viter()` / `vrange(a, b)`, so that the chain resolves to these inherent methods.
#[verifier::external_body]
#[verifier::accept_recursive_types(T)]
pub struct SeqIter<T> { inner: std::vec::IntoIter<T> }

impl<T> View for SeqIter<T> {
    type V = Seq<T>;
    uninterp spec fn view(&self) -> Seq<T>;
}

pub trait Viter<T> {
    spec fn vseq(&self) -> Seq<T>;
    fn viter<'a>(&'a self) -> (r: SeqIter<&'a T>)
        ensures r@.len() == self.vseq().len(),
            forall|i: int| 0 <= i < r@.len() ==> *(#[trigger] r@[i]) == self.vseq()[i],
            forall|i: int| 0 <= i < r@.len() ==> *r@[i] == #[trigger] self.vseq()[i];
}
impl<T> Viter<T> for Vec<T> {
    open spec fn vseq(&self) -> Seq<T> { self@ }
    #[verifier::external_body]
    fn viter<'a>(&'a self) -> (r: SeqIter<&'a T>) { unimplemented!() }
}
impl<T> Viter<T> for [T] {
    open spec fn vseq(&self) -> Seq<T> { self@ }
    #[verifier::external_body]
    fn viter<'a>(&'a self) -> (r: SeqIter<&'a T>) { unimplemented!() }
}

#[verifier::external_body]
pub fn vrange(a: usize, b: usize) -> (r: SeqIter<usize>)
    ensures r@.len() == (if b >= a { b - a } else { 0 }), forall|i: int| 0 <= i < r@.len() ==> #[trigger] r@[i] == a + i,
{ unimplemented!() }

pub trait VSum<T>: Sized {
    spec fn sum_req(s: Seq<T>) -> bool;
    spec fn spec_sum(s: Seq<T>) -> Self;
}
pub trait VCollect<T>: Sized {
    spec fn collected(&self) -> Seq<T>;
}
impl<T> VCollect<T> for Vec<T> {
    open spec fn collected(&self) -> Seq<T> { self@ }
}

impl<T> SeqIter<T> {
    #[verifier::external_body]
    pub fn map<U, F: Fn(T) -> U>(self, f: F) -> (r: SeqIter<U>)
        requires forall|i: int| 0 <= i < self@.len() ==> f.requires((#[trigger] self@[i],)),
        ensures r@.len() == self@.len(), forall|i: int| 0 <= i < self@.len() ==> f.ensures((self@[i],), #[trigger] r@[i]),
    { unimplemented!() }

    #[verifier::external_body]
    pub fn sum<S: VSum<T>>(self) -> (r: S)
        requires S::sum_req(self@),
        ensures r == S::spec_sum(self@),
    { unimplemented!() }

    #[verifier::external_body]
    pub fn collect<C: VCollect<T>>(self) -> (r: C)
        ensures r.collected() == self@,
    { unimplemented!() }

    #[verifier::external_body]
    pub fn any<F: Fn(T) -> bool>(self, f: F) -> (r: bool)
        requires forall|i: int| 0 <= i < self@.len() ==> f.requires((#[trigger] self@[i],)),
        ensures
            r ==> exists|i: int| 0 <= i < self@.len() && f.ensures((#[trigger] self@[i],), true),
            !r ==> forall|i: int| 0 <= i < self@.len() ==> f.ensures((#[trigger] self@[i],), false),
    { unimplemented!() }

    #[verifier::external_body]
    pub fn all<F: Fn(T) -> bool>(self, f: F) -> (r: bool)
        requires forall|i: int| 0 <= i < self@.len() ==> f.requires((#[trigger] self@[i],)),
        ensures
            r ==> forall|i: int| 0 <= i < self@.len() ==> f.ensures((#[trigger] self@[i],), true),
            !r ==> exists|i: int| 0 <= i < self@.len() && f.ensures((#[trigger] self@[i],), false),
    { unimplemented!() }

    /// first index whose item satisfies the predicate
    #[verifier::external_body]
    pub fn position<F: Fn(T) -> bool>(self, f: F) -> (r: Option<usize>)
        requires forall|i: int| 0 <= i < self@.len() ==> f.requires((#[trigger] self@[i],)),
        ensures
            r is Some ==> r.unwrap() < self@.len() && f.ensures((self@[r.unwrap() as int],), true)
                && forall|i: int| 0 <= i < r.unwrap() ==> f.ensures((#[trigger] self@[i],), false),
            r is None ==> forall|i: int| 0 <= i < self@.len() ==> f.ensures((#[trigger] self@[i],), false),
    { unimplemented!() }

    /// itertools::tuple_windows for pairs
    #[verifier::external_body]
    pub fn tuple_windows(self) -> (r: SeqIter<(T, T)>)
        ensures r@.len() == (if self@.len() >= 1 { self@.len() - 1 } else { 0 }),
            forall|i: int| 0 <= i < r@.len() ==> #[trigger] r@[i] == (self@[i], self@[i + 1]),
    { unimplemented!() }

    #[verifier::external_body]
    pub fn chain(self, other: SeqIter<T>) -> (r: SeqIter<T>)
        ensures r@ == self@ + other@,
    { unimplemented!() }
}
impl<'a, T: Copy> SeqIter<&'a T> {
    #[verifier::external_body]
    pub fn copied(self) -> (r: SeqIter<T>)
        ensures r@.len() == self@.len(), forall|i: int| 0 <= i < self@.len() ==> #[trigger] r@[i] == *self@[i],
    { unimplemented!() }
}
/// std::iter::once
#[verifier::external_body]
pub fn vonce<T>(x: T) -> (r: SeqIter<T>)
    ensures r@ == seq![x],
{ unimplemented!() }
impl<T> SeqIter<T> {
    #[verifier::external_body]
    pub fn take(self, n: usize) -> (r: SeqIter<T>)
        ensures r@ == self@.subrange(0, if n as int <= self@.len() { n as int } else { self@.len() as int }),
    { unimplemented!() }
    #[verifier::external_body]
    pub fn skip(self, n: usize) -> (r: SeqIter<T>)
        ensures r@ == self@.subrange(if n as int <= self@.len() { n as int } else { self@.len() as int }, self@.len() as int),
    { unimplemented!() }
}
// `for x in <SeqIter>` : the loop visits the items of the view in order
impl<T> Iterator for SeqIter<T> {
    type Item = T;
    #[verifier::external_body]
    fn next(&mut self) -> (r: Option<T>)
        ensures old(self)@.len() == 0 ==> r is None && final(self)@ == old(self)@,
            old(self)@.len() > 0 ==> r == Some(old(self)@[0]) && final(self)@ == old(self)@.drop_first(),
    { unimplemented!() }
}
impl<T> vstd::std_specs::iter::IteratorSpecImpl for SeqIter<T> {
    open spec fn obeys_prophetic_iter_laws(&self) -> bool { true }
    open spec fn remaining(&self) -> Seq<T> { self@ }
    open spec fn will_return_none(&self) -> bool { true }
    open spec fn decrease(&self) -> Option<nat> { Some(self@.len()) }
    open spec fn peek(&self, i: int) -> Option<T> { if 0 <= i < self@.len() { Some(self@[i]) } else { None } }
}
/// R9 / A-fmt: identity on strings produced by `format!` with a literal that contains text
#[verifier::external_body]
pub fn vx_nonempty(s: String) -> (r: String)
    ensures r@ == s@, r@.len() > 0,
{ s }
// Vec::extend(iterator): appends the iterator's items (A-iter); `into_items` is the item sequence of
// an arbitrary IntoIterator, known to be the view for SeqIter
pub uninterp spec fn into_items<I, T>(it: I) -> Seq<T>;
pub broadcast axiom fn axiom_into_items_seqiter<T>(it: SeqIter<T>)
    ensures #[trigger] into_items::<SeqIter<T>, T>(it) == it@;
pub assume_specification<T, A: std::alloc::Allocator, I: IntoIterator<Item = T>>[ <Vec<T, A> as Extend<T>>::extend::<I> ](v: &mut Vec<T, A>, it: I)
    ensures final(v)@ == old(v)@ + into_items::<I, T>(it);
/// R5b: `v.splice(a..b, w).collect()` — replaces v[a..b] by w and yields the removed items; panics
/// unless a <= b <= len (std::vec::Vec::splice / Drain bounds check)
#[verifier::external_body]
pub fn vx_splice<T>(v: &mut Vec<T>, a: usize, b: usize, w: Vec<T>) -> (r: Vec<T>)
    requires a <= b <= old(v)@.len(),
    ensures final(v)@ == old(v)@.subrange(0, a as int) + w@ + old(v)@.subrange(b as int, old(v)@.len() as int),
        r@ == old(v)@.subrange(a as int, b as int),
{ unimplemented!() }

impl<T> SeqIter<T> {
    /// itertools `sorted()`: the same items in ascending order (A-iter; only "the same items" is stated -- what the
    /// order is depends on `Ord` of the item type).  Not called by the code under contract today; present so that a
    /// body that sorts before emitting type-checks and has to prove that the order did not matter.
    #[verifier::external_body]
    pub fn sorted(self) -> (r: SeqIter<T>)
        ensures r@.len() == self@.len(), r@.to_multiset() == self@.to_multiset(),
    { unimplemented!() }
}
