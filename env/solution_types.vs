// ---- solution: Tour, Path, Segment (verbatim type definitions) --------------------------------------
//@item solution/src/tour.rs type Position : plain
//@end
//@item solution/src/tour.rs struct Tour : plain
//@end
//@item solution/src/path.rs struct Path : plain
//@end
//@item solution/src/segment.rs struct Segment : plain
//@end
//@item solution/src/segment.rs Segment::new
//@retname r
//@sig
    ensures r.start == start, r.end == end,
//@end
//@item solution/src/segment.rs Segment::start
//@retname r
//@sig
    ensures r == self.start,
//@end
//@item solution/src/segment.rs Segment::end
//@retname r
//@sig
    ensures r == self.end,
//@end
