// ---- environment of the slice `spawn_vehicle` ----------------------------------------------------------
// Included inside `pub mod tr { … }` after env/im_shim.vs, env/transition_spec.vs, env/schedule_shim.vs and
// env/sched_guard_shim.vs.  Everything `assume_specification` / `external_body` / `axiom` in this file is an
// ASSUMPTION (listed in the header of slices/spawn_vehicle.vs): A-display / A-fmt (Display of VehicleTypeIdx, Debug of
// Vec<NodeIdx>), A-derive (Ord of VehicleIdx, Vehicle::clone), A-std7 (binary_search, unwrap_or_else), A-std8
// (mem::replace), A-im (Index / IndexMut of im::HashMap).  The rest are open spec functions and proved lemmas; the
// vocabulary copied from other slices / shims says where it comes from; env/train_formation_update_shim.vs is
// included (module `tfu`), not copied.
// LAST BLOCK of this file: the vocabulary of the preconditions / postconditions spawn_vehicle_for_path got from the verified
// contracts of find_best_start_depot_for_spawning / find_best_end_depot_for_despawning (Depot::sp_capacity_for, Network::{has_depot,
// sp_depot, sp_depot_idx_of, dist_to, dist_from, start_depots_ok, nearest_end_depot}, spawned_of_type / spawned_counts /
// spawned_total, dist_le, listed_before, Schedule::{sp_can_spawn, usage_counts_small, some_depot_has_room, best_start_depot,
// depot_limits_hold}, lemma_depot_without_type_limit_suffices, lemma_spawn_keeps_depot_limits; text copied from
// env/depot_choice_shim.vs).  The slices that stub spawn_vehicle_for_path with its full contract (dummy_ops, sched_ctor) and
// slices/add_path.vs (env/add_path_shim.vs, included after this file, no longer defines the first part itself) use it from here.
// VERY LAST BLOCK (prefix `spcl_`): CLOSURE of sv_ok under spawn_vehicle_for_path -- vocabulary (the clauses of sv_formations_ok by name,
// spcl_step, spcl_closed) and proved lemmas (spcl_lemma_closure); part of the lemma text is copied from env/sched_ctor_shim.vs under new
// names (see there).  No assumption.
use vstd::std_specs::cmp::OrdSpec;

// A-display: `{}` of a VehicleTypeIdx (derive_more Display of the repository; a no-op outside verus!)
impl vstd::std_specs::fmt::DisplaySpecImpl for VehicleTypeIdx {
    open spec fn fmt_req(&self, f: &std::fmt::Formatter<'_>) -> bool { true }
}

// ---- A-derive: derived PartialOrd / Ord of VehicleIdx (variant order, then the index); derived Clone of
// Vehicle (text as in env/remove_segment_shim.vs / slices/admission.vs) ----------------------------------
pub open spec fn vidx_rank(v: VehicleIdx) -> int {
    match v { VehicleIdx::Vehicle(i) => i as int, VehicleIdx::Dummy(i) => 0x10000 + i as int }
}
impl vstd::std_specs::cmp::PartialOrdSpecImpl for VehicleIdx {
    open spec fn obeys_partial_cmp_spec() -> bool { true }
    open spec fn partial_cmp_spec(&self, other: &VehicleIdx) -> Option<core::cmp::Ordering> { Some(int_cmp(vidx_rank(*self), vidx_rank(*other))) }
}
impl vstd::std_specs::cmp::OrdSpecImpl for VehicleIdx {
    open spec fn obeys_cmp_spec() -> bool { true }
    open spec fn cmp_spec(&self, other: &VehicleIdx) -> core::cmp::Ordering { int_cmp(vidx_rank(*self), vidx_rank(*other)) }
}
impl Clone for Vehicle {
    #[verifier::external_body]
    fn clone(&self) -> (r: Self)
        ensures r == *self
    { unimplemented!() }
}

// ---- A-std7: `<[T]>::binary_search`, `Result::unwrap_or_else` (text as in env/remove_segment_shim.vs;
// belong into env/std_specs.vs) ---------------------------------------------------------------------------
/// sorted w.r.t. `Ord::cmp` (non-strict)
pub open spec fn sorted_cmp<T: Ord>(s: Seq<T>) -> bool {
    forall|i: int, j: int| #![trigger s[i], s[j]] 0 <= i < j < s.len() ==> !(s[i].cmp_spec(&s[j]) is Greater)
}
/// what `binary_search` returns on a sorted slice
pub open spec fn bsearch_post<T: Ord>(s: Seq<T>, x: T, r: Result<usize, usize>) -> bool {
    match r {
        Ok(i) => i < s.len() && s[i as int].cmp_spec(&x) is Equal,
        Err(i) => i <= s.len()
            && (forall|j: int| 0 <= j < i ==> (#[trigger] s[j]).cmp_spec(&x) is Less)
            && (forall|j: int| i <= j < s.len() ==> (#[trigger] s[j]).cmp_spec(&x) is Greater),
    }
}
/// the position it reports (found at / to be inserted at)
pub open spec fn bs_pos(r: Result<usize, usize>) -> int { (match r { Ok(i) => i, Err(i) => i }) as int }
/// std: "Binary searches this slice for a given element.  If the slice is not sorted, the returned result is
/// unspecified and meaningless.  If the value is found then Result::Ok is returned, containing the index of
/// the matching element.  If there are multiple matches, then any one of the matches could be returned.  If
/// the value is not found then Result::Err is returned, containing the index where a matching element could
/// be inserted while maintaining sorted order."
pub assume_specification<T: Ord>[ <[T]>::binary_search ](s: &[T], x: &T) -> (r: Result<usize, usize>)
    ensures sorted_cmp(s@) ==> bsearch_post(s@, *x, r);
/// std: "Returns the contained Ok value or computes it from a closure."
pub assume_specification<T, E, F: FnOnce(E) -> T>[ Result::<T, E>::unwrap_or_else ](a: Result<T, E>, f: F) -> (r: T)
    requires a is Err ==> f.requires((a->Err_0,)),
    ensures a is Ok ==> r == a->Ok_0, a is Err ==> f.ensures((a->Err_0,), r);

/// std: "Moves src into the referenced dest, returning the previous dest value."
pub assume_specification<T>[ std::mem::replace::<T> ](dest: &mut T, src: T) -> (r: T)
    ensures *final(dest) == src, r == *old(dest);

/// putting x where binary_search says keeps the list sorted
pub proof fn lemma_sorted_insert(s: Seq<VehicleIdx>, x: VehicleIdx, r: Result<usize, usize>)
    requires sorted_cmp(s), bsearch_post(s, x, r),
    ensures 0 <= bs_pos(r) <= s.len() && sorted_cmp(s.insert(bs_pos(r), x)),
{
    let p = bs_pos(r);
    let t = s.insert(p, x);
    assert forall|i: int, j: int| #![trigger t[i], t[j]] 0 <= i < j < t.len() implies !(t[i].cmp_spec(&t[j]) is Greater) by {
        let a = if i < p { i } else { i - 1 };
        let b = if j < p { j } else { j - 1 };
        if i != p && j != p {
            assert(t[i] == s[a] && t[j] == s[b]);
            assert(!(s[a].cmp_spec(&s[b]) is Greater));
        } else if i == p {
            assert(t[j] == s[b]);
            if r is Ok && b > p { assert(!(s[p].cmp_spec(&s[b]) is Greater)); }
        } else {
            assert(t[i] == s[a]);
            if r is Ok { assert(!(s[a].cmp_spec(&s[p]) is Greater)); }
        }
    }
}

// ---- A-im (continued): `map[&k]` on an im::HashMap (belongs into env/im_shim.vs) -------------------------
// im 15: `impl Index<&BK> for HashMap<K, V, S>`: "Panics if the key is not present"; `impl IndexMut<&BK>`:
// a mutable reference INTO the map (the map is persistent: the entry is copied on write), i.e. when the
// borrow ends the map is the old one with the key bound to the final value of the reference.
impl<'a, K, V> std::ops::Index<&'a K> for self::im::HashMap<K, V> {
    type Output = V;
    #[verifier::external_body]
    fn index(&self, key: &'a K) -> (r: &V)
        ensures *r == self@[*key],
    { unimplemented!() }
}
impl<'a, K, V> vstd::std_specs::core::IndexSpecImpl<&'a K> for self::im::HashMap<K, V> {
    open spec fn index_req(&self, key: &&'a K) -> bool { self@.contains_key(**key) }
}
impl<'a, K, V> std::ops::IndexMut<&'a K> for self::im::HashMap<K, V> {
    #[verifier::external_body]
    fn index_mut(&mut self, key: &'a K) -> (r: &mut V)
        ensures *r == old(self)@[*key], final(self)@ == old(self)@.insert(*key, *final(r)),
    { unimplemented!() }
}

// =====================================================================================================
// depot usage vocabulary (C09 last part): text copied from env/depot_usage_shim.vs, which cannot be
// included next to env/schedule_shim.vs (both declare the im::HashSet shim and the Vehicle type)
// =====================================================================================================
/// the abstract depot usage: (depot, type) -> (vehicles spawned there, vehicles despawned there)
pub type UsageMap = Map<(DepotIdx, VehicleTypeIdx), (HashSet<VehicleIdx>, HashSet<VehicleIdx>)>;
pub type VehicleMap = Map<VehicleIdx, Vehicle>;
pub type TourMap = Map<VehicleIdx, Tour>;

/// `usage(d, vt).0`; "absent keys count as empty sets"
pub open spec fn sp_spawned(du: UsageMap, d: DepotIdx, vt: VehicleTypeIdx) -> Set<VehicleIdx> {
    if du.contains_key((d, vt)) { du[(d, vt)].0@ } else { Set::empty() }
}
/// `usage(d, vt).1`; "absent keys count as empty sets"
pub open spec fn sp_despawned(du: UsageMap, d: DepotIdx, vt: VehicleTypeIdx) -> Set<VehicleIdx> {
    if du.contains_key((d, vt)) { du[(d, vt)].1@ } else { Set::empty() }
}
/// the depot a start / end depot node belongs to
pub open spec fn sp_depot_idx_of(net: &Network, n: NodeIdx) -> DepotIdx {
    match net.sp_node(n) {
        Node::StartDepot((_, d)) => d.depot_idx,
        Node::EndDepot((_, d)) => d.depot_idx,
        _ => arbitrary(),
    }
}
/// "v in V of type vt whose tour's start depot node belongs to depot d"
pub open spec fn starts_at(net: &Network, vehicles: VehicleMap, tours: TourMap, v: VehicleIdx, d: DepotIdx, vt: VehicleTypeIdx) -> bool {
    &&& vehicles.contains_key(v) && tours.contains_key(v)
    &&& vehicles[v].vehicle_type.idx == vt
    &&& sp_depot_idx_of(net, sp_start_depot(&tours[v])) == d
}
/// "… whose tour's end depot node belongs to depot d"
pub open spec fn ends_at(net: &Network, vehicles: VehicleMap, tours: TourMap, v: VehicleIdx, d: DepotIdx, vt: VehicleTypeIdx) -> bool {
    &&& vehicles.contains_key(v) && tours.contains_key(v)
    &&& vehicles[v].vehicle_type.idx == vt
    &&& sp_depot_idx_of(net, sp_end_depot(&tours[v])) == d
}
/// the same, read per vehicle: v is in exactly the sets it belongs to
pub open spec fn usage_exact_for(du: UsageMap, net: &Network, vehicles: VehicleMap, tours: TourMap, v: VehicleIdx) -> bool {
    &&& forall|d: DepotIdx, vt: VehicleTypeIdx| (#[trigger] sp_spawned(du, d, vt)).contains(v) <==> starts_at(net, vehicles, tours, v, d, vt)
    &&& forall|d: DepotIdx, vt: VehicleTypeIdx| (#[trigger] sp_despawned(du, d, vt)).contains(v) <==> ends_at(net, vehicles, tours, v, d, vt)
}
/// C09: the usage table has its from-scratch value for the real vehicles `vehicles` with tours `tours`
pub open spec fn usage_exact(du: UsageMap, net: &Network, vehicles: VehicleMap, tours: TourMap) -> bool {
    forall|v: VehicleIdx| #[trigger] usage_exact_for(du, net, vehicles, tours, v)
}
/// the entries of every vehicle but v are the same in both tables
pub open spec fn usage_same_except(du0: UsageMap, du1: UsageMap, v: VehicleIdx) -> bool {
    &&& forall|d: DepotIdx, vt: VehicleTypeIdx, u: VehicleIdx| u != v ==>
            ((#[trigger] sp_spawned(du1, d, vt).contains(u)) <==> sp_spawned(du0, d, vt).contains(u))
    &&& forall|d: DepotIdx, vt: VehicleTypeIdx, u: VehicleIdx| u != v ==>
            ((#[trigger] sp_despawned(du1, d, vt).contains(u)) <==> sp_despawned(du0, d, vt).contains(u))
}
/// C09 ("… equal their from-scratch value after any modification"), one step of a modification: the
/// table was exact for the old vehicles / tours, vehicle v (and only v) changed, the table was brought
/// up to date for v and left alone for everybody else: it is exact for the new vehicles / tours
pub proof fn lemma_usage_exact_step(du0: UsageMap, du1: UsageMap, net: &Network,
        vehicles0: VehicleMap, tours0: TourMap, vehicles1: VehicleMap, tours1: TourMap, v: VehicleIdx)
    requires
        usage_exact(du0, net, vehicles0, tours0),
        usage_exact_for(du1, net, vehicles1, tours1, v),
        usage_same_except(du0, du1, v),
        forall|u: VehicleIdx| #![trigger vehicles1.contains_key(u)] #![trigger vehicles1[u]] u != v ==> (vehicles1.contains_key(u) <==> vehicles0.contains_key(u)) && vehicles1[u] == vehicles0[u],
        forall|u: VehicleIdx| #![trigger tours1.contains_key(u)] #![trigger tours1[u]] u != v ==> (tours1.contains_key(u) <==> tours0.contains_key(u)) && tours1[u] == tours0[u],
    ensures
        usage_exact(du1, net, vehicles1, tours1),
{
    assert forall|u: VehicleIdx| #[trigger] usage_exact_for(du1, net, vehicles1, tours1, u) by {
        if u != v {
            assert(usage_exact_for(du0, net, vehicles0, tours0, u));
            assert forall|d: DepotIdx, vt: VehicleTypeIdx| (#[trigger] sp_spawned(du1, d, vt)).contains(u) <==> starts_at(net, vehicles1, tours1, u, d, vt) by {
                assert(sp_spawned(du1, d, vt).contains(u) <==> sp_spawned(du0, d, vt).contains(u));
            }
            assert forall|d: DepotIdx, vt: VehicleTypeIdx| (#[trigger] sp_despawned(du1, d, vt)).contains(u) <==> ends_at(net, vehicles1, tours1, u, d, vt) by {
                assert(sp_despawned(du1, d, vt).contains(u) <==> sp_despawned(du0, d, vt).contains(u));
            }
        }
    }
}
/// a real well-formed tour over the network `net` (text as in slices/depot_usage.vs)
pub open spec fn tour_of_net(net: &Network, t: &Tour) -> bool { t.wf() && !t.is_dummy && *t.network == *net }
impl Schedule {
    /// a real vehicle of this schedule (text as in slices/depot_usage.vs)
    pub open spec fn sp_is_vehicle(&self, v: VehicleIdx) -> bool { self.vehicles@.contains_key(v) }
    pub open spec fn sp_is_dummy(&self, v: VehicleIdx) -> bool { self.dummy_tours@.contains_key(v) }
    /// part of C10 (schedule validity): a real vehicle has a real (non-dummy) well-formed tour over the
    /// schedule's network
    pub open spec fn real_tour_ok(&self, v: VehicleIdx) -> bool {
        self.tours@.contains_key(v) && tour_of_net(&self.network, &self.tours@[v])
    }
}

// =====================================================================================================
// train formations: vocabulary of the contract of Schedule::update_train_formation.  The first part is
// text copied from slices/train_formation_update.vs / slices/admission.vs (limits, formations), the
// second part is env/train_formation_update_shim.vs, included in a module of its own (it declares a
// `max0` that differs from the one of env/transition_spec.vs at 0, where both are 0)
// =====================================================================================================
pub open spec fn combined_limit(type_limit: Option<VehicleCount>, segment_limit: Option<VehicleCount>) -> Option<VehicleCount> {
    match (type_limit, segment_limit) {
        (Some(a), Some(b)) => Some(if a <= b { a } else { b }),
        (Some(a), None) => Some(a),
        (None, Some(b)) => Some(b),
        (None, None) => None,
    }
}
impl Network {
    pub open spec fn sp_trip(&self, n: NodeIdx) -> ServiceTrip { self.sp_node(n)->Service_0.1 }
    pub open spec fn is_trip(&self, n: NodeIdx) -> bool {
        self.has(n) && self.sp_node(n) is Service && self.vehicle_types.vehicle_types@.contains_key(self.sp_trip(n).vehicle_type)
    }
}
/// passenger capacity / seats of a formation: the sums over its vehicles
pub open spec fn fcap(f: Seq<Vehicle>) -> int { isum(f.map_values(|v: Vehicle| v.vehicle_type.capacity as int)) }
pub open spec fn fseats(f: Seq<Vehicle>) -> int { isum(f.map_values(|v: Vehicle| v.vehicle_type.seats as int)) }
/// position of the first vehicle with the given id (s.len() if there is none)
pub open spec fn first_pos(s: Seq<Vehicle>, v: VehicleIdx) -> int
    decreases s.len(),
{
    if s.len() == 0 { 0 } else if s[0].idx == v { 0 } else { 1 + first_pos(s.drop_first(), v) }
}
pub open spec fn has_vehicle(s: Seq<Vehicle>, v: VehicleIdx) -> bool {
    exists|i: int| 0 <= i < s.len() && #[trigger] s[i].idx == v
}
impl Schedule {
    pub open spec fn grows(&self, provider: Option<VehicleIdx>, receiver: Option<Vehicle>) -> bool {
        receiver is Some && !self.sp_is_dummy(receiver.unwrap().idx) && !(provider is Some && !self.sp_is_dummy(provider.unwrap()))
    }
    pub open spec fn replaces(&self, provider: Option<VehicleIdx>, receiver: Option<Vehicle>) -> bool {
        receiver is Some && !self.sp_is_dummy(receiver.unwrap().idx) && provider is Some && !self.sp_is_dummy(provider.unwrap())
    }
    pub open spec fn shrinks(&self, provider: Option<VehicleIdx>, receiver: Option<Vehicle>) -> bool {
        !(receiver is Some && !self.sp_is_dummy(receiver.unwrap().idx)) && provider is Some && !self.sp_is_dummy(provider.unwrap())
    }
    pub open spec fn sp_node_limit(&self, node: NodeIdx) -> Option<VehicleCount> {
        match self.network.sp_node(node) {
            Node::Maintenance((_, m)) => Some(m.track_count),
            Node::Service((_, s)) => combined_limit(
                self.network.vehicle_types.vehicle_types@[s.vehicle_type].maximal_formation_count,
                s.maximal_formation_count),
            _ => None,
        }
    }
}
pub mod tfu {
use super::*;
use vstd::prelude::*;
//@include env/train_formation_update_shim.vs
} // mod tfu
pub use self::tfu::{moved_nd, unserved_at, Formations};

// =====================================================================================================
// Tour::new (vocabulary of its contract, text as in env/tour_new_fns.vs)
// =====================================================================================================
/// C01 / C10 clause 1: what makes a node sequence a valid tour of a real vehicle
pub open spec fn valid_real_tour(net: &Network, s: Seq<NodeIdx>) -> bool {
    &&& s.len() >= 3
    &&& net.sp_node(s[0]) is StartDepot
    &&& net.sp_node(s[s.len() - 1]) is EndDepot
    &&& no_depot(net, s.subrange(1, s.len() - 1))
    &&& connected(net, s)
}

// =====================================================================================================
// Schedule::spawn_vehicle_for_path
// =====================================================================================================
/// how many nodes Schedule::add_suitable_start_and_end_depot_to_path puts in front of / behind a path
pub open spec fn lead(net: &Network, path: Seq<NodeIdx>) -> int { if net.sp_node(path[0]).sp_is_depot() { 0int } else { 1int } }
pub open spec fn trail(net: &Network, path: Seq<NodeIdx>) -> int { if net.sp_node(path[path.len() - 1]).sp_is_depot() { 0int } else { 1int } }
/// "If path does not start with a depot the vehicle is spawned from the nearest available depot … Similarly, if path
/// does not end with a depot …": `out` is the path with one node in front if the path does not start with a depot and
/// one node behind if it does not end with a depot; the path's nodes are all there, in order
pub open spec fn ends_added(net: &Network, path: Seq<NodeIdx>, out: Seq<NodeIdx>) -> bool {
    &&& out.len() == path.len() + lead(net, path) + trail(net, path)
    &&& forall|i: int| 0 <= i < path.len() ==> #[trigger] out[lead(net, path) + i] == path[i]
}
/// "If the depot given in the path is not available, spawn vehicle from overflow depot instead.": the path starts with
/// a depot and `out` is the path with its first node replaced and its last node replaced if that is a depot, too;
/// otherwise one node is put behind the path.  Every other node of the path is there, in order (D12: the unfixed
/// code overwrote the last node whatever it was)
pub open spec fn ends_replaced(net: &Network, path: Seq<NodeIdx>, out: Seq<NodeIdx>) -> bool {
    &&& net.sp_node(path[0]).sp_is_depot()
    &&& out.len() == path.len() + trail(net, path)
    &&& forall|i: int| 0 < i < path.len() - 1 + trail(net, path) ==> #[trigger] out[i] == path[i]
}
/// the result of Schedule::add_suitable_start_and_end_depot_to_path
pub open spec fn depots_added(net: &Network, path: Seq<NodeIdx>, out: Seq<NodeIdx>) -> bool {
    ends_added(net, path, out) || ends_replaced(net, path, out)
}
/// every activity of the path is a node of `out`
pub open spec fn activities_kept(net: &Network, path: Seq<NodeIdx>, out: Seq<NodeIdx>) -> bool {
    forall|i: int| 0 <= i < path.len() && net.sp_node(#[trigger] path[i]).sp_is_activity() ==> out.contains(path[i])
}
pub proof fn lemma_activities_kept(net: &Network, path: Seq<NodeIdx>, out: Seq<NodeIdx>)
    requires path.len() >= 1, depots_added(net, path, out),
    ensures activities_kept(net, path, out),
{
    assert forall|i: int| 0 <= i < path.len() && net.sp_node(#[trigger] path[i]).sp_is_activity() implies out.contains(path[i]) by {
        if ends_added(net, path, out) {
            assert(out[lead(net, path) + i] == path[i]);
        } else {
            assert(0 < i < path.len() - 1 + trail(net, path));
            assert(out[i] == path[i]);
        }
    }
}
/// instance validity (A-index: how Network::new fills the lists): the network's lists of start / end depot nodes and
/// the nodes of its overflow depot are nodes of the network
pub open spec fn depot_lists_ok(net: &Network) -> bool {
    &&& all_in_net(net, net.start_depot_nodes@)
    &&& all_in_net(net, net.end_depot_nodes@)
    &&& net.has(net.overflow_depot_idxs.1) && net.has(net.overflow_depot_idxs.2)
}
/// C01, type clause, for a list of nodes
pub open spec fn all_compatible(net: &Network, s: Seq<NodeIdx>, vt: VehicleTypeIdx) -> bool {
    forall|i: int| 0 <= i < s.len() ==> net.sp_compatible(#[trigger] s[i], vt)
}

// A-fmt (continued): `{:?}` of a Vec<NodeIdx> has no precondition (the Debug impl of NodeIdx is a no-op outside
// verus!; vstd leaves the requirement of Vec's Debug impl uninterpreted)
impl vstd::std_specs::fmt::DebugSpecImpl for NodeIdx {
    open spec fn fmt_req(&self, f: &std::fmt::Formatter<'_>) -> bool { true }
}
pub broadcast axiom fn axiom_vec_node_idx_debug(v: &Vec<NodeIdx>, f: &std::fmt::Formatter<'_>)
    ensures #[trigger] vstd::std_specs::fmt::DebugSpec::fmt_req(v, f);

/// `new` is `old` with `id` put in at some position (text as in env/remove_segment_shim.vs)
pub open spec fn ids_gain(old: Seq<VehicleIdx>, new: Seq<VehicleIdx>, id: VehicleIdx) -> bool {
    exists|p: int| 0 <= p <= old.len() && new == #[trigger] old.insert(p, id)
}

impl Schedule {
    /// the vehicle types of the schedule's network
    pub open spec fn vtypes(&self) -> Map<VehicleTypeIdx, Arc<VehicleType>> { self.network.vehicle_types.vehicle_types@ }
    /// the id the next new vehicle gets
    pub open spec fn next_vehicle_id(&self) -> VehicleIdx { VehicleIdx::Vehicle(self.vehicle_counter as Idx) }
    /// the sorted id list of a vehicle type
    pub open spec fn listing(&self, vt: VehicleTypeIdx) -> Seq<VehicleIdx> { self.vehicle_ids_grouped_and_sorted@[vt]@ }

    // ---- schedule validity as far as spawn_vehicle_for_path needs it (parts of C10 / C09) ------------------
    /// C10 ("listings … match"), for the vehicle type of the new vehicle: it is a vehicle type of the network
    /// (`vehicle_types.get(type_idx).unwrap()`), stored under its own index (A-index for vehicle types: how
    /// VehicleTypes::new keys the table), it is one of the listed types of the network (there is one transition per
    /// listed type) and the schedule has a sorted id list for it (`vehicle_ids_grouped_and_sorted[&vehicle_type_idx]`)
    pub open spec fn type_known(&self, vt: VehicleTypeIdx) -> bool {
        &&& self.vtypes().contains_key(vt)
        &&& self.vtypes()[vt].idx == vt
        &&& sched_types(self).contains(vt)
        &&& self.vehicle_ids_grouped_and_sorted@.contains_key(vt)
    }
    /// C10: ids.  Real vehicles are stored under their own id, an id of the `Vehicle` kind that was handed out
    /// already (index below the counter), and have a tour; dummy tours are stored under ids of the `Dummy` kind;
    /// "listings sorted": every type's id list is sorted
    pub open spec fn sv_ids_ok(&self) -> bool {
        &&& forall|v: VehicleIdx| #[trigger] self.vehicles@.contains_key(v) ==> v is Vehicle && (v->Vehicle_0 as int) < self.vehicle_counter && self.vehicles@[v].idx == v
        &&& forall|v: VehicleIdx| #[trigger] self.vehicles@.contains_key(v) <==> self.tours@.contains_key(v)
        &&& forall|d: VehicleIdx| #[trigger] self.dummy_tours@.contains_key(d) ==> d is Dummy
        &&& forall|vt: VehicleTypeIdx| #[trigger] self.vehicle_ids_grouped_and_sorted@.contains_key(vt) ==> sorted_cmp(self.listing(vt))
    }
    /// the old formation table's contribution of the first k nodes of s to the unserved passengers (component c)
    pub open spec fn un_old(&self, s: Seq<NodeIdx>, k: int, c: int) -> int {
        self.un_sum(self.train_formations@, None, None, s, k, false, c)
    }
    pub open spec fn unserved_c(&self, c: int) -> int { if c == 0 { self.unserved_passengers.0 as int } else { self.unserved_passengers.1 as int } }
    /// C10 / C09 for the formation table, as far as the bookkeeping of one additional vehicle needs it
    pub open spec fn sv_formations_ok(&self) -> bool {
        let tf = self.train_formations@;
        // C10: "each non-depot node is covered by exactly one train formation": every activity of the network has an
        // entry (`train_formations.get(&node).unwrap()`)
        &&& forall|n: NodeIdx| self.network.has(n) && self.network.sp_node(n).sp_is_activity() ==> #[trigger] tf.contains_key(n)
        // magnitude: a formation lists at most 2^17 vehicles (ids are 16 bit); `vehicle_count()` is a u32
        &&& forall|n: NodeIdx| #[trigger] tf.contains_key(n) ==> tf[n].formation@.len() <= max_vehicles()
        // instance validity (A-types): the vehicle type a service trip prescribes is a vehicle type of the network
        // (`maximal_formation_count_for`)
        &&& forall|n: NodeIdx| self.network.has(n) && #[trigger] self.network.sp_node(n) is Service ==> self.network.is_trip(n)
        // magnitude: the u32 capacity / seat sums of a formation still fit with one more vehicle of any type
        &&& forall|n: NodeIdx, vt: VehicleTypeIdx| #![trigger tf[n], self.vtypes()[vt]] tf.contains_key(n) && self.vtypes().contains_key(vt)
                ==> fcap(tf[n].formation@) + self.vtypes()[vt].capacity <= u32::MAX && fseats(tf[n].formation@) + self.vtypes()[vt].seats <= u32::MAX
        // C09: "cached aggregates equal recomputation": the unserved-passengers pair is the sum over ALL service trips
        // of the network of their unserved passengers; hence it covers the contribution of any duplicate-free list
        // of nodes (the u32 subtraction `unserved.c -= before.c`)
        &&& forall|s: Seq<NodeIdx>, c: int| #![trigger self.un_old(s, s.len() as int, c)] s.no_duplicates() && all_in_net(&self.network, s) && (c == 0 || c == 1)
                ==> self.un_old(s, s.len() as int, c) <= self.unserved_c(c)
    }
    /// C15 / C10 / C09 for the rotation cycles: one transition per vehicle type of the network, consistent with
    /// the tours, holding exactly the vehicles of its type; the maintenance violation is their sum (these
    /// are the clauses of `upd_pre`, env/sched_guard_shim.vs, that speak about the old schedule only; text as in
    /// env/remove_segment_shim.vs)
    pub open spec fn transitions_ok(&self) -> bool {
        let trs = self.next_period_transitions@;
        let vts = sched_types(self);
        &&& vts.no_duplicates()
        &&& forall|vt: VehicleTypeIdx| #[trigger] trs.contains_key(vt) <==> vts.contains(vt)
        &&& forall|vt: VehicleTypeIdx| #[trigger] trs.contains_key(vt) ==> trs[vt].wf(&self.network, self.tours@)
        &&& forall|vt: VehicleTypeIdx, v: VehicleIdx| #![trigger trs[vt].has_vehicle(v)] trs.contains_key(vt)
                ==> (trs[vt].has_vehicle(v) <==> self.vehicles@.contains_key(v) && self.type_of(v) == vt)
        &&& self.maintenance_violation as int == viol_sum(trs, vts)
        // magnitude: fewer than 2^17 vehicles (ids are 16 bit)
        &&& len_sum(trs, vts) < max_vehicles()
    }
    /// schedule-level validity as far as spawn_vehicle_for_path needs it (parts of C10, C09, C15)
    pub open spec fn sv_ok(&self) -> bool {
        // instance validity (Network::wf; A-index: the depot node lists hold nodes of the network)
        &&& self.network.wf()
        &&& depot_lists_ok(&self.network)
        &&& self.sv_ids_ok()
        &&& self.sv_formations_ok()
        &&& self.transitions_ok()
        // C09: the depot usage table has its from-scratch value
        &&& usage_exact(self.depot_usage@, &self.network, self.vehicles@, self.tours@)
        // C09 / magnitude: the schedule's cost figure is below 2^61 (`costs += tour.costs()` in u64)
        &&& self.costs <= sched_cost_bound()
    }
    /// A-counter (magnitude): the maintenance counter of whatever tour the path becomes is small (the counter is an
    /// uninterpreted atom of the rotation-cycle vocabulary, env/transition_spec.vs)
    pub open spec fn spawn_counter_ok(&self, path: Seq<NodeIdx>) -> bool {
        forall|t: Tour| depots_added(&self.network, path, t.nodes@) && tour_of_net(&self.network, &t) && t.caches_ok()
            ==> -counter_bound() <= #[trigger] tour_counter(&t) <= counter_bound()
    }

    // ---- the documented effect, clause by clause ------------------------------------------------------------
    /// C13: exactly one new vehicle of the given type under the next (fresh) id with a tour made of the given path;
    /// everything else about vehicles, tours, dummy tours and ids is untouched
    pub open spec fn spawned(&self, vt: VehicleTypeIdx, path: Seq<NodeIdx>, s1: &Schedule, id: VehicleIdx) -> bool {
        &&& id == self.next_vehicle_id()
        // the id is fresh
        &&& !self.vehicles@.contains_key(id) && !self.tours@.contains_key(id) && !self.dummy_tours@.contains_key(id)
        // one more vehicle, of the given type, stored under its id
        &&& s1.vehicles@.contains_key(id) && s1.vehicles@ == self.vehicles@.insert(id, s1.vehicles@[id])
        &&& s1.vehicles@[id].idx == id && s1.vehicles@[id].vehicle_type == self.vtypes()[vt] && vtype(s1.vehicles@[id]) == vt
        // one more tour: the given nodes in order, with depots at the ends; a valid real tour with exact caches
        &&& s1.tours@.contains_key(id) && s1.tours@ == self.tours@.insert(id, s1.tours@[id])
        &&& depots_added(&self.network, path, s1.tours@[id].nodes@)
        &&& tour_of_net(&self.network, &s1.tours@[id]) && s1.tours@[id].caches_ok()
        // dummy tours, their listing and the network are untouched; one id was handed out
        &&& s1.dummy_tours@ == self.dummy_tours@ && s1.dummy_ids_sorted@ == self.dummy_ids_sorted@ && s1.network == self.network
        &&& s1.vehicle_counter == self.vehicle_counter + 1
    }
    /// C13 / C10 ("listings sorted"): the id list of the type gains exactly the new id and stays sorted; the lists
    /// of the other types are untouched
    pub open spec fn listed(&self, vt: VehicleTypeIdx, s1: &Schedule, id: VehicleIdx) -> bool {
        &&& s1.vehicle_ids_grouped_and_sorted@.contains_key(vt)
        &&& s1.vehicle_ids_grouped_and_sorted@ == self.vehicle_ids_grouped_and_sorted@.insert(vt, s1.vehicle_ids_grouped_and_sorted@[vt])
        &&& ids_gain(self.listing(vt), s1.listing(vt), id)
        &&& sorted_cmp(s1.listing(vt))
    }
    /// C13 / C02 / C09: the formation table and the unserved passengers are what update_train_formation(None,
    /// Some(new vehicle), nodes of the new tour) makes of them (its postcondition, slices/train_formation_update.vs):
    /// formations elsewhere untouched, the new vehicle at the tail of the formation of every activity of its tour,
    /// within the limits, the unserved-passengers pair changes by exactly the difference of the contributions
    pub open spec fn formations_follow(&self, s1: &Schedule, id: VehicleIdx) -> bool {
        let nodes = s1.tours@[id].nodes@;
        let tf0 = self.train_formations@;
        let tf1 = s1.train_formations@;
        let rv = Some(s1.vehicles@[id]);
        &&& self.formations_elsewhere_untouched(nodes, tf0, tf1)
        &&& self.moved_get_replacement(nodes, tf0, tf1, None, rv)
        &&& self.grown_within_limits(nodes, tf1, None, rv)
        &&& s1.unserved_passengers.0 == self.unserved_passengers.0
                - self.un_sum(tf0, None, rv, nodes, nodes.len() as int, false, 0) + self.un_sum(tf0, None, rv, nodes, nodes.len() as int, true, 0)
        &&& s1.unserved_passengers.1 == self.unserved_passengers.1
                - self.un_sum(tf0, None, rv, nodes, nodes.len() as int, false, 1) + self.un_sum(tf0, None, rv, nodes, nodes.len() as int, true, 1)
    }
    /// C15 / C10 / C09: the rotation cycles follow the new tours (the postcondition of
    /// update_transitions_and_violation_fast, slices/sched_guard.vs); the other vehicle types are untouched
    pub open spec fn transitions_follow(&self, vt: VehicleTypeIdx, s1: &Schedule) -> bool {
        let trs1 = s1.next_period_transitions@;
        &&& forall|t: VehicleTypeIdx| self.next_period_transitions@.contains_key(t) <==> #[trigger] trs1.contains_key(t)
        &&& forall|t: VehicleTypeIdx| #[trigger] trs1.contains_key(t) ==> trs1[t].wf(&self.network, s1.tours@)
        &&& forall|t: VehicleTypeIdx, u: VehicleIdx| #![trigger trs1[t].has_vehicle(u)] trs1.contains_key(t)
                ==> (trs1[t].has_vehicle(u) <==> (s1.vehicles@.contains_key(u) && vtype(s1.vehicles@[u]) == t))
        &&& s1.maintenance_violation as int == viol_sum(trs1, sched_types(self))
        &&& forall|t: VehicleTypeIdx| #[trigger] trs1.contains_key(t) && t != vt ==> trs1[t] == self.next_period_transitions@[t]
    }
}

// ---- lemmas ---------------------------------------------------------------------------------------------
/// every inner node of the result of add_suitable_start_and_end_depot_to_path is a node of the path
pub proof fn lemma_inner_from_path(net: &Network, path: Seq<NodeIdx>, out: Seq<NodeIdx>, j: int)
    requires path.len() >= 1, depots_added(net, path, out), 0 < j < out.len() - 1,
    ensures exists|i: int| 0 <= i < path.len() && out[j] == #[trigger] path[i],
{
    if ends_added(net, path, out) {
        let i = j - lead(net, path);
        assert(out[lead(net, path) + i] == path[i]);
    } else {
        assert(out[j] == path[j]);
    }
}
/// C01, type clause: a valid real tour made of a path whose nodes are all compatible with a type is compatible
/// with that type (the depots at its ends are no service trips)
pub proof fn lemma_tour_compatible(net: &Network, path: Seq<NodeIdx>, t: &Tour, vt: VehicleTypeIdx)
    requires path.len() >= 1, depots_added(net, path, t.nodes@), tour_of_net(net, t), all_compatible(net, path, vt),
    ensures all_compatible(net, t.nodes@, vt),
{
    assert forall|j: int| 0 <= j < t.nodes@.len() implies net.sp_compatible(#[trigger] t.nodes@[j], vt) by {
        lemma_tour_kinds(t, j);
        if 0 < j < t.nodes@.len() - 1 {
            lemma_inner_from_path(net, path, t.nodes@, j);
            let i = choose|i: int| 0 <= i < path.len() && t.nodes@[j] == #[trigger] path[i];
            assert(net.sp_compatible(path[i], vt));
        }
    }
}
/// the next vehicle id is fresh
pub proof fn lemma_fresh_id(s: &Schedule)
    requires s.sv_ids_ok(), s.vehicle_counter <= 0xffff,
    ensures
        !s.vehicles@.contains_key(s.next_vehicle_id()), !s.tours@.contains_key(s.next_vehicle_id()),
        !s.dummy_tours@.contains_key(s.next_vehicle_id()),
{
    let id = s.next_vehicle_id();
    if s.vehicles@.contains_key(id) { assert((id->Vehicle_0 as int) < s.vehicle_counter); }
    if s.dummy_tours@.contains_key(id) { assert(id is Dummy); }
}

// ---- formations: the precondition of update_train_formation for one additional vehicle -------------------
pub proof fn lemma_fcap_push(f: Seq<Vehicle>, v: Vehicle)
    ensures fcap(f.push(v)) == fcap(f) + v.vehicle_type.capacity, fseats(f.push(v)) == fseats(f) + v.vehicle_type.seats,
{
    let gc = |v: Vehicle| v.vehicle_type.capacity as int;
    let gs = |v: Vehicle| v.vehicle_type.seats as int;
    assert(f.push(v).map_values(gc).drop_last() =~= f.map_values(gc));
    assert(f.push(v).map_values(gs).drop_last() =~= f.map_values(gs));
}
/// the contribution of the old formations does not depend on who moves
pub proof fn lemma_un_old(s: &Schedule, tf0: Formations, provider: Option<VehicleIdx>, receiver: Option<Vehicle>, moved: Seq<NodeIdx>, k: int, c: int)
    ensures s.un_sum(tf0, provider, receiver, moved, k, false, c) == s.un_sum(tf0, None, None, moved, k, false, c),
    decreases k,
{
    if k > 0 { lemma_un_old(s, tf0, provider, receiver, moved, k - 1, c); }
}
/// an additional vehicle does not increase the unserved passengers
pub proof fn lemma_un_new_le_old(s: &Schedule, tf0: Formations, rv: Vehicle, moved: Seq<NodeIdx>, k: int, c: int)
    requires s.grows(None, Some(rv)),
    ensures s.un_sum(tf0, None, Some(rv), moved, k, true, c) <= s.un_sum(tf0, None, Some(rv), moved, k, false, c),
    decreases k,
{
    if k > 0 {
        lemma_un_new_le_old(s, tf0, rv, moved, k - 1, c);
        lemma_fcap_push(tf0[moved[k - 1]].formation@, rv);
    }
}
/// what update_train_formation needs when a new vehicle `vh` of type vt is added to the formations of the nodes
/// of a valid real tour t
pub proof fn lemma_tfu_pre(s: &Schedule, vt: VehicleTypeIdx, vh: Vehicle, t: &Tour)
    requires
        s.sv_formations_ok(), s.type_known(vt), !s.dummy_tours@.contains_key(vh.idx), vh.vehicle_type == s.vtypes()[vt],
        tour_of_net(&s.network, t),
    ensures
        s.grows(None, Some(vh)),
        s.tfu_pre(s.train_formations@, s.unserved_passengers, None, Some(vh), t.nodes@),
{
    let tf0 = s.train_formations@;
    let rv = Some(vh);
    let pv: Option<VehicleIdx> = None;
    let moved = t.nodes@;
    let net = &s.network;
    assert(s.grows(pv, rv));
    assert forall|i: int| 0 <= i < moved.len() implies s.node_pre(tf0, pv, rv, #[trigger] moved[i]) by {
        let n = moved[i];
        lemma_tour_kinds(t, i);
        assert(net.has(n));
        if !net.sp_node(n).sp_is_depot() {
            assert(net.sp_node(n).sp_is_activity());
            assert(tf0.contains_key(n));
            let f = tf0[n].formation@;
            assert(f.len() <= max_vehicles());
            if net.sp_node(n) is Service { assert(net.is_trip(n)); }
            assert(fcap(tf0[n].formation@) + s.vtypes()[vt].capacity <= u32::MAX && fseats(tf0[n].formation@) + s.vtypes()[vt].seats <= u32::MAX);
            lemma_fcap_push(f, vh);
            assert(s.repl_seq(f, pv, rv) == f.push(vh));
        }
    }
    assert(moved.no_duplicates()) by {
        assert forall|i: int, j: int| 0 <= i < moved.len() && 0 <= j < moved.len() && i != j implies moved[i] != moved[j] by {
            if moved[i] == moved[j] { lemma_tour_distinct(t, i, j); }
        }
    }
    assert(all_in_net(net, moved)) by {
        assert forall|i: int| 0 <= i < moved.len() implies #[trigger] net.has(moved[i]) by { lemma_tour_kinds(t, i); }
    }
    let n = moved.len() as int;
    assert forall|c: int, k: int| (c == 0 || c == 1) && 0 <= k < n implies #[trigger] s.arith_ok_at(tf0, pv, rv, moved, s.unserved_c(c), k, c) by {
        // what is subtracted so far is covered by the cached value (C09) ...
        tfu::lemma_un_sum_mono(s, tf0, pv, rv, moved, k + 1, n, false, c);
        lemma_un_old(s, tf0, pv, rv, moved, n, c);
        assert(s.un_old(moved, moved.len() as int, c) <= s.unserved_c(c));
        tfu::lemma_un_sum_mono(s, tf0, pv, rv, moved, 0, k, true, c);
        // ... and what is added is at most what was subtracted (an additional vehicle only adds capacity)
        lemma_un_new_le_old(s, tf0, vh, moved, k + 1, c);
    }
    assert forall|k: int| 0 <= k < n implies #[trigger] s.arith_ok_at(tf0, pv, rv, moved, s.unserved_passengers.0 as int, k, 0) by {
        assert(s.arith_ok_at(tf0, pv, rv, moved, s.unserved_c(0), k, 0));
    }
    assert forall|k: int| 0 <= k < n implies #[trigger] s.arith_ok_at(tf0, pv, rv, moved, s.unserved_passengers.1 as int, k, 1) by {
        assert(s.arith_ok_at(tf0, pv, rv, moved, s.unserved_c(1), k, 1));
    }
}

// ---- rotation cycles: the precondition of update_transitions_and_violation_fast for one new vehicle --------
pub proof fn lemma_upd_pre_new(s: &Schedule, vt: VehicleTypeIdx, id: VehicleIdx, vh: Vehicle, nt: Tour, vehicles1: VehicleMap, tours1: TourMap)
    requires
        s.transitions_ok(), s.sv_ids_ok(), s.type_known(vt),
        id is Vehicle, !s.vehicles@.contains_key(id),
        vtype(vh) == vt,
        vehicles1 == s.vehicles@.insert(id, vh),
        tours1 == s.tours@.insert(id, nt),
        tour_ok(&s.network, &nt),
    ensures
        // for `vec![id]`, whatever sequence of one item its view is
        forall|cv: Seq<VehicleIdx>| cv.len() == 1 && cv[0] == id
            ==> #[trigger] s.upd_pre(s.next_period_transitions@, s.maintenance_violation as int, cv, vehicles1, tours1),
        forall|cv: Seq<VehicleIdx>, t: VehicleTypeIdx| cv.len() == 1 && cv[0] == id && t != vt
            ==> !#[trigger] s.touches_type(vehicles1, cv, t),
{
    let trs = s.next_period_transitions@;
    assert forall|cv: Seq<VehicleIdx>| cv.len() == 1 && cv[0] == id
        implies #[trigger] s.upd_pre(trs, s.maintenance_violation as int, cv, vehicles1, tours1) by {
        assert(cv =~= seq![id]);
        assert(s.eff_type(vehicles1, id) == vt);
        assert(trs.contains_key(vt));
        assert(s.change_ok(trs, vehicles1, tours1, id));
        assert forall|i: int| 0 <= i < cv.len() && (#[trigger] cv[i]) is Vehicle implies s.change_ok(trs, vehicles1, tours1, cv[i]) by {
            assert(cv[i] == id);
        }
        assert(real_in(cv, id)) by { assert(cv[0] == id); }
        assert forall|u: VehicleIdx| !real_in(cv, u) implies (s.vehicles@.contains_key(u) <==> #[trigger] vehicles1.contains_key(u)) by {}
        assert forall|u: VehicleIdx| !real_in(cv, u) && #[trigger] vehicles1.contains_key(u) implies tours1.contains_key(u) && tours1[u] == s.tours@[u] by {
            assert(s.vehicles@.contains_key(u));
            assert(s.tours@.contains_key(u));
        }
    }
    assert forall|cv: Seq<VehicleIdx>, t: VehicleTypeIdx| cv.len() == 1 && cv[0] == id && t != vt
        implies !#[trigger] s.touches_type(vehicles1, cv, t) by {
        if s.touches_type(vehicles1, cv, t) {
            let i = choose|i: int| 0 <= i < cv.len() && (#[trigger] cv[i]) is Vehicle && s.eff_type(vehicles1, cv[i]) == t;
            assert(cv[i] == id);
        }
    }
}

// ---- C10 "listings … match": every type's id list holds exactly the vehicles of the type ----------------------
pub open spec fn listings_match_of(lists: Map<VehicleTypeIdx, Vec<VehicleIdx>>, vehicles: VehicleMap) -> bool {
    forall|vt: VehicleTypeIdx, v: VehicleIdx| #![trigger lists[vt]@.contains(v)] lists.contains_key(vt)
        ==> (lists[vt]@.contains(v) <==> vehicles.contains_key(v) && vtype(vehicles[v]) == vt)
}
impl Schedule {
    pub open spec fn listings_match(&self) -> bool { listings_match_of(self.vehicle_ids_grouped_and_sorted@, self.vehicles@) }
}
pub proof fn lemma_insert_contains<T>(s: Seq<T>, p: int, x: T, y: T)
    requires 0 <= p <= s.len(),
    ensures s.insert(p, x).contains(y) <==> (s.contains(y) || y == x),
{
    let t = s.insert(p, x);
    if t.contains(y) {
        let i = choose|i: int| 0 <= i < t.len() && t[i] == y;
        if i < p { assert(s[i] == y); } else if i > p { assert(s[i - 1] == y); }
    }
    if s.contains(y) {
        let i = choose|i: int| 0 <= i < s.len() && s[i] == y;
        if i < p { assert(t[i] == y); } else { assert(t[i + 1] == y); }
    }
    if y == x { assert(t[p] == y); }
}
/// the listings still match after the new vehicle was stored and listed
pub proof fn lemma_listings_match(lists0: Map<VehicleTypeIdx, Vec<VehicleIdx>>, vehicles0: VehicleMap, lists1: Map<VehicleTypeIdx, Vec<VehicleIdx>>, vehicles1: VehicleMap,
        vt: VehicleTypeIdx, id: VehicleIdx, vh: Vehicle, p: int)
    requires
        listings_match_of(lists0, vehicles0), lists0.contains_key(vt), !vehicles0.contains_key(id), vtype(vh) == vt,
        vehicles1 == vehicles0.insert(id, vh),
        lists1.contains_key(vt), lists1 == lists0.insert(vt, lists1[vt]),
        0 <= p <= lists0[vt]@.len(), lists1[vt]@ == lists0[vt]@.insert(p, id),
    ensures listings_match_of(lists1, vehicles1),
{
    assert forall|t: VehicleTypeIdx, v: VehicleIdx| #![trigger lists1[t]@.contains(v)] lists1.contains_key(t)
        implies (lists1[t]@.contains(v) <==> vehicles1.contains_key(v) && vtype(vehicles1[v]) == t) by {
        if t == vt {
            lemma_insert_contains(lists0[vt]@, p, id, v);
            assert(lists0[vt]@.contains(v) <==> vehicles0.contains_key(v) && vtype(vehicles0[v]) == vt);
        } else {
            assert(lists0.contains_key(t));
            assert(lists0[t]@.contains(v) <==> vehicles0.contains_key(v) && vtype(vehicles0[v]) == t);
        }
    }
}

// =====================================================================================================
// the choice of a depot: vocabulary of the contracts of Schedule::find_best_start_depot_for_spawning /
// find_best_end_depot_for_despawning and of the clauses spawn_vehicle_for_path got from them (C02 / C06 / C13).  TEXT COPIED
// from env/depot_choice_shim.vs (slice depot_choice verifies the two functions against it), which cannot be included next
// to this file: it declares UsageMap, sp_spawned, sp_despawned, usage_same_except, Display of VehicleTypeIdx again and
// expects env/admission_shim.vs' im_set.  It sits HERE because every slice that stubs spawn_vehicle_for_path with its full
// contract (dummy_ops, sched_ctor) includes this file; env/add_path_shim.vs (included AFTER this file by slices/add_path.vs)
// used to hold a copy of the first part (Depot::sp_capacity_for .. spawned_total) and now uses these definitions.
// No assumption: open spec functions and proved lemmas.
// =====================================================================================================
// ---- depot admission vocabulary (C02); in env/depot_choice_shim.vs copied from slices/admission.vs ----------------
impl Depot {
    /// C02: the number of vehicles of a type that may start at a depot: 0 if the type is not listed,
    /// the depot's total capacity if it is listed without a limit, the smaller of both otherwise
    pub open spec fn sp_capacity_for(&self, vt: VehicleTypeIdx) -> VehicleCount {
        if !self.allowed_types@.contains_key(vt) { 0 }
        else {
            match self.allowed_types@[vt] {
                Some(c) => if c <= self.total_capacity { c } else { self.total_capacity },
                None => self.total_capacity,
            }
        }
    }
}
impl Network {
    pub open spec fn has_depot(&self, d: DepotIdx) -> bool { self.depots@.contains_key(d) }
    pub open spec fn sp_depot(&self, d: DepotIdx) -> Depot { self.depots@[d].0 }
    /// the depot a start / end depot node belongs to (the free function sp_depot_idx_of(net, n) of
    /// env/spawn_vehicle_shim.vs has the same body)
    pub open spec fn sp_depot_idx_of(&self, n: NodeIdx) -> DepotIdx {
        match self.sp_node(n) {
            Node::StartDepot((_, d)) => d.depot_idx,
            Node::EndDepot((_, d)) => d.depot_idx,
            _ => arbitrary(),
        }
    }
}
/// C02: "the number of vehicles [of a type] starting there"
pub open spec fn spawned_of_type(du: UsageMap, d: DepotIdx, vt: VehicleTypeIdx) -> nat {
    if du.contains_key((d, vt)) { du[(d, vt)].0@.len() } else { 0 }
}
pub open spec fn spawned_counts(du: UsageMap, d: DepotIdx, types: Seq<VehicleTypeIdx>) -> Seq<int> {
    types.map_values(|vt: VehicleTypeIdx| spawned_of_type(du, d, vt) as int)
}
/// C02: "the number of vehicles starting there": the total over the given vehicle types
pub open spec fn spawned_total(du: UsageMap, d: DepotIdx, types: Seq<VehicleTypeIdx>) -> int {
    isum(spawned_counts(du, d, types))
}
// ---- the choice of a depot (env/depot_choice_shim.vs) -------------------------------------------------------------
/// "at most as far as"
pub open spec fn dist_le(a: Distance, b: Distance) -> bool { denc(a) <= denc(b) }
impl Network {
    /// the sort key of Network::start_depots_sorted_by_distance_to: the dead-head distance FROM the node d (its start
    /// location; for a depot node: the depot's location) TO the given location
    pub open spec fn dist_to(&self, d: NodeIdx, location: Location) -> Distance {
        self.locations.sp_distance(self.sp_node(d).sp_start_location(), location)
    }
    /// the sort key of Network::end_depots_sorted_by_distance_from: the dead-head distance FROM the given location TO
    /// the node d (the code reads its START location; for a depot node start and end location are the depot's location)
    pub open spec fn dist_from(&self, location: Location, d: NodeIdx) -> Distance {
        self.locations.sp_distance(location, self.sp_node(d).sp_start_location())
    }
    /// instance validity (A-index: how Network::new fills the list): the start depot node list holds StartDepot nodes
    /// of the network whose depot is a depot of the network's depot table
    pub open spec fn start_depots_ok(&self) -> bool {
        forall|i: int| 0 <= i < self.start_depot_nodes@.len() ==> self.has(#[trigger] self.start_depot_nodes@[i])
            && self.sp_node(self.start_depot_nodes@[i]) is StartDepot
            && self.has_depot(self.sp_depot_idx_of(self.start_depot_nodes@[i]))
    }
}
/// x occurs in `list` before some occurrence of y
pub open spec fn listed_before(list: Seq<NodeIdx>, x: NodeIdx, y: NodeIdx) -> bool {
    exists|a: int, b: int| #![trigger list[a], list[b]] 0 <= a < b < list.len() && list[a] == x && list[b] == y
}
impl Network {
    /// the nearest end depot node (ties: the one listed first)
    pub open spec fn nearest_end_depot(&self, r: NodeIdx, location: Location) -> bool {
        &&& self.end_depot_nodes@.contains(r)
        &&& forall|d: NodeIdx| #[trigger] self.end_depot_nodes@.contains(d) ==> dist_le(self.dist_from(location, r), self.dist_from(location, d))
        &&& forall|d: NodeIdx| #[trigger] self.end_depot_nodes@.contains(d) && d != r && self.dist_from(location, d) == self.dist_from(location, r)
                ==> listed_before(self.end_depot_nodes@, r, d)
    }
}
impl Schedule {
    /// C02 "no more vehicles start at a depot than its total and per-type capacity": the depot of the start depot node n
    /// lists the type and has room for one more vehicle of it, per type and in total, w.r.t. the usage table du.  This is
    /// (verbatim) the value Schedule::can_depot_spawn_vehicle_custom_usage is verified to return (slices/admission.vs)
    pub open spec fn sp_can_spawn(&self, n: NodeIdx, vehicle_type: VehicleTypeIdx, du: UsageMap) -> bool {
        let d = self.network.sp_depot_idx_of(n);
        &&& self.network.sp_depot(d).sp_capacity_for(vehicle_type) > 0
        &&& spawned_of_type(du, d, vehicle_type) < self.network.sp_depot(d).sp_capacity_for(vehicle_type)
        &&& spawned_total(du, d, self.network.vehicle_types.ids_sorted@) < self.network.sp_depot(d).total_capacity
    }
    /// magnitude (`as VehicleCount` of a set size / the u32 sum over the types): the counts of the table fit u32 for the
    /// depots of the network's start depot nodes (vehicle ids are 16 bit: a set has at most 2^17 members)
    pub open spec fn usage_counts_small(&self, vehicle_type: VehicleTypeIdx, du: UsageMap) -> bool {
        forall|i: int| 0 <= i < self.network.start_depot_nodes@.len() ==> {
            let d = self.network.sp_depot_idx_of(#[trigger] self.network.start_depot_nodes@[i]);
            &&& spawned_of_type(du, d, vehicle_type) <= u32::MAX
            &&& spawned_total(du, d, self.network.vehicle_types.ids_sorted@) <= u32::MAX
        }
    }
    /// C06: some start depot node of the network can spawn a vehicle of the type w.r.t. the table
    pub open spec fn some_depot_has_room(&self, vehicle_type: VehicleTypeIdx, du: UsageMap) -> bool {
        exists|i: int| 0 <= i < self.network.start_depot_nodes@.len() && self.sp_can_spawn(#[trigger] self.network.start_depot_nodes@[i], vehicle_type, du)
    }
    /// the nearest start depot node with room for one more vehicle of the type w.r.t. the table (ties: the one listed first)
    pub open spec fn best_start_depot(&self, r: NodeIdx, vehicle_type: VehicleTypeIdx, location: Location, du: UsageMap) -> bool {
        let sdn = self.network.start_depot_nodes@;
        &&& sdn.contains(r)
        &&& self.sp_can_spawn(r, vehicle_type, du)
        &&& forall|d: NodeIdx| sdn.contains(d) && #[trigger] self.sp_can_spawn(d, vehicle_type, du)
                ==> dist_le(self.network.dist_to(r, location), self.network.dist_to(d, location))
        &&& forall|d: NodeIdx| sdn.contains(d) && #[trigger] self.sp_can_spawn(d, vehicle_type, du) && d != r
                && self.network.dist_to(d, location) == self.network.dist_to(r, location) ==> listed_before(sdn, r, d)
    }
}
// ---- sums: a count is at most the total (in env/depot_choice_shim.vs copied from slices/admission.vs) ---------------
pub proof fn lemma_isum_bounds_lo(s: Seq<int>)
    requires forall|i: int| 0 <= i < s.len() ==> 0 <= #[trigger] s[i],
    ensures 0 <= isum(s),
    decreases s.len(),
{
    if s.len() > 0 {
        let t = s.drop_last();
        assert forall|i: int| 0 <= i < t.len() implies 0 <= #[trigger] t[i] by { assert(t[i] == s[i]); }
        lemma_isum_bounds_lo(t);
    }
}
pub proof fn lemma_isum_nonneg_le(s: Seq<int>, k: int)
    requires forall|i: int| 0 <= i < s.len() ==> 0 <= #[trigger] s[i], 0 <= k < s.len(),
    ensures 0 <= s[k] <= isum(s),
    decreases s.len(),
{
    let t = s.drop_last();
    assert forall|i: int| 0 <= i < t.len() implies 0 <= #[trigger] t[i] by { assert(t[i] == s[i]); }
    lemma_isum_bounds_lo(t);
    if k < t.len() {
        lemma_isum_nonneg_le(t, k);
        assert(t[k] == s[k]);
    }
}
// ---- C06: how a caller meets some_depot_has_room -- "at least the overflow depot" (text of slices/depot_choice.vs) ------
/// A start depot node n of the network whose depot lists the type WITHOUT a per-type limit (the overflow depot lists every type
/// of the network so: slices/network_new.vs, C17.overflow_depot.no_per_type_limit_for_any_type) can spawn a vehicle of the type
/// as long as fewer vehicles start there in total than its total capacity -- then `expect` cannot panic.
pub proof fn lemma_depot_without_type_limit_suffices(s: &Schedule, n: NodeIdx, vehicle_type: VehicleTypeIdx, du: UsageMap)
    requires
        s.network.start_depot_nodes@.contains(n),
        // the type is one of the network's types (the total is the sum over them)
        s.network.vehicle_types.ids_sorted@.contains(vehicle_type),
        ({
            let d = s.network.sp_depot_idx_of(n);
            let dep = s.network.sp_depot(d);
            &&& dep.allowed_types@.contains_key(vehicle_type) && dep.allowed_types@[vehicle_type] is None
            &&& spawned_total(du, d, s.network.vehicle_types.ids_sorted@) < dep.total_capacity
        }),
    ensures
        s.sp_can_spawn(n, vehicle_type, du),
        s.some_depot_has_room(vehicle_type, du), // @obl C06.spawn_vehicle.a_depot_without_type_limit_and_room_in_total_suffices
{
    let d = s.network.sp_depot_idx_of(n);
    let types = s.network.vehicle_types.ids_sorted@;
    let c = spawned_counts(du, d, types);
    let k = choose|k: int| 0 <= k < types.len() && types[k] == vehicle_type;
    lemma_isum_nonneg_le(c, k);
    assert(c[k] == spawned_of_type(du, d, vehicle_type));
    let sdn = s.network.start_depot_nodes@;
    let i = choose|i: int| 0 <= i < sdn.len() && sdn[i] == n;
    assert(s.sp_can_spawn(sdn[i], vehicle_type, du));
}
// ---- C02: the depot limits still hold after the vehicle was booked at the chosen depot (text of slices/depot_choice.vs; the
// parameter `can` with the copied postcondition of can_depot_spawn_vehicle_custom_usage is replaced by what sp_can_spawn
// says itself, and the conclusion is named depot_limits_hold) ---------------------------------------------------------
impl Schedule {
    /// C02 "for every real depot the number of vehicles starting there stays within the depot's total capacity and within the
    /// per-type capacity (types not listed for a depot never start there)", for the depot of the start depot node n and one
    /// type, w.r.t. the usage table du
    pub open spec fn depot_limits_hold(&self, n: NodeIdx, vehicle_type: VehicleTypeIdx, du: UsageMap) -> bool {
        let d = self.network.sp_depot_idx_of(n);
        let dep = self.network.sp_depot(d);
        // "within the per-type capacity (types not listed for a depot never start there)"
        &&& spawned_of_type(du, d, vehicle_type) <= dep.sp_capacity_for(vehicle_type)
        &&& dep.allowed_types@.contains_key(vehicle_type)
        &&& (dep.allowed_types@[vehicle_type] is Some ==> spawned_of_type(du, d, vehicle_type) <= dep.allowed_types@[vehicle_type].unwrap())
        // "within the depot's total capacity"
        &&& spawned_total(du, d, self.network.vehicle_types.ids_sorted@) <= dep.total_capacity
    }
}
/// if b exceeds a by at most 1 at no more than one position and nowhere else, the sum grows by at most 1
pub proof fn lemma_isum_one_more(a: Seq<int>, b: Seq<int>, k: int)
    requires
        a.len() == b.len(),
        forall|i: int| 0 <= i < a.len() && i != k ==> #[trigger] b[i] <= a[i],
        0 <= k < a.len() ==> b[k] <= a[k] + 1,
    ensures
        isum(b) <= isum(a) + (if 0 <= k < a.len() { 1int } else { 0int }),
    decreases a.len(),
{
    if a.len() > 0 {
        let n = a.len() - 1;
        let a0 = a.drop_last();
        let b0 = b.drop_last();
        assert forall|i: int| 0 <= i < a0.len() && i != k implies #[trigger] b0[i] <= a0[i] by { assert(b[i] <= a[i]); }
        lemma_isum_one_more(a0, b0, k);
        if k != n { assert(b[n] <= a[n]); }
    }
}
/// `n` = the start depot node find_best_start_depot_for_spawning(vt, _, du0) returned (it had room w.r.t. du0).  du1 = the table
/// after update_depot_usage booked the new vehicle v: its postcondition usage_same_except, and v starts at (depot of n, vt)
/// only.  Then, w.r.t. du1, the depot's per-type and total limits hold.
pub proof fn lemma_spawn_keeps_depot_limits(s: &Schedule, n: NodeIdx, vehicle_type: VehicleTypeIdx, du0: UsageMap, du1: UsageMap, v: VehicleIdx)
    requires
        // find_best_start_depot_for_spawning
        s.sp_can_spawn(n, vehicle_type, du0),
        // update_depot_usage: nobody else moves; v starts at the chosen depot with its type and nowhere else
        usage_same_except(du0, du1, v),
        forall|d: DepotIdx, vt: VehicleTypeIdx| (#[trigger] sp_spawned(du1, d, vt)).contains(v) <==> (d == s.network.sp_depot_idx_of(n) && vt == vehicle_type),
        // A-types: the network lists every vehicle type once
        s.network.vehicle_types.ids_sorted@.no_duplicates(),
    ensures
        s.depot_limits_hold(n, vehicle_type, du1), // @obl C02.spawn_vehicle.depot_limits_hold_after_the_spawn
{
    let d = s.network.sp_depot_idx_of(n);
    let types = s.network.vehicle_types.ids_sorted@;
    let a = spawned_counts(du0, d, types);
    let b = spawned_counts(du1, d, types);
    // per type: the set of the chosen (depot, type) gains v, the sets of the depot's other types gain nothing
    assert forall|vt: VehicleTypeIdx| spawned_of_type(du1, d, vt) <= #[trigger] spawned_of_type(du0, d, vt) + (if vt == vehicle_type { 1int } else { 0int }) by {
        let s0 = sp_spawned(du0, d, vt);
        let s1 = sp_spawned(du1, d, vt);
        assert(spawned_of_type(du0, d, vt) == s0.len() && spawned_of_type(du1, d, vt) == s1.len());
        if vt == vehicle_type {
            assert forall|u: VehicleIdx| s1.contains(u) implies #[trigger] s0.insert(v).contains(u) by {
                if u != v { assert(sp_spawned(du1, d, vt).contains(u) <==> sp_spawned(du0, d, vt).contains(u)); }
            }
            assert(s1.subset_of(s0.insert(v)));
            vstd::set_lib::lemma_len_subset(s1, s0.insert(v));
        } else {
            assert forall|u: VehicleIdx| s1.contains(u) implies #[trigger] s0.contains(u) by {
                assert(sp_spawned(du1, d, vt).contains(v) <==> (d == s.network.sp_depot_idx_of(n) && vt == vehicle_type));
                assert(u != v);
                assert(sp_spawned(du1, d, vt).contains(u) <==> sp_spawned(du0, d, vt).contains(u));
            }
            assert(s1.subset_of(s0));
            vstd::set_lib::lemma_len_subset(s1, s0);
        }
    }
    // in total: the type is listed at most once
    let k = if types.contains(vehicle_type) { choose|k: int| 0 <= k < types.len() && types[k] == vehicle_type } else { -1int };
    assert forall|i: int| 0 <= i < a.len() && i != k implies #[trigger] b[i] <= a[i] by {
        assert(types[i] != vehicle_type) by {
            if types[i] == vehicle_type { assert(types.contains(vehicle_type)); assert(types[k] == vehicle_type && i != k); }
        }
        assert(spawned_of_type(du1, d, types[i]) <= spawned_of_type(du0, d, types[i]) + 0);
    }
    if 0 <= k < a.len() {
        assert(spawned_of_type(du1, d, types[k]) <= spawned_of_type(du0, d, types[k]) + 1);
    }
    lemma_isum_one_more(a, b, k);
    assert(spawned_of_type(du1, d, vehicle_type) <= spawned_of_type(du0, d, vehicle_type) + 1);
}

// ---- C09 => magnitude / C06: an exact usage table counts real vehicles only.  How a caller of spawn_vehicle_for_path meets
// usage_counts_small (lemma_usage_counts_small: from sv_ids_ok + usage_exact + pairwise distinct vehicle types) and bounds the
// number of vehicles that start at a depot by the number of vehicles of the schedule (lemma_usage_counts_le_vehicles; with
// lemma_depot_without_type_limit_suffices the route to some_depot_has_room: slices/sched_ctor.vs) ------------------------------
/// the vehicles the table books as starting at depot d with one of the types ts
pub open spec fn spawned_union(du: UsageMap, d: DepotIdx, ts: Seq<VehicleTypeIdx>) -> Set<VehicleIdx>
    decreases ts.len(),
{
    if ts.len() == 0 { Set::empty() } else { spawned_union(du, d, ts.drop_last()).union(sp_spawned(du, d, ts.last())) }
}
/// if the table is exact (C09), the vehicles booked at a depot under pairwise distinct types are real vehicles, each booked under
/// its own type only: the total over the types is the size of their union, a subset of the schedule's vehicles
pub proof fn lemma_spawned_union(du: UsageMap, net: &Network, vehicles: VehicleMap, tours: TourMap, d: DepotIdx, ts: Seq<VehicleTypeIdx>)
    requires usage_exact(du, net, vehicles, tours), ts.no_duplicates(),
    ensures
        spawned_union(du, d, ts).subset_of(vehicles.dom()),
        spawned_union(du, d, ts).len() == spawned_total(du, d, ts),
        forall|v: VehicleIdx| #[trigger] spawned_union(du, d, ts).contains(v) ==> exists|j: int| 0 <= j < ts.len() && vehicles[v].vehicle_type.idx == #[trigger] ts[j],
    decreases ts.len(),
{
    if ts.len() > 0 {
        let t = ts.drop_last();
        let x = ts.last();
        assert(t.no_duplicates()) by {
            assert forall|i: int, j: int| 0 <= i < t.len() && 0 <= j < t.len() && i != j implies t[i] != t[j] by { assert(t[i] == ts[i] && t[j] == ts[j]); }
        }
        lemma_spawned_union(du, net, vehicles, tours, d, t);
        let a = spawned_union(du, d, t);
        let b = sp_spawned(du, d, x);
        assert forall|v: VehicleIdx| #[trigger] b.contains(v) implies vehicles.contains_key(v) && vehicles[v].vehicle_type.idx == x by {
            assert(usage_exact_for(du, net, vehicles, tours, v));
            assert(sp_spawned(du, d, x).contains(v) <==> starts_at(net, vehicles, tours, v, d, x));
        }
        assert(a.disjoint(b)) by {
            assert forall|v: VehicleIdx| #![auto] !(a.contains(v) && b.contains(v)) by {
                if a.contains(v) && b.contains(v) {
                    let j = choose|j: int| 0 <= j < t.len() && vehicles[v].vehicle_type.idx == #[trigger] t[j];
                    assert(ts[j] == t[j] && ts[ts.len() - 1] == x);
                }
            }
        }
        vstd::set_lib::lemma_set_disjoint_lens(a, b);
        assert(spawned_counts(du, d, ts).drop_last() =~= spawned_counts(du, d, t));
        assert(spawned_counts(du, d, ts).last() == spawned_of_type(du, d, x) as int);
        assert(spawned_of_type(du, d, x) == b.len());
        assert forall|v: VehicleIdx| #[trigger] spawned_union(du, d, ts).contains(v)
            implies exists|j: int| 0 <= j < ts.len() && vehicles[v].vehicle_type.idx == #[trigger] ts[j] by {
            if a.contains(v) {
                let j = choose|j: int| 0 <= j < t.len() && vehicles[v].vehicle_type.idx == #[trigger] t[j];
                assert(0 <= j < ts.len() && vehicles[v].vehicle_type.idx == ts[j]);
            } else {
                assert(b.contains(v));
                assert(0 <= ts.len() - 1 < ts.len() && vehicles[v].vehicle_type.idx == ts[ts.len() - 1]);
            }
        }
    } else {
        assert(spawned_counts(du, d, ts) =~= Seq::<int>::empty());
    }
}
/// C09 => counts: w.r.t. an exact table no more vehicles start at a depot -- of one type, and in total over the network's
/// (pairwise distinct) types -- than the schedule has vehicles
pub proof fn lemma_usage_counts_le_vehicles(s: &Schedule, d: DepotIdx, vehicle_type: VehicleTypeIdx)
    requires
        usage_exact(s.depot_usage@, &s.network, s.vehicles@, s.tours@),
        // A-types: the network lists every vehicle type once
        s.network.vehicle_types.ids_sorted@.no_duplicates(),
    ensures
        spawned_of_type(s.depot_usage@, d, vehicle_type) <= s.vehicles@.dom().len(),
        spawned_total(s.depot_usage@, d, s.network.vehicle_types.ids_sorted@) <= s.vehicles@.dom().len(),
{
    let du = s.depot_usage@;
    let types = s.network.vehicle_types.ids_sorted@;
    lemma_spawned_union(du, &s.network, s.vehicles@, s.tours@, d, types);
    vstd::set_lib::lemma_len_subset(spawned_union(du, d, types), s.vehicles@.dom());
    let b = sp_spawned(du, d, vehicle_type);
    assert forall|v: VehicleIdx| #[trigger] b.contains(v) implies s.vehicles@.dom().contains(v) by {
        assert(usage_exact_for(du, &s.network, s.vehicles@, s.tours@, v));
        assert(sp_spawned(du, d, vehicle_type).contains(v) <==> starts_at(&s.network, s.vehicles@, s.tours@, v, d, vehicle_type));
    }
    vstd::set_lib::lemma_len_subset(b, s.vehicles@.dom());
    assert(spawned_of_type(du, d, vehicle_type) == b.len());
}
/// the ids Vehicle(0) .. Vehicle(k - 1)
pub open spec fn vehicle_ids_below(k: int) -> Set<VehicleIdx>
    decreases k,
{
    if k <= 0 { Set::empty() } else { vehicle_ids_below(k - 1).insert(VehicleIdx::Vehicle((k - 1) as Idx)) }
}
pub proof fn lemma_vehicle_ids_below(k: int)
    requires 0 <= k <= 0x10000,
    ensures
        vehicle_ids_below(k).len() == k,
        forall|v: VehicleIdx| #[trigger] vehicle_ids_below(k).contains(v) <==> v is Vehicle && (v->Vehicle_0 as int) < k,
    decreases k,
{
    if k > 0 { lemma_vehicle_ids_below(k - 1); }
}
/// magnitude: vehicle ids are 16 bit -- a schedule whose real vehicles are stored under `Vehicle` ids has at most 2^16 of them
pub proof fn lemma_at_most_2_16_vehicles(s: &Schedule)
    requires s.sv_ids_ok(),
    ensures s.vehicles@.dom().len() <= 0x10000,
{
    lemma_vehicle_ids_below(0x10000);
    assert forall|v: VehicleIdx| #[trigger] s.vehicles@.dom().contains(v) implies vehicle_ids_below(0x10000).contains(v) by {
        assert(s.vehicles@.contains_key(v));
    }
    vstd::set_lib::lemma_len_subset(s.vehicles@.dom(), vehicle_ids_below(0x10000));
}
/// magnitude: usage_counts_small (precondition of spawn_vehicle_for_path) follows from schedule validity (C10 ids, C09 usage
/// table; both clauses of sv_ok) and A-types (clause of transitions_ok): the counts of the schedule's own table are at most 2^16
pub proof fn lemma_usage_counts_small(s: &Schedule, vehicle_type: VehicleTypeIdx)
    requires
        s.sv_ids_ok(),
        usage_exact(s.depot_usage@, &s.network, s.vehicles@, s.tours@),
        s.network.vehicle_types.ids_sorted@.no_duplicates(),
    ensures
        s.usage_counts_small(vehicle_type, s.depot_usage@),
{
    let du = s.depot_usage@;
    let sdn = s.network.start_depot_nodes@;
    lemma_at_most_2_16_vehicles(s);
    assert forall|i: int| 0 <= i < sdn.len() implies
        spawned_of_type(du, s.network.sp_depot_idx_of(#[trigger] sdn[i]), vehicle_type) <= u32::MAX
        && spawned_total(du, s.network.sp_depot_idx_of(sdn[i]), s.network.vehicle_types.ids_sorted@) <= u32::MAX by {
        lemma_usage_counts_le_vehicles(s, s.network.sp_depot_idx_of(sdn[i]), vehicle_type);
    }
}

// =====================================================================================================
// CLOSURE (C10 / C09 induction step): the result of spawn_vehicle_for_path satisfies the schedule-invariant bundle
// sv_ok() again.  Everything below is NEW vocabulary (prefix `spcl_`) and PROVED lemmas -- no assumption.  The clauses of
// sv_formations_ok are named one by one (spcl_forms_cover_activities .. spcl_unserved_covers; spcl_lemma_formations_split:
// sv_formations_ok is exactly their conjunction) so that the postcondition can be stated conjunct by conjunct.
// The sum lemmas (spcl_lemma_nsum_*, spcl_lemma_remove_no_dup) and the counting lemmas of the rotation cycles (spcl_cyc_elems ..
// spcl_lemma_len_sum_le_vehicles) are TEXT COPIED from env/sched_ctor_shim.vs (lemma_nsum_zero / _remove / _drop_last / _sub,
// lemma_remove_no_dup, cyc_elems .., lemma_len_sum_le_vehicles) under new names: that file is included AFTER this one by
// slices/sched_ctor.vs and must not be edited; spcl_lemma_ids is lemma_step_ids of that file.
// What is NOT copied: from_tours re-establishes the C09 clause of sv_formations_ok from a STRONGER loop invariant (the cached pair
// IS the from-scratch sum, lemma_step_unserved); here the clause is re-established from ITSELF (spcl_lemma_unserved_covers).
// =====================================================================================================
// ---- sums over node lists (copied) ------------------------------------------------------------------------------------------
pub proof fn spcl_lemma_nsum_zero(s: Seq<NodeIdx>, g: spec_fn(NodeIdx) -> int)
    requires forall|i: int| 0 <= i < s.len() ==> g(#[trigger] s[i]) == 0,
    ensures nsum(s, g) == 0,
{
    assert forall|i: int| 0 <= i < s.len() implies 0 <= #[trigger] g(s[i]) <= 0 by {}
    lemma_nsum_nonneg(s, g, 0);
}
pub proof fn spcl_lemma_nsum_remove(s: Seq<NodeIdx>, g: spec_fn(NodeIdx) -> int, p: int)
    requires 0 <= p < s.len(),
    ensures nsum(s, g) == nsum(s.remove(p), g) + g(s[p]),
{
    let a = s.subrange(0, p);
    let b = s.subrange(p + 1, s.len() as int);
    assert(s =~= a + seq![s[p]] + b);
    assert(s.remove(p) =~= a + b);
    lemma_nsum_append(a + seq![s[p]], b, g);
    lemma_nsum_append(a, seq![s[p]], g);
    lemma_nsum_append(a, b, g);
    assert(seq![s[p]].map_values(g) =~= seq![g(s[p])]);
    lemma_isum_one(g(s[p]));
}
pub proof fn spcl_lemma_remove_no_dup(s: Seq<NodeIdx>, p: int)
    requires 0 <= p < s.len(), s.no_duplicates(),
    ensures s.remove(p).no_duplicates(), !s.remove(p).contains(s[p]),
        forall|x: NodeIdx| x != s[p] && s.contains(x) ==> #[trigger] s.remove(p).contains(x),
        forall|i: int| 0 <= i < s.remove(p).len() ==> s.contains(#[trigger] s.remove(p)[i]),
{
    let t = s.remove(p);
    assert forall|i: int, j: int| 0 <= i < t.len() && 0 <= j < t.len() && i != j implies t[i] != t[j] by {
        let a = if i < p { i } else { i + 1 };
        let b = if j < p { j } else { j + 1 };
        assert(t[i] == s[a] && t[j] == s[b]);
    }
    if t.contains(s[p]) {
        let i = choose|i: int| 0 <= i < t.len() && t[i] == s[p];
        let a = if i < p { i } else { i + 1 };
        assert(t[i] == s[a]);
    }
    assert forall|x: NodeIdx| x != s[p] && s.contains(x) implies #[trigger] t.contains(x) by {
        let i = choose|i: int| 0 <= i < s.len() && s[i] == x;
        if i < p { assert(t[i] == x); } else { assert(t[i - 1] == x); }
    }
    assert forall|i: int| 0 <= i < t.len() implies s.contains(#[trigger] t[i]) by {
        let a = if i < p { i } else { i + 1 };
        assert(t[i] == s[a]);
    }
}
pub proof fn spcl_lemma_nsum_drop_last(a: Seq<NodeIdx>, g: spec_fn(NodeIdx) -> int)
    requires a.len() > 0,
    ensures nsum(a, g) == nsum(a.drop_last(), g) + g(a.last()),
{
    assert(a.map_values(g).drop_last() =~= a.drop_last().map_values(g));
}
/// a duplicate-free list s whose nodes with a non-zero (non-negative) weight all occur in the duplicate-free list a
/// weighs at most as much as a
pub proof fn spcl_lemma_nsum_sub(s: Seq<NodeIdx>, a: Seq<NodeIdx>, g: spec_fn(NodeIdx) -> int)
    requires
        s.no_duplicates(), a.no_duplicates(),
        forall|n: NodeIdx| 0 <= #[trigger] g(n),
        forall|i: int| 0 <= i < s.len() && g(#[trigger] s[i]) != 0 ==> a.contains(s[i]),
    ensures nsum(s, g) <= nsum(a, g),
    decreases a.len(),
{
    if a.len() == 0 {
        assert forall|i: int| 0 <= i < s.len() implies g(#[trigger] s[i]) == 0 by {
            if g(s[i]) != 0 { assert(a.contains(s[i])); }
        }
        spcl_lemma_nsum_zero(s, g);
        assert(a.map_values(g) =~= Seq::<int>::empty());
    } else {
        let x = a.last();
        let d = a.drop_last();
        spcl_lemma_nsum_drop_last(a, g);
        if s.contains(x) {
            let p = choose|p: int| 0 <= p < s.len() && s[p] == x;
            let t = s.remove(p);
            spcl_lemma_nsum_remove(s, g, p);
            spcl_lemma_remove_no_dup(s, p);
            assert forall|i: int| 0 <= i < t.len() && g(#[trigger] t[i]) != 0 implies d.contains(t[i]) by {
                assert(s.contains(t[i]));
                let j = choose|j: int| 0 <= j < s.len() && s[j] == t[i];
                assert(a.contains(s[j]));
                lemma_drop_last_contains(a);
            }
            lemma_drop_last_contains(a);
            spcl_lemma_nsum_sub(t, d, g);
        } else {
            assert forall|i: int| 0 <= i < s.len() && g(#[trigger] s[i]) != 0 implies d.contains(s[i]) by {
                assert(s.contains(s[i]));
                lemma_drop_last_contains(a);
            }
            lemma_drop_last_contains(a);
            spcl_lemma_nsum_sub(s, d, g);
        }
    }
}

// ---- the clauses of sv_formations_ok, one by one ---------------------------------------------------------------------------
impl Schedule {
    /// clause 1 of sv_formations_ok (C10): every activity of the network has a formation entry
    pub open spec fn spcl_forms_cover_activities(&self) -> bool {
        let tf = self.train_formations@;
        forall|n: NodeIdx| self.network.has(n) && self.network.sp_node(n).sp_is_activity() ==> #[trigger] tf.contains_key(n)
    }
    /// clause 2 (magnitude): a formation lists at most 2^17 vehicles
    pub open spec fn spcl_forms_len_small(&self) -> bool {
        let tf = self.train_formations@;
        forall|n: NodeIdx| #[trigger] tf.contains_key(n) ==> tf[n].formation@.len() <= max_vehicles()
    }
    /// clause 3 (instance validity, A-types): the vehicle type a service trip prescribes is a vehicle type of the network
    pub open spec fn spcl_trips_typed(&self) -> bool {
        forall|n: NodeIdx| self.network.has(n) && #[trigger] self.network.sp_node(n) is Service ==> self.network.is_trip(n)
    }
    /// clause 4 (magnitude): the u32 capacity / seat sums of a formation still fit with one more vehicle of any type
    pub open spec fn spcl_forms_sums_fit(&self) -> bool {
        let tf = self.train_formations@;
        forall|n: NodeIdx, vt: VehicleTypeIdx| #![trigger tf[n], self.vtypes()[vt]] tf.contains_key(n) && self.vtypes().contains_key(vt)
            ==> fcap(tf[n].formation@) + self.vtypes()[vt].capacity <= u32::MAX && fseats(tf[n].formation@) + self.vtypes()[vt].seats <= u32::MAX
    }
    /// clause 5 (C09): the cached unserved-passengers pair covers the contribution of any duplicate-free list of nodes
    pub open spec fn spcl_unserved_covers(&self) -> bool {
        forall|s: Seq<NodeIdx>, c: int| #![trigger self.un_old(s, s.len() as int, c)] s.no_duplicates() && all_in_net(&self.network, s) && (c == 0 || c == 1)
            ==> self.un_old(s, s.len() as int, c) <= self.unserved_c(c)
    }
    /// the hypothesis on the RESULT under which clause 2 holds again: the formations that GREW (the activities of the new tour
    /// `nodes`) still list at most 2^17 vehicles.  (sv_ok does not relate the length of a formation to the number of vehicles
    /// of the schedule, so "+ 1" cannot be bounded from the invariant alone.)
    pub open spec fn spcl_grown_len_small(&self, nodes: Seq<NodeIdx>) -> bool {
        forall|n: NodeIdx| moved_nd(&self.network, nodes, n) ==> (#[trigger] self.train_formations@[n]).formation@.len() <= max_vehicles()
    }
    /// the hypothesis on the RESULT under which clause 4 holds again: the u32 sums of the formations that GREW still fit with one
    /// more vehicle of any type
    pub open spec fn spcl_grown_sums_fit(&self, nodes: Seq<NodeIdx>) -> bool {
        let tf = self.train_formations@;
        forall|n: NodeIdx, vt: VehicleTypeIdx| #![trigger tf[n], self.vtypes()[vt]] moved_nd(&self.network, nodes, n) && self.vtypes().contains_key(vt)
            ==> fcap(tf[n].formation@) + self.vtypes()[vt].capacity <= u32::MAX && fseats(tf[n].formation@) + self.vtypes()[vt].seats <= u32::MAX
    }
    /// what the closure lemmas use of the postcondition of spawn_vehicle_for_path(vt, path) -> Ok((s1, id))
    pub open spec fn spcl_step(&self, vt: VehicleTypeIdx, path: Seq<NodeIdx>, s1: &Schedule, id: VehicleIdx) -> bool {
        &&& self.spawned(vt, path, s1, id)
        &&& self.listed(vt, s1, id)
        &&& self.formations_follow(s1, id)
        &&& self.transitions_follow(vt, s1)
        &&& usage_exact(s1.depot_usage@, &self.network, s1.vehicles@, s1.tours@)
    }
}
/// sv_formations_ok is the conjunction of the five named clauses
pub proof fn spcl_lemma_formations_split(s: &Schedule)
    ensures s.sv_formations_ok() <==> (s.spcl_forms_cover_activities() && s.spcl_forms_len_small() && s.spcl_trips_typed()
        && s.spcl_forms_sums_fit() && s.spcl_unserved_covers()),
{
}

// ---- C10 (ids / listings) after one spawn (lemma_step_ids of env/sched_ctor_shim.vs) -----------------------------------------
pub proof fn spcl_lemma_ids(s0: &Schedule, s1: &Schedule, vt: VehicleTypeIdx, path: Seq<NodeIdx>, id: VehicleIdx)
    requires s0.sv_ids_ok(), s0.vehicle_counter <= 0xffff, s0.spawned(vt, path, s1, id), s0.listed(vt, s1, id),
    ensures s1.sv_ids_ok(),
{
    assert forall|v: VehicleIdx| #[trigger] s1.vehicles@.contains_key(v)
        implies v is Vehicle && (v->Vehicle_0 as int) < s1.vehicle_counter && s1.vehicles@[v].idx == v by {
        if v != id { assert(s0.vehicles@.contains_key(v)); }
    }
    assert forall|v: VehicleIdx| #[trigger] s1.vehicles@.contains_key(v) <==> s1.tours@.contains_key(v) by {
        if v != id { assert(s0.vehicles@.contains_key(v) <==> s0.tours@.contains_key(v)); }
    }
    assert forall|t: VehicleTypeIdx| #[trigger] s1.vehicle_ids_grouped_and_sorted@.contains_key(t) implies sorted_cmp(s1.listing(t)) by {
        if t != vt { assert(s0.vehicle_ids_grouped_and_sorted@.contains_key(t)); assert(s1.listing(t) == s0.listing(t)); }
    }
}
/// the type-related preconditions that are not part of sv_ok: a known type stays known
pub proof fn spcl_lemma_types_known(s0: &Schedule, s1: &Schedule, vt: VehicleTypeIdx, path: Seq<NodeIdx>, id: VehicleIdx)
    requires s0.spawned(vt, path, s1, id), s0.listed(vt, s1, id),
    ensures forall|t: VehicleTypeIdx| s0.type_known(t) ==> #[trigger] s1.type_known(t),
{
    assert forall|t: VehicleTypeIdx| s0.type_known(t) implies #[trigger] s1.type_known(t) by {
        assert(sched_types(s1) == sched_types(s0));
        assert(s1.vehicle_ids_grouped_and_sorted@.contains_key(t));
    }
}

// ---- formations after one spawn ---------------------------------------------------------------------------------------------
/// the weight function of the unserved passengers w.r.t. a formation table (as un_fn of env/sched_ctor_shim.vs)
pub open spec fn spcl_un_fn(net: &Network, tf: Formations, c: int) -> spec_fn(NodeIdx) -> int {
    |n: NodeIdx| unserved_at(net, n, tf[n].formation@, c)
}
/// Schedule::un_sum over the old formations, as a sum over the list
pub proof fn spcl_lemma_un_old_nsum(sch: &Schedule, tf: Formations, s: Seq<NodeIdx>, k: int, c: int)
    requires 0 <= k <= s.len(),
    ensures sch.un_sum(tf, None, None, s, k, false, c) == nsum(s.take(k), spcl_un_fn(&sch.network, tf, c)),
    decreases k,
{
    let g = spcl_un_fn(&sch.network, tf, c);
    if k > 0 {
        spcl_lemma_un_old_nsum(sch, tf, s, k - 1, c);
        spcl_lemma_nsum_drop_last(s.take(k), g);
        assert(s.take(k).drop_last() =~= s.take(k - 1));
    } else {
        assert(s.take(0).map_values(g) =~= Seq::<int>::empty());
    }
}
/// Schedule::un_sum over the NEW formations of the moved nodes (read off the old table), as a sum over the list w.r.t. the new table
pub proof fn spcl_lemma_un_new_nsum(sch: &Schedule, tf0: Formations, tf1: Formations, rv: Option<Vehicle>, s: Seq<NodeIdx>, k: int, c: int)
    requires 0 <= k <= s.len(), sch.moved_get_replacement(s, tf0, tf1, None, rv),
    ensures sch.un_sum(tf0, None, rv, s, k, true, c) == nsum(s.take(k), spcl_un_fn(&sch.network, tf1, c)),
    decreases k,
{
    let g = spcl_un_fn(&sch.network, tf1, c);
    if k > 0 {
        spcl_lemma_un_new_nsum(sch, tf0, tf1, rv, s, k - 1, c);
        spcl_lemma_nsum_drop_last(s.take(k), g);
        assert(s.take(k).drop_last() =~= s.take(k - 1));
        let n = s[k - 1];
        if !sch.network.sp_node(n).sp_is_depot() {
            assert(s.contains(n));
            assert(moved_nd(&sch.network, s, n));
            assert(tf1[n].formation@ == sch.repl_seq(tf0[n].formation@, None, rv));
        }
    } else {
        assert(s.take(0).map_values(g) =~= Seq::<int>::empty());
    }
}
/// the nodes of q that are not in `nodes`, in order
pub open spec fn spcl_rest(q: Seq<NodeIdx>, nodes: Seq<NodeIdx>) -> Seq<NodeIdx>
    decreases q.len(),
{
    if q.len() == 0 { Seq::empty() }
    else if nodes.contains(q.last()) { spcl_rest(q.drop_last(), nodes) }
    else { spcl_rest(q.drop_last(), nodes).push(q.last()) }
}
pub proof fn spcl_lemma_rest(q: Seq<NodeIdx>, nodes: Seq<NodeIdx>)
    requires q.no_duplicates(),
    ensures
        spcl_rest(q, nodes).no_duplicates(),
        forall|i: int| 0 <= i < spcl_rest(q, nodes).len() ==> q.contains(#[trigger] spcl_rest(q, nodes)[i]) && !nodes.contains(spcl_rest(q, nodes)[i]),
        forall|i: int| 0 <= i < q.len() ==> nodes.contains(#[trigger] q[i]) || spcl_rest(q, nodes).contains(q[i]),
    decreases q.len(),
{
    if q.len() > 0 {
        let d = q.drop_last();
        let x = q.last();
        let rd = spcl_rest(d, nodes);
        let r = spcl_rest(q, nodes);
        assert(d.no_duplicates()) by {
            assert forall|i: int, j: int| 0 <= i < d.len() && 0 <= j < d.len() && i != j implies d[i] != d[j] by { assert(d[i] == q[i] && d[j] == q[j]); }
        }
        spcl_lemma_rest(d, nodes);
        lemma_drop_last_contains(q);
        assert(!d.contains(x)) by {
            if d.contains(x) { let i = choose|i: int| 0 <= i < d.len() && d[i] == x; assert(q[i] == x && q[q.len() - 1] == x); }
        }
        assert forall|i: int| 0 <= i < r.len() implies q.contains(#[trigger] r[i]) && !nodes.contains(r[i]) by {
            if i < rd.len() { assert(r[i] == rd[i]); assert(d.contains(rd[i])); } else { assert(r[i] == x); assert(q[q.len() - 1] == x); }
        }
        assert(r.no_duplicates()) by {
            assert forall|i: int, j: int| 0 <= i < r.len() && 0 <= j < r.len() && i != j implies r[i] != r[j] by {
                if i < rd.len() && j < rd.len() { assert(r[i] == rd[i] && r[j] == rd[j]); }
                else if i < rd.len() { assert(r[i] == rd[i]); assert(d.contains(rd[i])); assert(r[j] == x); }
                else if j < rd.len() { assert(r[j] == rd[j]); assert(d.contains(rd[j])); assert(r[i] == x); }
            }
        }
        assert forall|i: int| 0 <= i < q.len() implies nodes.contains(#[trigger] q[i]) || r.contains(q[i]) by {
            if i < d.len() {
                assert(q[i] == d[i]);
                if rd.contains(d[i]) { let j = choose|j: int| 0 <= j < rd.len() && rd[j] == d[i]; assert(r[j] == d[i]); }
            } else if !nodes.contains(x) {
                assert(r[r.len() - 1] == x);
            }
        }
    }
}
/// C09 clause of sv_formations_ok, re-established from ITSELF: the new cached pair is the old one minus the old contribution of
/// the new tour's nodes plus their new contribution (formations_follow: the exact delta of update_train_formation); the
/// formations of all other nodes are untouched.  For a duplicate-free list q of the network: L = (nodes of the new tour) ++
/// (nodes of q that are not on the tour) is duplicate-free, so the OLD pair covers L w.r.t. the old table; q weighs at most as
/// much as L w.r.t. the new table; on the tour the new weights are what was added, off the tour old and new weights agree.
pub proof fn spcl_lemma_unserved_covers(s0: &Schedule, s1: &Schedule, id: VehicleIdx)
    requires
        s1.network == s0.network,
        s0.spcl_unserved_covers(),
        s0.formations_follow(s1, id),
        tour_of_net(&s0.network, &s1.tours@[id]),
    ensures s1.spcl_unserved_covers(),
{
    let net = &s0.network;
    let tf0 = s0.train_formations@;
    let tf1 = s1.train_formations@;
    let rv = Some(s1.vehicles@[id]);
    let t = &s1.tours@[id];
    let nodes = t.nodes@;
    let n = nodes.len() as int;
    assert(nodes.no_duplicates()) by {
        assert forall|i: int, j: int| 0 <= i < nodes.len() && 0 <= j < nodes.len() && i != j implies nodes[i] != nodes[j] by {
            if nodes[i] == nodes[j] { lemma_tour_distinct(t, i, j); }
        }
    }
    assert(all_in_net(net, nodes)) by {
        assert forall|i: int| 0 <= i < nodes.len() implies #[trigger] net.has(nodes[i]) by { lemma_tour_kinds(t, i); }
    }
    assert forall|q: Seq<NodeIdx>, c: int| #![trigger s1.un_old(q, q.len() as int, c)] q.no_duplicates() && all_in_net(&s1.network, q) && (c == 0 || c == 1)
        implies s1.un_old(q, q.len() as int, c) <= s1.unserved_c(c) by {
        let g0 = spcl_un_fn(net, tf0, c);
        let g1 = spcl_un_fn(net, tf1, c);
        let rest = spcl_rest(q, nodes);
        let l = nodes + rest;
        spcl_lemma_rest(q, nodes);
        assert(l.no_duplicates()) by {
            assert forall|i: int, j: int| 0 <= i < l.len() && 0 <= j < l.len() && i != j implies l[i] != l[j] by {
                if i < n && j < n { assert(l[i] == nodes[i] && l[j] == nodes[j]); }
                else if i < n { assert(l[i] == nodes[i] && l[j] == rest[j - n]); assert(!nodes.contains(rest[j - n])); }
                else if j < n { assert(l[j] == nodes[j] && l[i] == rest[i - n]); assert(!nodes.contains(rest[i - n])); }
                else { assert(l[i] == rest[i - n] && l[j] == rest[j - n]); }
            }
        }
        assert(all_in_net(net, l)) by {
            assert forall|i: int| 0 <= i < l.len() implies #[trigger] net.has(l[i]) by {
                if i < n { assert(l[i] == nodes[i]); }
                else {
                    assert(l[i] == rest[i - n]);
                    assert(q.contains(rest[i - n]));
                    let j = choose|j: int| 0 <= j < q.len() && q[j] == rest[i - n];
                    assert(net.has(q[j]));
                }
            }
        }
        // the old pair covers L w.r.t. the old table
        assert(s0.un_old(l, l.len() as int, c) <= s0.unserved_c(c));
        spcl_lemma_un_old_nsum(s0, tf0, l, l.len() as int, c);
        assert(l.take(l.len() as int) =~= l);
        lemma_nsum_append(nodes, rest, g0);
        // q w.r.t. the new table weighs at most as much as L
        spcl_lemma_un_old_nsum(s1, tf1, q, q.len() as int, c);
        assert(q.take(q.len() as int) =~= q);
        assert forall|i: int| 0 <= i < q.len() && g1(#[trigger] q[i]) != 0 implies l.contains(q[i]) by {
            if nodes.contains(q[i]) {
                let j = choose|j: int| 0 <= j < nodes.len() && nodes[j] == q[i];
                assert(l[j] == q[i]);
            } else {
                assert(rest.contains(q[i]));
                let j = choose|j: int| 0 <= j < rest.len() && rest[j] == q[i];
                assert(l[n + j] == q[i]);
            }
        }
        assert forall|x: NodeIdx| 0 <= #[trigger] g1(x) by {}
        spcl_lemma_nsum_sub(q, l, g1);
        lemma_nsum_append(nodes, rest, g1);
        // off the tour old and new weights agree
        assert(rest.map_values(g1) =~= rest.map_values(g0)) by {
            assert forall|i: int| 0 <= i < rest.len() implies g1(#[trigger] rest[i]) == g0(rest[i]) by {
                assert(!moved_nd(net, nodes, rest[i]));
                assert(tf1[rest[i]] == tf0[rest[i]]);
            }
        }
        // on the tour: what was subtracted / added
        lemma_un_old(s0, tf0, None, rv, nodes, n, c);
        spcl_lemma_un_old_nsum(s0, tf0, nodes, n, c);
        spcl_lemma_un_new_nsum(s0, tf0, tf1, rv, nodes, n, c);
        assert(nodes.take(n) =~= nodes);
    }
}
/// the clauses of sv_formations_ok that one more vehicle cannot break (1: coverage, 3: instance clause) and the two magnitude
/// clauses under the stated hypotheses on the grown formations of the result
pub proof fn spcl_lemma_forms_frame(s0: &Schedule, s1: &Schedule, id: VehicleIdx)
    requires s1.network == s0.network, s0.formations_follow(s1, id),
    ensures
        s0.spcl_forms_cover_activities() ==> s1.spcl_forms_cover_activities(),
        s0.spcl_trips_typed() ==> s1.spcl_trips_typed(),
        s0.spcl_forms_len_small() && s1.spcl_grown_len_small(s1.tours@[id].nodes@) ==> s1.spcl_forms_len_small(),
        s0.spcl_forms_sums_fit() && s1.spcl_grown_sums_fit(s1.tours@[id].nodes@) ==> s1.spcl_forms_sums_fit(),
{
    let net = &s0.network;
    let tf0 = s0.train_formations@;
    let tf1 = s1.train_formations@;
    let nodes = s1.tours@[id].nodes@;
    assert forall|n: NodeIdx| #[trigger] tf1.contains_key(n) <==> tf0.contains_key(n) by {
        assert(tf1.dom().contains(n) <==> tf0.dom().contains(n));
    }
    if s0.spcl_forms_cover_activities() {
        assert forall|n: NodeIdx| s1.network.has(n) && s1.network.sp_node(n).sp_is_activity() implies #[trigger] tf1.contains_key(n) by {
            assert(tf0.contains_key(n));
        }
    }
    if s0.spcl_forms_len_small() && s1.spcl_grown_len_small(nodes) {
        assert forall|n: NodeIdx| #[trigger] tf1.contains_key(n) implies tf1[n].formation@.len() <= max_vehicles() by {
            assert(tf0.contains_key(n));
            if !moved_nd(net, nodes, n) { assert(tf1[n] == tf0[n]); }
        }
    }
    if s0.spcl_forms_sums_fit() && s1.spcl_grown_sums_fit(nodes) {
        assert forall|n: NodeIdx, vt: VehicleTypeIdx| #![trigger tf1[n], s1.vtypes()[vt]] tf1.contains_key(n) && s1.vtypes().contains_key(vt)
            implies fcap(tf1[n].formation@) + s1.vtypes()[vt].capacity <= u32::MAX && fseats(tf1[n].formation@) + s1.vtypes()[vt].seats <= u32::MAX by {
            assert(tf0.contains_key(n));
            if !moved_nd(net, nodes, n) {
                assert(tf1[n] == tf0[n]);
                assert(fcap(tf0[n].formation@) + s0.vtypes()[vt].capacity <= u32::MAX && fseats(tf0[n].formation@) + s0.vtypes()[vt].seats <= u32::MAX);
            }
        }
    }
}

// ---- rotation cycles: counting (copied from env/sched_ctor_shim.vs) -----------------------------------------------------------
/// the vehicles in the first k cycles
pub open spec fn spcl_cyc_elems(t: TView, k: int) -> Set<VehicleIdx>
    decreases k,
{
    if k <= 0 { Set::empty() } else { spcl_cyc_elems(t, k - 1).union(t.cyc(k - 1).to_set()) }
}
pub proof fn spcl_lemma_cyc_elems_member(t: TView, k: int, v: VehicleIdx)
    requires 0 <= k <= t.n(),
    ensures spcl_cyc_elems(t, k).contains(v) <==> exists|i: int| 0 <= i < k && (#[trigger] t.cyc(i)).contains(v),
    decreases k,
{
    if k > 0 {
        spcl_lemma_cyc_elems_member(t, k - 1, v);
        if spcl_cyc_elems(t, k).contains(v) {
            if t.cyc(k - 1).contains(v) { assert(0 <= k - 1 < k && t.cyc(k - 1).contains(v)); }
            else {
                let i = choose|i: int| 0 <= i < k - 1 && (#[trigger] t.cyc(i)).contains(v);
                assert(0 <= i < k && t.cyc(i).contains(v));
            }
        }
        if exists|i: int| 0 <= i < k && (#[trigger] t.cyc(i)).contains(v) {
            let i = choose|i: int| 0 <= i < k && (#[trigger] t.cyc(i)).contains(v);
            if i < k - 1 { assert(0 <= i < k - 1 && t.cyc(i).contains(v)); }
        }
    }
}
pub proof fn spcl_lemma_cyc_elems_len(t: TView, k: int)
    requires t.wf_cycles(), 0 <= k <= t.n(),
    ensures spcl_cyc_elems(t, k).len() == sum_seq(lens_of(t.cycles).take(k)),
    decreases k,
{
    let l = lens_of(t.cycles);
    if k > 0 {
        spcl_lemma_cyc_elems_len(t, k - 1);
        let a = spcl_cyc_elems(t, k - 1);
        let b = t.cyc(k - 1).to_set();
        assert(a.disjoint(b)) by {
            assert forall|v: VehicleIdx| !(a.contains(v) && b.contains(v)) by {
                if a.contains(v) && b.contains(v) {
                    spcl_lemma_cyc_elems_member(t, k - 1, v);
                    let i = choose|i: int| 0 <= i < k - 1 && (#[trigger] t.cyc(i)).contains(v);
                    let x = choose|x: int| 0 <= x < t.cyc(i).len() && t.cyc(i)[x] == v;
                    let ck = t.cyc(k - 1);
                    let y = choose|y: int| 0 <= y < ck.len() && ck[y] == v;
                    assert(t.cyc(i)[x] != t.cyc(k - 1)[y]);
                }
            }
        }
        vstd::set_lib::lemma_set_disjoint_lens(a, b);
        t.cyc(k - 1).unique_seq_to_set();
        assert(l.take(k).drop_last() =~= l.take(k - 1));
        assert(l.take(k).last() == t.cyc(k - 1).len());
    } else {
        assert(l.take(0) =~= Seq::<int>::empty());
    }
}
/// C15: a consistent transition holds as many vehicles as its lookup has keys
pub proof fn spcl_lemma_total_len_is_lookup(t: TView)
    requires t.wf_cycles(), t.wf_lookup(),
    ensures t.total_len() == t.lookup.dom().len(),
{
    let l = lens_of(t.cycles);
    spcl_lemma_cyc_elems_len(t, t.n());
    assert(l.take(t.n()) =~= l);
    assert(spcl_cyc_elems(t, t.n()) =~= t.lookup.dom()) by {
        assert forall|v: VehicleIdx| spcl_cyc_elems(t, t.n()).contains(v) <==> t.lookup.dom().contains(v) by {
            spcl_lemma_cyc_elems_member(t, t.n(), v);
            if spcl_cyc_elems(t, t.n()).contains(v) {
                let i = choose|i: int| 0 <= i < t.n() && (#[trigger] t.cyc(i)).contains(v);
                let x = choose|x: int| 0 <= x < t.cyc(i).len() && t.cyc(i)[x] == v;
                assert(t.lookup.contains_key(t.cyc(i)[x]));
            }
            if t.lookup.contains_key(v) {
                assert(0 <= t.cycle_of(v) < t.n() && t.cyc(t.cycle_of(v)).contains(v));
            }
        }
    }
}
/// the vehicles of one type
pub open spec fn spcl_typed_vehicles(vehicles: VehicleMap, vt: VehicleTypeIdx) -> Set<VehicleIdx> {
    vehicles.dom().filter(|v: VehicleIdx| vtype(vehicles[v]) == vt)
}
/// the vehicles of the first k listed types
pub open spec fn spcl_typed_union(vehicles: VehicleMap, vts: Seq<VehicleTypeIdx>, k: int) -> Set<VehicleIdx>
    decreases k,
{
    if k <= 0 { Set::empty() } else { spcl_typed_union(vehicles, vts, k - 1).union(spcl_typed_vehicles(vehicles, vts[k - 1])) }
}
pub proof fn spcl_lemma_typed_union(vehicles: VehicleMap, trs: Map<VehicleTypeIdx, Transition>, vts: Seq<VehicleTypeIdx>, k: int)
    requires
        vts.no_duplicates(), 0 <= k <= vts.len(),
        forall|i: int| 0 <= i < vts.len() ==> (#[trigger] trs[vts[i]]).total_len() == spcl_typed_vehicles(vehicles, vts[i]).len(),
    ensures
        spcl_typed_union(vehicles, vts, k).len() == len_sum(trs, vts.take(k)),
        spcl_typed_union(vehicles, vts, k).subset_of(vehicles.dom()),
        forall|v: VehicleIdx| spcl_typed_union(vehicles, vts, k).contains(v) ==> exists|j: int| 0 <= j < k && vtype(vehicles[v]) == #[trigger] vts[j],
    decreases k,
{
    if k > 0 {
        spcl_lemma_typed_union(vehicles, trs, vts, k - 1);
        let a = spcl_typed_union(vehicles, vts, k - 1);
        let b = spcl_typed_vehicles(vehicles, vts[k - 1]);
        assert(a.disjoint(b)) by {
            assert forall|v: VehicleIdx| !(a.contains(v) && b.contains(v)) by {
                if a.contains(v) && b.contains(v) {
                    let j = choose|j: int| 0 <= j < k - 1 && vtype(vehicles[v]) == #[trigger] vts[j];
                    assert(vts[j] != vts[k - 1]);
                }
            }
        }
        vstd::set_lib::lemma_set_disjoint_lens(a, b);
        let tk = vts.take(k);
        assert(tk.drop_last() =~= vts.take(k - 1));
        assert(tk.last() == vts[k - 1]);
        assert forall|v: VehicleIdx| spcl_typed_union(vehicles, vts, k).contains(v) implies exists|j: int| 0 <= j < k && vtype(vehicles[v]) == #[trigger] vts[j] by {
            if a.contains(v) {
                let j = choose|j: int| 0 <= j < k - 1 && vtype(vehicles[v]) == #[trigger] vts[j];
                assert(0 <= j < k && vtype(vehicles[v]) == vts[j]);
            } else {
                assert(0 <= k - 1 < k && vtype(vehicles[v]) == vts[k - 1]);
            }
        }
    } else {
        assert(vts.take(0) =~= Seq::<VehicleTypeIdx>::empty());
    }
}
/// (magnitude clause of transitions_ok) the cycles of all listed types hold at most as many vehicles as there are
pub proof fn spcl_lemma_len_sum_le_vehicles(s: &Schedule)
    requires
        sched_types(s).no_duplicates(),
        forall|vt: VehicleTypeIdx| #[trigger] s.next_period_transitions@.contains_key(vt) <==> sched_types(s).contains(vt),
        forall|vt: VehicleTypeIdx| #[trigger] s.next_period_transitions@.contains_key(vt) ==> s.next_period_transitions@[vt].wf(&s.network, s.tours@),
        forall|vt: VehicleTypeIdx, v: VehicleIdx| #![trigger s.next_period_transitions@[vt].has_vehicle(v)] s.next_period_transitions@.contains_key(vt)
            ==> (s.next_period_transitions@[vt].has_vehicle(v) <==> s.vehicles@.contains_key(v) && vtype(s.vehicles@[v]) == vt),
    ensures len_sum(s.next_period_transitions@, sched_types(s)) <= s.vehicles@.dom().len(),
{
    let trs = s.next_period_transitions@;
    let vts = sched_types(s);
    let vehicles = s.vehicles@;
    assert forall|i: int| 0 <= i < vts.len() implies (#[trigger] trs[vts[i]]).total_len() == spcl_typed_vehicles(vehicles, vts[i]).len() by {
        let vt = vts[i];
        assert(vts.contains(vt));
        assert(trs.contains_key(vt));
        let t = trs[vt];
        assert(t.wf(&s.network, s.tours@));
        spcl_lemma_total_len_is_lookup(t@);
        assert(t@.lookup.dom() =~= spcl_typed_vehicles(vehicles, vt)) by {
            assert forall|v: VehicleIdx| t@.lookup.dom().contains(v) <==> spcl_typed_vehicles(vehicles, vt).contains(v) by {
                assert(t.has_vehicle(v) <==> vehicles.contains_key(v) && vtype(vehicles[v]) == vt);
            }
        }
    }
    spcl_lemma_typed_union(vehicles, trs, vts, vts.len() as int);
    assert(vts.take(vts.len() as int) =~= vts);
    vstd::set_lib::lemma_len_subset(spcl_typed_union(vehicles, vts, vts.len() as int), vehicles.dom());
}
/// C15 / C10 / C09 for the rotation cycles after one spawn: transitions_follow (the postcondition of
/// update_transitions_and_violation_fast) gives every clause of transitions_ok for the result but the magnitude clause, which
/// follows from counting: the cycles hold exactly the vehicles, and vehicle ids are 16 bit (2^16 < 2^17)
pub proof fn spcl_lemma_transitions(s0: &Schedule, s1: &Schedule, vt: VehicleTypeIdx, path: Seq<NodeIdx>, id: VehicleIdx)
    requires s0.transitions_ok(), s0.spawned(vt, path, s1, id), s0.transitions_follow(vt, s1), s1.sv_ids_ok(),
    ensures s1.transitions_ok(),
{
    let trs1 = s1.next_period_transitions@;
    assert(sched_types(s1) == sched_types(s0));
    assert forall|t: VehicleTypeIdx| #[trigger] trs1.contains_key(t) <==> sched_types(s1).contains(t) by {
        assert(s0.next_period_transitions@.contains_key(t) <==> sched_types(s0).contains(t));
    }
    spcl_lemma_len_sum_le_vehicles(s1);
    lemma_at_most_2_16_vehicles(s1);
}

// ---- the bundle ---------------------------------------------------------------------------------------------------------------
/// CLOSURE, conjunct by conjunct: s1 (the result of a spawn from s0 with new vehicle id) satisfies the clauses of sv_ok again;
/// the magnitude clauses under hypotheses on s1
pub open spec fn spcl_closed(s0: &Schedule, s1: &Schedule, id: VehicleIdx) -> bool {
    let nodes = s1.tours@[id].nodes@;
    // instance validity: the network is the same
    &&& s1.network.wf() && depot_lists_ok(&s1.network)
    // ids / listings
    &&& s1.sv_ids_ok()
    // formations: coverage, instance clause, C09
    &&& s1.spcl_forms_cover_activities() && s1.spcl_trips_typed() && s1.spcl_unserved_covers()
    // formations: magnitudes, under the hypothesis on the grown formations
    &&& (s1.spcl_grown_len_small(nodes) ==> s1.spcl_forms_len_small())
    &&& (s1.spcl_grown_sums_fit(nodes) ==> s1.spcl_forms_sums_fit())
    &&& (s1.spcl_grown_len_small(nodes) && s1.spcl_grown_sums_fit(nodes) ==> s1.sv_formations_ok())
    // rotation cycles
    &&& s1.transitions_ok()
    // depot usage (w.r.t. the result's own network)
    &&& usage_exact(s1.depot_usage@, &s1.network, s1.vehicles@, s1.tours@)
    // the bundle; magnitudes as hypotheses on the result
    &&& (s1.spcl_grown_len_small(nodes) && s1.spcl_grown_sums_fit(nodes) && s1.costs <= sched_cost_bound() ==> s1.sv_ok())
    // preconditions outside sv_ok that do not depend on the path
    &&& (forall|t: VehicleTypeIdx| s0.type_known(t) ==> #[trigger] s1.type_known(t))
    &&& (s0.network.start_depots_ok() ==> s1.network.start_depots_ok())
}
/// CLOSURE: what the postcondition of spawn_vehicle_for_path (spcl_step) makes of sv_ok
pub proof fn spcl_lemma_closure(s0: &Schedule, s1: &Schedule, vt: VehicleTypeIdx, path: Seq<NodeIdx>, id: VehicleIdx)
    requires s0.sv_ok(), s0.vehicle_counter <= 0xffff, s0.spcl_step(vt, path, s1, id),
    ensures spcl_closed(s0, s1, id),
{
    assert(s1.network == s0.network);
    spcl_lemma_ids(s0, s1, vt, path, id);
    spcl_lemma_types_known(s0, s1, vt, path, id);
    spcl_lemma_formations_split(s0);
    spcl_lemma_formations_split(s1);
    spcl_lemma_forms_frame(s0, s1, id);
    spcl_lemma_unserved_covers(s0, s1, id);
    spcl_lemma_transitions(s0, s1, vt, path, id);
}
