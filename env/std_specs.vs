// A-arch: the solver is built for 64-bit targets
global size_of usize == 8;
// A-std3: specifications assumed for std functions that vstd does not cover
pub assume_specification<T: Clone>[ <[T]>::to_vec ](s: &[T]) -> (r: Vec<T>)
    ensures r@ == s@;
pub assume_specification<T>[ Option::<T>::or ](a: Option<T>, b: Option<T>) -> (r: Option<T>)
    ensures r == (if a is Some { a } else { b });
pub assume_specification<T, E>[ Result::<T, E>::unwrap_or ](a: Result<T, E>, d: T) -> (r: T)
    ensures r == (match a { Ok(x) => x, Err(_) => d });
