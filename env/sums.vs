// ---- integer sums over sequences (vocabulary for the cached aggregates, C09) ------------------------
pub open spec fn isum(s: Seq<int>) -> int
    decreases s.len(),
{
    if s.len() == 0 { 0 } else { isum(s.drop_last()) + s.last() }
}
pub proof fn lemma_isum_append(a: Seq<int>, b: Seq<int>)
    ensures isum(a + b) == isum(a) + isum(b),
    decreases b.len(),
{
    if b.len() == 0 {
        assert(a + b =~= a);
    } else {
        assert((a + b).drop_last() =~= a + b.drop_last());
        lemma_isum_append(a, b.drop_last());
    }
}
pub proof fn lemma_isum_bounds(s: Seq<int>, lo: int, hi: int)
    requires forall|i: int| 0 <= i < s.len() ==> lo <= #[trigger] s[i] <= hi,
    ensures lo * s.len() <= isum(s) <= hi * s.len(),
    decreases s.len(),
{
    if s.len() > 0 {
        lemma_isum_bounds(s.drop_last(), lo, hi);
        assert(lo * s.len() == lo * (s.len() - 1) + lo) by (nonlinear_arith);
        assert(hi * s.len() == hi * (s.len() - 1) + hi) by (nonlinear_arith);
    }
}
pub proof fn lemma_isum_one(x: int)
    ensures isum(seq![x]) == x,
{
    assert(seq![x].drop_last() =~= Seq::<int>::empty());
    assert(seq![x].last() == x);
    assert(isum(Seq::<int>::empty()) == 0);
    assert(isum(seq![x]) == isum(seq![x].drop_last()) + seq![x].last());
}
pub proof fn lemma_isum_ext(a: Seq<int>, b: Seq<int>)
    requires a.len() == b.len(), forall|i: int| 0 <= i < a.len() ==> a[i] == b[i],
    ensures isum(a) == isum(b),
{
    assert(a =~= b);
}
/// sum of a per-node quantity
pub open spec fn nsum(s: Seq<NodeIdx>, f: spec_fn(NodeIdx) -> int) -> int {
    isum(s.map_values(f))
}
/// sum of a per-leg quantity over consecutive pairs
pub open spec fn legs(s: Seq<NodeIdx>, g: spec_fn(NodeIdx, NodeIdx) -> int) -> Seq<int> {
    Seq::new((if s.len() > 0 { s.len() - 1 } else { 0 }) as nat, |i: int| g(s[i], s[i + 1]))
}
pub open spec fn psum(s: Seq<NodeIdx>, g: spec_fn(NodeIdx, NodeIdx) -> int) -> int {
    isum(legs(s, g))
}
pub proof fn lemma_nsum_append(a: Seq<NodeIdx>, b: Seq<NodeIdx>, f: spec_fn(NodeIdx) -> int)
    ensures nsum(a + b, f) == nsum(a, f) + nsum(b, f),
{
    assert((a + b).map_values(f) =~= a.map_values(f) + b.map_values(f));
    lemma_isum_append(a.map_values(f), b.map_values(f));
}
pub open spec fn junction(a: Seq<NodeIdx>, b: Seq<NodeIdx>, g: spec_fn(NodeIdx, NodeIdx) -> int) -> int {
    if a.len() > 0 && b.len() > 0 { g(a.last(), b.first()) } else { 0 }
}
pub proof fn lemma_psum_append(a: Seq<NodeIdx>, b: Seq<NodeIdx>, g: spec_fn(NodeIdx, NodeIdx) -> int)
    ensures psum(a + b, g) == psum(a, g) + junction(a, b, g) + psum(b, g),
{
    if a.len() == 0 {
        assert(a + b =~= b);
        assert(legs(a, g) =~= Seq::<int>::empty());
    } else if b.len() == 0 {
        assert(a + b =~= a);
        assert(legs(b, g) =~= Seq::<int>::empty());
    } else {
        let j = seq![g(a.last(), b.first())];
        assert(legs(a + b, g) =~= legs(a, g) + j + legs(b, g));
        lemma_isum_append(legs(a, g) + j, legs(b, g));
        lemma_isum_append(legs(a, g), j);
        lemma_isum_one(g(a.last(), b.first()));
    }
}
pub proof fn lemma_nsum_nonneg(s: Seq<NodeIdx>, f: spec_fn(NodeIdx) -> int, hi: int)
    requires forall|i: int| 0 <= i < s.len() ==> 0 <= #[trigger] f(s[i]) <= hi,
    ensures 0 <= nsum(s, f) <= hi * s.len(),
{
    lemma_isum_bounds(s.map_values(f), 0, hi);
}
pub proof fn lemma_psum_nonneg(s: Seq<NodeIdx>, g: spec_fn(NodeIdx, NodeIdx) -> int, hi: int)
    requires hi >= 0, forall|i: int| 0 <= i < s.len() - 1 ==> 0 <= #[trigger] g(s[i], s[i + 1]) <= hi,
    ensures 0 <= psum(s, g) <= hi * s.len(),
{
    lemma_isum_bounds(legs(s, g), 0, hi);
    let a = legs(s, g).len() as int; let b = s.len() as int;
    assert(hi * a <= hi * b) by (nonlinear_arith) requires hi >= 0, a <= b;
}
