// ---- environment of the slice `swaps_sem` (C11, level B: RemoveSingleNode over the REAL contract of remove_segment) ----
// Included inside `pub mod tr { … }` after env/remove_segment_shim.vs, the module `tfu` and the struct RemoveSingleNode.
// Everything `uninterp` / `axiom` / hand-written declaration in this file is an ASSUMPTION (listed in the header of
// slices/swaps_sem.vs).

/// the segment that consists of one node
pub open spec fn single(node: NodeIdx) -> Segment { Segment { start: node, end: node } }

/// A-dyn (interface stub): `pub trait Swap: fmt::Display + Send + Sync { fn apply(&self, schedule: &Schedule) ->
/// Result<Schedule, String>; }` declared without the marker / Display bounds and with a precondition hook (Verus does not
/// allow an impl to add `requires`), fixed for RemoveSingleNode by axiom_sem_req_remove_single_node.
pub trait Swap {
    fn apply(&self, schedule: &Schedule) -> Result<Schedule, String>
        requires swap_req(self, schedule);
}
pub uninterp spec fn swap_req<W: ?Sized>(swap: &W, schedule: &Schedule) -> bool;

impl RemoveSingleNode {
    /// the nodes the vehicle loses: the one node (when the tour accepts the removal)
    pub open spec fn removed(&self, s: &Schedule) -> Seq<NodeIdx> { s.removed_nodes(single(self.node), self.vehicle) }
    /// the stated preconditions = the preconditions of remove_segment for the one-node segment: the base schedule is a
    /// valid schedule (rs_ok: C10 ids / formations / rotation cycles, C09 depot usage, sched_ok), the node is a node of the
    /// network, A-counter, and the precondition of the formation bookkeeping for the removed node
    pub open spec fn req(&self, s: &Schedule) -> bool {
        &&& s.rs_ok()
        &&& s.network.has(self.node)
        &&& s.shrunk_counter_ok(single(self.node), self.vehicle)
        &&& s.removes(single(self.node), self.vehicle) ==> s.tfu_pre(s.train_formations@, s.unserved_passengers,
                Some(self.vehicle), None::<Vehicle>, self.removed(s))
        // C10 listings: needed when the node is the vehicle's only activity (remove_segment then deletes the vehicle)
        &&& s.removes(single(self.node), self.vehicle) && s.whole_tour(single(self.node), self.vehicle) ==> s.listed_ok(self.vehicle)
    }
    /// the vehicle keeps a tour (the node is not its only activity; the whole-tour case has its own clauses in
    /// remove_segment's contract)
    pub open spec fn keeps_tour(&self, s: &Schedule, r: Result<Schedule, String>) -> bool {
        s.removes(single(self.node), self.vehicle) && !s.whole_tour(single(self.node), self.vehicle)
    }
    /// C11 for this move: "the candidate is itself a structurally valid schedule whose cached objective components equal
    /// their recomputed values" -- as far as remove_segment's contract carries
    pub open spec fn candidate_ok(&self, s: &Schedule, c: &Schedule) -> bool {
        let seg = single(self.node);
        let v = self.vehicle;
        // same network, same vehicles (the vehicle-count component is the base's), valid ids (C10)
        &&& c.network == s.network && c.vehicles@ == s.vehicles@ && c.vehicle_ids_grouped_and_sorted@ == s.vehicle_ids_grouped_and_sorted@
        &&& c.ids_ok()
        // the vehicle's tour is the old one without the node: a well-formed tour with exact caches (C01, C09); every other
        // tour is the base's
        &&& s.provider_shrunk(seg, v, c.tours@) && s.other_tours_untouched(v, c.tours@)
        // formations: the vehicle left the node's formation, order kept; all others are the base's (C10 / C03)
        &&& s.formations_follow(self.removed(s), v, c.train_formations@)
        // C09, cached objective components: unserved passengers (exact delta), costs (follow the one changed tour), depot usage
        // table (from-scratch value for the candidate's tours), maintenance violation (sum over the candidate's rotation cycles)
        &&& s.unserved_follow(self.removed(s), v, c.unserved_passengers)
        &&& c.costs == s.costs + c.tours@[v].costs - s.tours@[v].costs
        &&& usage_exact(c.depot_usage@, &c.network, c.vehicles@, c.tours@)
        &&& c.maintenance_violation as int == viol_sum(c.next_period_transitions@, sched_types(c))
        // C15 / C10: every rotation cycle is consistent with the candidate's tours and holds exactly the candidate's vehicles of its type
        &&& forall|vt: VehicleTypeIdx| #[trigger] c.next_period_transitions@.contains_key(vt) ==> c.next_period_transitions@[vt].wf(&c.network, c.tours@)
        &&& forall|vt: VehicleTypeIdx, u: VehicleIdx| #![trigger c.next_period_transitions@[vt].has_vehicle(u)] c.next_period_transitions@.contains_key(vt)
                ==> (c.next_period_transitions@[vt].has_vehicle(u) <==> (c.vehicles@.contains_key(u) && c.type_of(u) == vt))
    }
}
pub axiom fn axiom_sem_req_remove_single_node(w: &RemoveSingleNode, s: &Schedule)
    ensures swap_req(w, s) == w.req(s);
/// the stated preconditions are the preconditions of remove_segment for the one-node segment
pub proof fn lemma_sem_pre_remove_single_node(w: &RemoveSingleNode, s: &Schedule)
    requires w.req(s),
    ensures
        s.rs_ok() && s.network.has(single(w.node).start) && s.network.has(single(w.node).end)
            && s.shrunk_counter_ok(single(w.node), w.vehicle), // @obl C11.remove_single_node.no_panic_under_stated_preconditions
        s.removes(single(w.node), w.vehicle) ==> s.tfu_pre(s.train_formations@, s.unserved_passengers,
            Some(w.vehicle), None::<Vehicle>, s.removed_nodes(single(w.node), w.vehicle)), // @obl C11.remove_single_node.no_panic_under_stated_preconditions
{
}
/// the clauses of remove_segment's postcondition (branch: the provider keeps a tour) make up candidate_ok
pub proof fn lemma_candidate_ok(w: &RemoveSingleNode, s: &Schedule, c: &Schedule)
    requires
        c.vehicles@ == s.vehicles@ && c.vehicle_ids_grouped_and_sorted@ == s.vehicle_ids_grouped_and_sorted@ && c.network == s.network,
        s.provider_shrunk(single(w.node), w.vehicle, c.tours@),
        s.other_tours_untouched(w.vehicle, c.tours@),
        s.formations_follow(s.removed_nodes(single(w.node), w.vehicle), w.vehicle, c.train_formations@),
        c.ids_ok(),
        s.unserved_follow(s.removed_nodes(single(w.node), w.vehicle), w.vehicle, c.unserved_passengers),
        c.costs == s.costs + c.tours@[w.vehicle].costs - s.tours@[w.vehicle].costs,
        usage_exact(c.depot_usage@, &s.network, c.vehicles@, c.tours@),
        s.transitions_follow(w.vehicle, c.next_period_transitions@, c.maintenance_violation, c.vehicles@, c.tours@),
    ensures w.candidate_ok(s, c),
{
}
