// ---- environment of the slice `swaps` (C11: the local-search neighbourhood moves) ------------------------
// Included inside `pub mod tr { … }` after env/im_shim.vs, env/transition_spec.vs, env/schedule_shim.vs,
// env/sched_guard_shim.vs and the four swap structs.  Everything `assume_specification` / `external_body` /
// `uninterp` / `axiom` / hand-written declaration in this file is an ASSUMPTION (listed in the header of
// slices/swaps.vs).
use vstd::std_specs::cmp::OrdSpec;
use vstd::std_specs::cmp::PartialEqSpec;

// =====================================================================================================
// A-std8: `<[T]>::sort`, `Vec::dedup`, `Iterator::filter_map` (belong into env/std_specs.vs / env/seqiter.vs)
// =====================================================================================================
/// sorted w.r.t. `Ord::cmp` (non-strict)
pub open spec fn sw_sorted<T: Ord>(s: Seq<T>) -> bool {
    forall|i: int, j: int| #![trigger s[i], s[j]] 0 <= i < j < s.len() ==> !(s[i].cmp_spec(&s[j]) is Greater)
}
/// std: "Sorts the slice [in ascending order] ... This sort is stable": the result is a rearrangement of the
/// input that is sorted w.r.t. `Ord::cmp` (stability is not stated: not needed for a total order on indices)
pub assume_specification<T: Ord>[ <[T]>::sort ](s: &mut [T])
    ensures
        final(s)@.to_multiset() == old(s)@.to_multiset(),
        sw_sorted(final(s)@);

/// what `dedup` leaves: every element that differs (`PartialEq::eq`) from its predecessor
pub open spec fn sw_dedup<T: PartialEq>(s: Seq<T>) -> Seq<T>
    decreases s.len(),
{
    if s.len() <= 1 { s }
    else if s[s.len() - 1].eq_spec(&s[s.len() - 2]) { sw_dedup(s.drop_last()) }
    else { sw_dedup(s.drop_last()).push(s.last()) }
}
/// std: "Removes consecutive repeated elements in the vector according to the PartialEq trait implementation.
/// If the vector is sorted, this removes all duplicates."
pub assume_specification<T: PartialEq, A: core::alloc::Allocator>[ Vec::<T, A>::dedup ](v: &mut Vec<T, A>)
    ensures
        final(v)@ == sw_dedup(old(v)@);

/// the `Some` payloads of a sequence of options, in order
pub open spec fn sw_somes<U>(outs: Seq<Option<U>>) -> Seq<U>
    decreases outs.len(),
{
    if outs.len() == 0 { Seq::empty() }
    else {
        let r = sw_somes(outs.drop_last());
        if outs.last() is Some { r.push(outs.last()->Some_0) } else { r }
    }
}
impl<T> SeqIter<T> {
    /// std `Iterator::filter_map`: calls the closure once per item, in order, and yields the payloads of the
    /// `Some` results in that order (`outs` = the values the calls returned)
    #[verifier::external_body]
    pub fn filter_map<U, F: FnMut(T) -> Option<U>>(self, f: F) -> (r: SeqIter<U>)
        requires
            forall|i: int| #![trigger self@[i]] 0 <= i < self@.len() ==> f.requires((self@[i],)),
        ensures
            exists|outs: Seq<Option<U>>| #![trigger sw_somes(outs)] outs.len() == self@.len()
                && (forall|i: int| 0 <= i < outs.len() ==> f.ensures((self@[i],), #[trigger] outs[i]))
                && r@ == sw_somes(outs),
    { unimplemented!() }
}
/// membership in the payload list
pub proof fn lemma_somes_contains<U>(outs: Seq<Option<U>>, x: U)
    ensures sw_somes(outs).contains(x) <==> exists|i: int| 0 <= i < outs.len() && #[trigger] outs[i] == Some(x),
    decreases outs.len(),
{
    let r = sw_somes(outs);
    if outs.len() == 0 {
        assert(!r.contains(x));
    } else {
        let o1 = outs.drop_last();
        let r1 = sw_somes(o1);
        lemma_somes_contains(o1, x);
        if r.contains(x) {
            let k = choose|k: int| 0 <= k < r.len() && r[k] == x;
            if outs.last() is Some && k == r1.len() {
                assert(outs[outs.len() - 1] == Some(x));
            } else {
                assert(r1[k] == x);
                assert(r1.contains(x));
                let i = choose|i: int| 0 <= i < o1.len() && #[trigger] o1[i] == Some(x);
                assert(outs[i] == Some(x));
            }
        }
        if exists|i: int| 0 <= i < outs.len() && #[trigger] outs[i] == Some(x) {
            let i = choose|i: int| 0 <= i < outs.len() && #[trigger] outs[i] == Some(x);
            if i == outs.len() - 1 {
                assert(r == r1.push(x));
                assert(r[r1.len() as int] == x);
            } else {
                assert(o1[i] == Some(x));
                assert(r1.contains(x));
                let k = choose|k: int| 0 <= k < r1.len() && r1[k] == x;
                assert(r[k] == x);
            }
        }
    }
}
/// the members of the deduplicated list are members of the list
pub proof fn lemma_dedup_members<T: PartialEq>(s: Seq<T>)
    ensures forall|x: T| #[trigger] sw_dedup(s).contains(x) ==> s.contains(x),
    decreases s.len(),
{
    let d = sw_dedup(s);
    if s.len() > 1 {
        let s1 = s.drop_last();
        let d1 = sw_dedup(s1);
        lemma_dedup_members(s1);
        assert forall|x: T| #[trigger] d.contains(x) implies s.contains(x) by {
            let k = choose|k: int| 0 <= k < d.len() && d[k] == x;
            if k < d1.len() {
                assert(d1[k] == x);
                assert(d1.contains(x));
                let i = choose|i: int| 0 <= i < s1.len() && s1[i] == x;
                assert(s[i] == x);
            } else {
                assert(s[s.len() - 1] == x);
            }
        }
    }
}

// ---- A-derive: derived PartialOrd / Ord of VehicleTypeIdx (`struct VehicleTypeIdx(pub Idx)`: the index) ----
pub open spec fn vt_rank(vt: VehicleTypeIdx) -> int { vt.0 as int }
impl vstd::std_specs::cmp::PartialOrdSpecImpl for VehicleTypeIdx {
    open spec fn obeys_partial_cmp_spec() -> bool { true }
    open spec fn partial_cmp_spec(&self, other: &VehicleTypeIdx) -> Option<core::cmp::Ordering> { Some(int_cmp(vt_rank(*self), vt_rank(*other))) }
}
impl vstd::std_specs::cmp::OrdSpecImpl for VehicleTypeIdx {
    open spec fn obeys_cmp_spec() -> bool { true }
    open spec fn cmp_spec(&self, other: &VehicleTypeIdx) -> core::cmp::Ordering { int_cmp(vt_rank(*self), vt_rank(*other)) }
}
/// strictly ascending type indices: "sorted, deduplicated" (in particular duplicate-free)
pub open spec fn vt_strict(s: Seq<VehicleTypeIdx>) -> bool {
    forall|i: int, j: int| #![trigger s[i], s[j]] 0 <= i < j < s.len() ==> vt_rank(s[i]) < vt_rank(s[j])
}
/// sort + dedup of a list of type indices: strictly ascending, same members
pub proof fn lemma_dedup_sorted(s: Seq<VehicleTypeIdx>)
    requires sw_sorted(s),
    ensures
        vt_strict(sw_dedup(s)),
        forall|x: VehicleTypeIdx| #[trigger] sw_dedup(s).contains(x) <==> s.contains(x),
        s.len() > 0 ==> sw_dedup(s).len() > 0 && sw_dedup(s).last() == s.last(),
    decreases s.len(),
{
    let d = sw_dedup(s);
    if s.len() <= 1 {
    } else {
        let s1 = s.drop_last();
        let d1 = sw_dedup(s1);
        let y = s.last();
        assert(sw_sorted(s1)) by {
            assert forall|i: int, j: int| #![trigger s1[i], s1[j]] 0 <= i < j < s1.len() implies !(s1[i].cmp_spec(&s1[j]) is Greater) by {
                assert(s1[i] == s[i] && s1[j] == s[j]);
            }
        }
        lemma_dedup_sorted(s1);
        assert(s1.last() == s[s.len() - 2]);
        assert forall|x: VehicleTypeIdx| s.contains(x) <==> (s1.contains(x) || x == y) by {
            if s.contains(x) {
                let i = choose|i: int| 0 <= i < s.len() && s[i] == x;
                if i < s1.len() { assert(s1[i] == x); }
            }
            if s1.contains(x) {
                let i = choose|i: int| 0 <= i < s1.len() && s1[i] == x;
                assert(s[i] == x);
            }
            if x == y { assert(s[s.len() - 1] == x); }
        }
        if y == s[s.len() - 2] {
            assert(d == d1);
            assert(s1.contains(y)) by { assert(s1[s1.len() - 1] == y); }
        } else {
            assert(d == d1.push(y));
            assert(d.last() == y);
            assert forall|x: VehicleTypeIdx| #[trigger] d.contains(x) <==> (d1.contains(x) || x == y) by {
                if d.contains(x) {
                    let i = choose|i: int| 0 <= i < d.len() && d[i] == x;
                    if i < d1.len() { assert(d1[i] == x); }
                }
                if d1.contains(x) {
                    let i = choose|i: int| 0 <= i < d1.len() && d1[i] == x;
                    assert(d[i] == x);
                }
                if x == y { assert(d[d1.len() as int] == x); }
            }
            assert forall|i: int, j: int| #![trigger d[i], d[j]] 0 <= i < j < d.len() implies vt_rank(d[i]) < vt_rank(d[j]) by {
                if j < d1.len() {
                    assert(d[i] == d1[i] && d[j] == d1[j]);
                } else {
                    // d[j] == y; d[i] is a member of s1, hence at most s1.last() < y
                    assert(d[i] == d1[i]);
                    assert(d1.contains(d1[i]));
                    assert(s1.contains(d1[i]));
                    let k = choose|k: int| 0 <= k < s1.len() && s1[k] == d1[i];
                    assert(s[k] == d1[i]);
                    assert(!(s[k].cmp_spec(&s[s.len() - 2]) is Greater) || k == s.len() - 2);
                    assert(!(s[s.len() - 2].cmp_spec(&s[s.len() - 1]) is Greater));
                    assert(vt_rank(s[s.len() - 2]) != vt_rank(y));
                }
            }
        }
    }
}
/// a strictly ascending list is determined by its members
pub proof fn lemma_vt_strict_unique(a: Seq<VehicleTypeIdx>, b: Seq<VehicleTypeIdx>)
    requires vt_strict(a), vt_strict(b), forall|x: VehicleTypeIdx| a.contains(x) <==> b.contains(x),
    ensures a == b,
    decreases a.len(),
{
    if a.len() == 0 {
        if b.len() > 0 { assert(b.contains(b[0])); assert(a.contains(b[0])); }
        assert(a =~= b);
    } else {
        let x = a.last();
        assert(a.contains(x)) by { assert(a[a.len() - 1] == x); }
        assert(b.contains(x));
        let k = choose|k: int| 0 <= k < b.len() && b[k] == x;
        // x is the last entry of b: a later one would be a member of a above a's maximum
        if k < b.len() - 1 {
            let y = b[b.len() - 1];
            assert(b.contains(y));
            assert(a.contains(y));
            let m = choose|m: int| 0 <= m < a.len() && a[m] == y;
            assert(vt_rank(b[k]) < vt_rank(b[b.len() - 1]));
            if m < a.len() - 1 { assert(vt_rank(a[m]) < vt_rank(a[a.len() - 1])); }
        }
        let a1 = a.drop_last();
        let b1 = b.drop_last();
        assert(vt_strict(a1)) by {
            assert forall|i: int, j: int| #![trigger a1[i], a1[j]] 0 <= i < j < a1.len() implies vt_rank(a1[i]) < vt_rank(a1[j]) by { assert(a1[i] == a[i] && a1[j] == a[j]); }
        }
        assert(vt_strict(b1)) by {
            assert forall|i: int, j: int| #![trigger b1[i], b1[j]] 0 <= i < j < b1.len() implies vt_rank(b1[i]) < vt_rank(b1[j]) by { assert(b1[i] == b[i] && b1[j] == b[j]); }
        }
        assert forall|z: VehicleTypeIdx| a1.contains(z) <==> b1.contains(z) by {
            if a1.contains(z) {
                let i = choose|i: int| 0 <= i < a1.len() && a1[i] == z;
                assert(a[i] == z && vt_rank(a[i]) < vt_rank(a[a.len() - 1]));
                assert(a.contains(z));
                assert(b.contains(z));
                let j = choose|j: int| 0 <= j < b.len() && b[j] == z;
                assert(j < b.len() - 1);
                assert(b1[j] == z);
            }
            if b1.contains(z) {
                let j = choose|j: int| 0 <= j < b1.len() && b1[j] == z;
                assert(b[j] == z && vt_rank(b[j]) < vt_rank(b[b.len() - 1]));
                assert(b.contains(z));
                assert(a.contains(z));
                let i = choose|i: int| 0 <= i < a.len() && a[i] == z;
                assert(i < a.len() - 1);
                assert(a1[i] == z);
            }
        }
        lemma_vt_strict_unique(a1, b1);
        assert(a =~= a1.push(x));
        assert(b =~= b1.push(x));
    }
}

// =====================================================================================================
// A-clone: the derived Clone of Schedule (im maps, Vecs, scalars, an Arc) yields an equal schedule
// =====================================================================================================
impl Clone for Schedule {
    #[verifier::external_body]
    fn clone(&self) -> (r: Self)
        ensures r == *self,
    { unimplemented!() }
}

// =====================================================================================================
// A-wire: the schedule modifications the swaps call.  Each is a stub `r == sw::<callee>(arguments)` for an
// UNINTERPRETED spec function: the only thing assumed about a modification is that its result is a function
// of the schedule it is applied to and of its arguments (a path / a list enters as its node / item sequence).
// The modifications themselves are verified in the slices remove_segment, add_path, override_reassign,
// fit_reassign, spawn_vehicle, dummy_ops and depot_ops.
// =====================================================================================================
pub mod sw {
use super::*;
use vstd::prelude::*;
pub uninterp spec fn remove_segment(s: Schedule, segment: Segment, vehicle: VehicleIdx) -> Result<Schedule, String>;
pub uninterp spec fn add_path_to_vehicle_tour(s: Schedule, vehicle: VehicleIdx, path_nodes: Seq<NodeIdx>, path_network: Arc<Network>) -> Result<(Schedule, Option<Path>), String>;
pub uninterp spec fn override_reassign(s: Schedule, segment: Segment, provider: VehicleIdx, receiver: VehicleIdx) -> Result<(Schedule, Option<VehicleIdx>), String>;
pub uninterp spec fn fit_reassign(s: Schedule, segment: Segment, provider: VehicleIdx, receiver: VehicleIdx) -> Result<Schedule, String>;
pub uninterp spec fn spawn_vehicle_for_path(s: Schedule, vehicle_type: VehicleTypeIdx, path: Seq<NodeIdx>) -> Result<(Schedule, VehicleIdx), String>;
pub uninterp spec fn spawn_vehicle_to_replace_dummy_tour(s: Schedule, dummy: VehicleIdx, vehicle_type: VehicleTypeIdx) -> Result<(Schedule, VehicleIdx), String>;
pub uninterp spec fn improve_depots(s: Schedule, vehicles: Option<Seq<VehicleIdx>>) -> Schedule;
pub uninterp spec fn recompute_transitions_for(s: Schedule, vehicle_types: Option<Seq<VehicleTypeIdx>>) -> Schedule;
/// an optional list as an optional sequence
pub open spec fn opt_seq<T>(o: Option<Vec<T>>) -> Option<Seq<T>> {
    match o { Some(v) => Some(v@), None => None }
}
} // mod sw

// =====================================================================================================
// C11, transcribed: what each neighbourhood move produces, as a composition of the modifications
// =====================================================================================================
/// the segment that consists of one node
pub open spec fn single(node: NodeIdx) -> Segment { Segment { start: node, end: node } }

// ---- improve_depot_and_recompute_transitions ("finally improve the depots of [the changed vehicles]";
// "make vehicle types unique") ------------------------------------------------------------------------
/// the schedule with the depots of the changed vehicles improved
pub open spec fn idr_improved(s: Schedule, changed: Seq<VehicleIdx>) -> Schedule { sw::improve_depots(s, Some(changed)) }
/// vt is the type (in s) of one of the changed vehicles
pub open spec fn idr_changed_type(s: Schedule, changed: Seq<VehicleIdx>, vt: VehicleTypeIdx) -> bool {
    exists|i: int| 0 <= i < changed.len() && s.type_of(#[trigger] changed[i]) == vt
}
/// vt is the type of a changed vehicle and, after the depots were improved, the rotation cycles of vt have a
/// positive maintenance violation: the types whose transitions are recomputed
pub open spec fn idr_recomputed_type(s: Schedule, changed: Seq<VehicleIdx>, vt: VehicleTypeIdx) -> bool {
    idr_changed_type(s, changed, vt)
        && idr_improved(s, changed).next_period_transitions@[vt].total_maintenance_violation > 0
}
/// the list of those types: each exactly once, ascending (unique: lemma_vt_strict_unique)
pub open spec fn idr_type_list(s: Schedule, changed: Seq<VehicleIdx>, types: Seq<VehicleTypeIdx>) -> bool {
    vt_strict(types) && forall|vt: VehicleTypeIdx| #[trigger] types.contains(vt) <==> idr_recomputed_type(s, changed, vt)
}
/// the composition: improve the depots of the changed vehicles, then recompute the transitions of exactly the
/// types of idr_type_list
pub open spec fn idr_result(s: Schedule, changed: Seq<VehicleIdx>, r: Schedule) -> bool {
    exists|types: Seq<VehicleTypeIdx>| #[trigger] idr_type_list(s, changed, types)
        && r == sw::recompute_transitions_for(idr_improved(s, changed), Some(types))
}
/// "assumes that all vehicles are real vehicles in the given schedule" (`vehicle_type_of(v).unwrap()`); and the
/// improved schedule still has rotation cycles for their types (`next_day_transition_of`: `.get(..).unwrap()`)
pub open spec fn idr_req(s: Schedule, changed: Seq<VehicleIdx>) -> bool {
    &&& forall|i: int| 0 <= i < changed.len() ==> s.vehicles@.contains_key(#[trigger] changed[i])
    &&& forall|i: int| 0 <= i < changed.len() ==>
            idr_improved(s, changed).next_period_transitions@.contains_key(s.type_of(#[trigger] changed[i]))
}
/// the two candidate type lists of one (s, changed) are the same list: idr_result determines r
pub proof fn lemma_idr_result_unique(s: Schedule, changed: Seq<VehicleIdx>, r1: Schedule, r2: Schedule)
    requires idr_result(s, changed, r1), idr_result(s, changed, r2),
    ensures r1 == r2,
{
    let t1 = choose|types: Seq<VehicleTypeIdx>| #[trigger] idr_type_list(s, changed, types)
        && r1 == sw::recompute_transitions_for(idr_improved(s, changed), Some(types));
    let t2 = choose|types: Seq<VehicleTypeIdx>| #[trigger] idr_type_list(s, changed, types)
        && r2 == sw::recompute_transitions_for(idr_improved(s, changed), Some(types));
    assert forall|x: VehicleTypeIdx| t1.contains(x) <==> t2.contains(x) by {}
    lemma_vt_strict_unique(t1, t2);
}

/// what the filter_map closure yields for one type: the type if its rotation cycles in s2 have a positive violation
pub open spec fn idr_keep(s2: Schedule, vt: VehicleTypeIdx) -> Option<VehicleTypeIdx> {
    if s2.next_period_transitions@[vt].total_maintenance_violation > 0 { Some(vt) } else { None }
}
/// the filter_map over the changed vehicles' types keeps exactly the types to recompute
pub proof fn lemma_positive_types(s: Schedule, changed: Seq<VehicleIdx>, vts: Seq<VehicleTypeIdx>, outs: Seq<Option<VehicleTypeIdx>>, vt: VehicleTypeIdx)
    requires
        vts.len() == changed.len(), forall|i: int| 0 <= i < changed.len() ==> #[trigger] vts[i] == s.type_of(changed[i]),
        outs.len() == vts.len(), forall|i: int| 0 <= i < outs.len() ==> #[trigger] outs[i] == idr_keep(idr_improved(s, changed), vts[i]),
    ensures sw_somes(outs).contains(vt) <==> idr_recomputed_type(s, changed, vt),
{
    lemma_somes_contains(outs, vt);
    if sw_somes(outs).contains(vt) {
        let i = choose|i: int| 0 <= i < outs.len() && #[trigger] outs[i] == Some(vt);
        assert(vts[i] == vt);
        assert(s.type_of(changed[i]) == vt);
    }
    if idr_recomputed_type(s, changed, vt) {
        let i = choose|i: int| 0 <= i < changed.len() && s.type_of(#[trigger] changed[i]) == vt;
        assert(vts[i] == vt);
        assert(outs[i] == Some(vt));
    }
}
/// sort + dedup of the kept types yields the type list
pub proof fn lemma_sorted_dedup_is_type_list(s: Schedule, changed: Seq<VehicleIdx>, listed: Seq<VehicleTypeIdx>, q: Seq<VehicleTypeIdx>)
    requires
        forall|vt: VehicleTypeIdx| #[trigger] listed.contains(vt) <==> idr_recomputed_type(s, changed, vt),
        q.to_multiset() == listed.to_multiset(), sw_sorted(q),
    ensures idr_type_list(s, changed, sw_dedup(q)),
{
    q.to_multiset_ensures();
    listed.to_multiset_ensures();
    assert forall|vt: VehicleTypeIdx| #[trigger] q.contains(vt) <==> listed.contains(vt) by {
        assert(q.to_multiset().count(vt) == listed.to_multiset().count(vt));
        assert(q.contains(vt) <==> q.to_multiset().count(vt) > 0);
        assert(listed.contains(vt) <==> listed.to_multiset().count(vt) > 0);
    }
    lemma_dedup_sorted(q);
}
/// those of the listed vehicles that are real vehicles of the schedule, in order
pub open spec fn sw_keep(vs: Seq<VehicleIdx>, sched: Schedule) -> Seq<VehicleIdx>
    decreases vs.len(),
{
    if vs.len() == 0 { vs }
    else {
        let r = sw_keep(vs.drop_last(), sched);
        if sched.vehicles@.contains_key(vs.last()) { r.push(vs.last()) } else { r }
    }
}
/// `retain(|&v| sched.is_vehicle(v))` leaves sw_keep
pub proof fn lemma_mask_is_keep(vs: Seq<VehicleIdx>, mask: Seq<bool>, sched: Schedule)
    requires mask.len() == vs.len(), forall|i: int| 0 <= i < vs.len() ==> #[trigger] mask[i] == sched.vehicles@.contains_key(vs[i]),
    ensures mask_filter(vs, mask) == sw_keep(vs, sched),
    decreases vs.len(),
{
    if vs.len() > 0 {
        lemma_mask_is_keep(vs.drop_last(), mask.drop_last(), sched);
    } else {
        assert(mask_filter(vs, mask) =~= sw_keep(vs, sched));
    }
}
/// every vehicle that is kept (and survives dedup) is a real vehicle of the schedule
pub proof fn lemma_keep_members(vs: Seq<VehicleIdx>, sched: Schedule)
    ensures forall|x: VehicleIdx| #[trigger] sw_keep(vs, sched).contains(x) ==> sched.vehicles@.contains_key(x),
    decreases vs.len(),
{
    let r = sw_keep(vs, sched);
    if vs.len() > 0 {
        let r1 = sw_keep(vs.drop_last(), sched);
        lemma_keep_members(vs.drop_last(), sched);
        assert forall|x: VehicleIdx| #[trigger] r.contains(x) implies sched.vehicles@.contains_key(x) by {
            let k = choose|k: int| 0 <= k < r.len() && r[k] == x;
            if k < r1.len() { assert(r1[k] == x); assert(r1.contains(x)); }
        }
    }
}
pub proof fn lemma_changed_are_vehicles(vs: Seq<VehicleIdx>, sched: Schedule)
    ensures forall|i: int| 0 <= i < sw_dedup(sw_keep(vs, sched)).len() ==> sched.vehicles@.contains_key(#[trigger] sw_dedup(sw_keep(vs, sched))[i]),
{
    let d = sw_dedup(sw_keep(vs, sched));
    lemma_dedup_members(sw_keep(vs, sched));
    lemma_keep_members(vs, sched);
    assert forall|i: int| 0 <= i < d.len() implies sched.vehicles@.contains_key(#[trigger] d[i]) by {
        assert(d.contains(d[i]));
    }
}

// ---- the hand-declared trait ---------------------------------------------------------------------------
/// A-dyn (interface stub): `pub trait Swap: fmt::Display + Send + Sync { fn apply(&self, schedule: &Schedule) ->
/// Result<Schedule, String>; }` declared without the marker / Display bounds and with a precondition hook: Verus does
/// not allow an impl to add `requires`, so the stated preconditions of each move (`<Move>::req`) are attached to the
/// declaration through `swap_req`, fixed per implementing type by the axioms below.
pub trait Swap {
    fn apply(&self, schedule: &Schedule) -> Result<Schedule, String>
        requires swap_req(self, schedule);
}
/// the precondition hook; fixed for the four moves by axiom_req_*, abstract for any other implementor
pub uninterp spec fn swap_req<W: ?Sized>(swap: &W, schedule: &Schedule) -> bool;

// ---- RemoveSingleNode ----------------------------------------------------------------------------------
impl RemoveSingleNode {
    /// no `unwrap` / index in the body: nothing to require
    pub open spec fn req(&self, s: &Schedule) -> bool { true }
    /// C11 / code: the candidate is the schedule with the one-node segment [node, node] removed from the vehicle
    pub open spec fn result(&self, s: &Schedule) -> Result<Schedule, String> {
        sw::remove_segment(*s, single(self.node), self.vehicle)
    }
}
pub axiom fn axiom_req_remove_single_node(w: &RemoveSingleNode, s: &Schedule)
    ensures swap_req(w, s) == w.req(s); // @obl C11.remove_single_node.no_panic_under_stated_preconditions

// ---- AddTripForHitchHiking ("Adds a trip for hitch hiking to a vehicle.") -----------------------------
/// C02: the applicable formation limit of a service trip (the smaller of the limits that are present)
pub open spec fn sw_formation_limit(net: &Network, n: NodeIdx) -> Option<VehicleCount> {
    combined_limit(net.vehicle_types.vehicle_types@[net.sp_trip(n).vehicle_type].maximal_formation_count, net.sp_trip(n).maximal_formation_count)
}
impl AddTripForHitchHiking {
    /// the add_path step
    pub open spec fn added(&self, s: &Schedule) -> Result<(Schedule, Option<Path>), String> {
        sw::add_path_to_vehicle_tour(*s, self.vehicle, seq![self.node], s.network)
    }
    /// "node is already fully occupied": the trip has a formation limit and its formation has reached it
    pub open spec fn full(&self, s: &Schedule) -> bool {
        sw_formation_limit(&s.network, self.node) is Some
            && s.train_formations@[self.node].formation@.len() >= sw_formation_limit(&s.network, self.node)->Some_0
    }
    /// the stated preconditions
    pub open spec fn req(&self, s: &Schedule) -> bool {
        // the node is a service trip of the network whose vehicle type exists (`node(..).as_service_trip()`,
        // `vehicle_types.get(..).unwrap()` in maximal_formation_count_for; `assert!(!..is_depot())` in Path::new_from_single_node)
        &&& s.network.wf() && s.network.is_trip(self.node)
        // it has a formation (`train_formations.get(&node).unwrap()`), whose length fits a VehicleCount
        &&& s.train_formations@.contains_key(self.node) && s.train_formations@[self.node].formation@.len() <= u32::MAX
        // when the trip was added without conflict, the vehicle is a real vehicle of the resulting schedule
        // ("assumes that all vehicles are real vehicles in the given schedule")
        &&& !self.full(s) && self.added(s) is Ok && self.added(s)->Ok_0.1 is None ==> idr_req(self.added(s)->Ok_0.0, seq![self.vehicle])
    }
    /// C11 / code: Err if the node's formation is already at its limit, else the add_path result; Err if that is an
    /// error or reports a conflict; else its schedule with the vehicle's depots improved and transitions recomputed
    pub open spec fn result(&self, s: &Schedule, r: Result<Schedule, String>) -> bool {
        if self.full(s) { r is Err }
        else if self.added(s) is Err { r is Err }
        else if self.added(s)->Ok_0.1 is Some { r is Err }
        else { r is Ok && idr_result(self.added(s)->Ok_0.0, seq![self.vehicle], r->Ok_0) }
    }
}
pub axiom fn axiom_req_add_trip_for_hitch_hiking(w: &AddTripForHitchHiking, s: &Schedule)
    ensures swap_req(w, s) == w.req(s);
/// the stated preconditions are what the `unwrap`s / `assert!` of the body (and of the accessors it calls) need
pub proof fn lemma_no_panic_add_trip_for_hitch_hiking(w: &AddTripForHitchHiking, s: &Schedule)
    requires w.req(s),
    ensures
        // maximal_formation_count_for: `node(..).as_service_trip()`, `vehicle_types.get(..).unwrap()`
        s.network.is_trip(w.node), // @obl C11.add_trip_for_hitch_hiking.no_panic_under_stated_preconditions
        // train_formation_of: `.get(&node).unwrap()`; vehicle_count: the length fits
        s.train_formations@.contains_key(w.node) && s.train_formations@[w.node].formation@.len() <= u32::MAX, // @obl C11.add_trip_for_hitch_hiking.no_panic_under_stated_preconditions
        // Path::new_from_single_node: `assert!(!network.node(node).is_depot())`
        s.network.wf() && s.network.has(w.node) && !s.network.sp_node(w.node).sp_is_depot(), // @obl C11.add_trip_for_hitch_hiking.no_panic_under_stated_preconditions
{
}

// ---- SpawnVehicleForMaintenance ("Forces a maintenance slot to a given vehicle and spawns a new vehicle for the
// conflict path.  If the maintenance slot is already fully occupied, the last occupant is removed.") ----------
impl SpawnVehicleForMaintenance {
    /// the vehicles in the slot's formation, in formation order
    pub open spec fn occupants(&self, s: &Schedule) -> Seq<VehicleIdx> {
        s.train_formations@[self.maintenance_slot].formation@.map_values(|v: Vehicle| v.idx)
    }
    /// "maintenance slot is already fully occupied"
    pub open spec fn slot_full(&self, s: &Schedule) -> bool {
        self.occupants(s).len() as u32 >= s.network.sp_node(self.maintenance_slot)->Maintenance_0.1.track_count
    }
    pub open spec fn last_occupant(&self, s: &Schedule) -> VehicleIdx { self.occupants(s).last() }
    /// step 1: "remove the last occupant"
    pub open spec fn removed(&self, s: &Schedule) -> Result<Schedule, String> {
        sw::remove_segment(*s, single(self.maintenance_slot), self.last_occupant(s))
    }
    /// the schedule after step 1 (only meaningful if it did not fail)
    pub open spec fn schedule1(&self, s: &Schedule) -> Schedule {
        if self.slot_full(s) { self.removed(s)->Ok_0 } else { *s }
    }
    /// the vehicles whose tours changed in step 1: the last occupant, unless it lost its whole tour
    pub open spec fn changed1(&self, s: &Schedule) -> Seq<VehicleIdx> {
        if self.slot_full(s) && self.schedule1(s).vehicles@.contains_key(self.last_occupant(s)) { seq![self.last_occupant(s)] } else { seq![] }
    }
    /// step 2: "add the maintenance slot to the vehicle's tour"
    pub open spec fn added(&self, s: &Schedule) -> Result<(Schedule, Option<Path>), String> {
        sw::add_path_to_vehicle_tour(self.schedule1(s), self.vehicle, seq![self.maintenance_slot], s.network)
    }
    pub open spec fn conflict(&self, s: &Schedule) -> Option<Path> { self.added(s)->Ok_0.1 }
    /// step 3: "spawn a new vehicle for the conflict path" (of the vehicle's type)
    pub open spec fn spawned(&self, s: &Schedule) -> Result<(Schedule, VehicleIdx), String> {
        sw::spawn_vehicle_for_path(self.added(s)->Ok_0.0, s.type_of(self.vehicle), self.conflict(s)->Some_0.node_sequence@)
    }
    pub open spec fn schedule3(&self, s: &Schedule) -> Schedule {
        if self.conflict(s) is Some { self.spawned(s)->Ok_0.0 } else { self.added(s)->Ok_0.0 }
    }
    /// all vehicles whose tours changed: (last occupant,) the vehicle (, the new vehicle)
    pub open spec fn changed3(&self, s: &Schedule) -> Seq<VehicleIdx> {
        let c2 = self.changed1(s).push(self.vehicle);
        if self.conflict(s) is Some { c2.push(self.spawned(s)->Ok_0.1) } else { c2 }
    }
    /// the three steps succeed
    pub open spec fn steps_ok(&self, s: &Schedule) -> bool {
        &&& self.slot_full(s) ==> self.removed(s) is Ok
        &&& self.added(s) is Ok
        &&& self.conflict(s) is Some ==> self.spawned(s) is Ok
    }
    /// the stated preconditions
    pub open spec fn req(&self, s: &Schedule) -> bool {
        // the vehicle is a real vehicle with a tour (`tour_of(..).unwrap()`, `vehicle_type_of(..).unwrap()`)
        &&& s.vehicles@.contains_key(self.vehicle) && s.tours@.contains_key(self.vehicle)
        // the slot is a maintenance node of the network (`node(..).as_maintenance_slot()`, `assert!(!..is_depot())`)
        &&& s.network.wf() && s.network.has(self.maintenance_slot) && s.network.sp_node(self.maintenance_slot) is Maintenance
        // it has a formation (`train_formations.get(&slot).unwrap()`)
        &&& s.train_formations@.contains_key(self.maintenance_slot)
        // a full slot has an occupant (`occupants.last().unwrap()`): no slot with zero tracks
        &&& self.slot_full(s) ==> self.occupants(s).len() > 0
        // when all steps succeeded, the changed vehicles are real vehicles of the resulting schedule
        &&& !s.tours@[self.vehicle].visits_maintenance && self.steps_ok(s) ==> idr_req(self.schedule3(s), self.changed3(s))
    }
    /// C11 / code
    pub open spec fn result(&self, s: &Schedule, r: Result<Schedule, String>) -> bool {
        // "Vehicle {} already visits maintenance slot"
        if s.tours@[self.vehicle].visits_maintenance { r is Err }
        else if !self.steps_ok(s) { r is Err }
        else { r is Ok && idr_result(self.schedule3(s), self.changed3(s), r->Ok_0) }
    }
}
pub axiom fn axiom_req_spawn_vehicle_for_maintenance(w: &SpawnVehicleForMaintenance, s: &Schedule)
    ensures swap_req(w, s) == w.req(s);
/// the stated preconditions are what the `unwrap`s / `assert!` of the body (and of the accessors it calls) need
pub proof fn lemma_no_panic_spawn_vehicle_for_maintenance(w: &SpawnVehicleForMaintenance, s: &Schedule)
    requires w.req(s),
    ensures
        // `tour_of(vehicle).unwrap()`, `vehicle_type_of(vehicle).unwrap()`
        s.has_tour(w.vehicle) && s.sp_tour_of(w.vehicle) == s.tours@[w.vehicle] && s.vehicles@.contains_key(w.vehicle), // @obl C11.spawn_vehicle_for_maintenance.no_panic_under_stated_preconditions
        // train_formation_of: `.get(&slot).unwrap()`
        s.train_formations@.contains_key(w.maintenance_slot), // @obl C11.spawn_vehicle_for_maintenance.no_panic_under_stated_preconditions
        // track_count_of_maintenance_slot: `as_maintenance_slot()`; Path::new_from_single_node: `assert!(!..is_depot())`
        s.network.wf() && s.network.has(w.maintenance_slot) && s.network.sp_node(w.maintenance_slot) is Maintenance
            && !s.network.sp_node(w.maintenance_slot).sp_is_depot(), // @obl C11.spawn_vehicle_for_maintenance.no_panic_under_stated_preconditions
        // `occupants.last().unwrap()`
        w.slot_full(s) ==> w.occupants(s).len() > 0, // @obl C11.spawn_vehicle_for_maintenance.no_panic_under_stated_preconditions
{
}

// ---- PathExchange ("Removes the path from the provider's tour and insert it into the receiver's tour.  All removed
// nodes that are removed from receiver's tour (due to conflicts) are tried to insert conflict-free into the provider's
// tour.") ------------------------------------------------------------------------------------------------------
/// which of the documented cases applies
pub enum PxCase {
    /// "no nodes were removed from receiver's tour -> no need for fit_reassign"
    NoConflict,
    /// "provider (dummy) got removed -> no need for fit_reassign, no new vehicle"
    DummyProviderGone,
    /// "provider (real) got removed -> no need for fit_reassign, but spawn new vehicle"
    RealProviderGone,
    /// "provider still present -> try to fit the full tour of the new dummy into [provider's] tour"
    ProviderPresent,
}
impl PathExchange {
    /// step 1: the segment moves from the provider to the receiver, conflicting nodes go to a new dummy
    pub open spec fn overridden(&self, s: &Schedule) -> Result<(Schedule, Option<VehicleIdx>), String> {
        sw::override_reassign(*s, self.segment, self.provider, self.receiver)
    }
    pub open spec fn first(&self, s: &Schedule) -> Schedule { self.overridden(s)->Ok_0.0 }
    pub open spec fn new_dummy(&self, s: &Schedule) -> Option<VehicleIdx> { self.overridden(s)->Ok_0.1 }
    pub open spec fn case(&self, s: &Schedule) -> PxCase {
        let f = self.first(s);
        if self.new_dummy(s) is None { PxCase::NoConflict }
        else if f.vehicles@.contains_key(self.provider) || f.dummy_tours@.contains_key(self.provider) { PxCase::ProviderPresent }
        else if s.vehicles@.contains_key(self.provider) { PxCase::RealProviderGone }
        else { PxCase::DummyProviderGone }
    }
    /// RealProviderGone: a vehicle of the provider's type replaces the new dummy
    pub open spec fn respawned(&self, s: &Schedule) -> Result<(Schedule, VehicleIdx), String> {
        sw::spawn_vehicle_to_replace_dummy_tour(self.first(s), self.new_dummy(s)->Some_0, s.type_of(self.provider))
    }
    /// ProviderPresent: the full tour of the new dummy is offered back to the provider
    pub open spec fn refitted(&self, s: &Schedule) -> Result<Schedule, String> {
        let t = self.first(s).sp_tour_of(self.new_dummy(s)->Some_0);
        sw::fit_reassign(self.first(s), Segment { start: t.nodes@[0], end: t.nodes@[t.nodes@.len() - 1] }, self.new_dummy(s)->Some_0, self.provider)
    }
    /// step 2 succeeds
    pub open spec fn second_ok(&self, s: &Schedule) -> bool {
        match self.case(s) {
            PxCase::RealProviderGone => self.respawned(s) is Ok,
            PxCase::ProviderPresent => self.refitted(s) is Ok,
            _ => true,
        }
    }
    pub open spec fn second(&self, s: &Schedule) -> Schedule {
        match self.case(s) {
            PxCase::RealProviderGone => self.respawned(s)->Ok_0.0,
            PxCase::ProviderPresent => self.refitted(s)->Ok_0,
            _ => self.first(s),
        }
    }
    /// the vehicles whose tours changed: the receiver if it is a real vehicle; the replacement vehicle resp. the
    /// provider
    pub open spec fn touched(&self, s: &Schedule) -> Seq<VehicleIdx> {
        let c0 = if s.vehicles@.contains_key(self.receiver) { seq![self.receiver] } else { seq![] };
        match self.case(s) {
            PxCase::RealProviderGone => c0.push(self.respawned(s)->Ok_0.1),
            PxCase::ProviderPresent => c0.push(self.provider),
            _ => c0,
        }
    }
    /// "finally improve the depots of receiver (and provider if still present)": those of the touched vehicles that
    /// are real vehicles of the second schedule, consecutive repetitions dropped
    pub open spec fn changed(&self, s: &Schedule) -> Seq<VehicleIdx> {
        sw_dedup(sw_keep(self.touched(s), self.second(s)))
    }
    /// the stated preconditions
    pub open spec fn req(&self, s: &Schedule) -> bool {
        // ProviderPresent: the dummy reported by override_reassign has a non-empty tour in its result
        // (`first_schedule.tour_of(new_dummy).unwrap()`, `tour.first_node()` / `tour.last_node()`: `nodes[0]`, `nodes.len() - 1`)
        &&& self.overridden(s) is Ok && self.case(s) is ProviderPresent ==>
                self.first(s).has_tour(self.new_dummy(s)->Some_0) && self.first(s).sp_tour_of(self.new_dummy(s)->Some_0).nodes@.len() >= 1
        // the improved schedule still has rotation cycles for the changed vehicles' types (that they are real
        // vehicles of the second schedule is established by the code: `retain(|&v| second_schedule.is_vehicle(v))`)
        &&& self.overridden(s) is Ok && self.second_ok(s) ==> forall|i: int| 0 <= i < self.changed(s).len() ==>
                idr_improved(self.second(s), self.changed(s)).next_period_transitions@.contains_key(self.second(s).type_of(#[trigger] self.changed(s)[i]))
    }
    /// C11 / code comments
    pub open spec fn result(&self, s: &Schedule, r: Result<Schedule, String>) -> bool {
        if self.overridden(s) is Err { r is Err }
        else if !self.second_ok(s) { r is Err }
        else { r is Ok && idr_result(self.second(s), self.changed(s), r->Ok_0) }
    }
}
pub axiom fn axiom_req_path_exchange(w: &PathExchange, s: &Schedule)
    ensures swap_req(w, s) == w.req(s);
/// the stated preconditions are what the `unwrap`s / indexings of the body (and of the accessors it calls) need
pub proof fn lemma_no_panic_path_exchange(w: &PathExchange, s: &Schedule)
    requires w.req(s),
    ensures
        // `first_schedule.tour_of(new_dummy).unwrap()`, `tour.first_node()`, `tour.last_node()`
        w.overridden(s) is Ok && w.case(s) is ProviderPresent ==>
            w.first(s).has_tour(w.new_dummy(s)->Some_0) && w.first(s).sp_tour_of(w.new_dummy(s)->Some_0).nodes@.len() >= 1, // @obl C11.path_exchange.no_panic_under_stated_preconditions
        // `vehicle_type_of(v).unwrap()` / `next_day_transition_of(vt)` inside improve_depot_and_recompute_transitions
        w.overridden(s) is Ok && w.second_ok(s) ==> idr_req(w.second(s), w.changed(s)), // @obl C11.path_exchange.no_panic_under_stated_preconditions
{
    if w.overridden(s) is Ok && w.second_ok(s) {
        lemma_changed_are_vehicles(w.touched(s), w.second(s));
    }
}
