// ---- rapid_time operators: specification (via vstd's *SpecImpl) and verbatim verified bodies ------
impl vstd::std_specs::cmp::PartialEqSpecImpl for DurationLength {
    open spec fn obeys_eq_spec() -> bool { true }
    open spec fn eq_spec(&self, other: &DurationLength) -> bool { self.seconds == other.seconds }
}
impl vstd::std_specs::cmp::PartialOrdSpecImpl for DurationLength {
    open spec fn obeys_partial_cmp_spec() -> bool { true }
    open spec fn partial_cmp_spec(&self, other: &DurationLength) -> Option<core::cmp::Ordering> {
        Some(int_cmp(self.seconds as int, other.seconds as int))
    }
}
impl vstd::std_specs::cmp::PartialEqSpecImpl for Duration {
    open spec fn obeys_eq_spec() -> bool { true }
    open spec fn eq_spec(&self, other: &Duration) -> bool { *self == *other }
}
pub open spec fn dur_rank(d: Duration) -> int {
    match d { Duration::Length(l) => l.seconds as int, Duration::Infinity => 0x1_0000_0000_0000_0000 }
}
impl vstd::std_specs::cmp::PartialOrdSpecImpl for Duration {
    open spec fn obeys_partial_cmp_spec() -> bool { true }
    open spec fn partial_cmp_spec(&self, other: &Duration) -> Option<core::cmp::Ordering> {
        Some(int_cmp(dur_rank(*self), dur_rank(*other)))
    }
}
impl vstd::std_specs::cmp::PartialEqSpecImpl for TimePoint {
    open spec fn obeys_eq_spec() -> bool { true }
    open spec fn eq_spec(&self, other: &TimePoint) -> bool { *self == *other }
}
impl vstd::std_specs::cmp::PartialEqSpecImpl for DateTime {
    open spec fn obeys_eq_spec() -> bool { true }
    open spec fn eq_spec(&self, other: &DateTime) -> bool { *self == *other }
}
/// derived lexicographic order (days, seconds) then variant order (A-derive); on dt_ok values it is
/// the order of dt_rank.
pub open spec fn tp_cmp(a: TimePoint, b: TimePoint) -> core::cmp::Ordering {
    if a.days != b.days { int_cmp(a.days as int, b.days as int) } else { int_cmp(a.seconds as int, b.seconds as int) }
}
pub open spec fn dt_variant(t: DateTime) -> int {
    match t { DateTime::Earliest => 0, DateTime::Point(_) => 1, DateTime::Latest => 2 }
}
pub open spec fn dt_cmp(a: DateTime, b: DateTime) -> core::cmp::Ordering {
    if dt_variant(a) != dt_variant(b) { int_cmp(dt_variant(a), dt_variant(b)) }
    else if a is Point { tp_cmp(a->Point_0, b->Point_0) }
    else { core::cmp::Ordering::Equal }
}
impl vstd::std_specs::cmp::PartialOrdSpecImpl for TimePoint {
    open spec fn obeys_partial_cmp_spec() -> bool { true }
    open spec fn partial_cmp_spec(&self, other: &TimePoint) -> Option<core::cmp::Ordering> { Some(tp_cmp(*self, *other)) }
}
impl vstd::std_specs::cmp::PartialOrdSpecImpl for DateTime {
    open spec fn obeys_partial_cmp_spec() -> bool { true }
    open spec fn partial_cmp_spec(&self, other: &DateTime) -> Option<core::cmp::Ordering> { Some(dt_cmp(*self, *other)) }
}
pub open spec fn int_cmp(a: int, b: int) -> core::cmp::Ordering {
    if a < b { core::cmp::Ordering::Less } else if a == b { core::cmp::Ordering::Equal } else { core::cmp::Ordering::Greater }
}
pub broadcast proof fn lemma_dt_cmp_rank(a: DateTime, b: DateTime)
    requires dt_ok(a), dt_ok(b),
    ensures #[trigger] dt_cmp(a, b) == int_cmp(dt_rank(a), dt_rank(b)),
{
    if a is Point && b is Point {
        let p = a->Point_0; let q = b->Point_0;
        assert(tp_secs(p) < tp_secs(q) <==> (p.days < q.days || (p.days == q.days && p.seconds < q.seconds))) by (nonlinear_arith)
            requires p.seconds < 86400, q.seconds < 86400;
    }
}

impl vstd::std_specs::ops::AddSpecImpl<DurationLength> for DurationLength {
    open spec fn obeys_add_spec() -> bool { true }
    open spec fn add_req(self, other: DurationLength) -> bool { self.seconds + other.seconds <= u64::MAX }
    open spec fn add_spec(self, other: DurationLength) -> DurationLength { DurationLength { seconds: (self.seconds + other.seconds) as u64 } }
}
impl vstd::std_specs::ops::SubSpecImpl<DurationLength> for DurationLength {
    open spec fn obeys_sub_spec() -> bool { true }
    open spec fn sub_req(self, other: DurationLength) -> bool { self.seconds >= other.seconds }
    open spec fn sub_spec(self, other: DurationLength) -> DurationLength { DurationLength { seconds: (self.seconds - other.seconds) as u64 } }
}
impl vstd::std_specs::ops::AddSpecImpl<Duration> for Duration {
    open spec fn obeys_add_spec() -> bool { true }
    open spec fn add_req(self, other: Duration) -> bool {
        self is Length && other is Length ==> self->Length_0.seconds + other->Length_0.seconds <= u64::MAX
    }
    open spec fn add_spec(self, other: Duration) -> Duration { dur_add(self, other) }
}
pub open spec fn dur_sub(a: Duration, b: Duration) -> Duration {
    if a is Infinity { Duration::Infinity }
    else { Duration::Length(DurationLength { seconds: (a->Length_0.seconds - b->Length_0.seconds) as u64 }) }
}
impl vstd::std_specs::ops::SubSpecImpl<Duration> for Duration {
    open spec fn obeys_sub_spec() -> bool { true }
    /// mirrors the assert!/panic! of the body: self >= other, and other finite
    open spec fn sub_req(self, other: Duration) -> bool { dur_rank(self) >= dur_rank(other) && other is Length }
    open spec fn sub_spec(self, other: Duration) -> Duration { dur_sub(self, other) }
}
impl vstd::std_specs::ops::AddSpecImpl<DurationLength> for TimePoint {
    open spec fn obeys_add_spec() -> bool { true }
    open spec fn add_req(self, other: DurationLength) -> bool {
        self.seconds as int + other.seconds as int <= u64::MAX && self.days + (self.seconds as int + other.seconds as int) / 86400 <= u64::MAX
    }
    open spec fn add_spec(self, other: DurationLength) -> TimePoint {
        let s = self.seconds as int + other.seconds as int;
        TimePoint { days: (self.days + s / 86400) as u64, seconds: (s % 86400) as u32 }
    }
}
impl vstd::std_specs::ops::SubSpecImpl<DurationLength> for TimePoint {
    open spec fn obeys_sub_spec() -> bool { true }
    open spec fn sub_req(self, other: DurationLength) -> bool {
        self.days as int * 86400 + self.seconds as int <= u64::MAX && tp_secs(self) >= other.seconds
    }
    open spec fn sub_spec(self, other: DurationLength) -> TimePoint {
        let s = tp_secs(self) - other.seconds as int;
        TimePoint { days: (s / 86400) as u64, seconds: (s % 86400) as u32 }
    }
}
impl vstd::std_specs::ops::SubSpecImpl<TimePoint> for TimePoint {
    open spec fn obeys_sub_spec() -> bool { true }
    open spec fn sub_req(self, other: TimePoint) -> bool {
        tp_secs(self) <= u64::MAX && tp_secs(other) <= u64::MAX && tp_secs(self) >= tp_secs(other)
    }
    open spec fn sub_spec(self, other: TimePoint) -> Duration {
        Duration::Length(DurationLength { seconds: (tp_secs(self) - tp_secs(other)) as u64 })
    }
}
impl vstd::std_specs::ops::AddSpecImpl<Duration> for DateTime {
    open spec fn obeys_add_spec() -> bool { true }
    open spec fn add_req(self, other: Duration) -> bool {
        self is Point && other is Length ==> {
            let s = self->Point_0.seconds as int + other->Length_0.seconds as int;
            s <= u64::MAX && self->Point_0.days + s / 86400 <= u64::MAX
        }
    }
    open spec fn add_spec(self, other: Duration) -> DateTime { dt_add(self, other) }
}
pub open spec fn dt_sub_dur(t: DateTime, d: Duration) -> DateTime {
    match t {
        DateTime::Earliest => DateTime::Earliest,
        DateTime::Latest => DateTime::Latest,
        DateTime::Point(p) => match d {
            Duration::Infinity => DateTime::Earliest,
            Duration::Length(l) => {
                let s = tp_secs(p) - l.seconds as int;
                DateTime::Point(TimePoint { days: (s / 86400) as u64, seconds: (s % 86400) as u32 })
            }
        }
    }
}
impl vstd::std_specs::ops::SubSpecImpl<Duration> for DateTime {
    open spec fn obeys_sub_spec() -> bool { true }
    open spec fn sub_req(self, other: Duration) -> bool {
        &&& (self is Latest ==> other is Length)
        &&& (self is Point && other is Length ==> tp_secs(self->Point_0) <= u64::MAX && tp_secs(self->Point_0) >= other->Length_0.seconds)
    }
    open spec fn sub_spec(self, other: Duration) -> DateTime { dt_sub_dur(self, other) }
}
pub open spec fn dt_sub(a: DateTime, b: DateTime) -> Duration {
    match a {
        DateTime::Earliest => Duration::Length(DurationLength { seconds: 0 }),
        DateTime::Latest => if b is Latest { Duration::Length(DurationLength { seconds: 0 }) } else { Duration::Infinity },
        DateTime::Point(p) => match b {
            DateTime::Point(q) => Duration::Length(DurationLength { seconds: (tp_secs(p) - tp_secs(q)) as u64 }),
            _ => Duration::Infinity,
        }
    }
}
impl vstd::std_specs::ops::SubSpecImpl<DateTime> for DateTime {
    open spec fn obeys_sub_spec() -> bool { true }
    /// mirrors `assert!(other <= self)`; both operands satisfy the type invariant dt_ok
    open spec fn sub_req(self, other: DateTime) -> bool {
        dt_ok(self) && dt_ok(other) && dt_small(self) && dt_small(other) && dt_le(other, self)
    }
    open spec fn sub_spec(self, other: DateTime) -> Duration { dt_sub(self, other) }
}

//@item @rapid_time/src/duration.rs impl Add for DurationLength
//@end
//@item @rapid_time/src/duration.rs impl Sub for DurationLength
//@end
//@item @rapid_time/src/duration.rs impl Add for Duration
//@end
//@item @rapid_time/src/duration.rs impl Sub for Duration
//@end
//@item @rapid_time/src/duration.rs Duration::ZERO
//@end
//@item @rapid_time/src/duration.rs Duration::from_seconds
//@retname r
//@sig
    ensures r == Duration::Length(DurationLength { seconds }),
//@end
//@item @rapid_time/src/duration.rs Duration::in_sec
//@retname r
//@sig
    ensures (self is Infinity ==> r is Err) && (self is Length ==> r == Ok::<u64, &str>(self->Length_0.seconds)),
//@end
//@item @rapid_time/src/date_time.rs impl Sub for TimePoint
//@end
//@item @rapid_time/src/date_time.rs impl Add<DurationLength> for TimePoint
//@end
//@item @rapid_time/src/date_time.rs impl Sub<DurationLength> for TimePoint
//@end
//@item @rapid_time/src/date_time.rs impl Add<Duration> for DateTime
//@end
//@item @rapid_time/src/date_time.rs impl Sub<Duration> for DateTime
//@end
//@item @rapid_time/src/date_time.rs impl Sub for DateTime
//@end
