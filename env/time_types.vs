// ---- rapid_time types (verbatim from the registry source pinned by Cargo.lock) -------------------
//@item @rapid_time/src/duration.rs enum Duration : plain
//@end
//@item @rapid_time/src/duration.rs struct DurationLength : plain
//@end
//@item @rapid_time/src/date_time.rs enum DateTime : plain
//@end
//@item @rapid_time/src/date_time.rs struct TimePoint : plain
//@end

// ---- spec vocabulary for times (DESIGN §4) --------------------------------------------------------
pub open spec fn dur_inf(d: Duration) -> bool { d is Infinity }
pub open spec fn dur_secs(d: Duration) -> int
    recommends d is Length
{ d->Length_0.seconds as int }

/// rank of a DateTime on the integer line; Earliest = -1, Latest above every Point
pub open spec fn tp_secs(t: TimePoint) -> int { 86400 * (t.days as int) + (t.seconds as int) }
pub open spec const LATEST_RANK: int = 0x400_0000_0000_0000_0000_0000; // 2^90 > 86400 * 2^64 + 86400
pub open spec fn dt_rank(t: DateTime) -> int {
    match t {
        DateTime::Earliest => -1,
        DateTime::Point(p) => tp_secs(p),
        DateTime::Latest => LATEST_RANK,
    }
}
pub open spec fn tp_ok(t: TimePoint) -> bool { t.seconds < 86400 }
pub open spec fn dt_small(t: DateTime) -> bool { t is Point ==> t->Point_0.days < 0x1_0000_0000 }
pub open spec fn dt_ok(t: DateTime) -> bool { t is Point ==> tp_ok(t->Point_0) }
pub open spec fn dt_le(a: DateTime, b: DateTime) -> bool { dt_rank(a) <= dt_rank(b) }
pub open spec fn dt_lt(a: DateTime, b: DateTime) -> bool { dt_rank(a) < dt_rank(b) }
pub open spec fn dur_ok(d: Duration) -> bool { d is Length ==> d->Length_0.seconds < 0x1_0000_0000_0000 }
pub open spec fn dur_le(a: Duration, b: Duration) -> bool {
    b is Infinity || (a is Length && a->Length_0.seconds <= b->Length_0.seconds)
}
pub open spec fn dur_add(a: Duration, b: Duration) -> Duration {
    if a is Infinity || b is Infinity { Duration::Infinity }
    else { Duration::Length(DurationLength { seconds: (a->Length_0.seconds + b->Length_0.seconds) as u64 }) }
}
pub open spec fn dt_add(t: DateTime, d: Duration) -> DateTime {
    match d {
        Duration::Infinity => DateTime::Latest,
        Duration::Length(l) => match t {
            DateTime::Earliest => DateTime::Earliest,
            DateTime::Latest => DateTime::Latest,
            DateTime::Point(p) => {
                let s = p.seconds as int + l.seconds as int;
                DateTime::Point(TimePoint { days: (p.days + s / 86400) as u64, seconds: (s % 86400) as u32 })
            }
        }
    }
}
