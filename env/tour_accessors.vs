// ---- Tour accessors used by the rotation-cycle code (verified in slice tour_ctor, stubs elsewhere: R7a) ----
pub open spec fn sp_start_depot(t: &Tour) -> NodeIdx { t.nodes@[0] }
pub open spec fn sp_end_depot(t: &Tour) -> NodeIdx { t.nodes@[t.nodes@.len() - 1] }
pub open spec fn counter_bound() -> int { 0x100_0000_0000 }
pub open spec fn dist_or_inf(d: Distance) -> int {
    match d { Distance::Distance(m) => m as int, Distance::Infinity => INF_DISTANCE as int }
}
/// C04 / C15: the maintenance counter of a tour is the distance it travels (service + dead-head, an
/// infinite distance counts as INF_DISTANCE) minus one maintenance allowance if it visits a slot
/// (opaque: the rotation-cycle proofs only need it as an atom)
#[verifier::opaque]
pub open spec fn tour_counter(t: &Tour) -> int {
    dist_or_inf(dist_add_spec(t.service_distance, t.dead_head_distance))
        - (if t.visits_maintenance { dist_or_inf(t.network.config.maintenance.maximal_distance) } else { 0 })
}
pub open spec fn dist_add_spec(a: Distance, b: Distance) -> Distance {
    if a is Infinity || b is Infinity { Distance::Infinity } else { Distance::Distance((a->Distance_0 + b->Distance_0) as u64) }
}
//@item solution/src/tour.rs Tour::total_distance
//@retname r
//@sig
    requires self.service_distance is Distance && self.dead_head_distance is Distance ==> self.service_distance->Distance_0 + self.dead_head_distance->Distance_0 <= u64::MAX,
    ensures r == dist_add_spec(self.service_distance, self.dead_head_distance),
//@end
//@item solution/src/tour.rs Tour::maintenance_counter
//@retname r
//@sig
    requires -counter_bound() <= tour_counter(self) <= counter_bound(),
        self.service_distance is Distance && self.dead_head_distance is Distance ==> self.service_distance->Distance_0 + self.dead_head_distance->Distance_0 <= 0x7fff_ffff_ffff_ffff,
        self.network.config.maintenance.maximal_distance is Distance ==> self.network.config.maintenance.maximal_distance->Distance_0 <= 0x7fff_ffff_ffff_ffff,
    ensures r == tour_counter(self), // @obl C15.tour.maintenance_counter
//@first
        proof { reveal(tour_counter); }
//@end
//@item solution/src/tour.rs Tour::start_depot
//@retname r
//@sig
    requires self.wf(),
    ensures !self.is_dummy ==> r == Ok::<NodeIdx, String>(sp_start_depot(self)),
//@first
        proof { assert(self.network.has(self.nodes@[0])); }
//@end
//@item solution/src/tour.rs Tour::end_depot
//@retname r
//@sig
    requires self.wf(),
    ensures !self.is_dummy ==> r == Ok::<NodeIdx, String>(sp_end_depot(self)),
//@first
        proof { assert(self.network.has(self.nodes@[self.len() - 1])); }
//@end
