// ---- Tour::new_allow_invalid under contract (verified in slice tour_mod, stub in tour_ctor: R7a) ----------
/// C01 / C10 clause 1: what makes a node sequence a valid tour of a real vehicle
pub open spec fn valid_real_tour(net: &Network, s: Seq<NodeIdx>) -> bool {
    &&& s.len() >= 3
    &&& net.sp_node(s[0]) is StartDepot
    &&& net.sp_node(s[s.len() - 1]) is EndDepot
    &&& no_depot(net, s.subrange(1, s.len() - 1))
    &&& connected(net, s)
}

pub open spec fn ends_ok(net: &Network, s: Seq<NodeIdx>) -> bool {
    s.len() >= 3 && net.sp_node(s[0]) is StartDepot && net.sp_node(s[s.len() - 1]) is EndDepot
}
//@item solution/src/tour.rs Tour::new_allow_invalid
//@retname r
//@viter
//@forpat
//@fmt-nonempty
//@sig
    requires network.wf(), nodes@.len() >= 1, all_in_net(&network, nodes@), len_ok(nodes@),
    ensures
        r is Ok ==> valid_real_tour(&network, nodes@), // @obl C01.new_allow_invalid.ok_only_if_valid
        r is Ok ==> r->Ok_0.nodes@ == nodes@ && !r->Ok_0.is_dummy && r->Ok_0.network == network && r->Ok_0.caches_ok() && r->Ok_0.wf(),
        valid_real_tour(&network, nodes@) ==> r is Ok,
//@first
        proof {
            assert(network.has(nodes@[0]) && network.has(nodes@[nodes@.len() - 1]));
            reveal_strlit("Tour needs to have at least three nodes (at least one non-depot).\n");
        }
//@before "if !error_msg.is_empty()"
        proof {
            if valid_real_tour(&network, nodes@) {
                assert forall|k: int| 0 <= k < nodes@.len() - 2 implies !(#[trigger] network.sp_node(nodes@[k + 1])).sp_is_depot() by {
                    let sub = nodes@.subrange(1, nodes@.len() - 1);
                    assert(sub[k] == nodes@[k + 1]);
                    assert(network.sp_node(sub[k]).sp_is_activity());
                }
            }
        }
//@loop "for node in"
            invariant
                network.wf(), all_in_net(&network, nodes@), nodes@.len() >= 1,
                it.snapshot@@.len() == (if nodes@.len() >= 2 { nodes@.len() - 2 } else { 0 }),
                forall|k: int| 0 <= k < it.snapshot@@.len() ==> *(#[trigger] it.snapshot@@[k]) == nodes@[k + 1],
                0 <= it.index@ <= it.snapshot@@.len(),
                (error_msg@.len() == 0) <==> (ends_ok(&network, nodes@)
                    && forall|k: int| 0 <= k < it.index@ ==> !(#[trigger] network.sp_node(nodes@[k + 1])).sp_is_depot()),
//@loop "for (&a, &b) in"
            invariant
                network.wf(), all_in_net(&network, nodes@), nodes@.len() >= 1,
                it.snapshot@@.len() == nodes@.len() - 1,
                forall|k: int| 0 <= k < it.snapshot@@.len() ==> *(#[trigger] it.snapshot@@[k]).0 == nodes@[k] && *it.snapshot@@[k].1 == nodes@[k + 1],
                0 <= it.index@ <= it.snapshot@@.len(),
                (error_msg@.len() == 0) <==> (ends_ok(&network, nodes@)
                    && (forall|k: int| 0 <= k < nodes@.len() - 2 ==> !(#[trigger] network.sp_node(nodes@[k + 1])).sp_is_depot())
                    && forall|k: int| 0 <= k < it.index@ ==> #[trigger] network.reach(nodes@[k], nodes@[k + 1])),
//@end

