// ---- position logic of Tour under contract (verified in slice tour_pos, stubs elsewhere: R7a) ----------
//@item solution/src/tour.rs Tour::earliest_arrival_after
//@retname r
//@sig
    requires self.wf(), left < right <= self.len(), dt_ok(time),
    ensures
        r is Some ==> left <= r.unwrap() < right
            && dt_lt(time, self.end_at(r.unwrap() as int))
            && forall|j: int| left <= j < r.unwrap() ==> dt_le(#[trigger] self.end_at(j), time),
        r is None ==> forall|j: int| left <= j < right ==> dt_le(#[trigger] self.end_at(j), time),
    decreases right - left,
//@first
        broadcast use lemma_dt_cmp_rank;
//@before "if left + 1 == right"
        proof {
            assert(self.network.has(self.nodes@[left as int]));
            assert(self.network.nodes@.contains_key(self.nodes@[left as int]));
        }
//@before "let mid"
            proof {
                let mid0 = left + (right - left) / 2;
                assert(left < mid0 < right);
                assert(self.network.has(self.nodes@[mid0 - 1]));
                assert(self.network.nodes@.contains_key(self.nodes@[mid0 - 1]));
                assert forall|j: int| left <= j < mid0 - 1 implies
                    dt_le(#[trigger] self.end_at(j), self.end_at(mid0 - 1)) by {
                    lemma_ends_sorted(&self.network, self.nodes@, j, mid0 - 1);
                }
            }
//@end

//@item solution/src/tour.rs Tour::latest_departure_before
//@retname r
//@sig
    requires self.wf(), left < right <= self.len(), dt_ok(time),
    ensures
        r is Some ==> left <= r.unwrap() < right
            && dt_lt(self.start_at(r.unwrap() as int), time)
            && forall|j: int| r.unwrap() < j < right ==> dt_le(time, #[trigger] self.start_at(j)),
        r is None ==> forall|j: int| left <= j < right ==> dt_le(time, #[trigger] self.start_at(j)),
    decreases right - left,
//@first
        broadcast use lemma_dt_cmp_rank;
//@before "if left + 1 == right"
        proof {
            assert(self.network.has(self.nodes@[left as int]));
            assert(self.network.nodes@.contains_key(self.nodes@[left as int]));
        }
//@before "let mid"
            proof {
                let mid0 = left + (right - left) / 2;
                assert(left < mid0 < right);
                assert(self.network.has(self.nodes@[mid0 as int]));
                assert(self.network.nodes@.contains_key(self.nodes@[mid0 as int]));
                assert forall|j: int| mid0 < j < right implies
                    dt_le(self.start_at(mid0 as int), #[trigger] self.start_at(j)) by {
                    lemma_ends_sorted(&self.network, self.nodes@, mid0 as int, j);
                }
            }
//@end

//@item solution/src/tour.rs Tour::latest_not_reaching_node
//@retname r
//@sig
    requires self.wf(), self.network.has(node),
    ensures
        r is None <==> self.network.reach(self.nodes@[self.len() - 1], node),
        r is Some ==> r.unwrap() < self.len() && self.is_start_pos(node, r.unwrap() as int), // @obl C12.latest_not_reaching_node.longest_prefix
//@first
        proof {
            assert(self.network.has(self.nodes@[self.len() - 1]));
            assert(self.network.nodes@.contains_key(node));
        }
//@before "let mut pos"
        proof {
            if candidate is Some {
                let c = candidate.unwrap() as int;
                assert forall|j: int| c <= j < self.len() implies !self.network.reach(#[trigger] self.nodes@[j], node) by {
                    lemma_ends_sorted(&self.network, self.nodes@, c, j);
                    assert(self.network.has(self.nodes@[j]));
                    lemma_later_end_not_reach(&self.network, self.nodes@[j], node); // @obl C12.latest_not_reaching_node.no_connectable_node_dropped
                }
            }
        }
//@loop? "while pos > 0"
            invariant
                self.wf(), self.network.has(node), 0 <= pos < self.len(),
                forall|j: int| pos <= j < self.len() ==> !self.network.reach(#[trigger] self.nodes@[j], node),
            decreases pos,
//@end

//@item solution/src/tour.rs Tour::latest_not_reached_by_node
//@retname r
//@sig
    requires self.wf(), self.network.has(node),
    ensures
        r is None <==> self.network.reach(node, self.nodes@[0]),
        r is Some ==> r.unwrap() < self.len() && self.is_end_pos(node, r.unwrap() + 1), // @obl C12.latest_not_reached_by_node.longest_suffix
//@first
        proof {
            assert(self.network.has(self.nodes@[0]));
            assert(self.network.nodes@.contains_key(node));
        }
//@before "let mut pos"
        proof {
            if candidate is Some {
                let c = candidate.unwrap() as int;
                assert forall|j: int| 0 <= j <= c implies !self.network.reach(node, #[trigger] self.nodes@[j]) by {
                    lemma_ends_sorted(&self.network, self.nodes@, j, c);
                    assert(self.network.has(self.nodes@[j]));
                    lemma_later_end_not_reach(&self.network, node, self.nodes@[j]); // @obl C12.latest_not_reached_by_node.no_connectable_node_dropped
                }
            }
        }
//@loop? "while pos < self.nodes.len() - 1"
            invariant
                self.wf(), self.network.has(node), 0 <= pos < self.len(),
                forall|j: int| 0 <= j <= pos ==> !self.network.reach(node, #[trigger] self.nodes@[j]),
            decreases self.len() - pos,
//@end

//@item solution/src/tour.rs Tour::get_insert_positions
//@retname r
//@sig
    requires self.wf(), self.network.has(segment.start), self.network.has(segment.end), tour_len_ok(self.nodes@),
    ensures
        self.network.sp_node(segment.start).sp_is_depot() ==> r.0 == 0,
        !self.network.sp_node(segment.start).sp_is_depot() ==> self.is_start_pos(segment.start, r.0 as int), // @obl C12.get_insert_positions.start_pos
        self.network.sp_node(segment.end).sp_is_depot() ==> r.1 == self.len(),
        !self.network.sp_node(segment.end).sp_is_depot() ==> self.is_end_pos(segment.end, r.1 as int), // @obl C12.get_insert_positions.end_pos
        r.0 <= self.len(), r.1 <= self.len(),
//@first
        proof {
            assert(self.network.has(self.nodes@[self.len() - 1]));
            assert(self.network.has(self.nodes@[0]));
        }
//@end

//@item solution/src/tour.rs Tour::check_if_sequence_is_removable
//@retname r
//@sig
    requires self.wf(), start_position < self.len(), end_position < self.len(),
    ensures r is Ok <==> self.removable(start_position as int, end_position as int), // @obl C12.check_removable.refusal
//@first
        proof {
            if start_position > 0 && end_position < self.len() - 1 {
                assert(self.network.has(self.nodes@[start_position - 1]));
                assert(self.network.has(self.nodes@[end_position + 1]));
            }
        }
//@end

//@item solution/src/tour.rs Tour::check_removable
//@retname r
//@sig
    requires self.wf(), self.network.has(segment.start), self.network.has(segment.end),
    ensures
        r is Ok ==> exists|s: int, e: int| 0 <= s < self.len() && 0 <= e < self.len() && self.nodes@[s] == segment.start
            && self.nodes@[e] == segment.end && self.removable(s, e),
//@end

//@item solution/src/tour.rs Tour::conflict
//@retname r
//@sig
    requires self.wf(), self.network.has(segment.start), self.network.has(segment.end), tour_len_ok(self.nodes@),
        seg_ordered(&self.network, segment.start, segment.end),
    ensures
        exists|s: int, e: int| {
            &&& 0 <= s <= e <= self.len()
            &&& (if self.network.sp_node(segment.start).sp_is_depot() { s == 0 } else { self.is_start_pos(segment.start, s) })
            &&& (if self.network.sp_node(segment.end).sp_is_depot() { e == self.len() } else { self.is_end_pos(segment.end, e) })
            &&& (all_depots(&self.network, self.nodes@.subrange(s, e)) ==> r is None)
            &&& (!all_depots(&self.network, self.nodes@.subrange(s, e)) ==> r is Some && r.unwrap().node_sequence@ == self.nodes@.subrange(s, e))
        }, // @obl C12.conflict.reports_exactly_dropped
//@before "Path::new_trusted"
        proof {
            lemma_positions_ordered(self, segment.start, segment.end, start_pos as int, end_pos as int);
            assert forall|i: int| 0 <= i < self.nodes@.subrange(start_pos as int, end_pos as int).len() implies
                #[trigger] self.network.has(self.nodes@.subrange(start_pos as int, end_pos as int)[i]) by {
                assert(self.network.has(self.nodes@[start_pos + i]));
            }
        }
//@end

//@item solution/src/tour.rs Tour::sub_path
//@retname r
//@sig
    requires self.wf(), self.network.has(segment.start), self.network.has(segment.end), tour_len_ok(self.nodes@),
        // "A segment is a pair of non-depot node ids": at least not one depot taken alone
        !(self.network.sp_node(segment.start).sp_is_depot() && segment.start == segment.end),
    ensures
        // C12: "extracting a sub-path of an existing segment always succeeds"
        forall|i: int, j: int| 0 <= i <= j < self.len() && #[trigger] self.nodes@[i] == segment.start && #[trigger] self.nodes@[j] == segment.end
            && !all_depots(&self.network, self.nodes@.subrange(i, j + 1))
            ==> r is Ok && r.unwrap().node_sequence@ == self.nodes@.subrange(i, j + 1), // @obl C12.sub_path.always_succeeds
        r is Ok ==> exists|i: int, j: int| 0 <= i <= j < self.len() && self.nodes@[i] == segment.start && self.nodes@[j] == segment.end
            && r.unwrap().node_sequence@ == #[trigger] self.nodes@.subrange(i, j + 1),
//@first
        proof {
            assert forall|i: int| 0 <= i < self.len() && #[trigger] self.nodes@[i] == segment.start implies
                !self.network.reach(self.nodes@[self.len() - 1], segment.start) by {
                lemma_member_not_reached_from_later(self, i, self.len() - 1);
            }
            assert forall|j: int| 0 <= j < self.len() && #[trigger] self.nodes@[j] == segment.end implies
                !self.network.reach(self.nodes@[self.len() - 1], segment.end) by {
                lemma_member_not_reached_from_later(self, j, self.len() - 1);
            }
        }
//@before "if segment.start() != self.nodes[start_pos]"
        proof {
            assert forall|i: int| 0 <= i < self.len() && #[trigger] self.nodes@[i] == segment.start implies i == start_pos by {
                lemma_member_start_pos(self, segment.start, i, start_pos as int);
            }
        }
//@before "if segment.end() != self.nodes[end_pos]"
        proof {
            assert forall|j: int| 0 <= j < self.len() && #[trigger] self.nodes@[j] == segment.end implies j == end_pos by {
                lemma_member_start_pos(self, segment.end, j, end_pos as int);
            }
        }
//@before "Ok(Path::new_trusted"
        proof {
            let sub = self.nodes@.subrange(start_pos as int, end_pos + 1);
            assert forall|i: int| 0 <= i < sub.len() implies #[trigger] self.network.has(sub[i]) by {
                assert(self.network.has(self.nodes@[start_pos + i]));
            }
            // the slice contains an activity
            let k: int = if start_pos == 0 && end_pos > 0 { 1 } else { start_pos as int };
            lemma_tour_kinds(self, k);
            lemma_tour_kinds(self, start_pos as int);
            assert(sub[k - start_pos] == self.nodes@[k]);
            assert(self.network.sp_node(sub[k - start_pos]).sp_is_activity());
            assert(self.nodes@[start_pos as int] == segment.start && self.nodes@[end_pos as int] == segment.end);
        }
//@end
