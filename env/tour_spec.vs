// ---- spec vocabulary for tours and paths (DESIGN §4) ------------------------------------------------
pub open spec fn all_in_net(net: &Network, s: Seq<NodeIdx>) -> bool {
    forall|i: int| 0 <= i < s.len() ==> #[trigger] net.has(s[i])
}
/// consecutive nodes are connectable under the documented timing rule
pub open spec fn connected(net: &Network, s: Seq<NodeIdx>) -> bool {
    forall|i: int| 0 <= i < s.len() - 1 ==> #[trigger] net.reach(s[i], s[i + 1])
}
pub open spec fn no_depot(net: &Network, s: Seq<NodeIdx>) -> bool {
    forall|i: int| 0 <= i < s.len() ==> (#[trigger] net.sp_node(s[i])).sp_is_activity()
}
pub open spec fn all_depots(net: &Network, s: Seq<NodeIdx>) -> bool {
    forall|i: int| 0 <= i < s.len() ==> (#[trigger] net.sp_node(s[i])).sp_is_depot()
}

/// A-len: the nodes of a well-formed tour are pairwise distinct (strictly increasing start times) and
/// there are at most 2^16 service and 2^16 maintenance indices (Idx = u16), so a tour has at most
/// 2^17 + 2 nodes; operations take this as a stated precondition on their inputs (`tour_len_ok`), the
/// lemmas work up to twice that (`len_ok`) so that a tour + an inserted path is covered.
pub open spec fn tour_len_ok(s: Seq<NodeIdx>) -> bool { s.len() <= 0x2_0002 }
pub open spec fn len_ok(s: Seq<NodeIdx>) -> bool { s.len() <= 0x4_0004 }


impl Tour {
    pub open spec fn len(&self) -> int { self.nodes@.len() as int }
    pub open spec fn node_at(&self, j: int) -> Node { self.network.sp_node(self.nodes@[j]) }
    pub open spec fn end_at(&self, j: int) -> DateTime { self.network.sp_node(self.nodes@[j]).sp_end_time() }
    pub open spec fn start_at(&self, j: int) -> DateTime { self.network.sp_node(self.nodes@[j]).sp_start_time() }
    /// C01/C10 clause 1 (see `tour_wf`)
    pub open spec fn wf(&self) -> bool { tour_wf(&self.network, self.nodes@, self.is_dummy) }
}
/// C01/C10 clause 1: a tour is a chronological path of connectable nodes; a real tour runs
/// from a start depot to an end depot with at least one activity and no inner depot; a dummy
/// tour has no depot
pub open spec fn tour_wf(net: &Network, nodes: Seq<NodeIdx>, is_dummy: bool) -> bool {
    &&& net.wf()
    &&& nodes.len() >= 1
    &&& all_in_net(net, nodes)
    &&& connected(net, nodes)
    &&& (is_dummy ==> no_depot(net, nodes))
    &&& (!is_dummy ==> {
        &&& nodes.len() >= 3
        &&& net.sp_node(nodes[0]) is StartDepot
        &&& net.sp_node(nodes[nodes.len() - 1]) is EndDepot
        &&& no_depot(net, nodes.subrange(1, nodes.len() - 1))
    })
}

impl Tour {
    /// C12: "the longest prefix of the old tour whose last node can reach the path":
    /// p = max{ q <= len | q == 0 || reach(nodes[q-1], first) }
    pub open spec fn is_start_pos(&self, first: NodeIdx, p: int) -> bool {
        &&& 0 <= p <= self.len()
        &&& (p == 0 || self.network.reach(self.nodes@[p - 1], first))
        &&& forall|q: int| p < q <= self.len() ==> !self.network.reach(#[trigger] self.nodes@[q - 1], first)
    }
    /// C12: "the longest suffix whose first node the path can reach":
    /// p = min{ q <= len | q == len || reach(last, nodes[q]) }
    pub open spec fn is_end_pos(&self, last: NodeIdx, p: int) -> bool {
        &&& 0 <= p <= self.len()
        &&& (p == self.len() || self.network.reach(last, self.nodes@[p]))
        &&& forall|q: int| 0 <= q < p ==> !self.network.reach(last, #[trigger] self.nodes@[q])
    }
    pub open spec fn has_node(&self, x: NodeIdx) -> bool { exists|i: int| 0 <= i < self.len() && #[trigger] self.nodes@[i] == x }
    /// the position of a node of the tour (nodes are pairwise distinct, see lemma_index_of)
    pub open spec fn index_of(&self, x: NodeIdx) -> int { choose|i: int| 0 <= i < self.len() && #[trigger] self.nodes@[i] == x }
    // prefix / middle / suffix / remainder of a tour cut at two positions (opaque: unfolded only inside
    // the lemmas, to keep the sequence axioms out of the big function bodies)
    #[verifier::opaque]
    pub open spec fn pre(&self, s: int) -> Seq<NodeIdx> { self.nodes@.subrange(0, s) }
    #[verifier::opaque]
    pub open spec fn mid(&self, s: int, e: int) -> Seq<NodeIdx> { if s <= e { self.nodes@.subrange(s, e) } else { Seq::empty() } }
    #[verifier::opaque]
    pub open spec fn suf(&self, e: int) -> Seq<NodeIdx> { self.nodes@.subrange(e, self.len()) }
    #[verifier::opaque]
    pub open spec fn rest(&self, s: int, e1: int) -> Seq<NodeIdx> { self.nodes@.subrange(0, s) + self.nodes@.subrange(e1, self.len()) }
    /// C12: removing [s ..= e] would strand a depot (a depot goes but an activity stays)
    pub open spec fn strands_depot(&self, s: int, e: int) -> bool {
        !self.is_dummy && ((s == 0 && e + 1 < self.len() - 1) || (e == self.len() - 1 && s - 1 > 0))
    }
    /// C12: removing [s ..= e] would leave an unconnectable gap
    pub open spec fn leaves_gap(&self, s: int, e: int) -> bool {
        s > 0 && e < self.len() - 1 && !self.network.reach(self.nodes@[s - 1], self.nodes@[e + 1])
    }
    pub open spec fn removable(&self, s: int, e: int) -> bool {
        s <= e && !self.strands_depot(s, e) && !self.leaves_gap(s, e)
    }
}

impl Path {
    pub open spec fn wf(&self) -> bool {
        &&& self.network.wf()
        &&& self.node_sequence@.len() >= 1
        &&& all_in_net(&self.network, self.node_sequence@)
        &&& !all_depots(&self.network, self.node_sequence@)
    }
    pub open spec fn is_connected(&self) -> bool { connected(&self.network, self.node_sequence@) }
}

//@include env/reach_lemmas.vs
/// along a connected sequence end times and start times are sorted
pub proof fn lemma_ends_sorted(net: &Network, s: Seq<NodeIdx>, i: int, j: int)
    requires net.wf(), all_in_net(net, s), connected(net, s), 0 <= i <= j < s.len(),
    ensures dt_le(net.sp_node(s[i]).sp_end_time(), net.sp_node(s[j]).sp_end_time()),
        dt_le(net.sp_node(s[i]).sp_start_time(), net.sp_node(s[j]).sp_start_time()),
        i < j ==> dt_le(net.sp_node(s[i]).sp_end_time(), net.sp_node(s[j]).sp_start_time()),
    decreases j - i,
{
    if i < j {
        lemma_ends_sorted(net, s, i, j - 1);
        assert(net.has(s[j - 1]) && net.has(s[j]));
        assert(net.reach(s[j - 1], s[(j - 1) + 1]));
        lemma_reach_implies_le(net, s[j - 1], s[j]);
        lemma_node_start_le_end(net, s[j]);
        lemma_node_start_le_end(net, s[j - 1]);
    }
}

/// a segment taken from a connected path: its first node does not end after its last node starts
pub open spec fn seg_ordered(net: &Network, first: NodeIdx, last: NodeIdx) -> bool {
    first == last || dt_le(net.sp_node(first).sp_end_time(), net.sp_node(last).sp_start_time())
}
/// C12: the dropped block is well defined: start_pos <= end_pos (this is the `splice` panic obligation)
pub proof fn lemma_positions_ordered(t: &Tour, first: NodeIdx, last: NodeIdx, s: int, e: int)
    requires t.wf(), t.network.has(first), t.network.has(last), seg_ordered(&t.network, first, last),
        if t.network.sp_node(first).sp_is_depot() { s == 0 } else { t.is_start_pos(first, s) },
        if t.network.sp_node(last).sp_is_depot() { e == t.len() } else { t.is_end_pos(last, e) },
    ensures 0 <= s <= e <= t.len(),
{
    let net = &t.network;
    if !net.sp_node(first).sp_is_depot() && !net.sp_node(last).sp_is_depot() && e < s {
        assert(net.has(t.nodes@[s - 1]) && net.has(t.nodes@[e]));
        lemma_reach_implies_le(net, t.nodes@[s - 1], first);
        lemma_reach_implies_le(net, last, t.nodes@[e]);
        lemma_node_start_le_end(net, first);
        lemma_node_start_le_end(net, last);
        lemma_ends_sorted(net, t.nodes@, e, s - 1);
        lemma_node_start_le_end(net, t.nodes@[s - 1]);
        assert(net.nodes@.contains_key(first) && net.nodes@.contains_key(last));
    }
}

/// kind of the node at position i of a well-formed tour
pub proof fn lemma_tour_kinds(t: &Tour, i: int)
    requires t.wf(), 0 <= i < t.len(),
    ensures
        t.network.has(t.nodes@[i]),
        t.is_dummy ==> t.node_at(i).sp_is_activity(),
        !t.is_dummy && 0 < i < t.len() - 1 ==> t.node_at(i).sp_is_activity(),
        !t.is_dummy && i == 0 ==> t.node_at(i) is StartDepot,
        !t.is_dummy && i == t.len() - 1 ==> t.node_at(i) is EndDepot,
{
    if !t.is_dummy && 0 < i < t.len() - 1 {
        let sub = t.nodes@.subrange(1, t.len() - 1);
        assert(sub[i - 1] == t.nodes@[i]);
        assert(t.network.sp_node(sub[i - 1]).sp_is_activity());
    }
}
/// a node of the tour does not reach itself nor anything before it; nothing at or after it reaches it
pub proof fn lemma_member_not_reached_from_later(t: &Tour, i: int, j: int)
    requires t.wf(), 0 <= i <= j < t.len(),
    ensures !t.network.reach(t.nodes@[j], t.nodes@[i]),
{
    let net = &t.network;
    lemma_tour_kinds(t, i);
    lemma_tour_kinds(t, j);
    assert(net.nodes@.contains_key(t.nodes@[i]) && net.nodes@.contains_key(t.nodes@[j]));
    if t.node_at(i).sp_is_activity() {
        lemma_node_start_le_end(net, t.nodes@[i]);
        lemma_ends_sorted(net, t.nodes@, i, j);
        lemma_later_end_not_reach(net, t.nodes@[j], t.nodes@[i]);
    }
}
/// C12 (sub_path): for a node that is in the tour at position i, the "longest prefix" position is i
pub proof fn lemma_member_start_pos(t: &Tour, x: NodeIdx, i: int, p: int)
    requires t.wf(), 0 <= i < t.len(), t.nodes@[i] == x, t.is_start_pos(x, p), p < t.len(),
    ensures p == i,
{
    let net = &t.network;
    lemma_tour_kinds(t, i);
    if p < i {
        // q = i > p: nodes[i-1] must not reach x, but the tour is connected
        assert(net.reach(t.nodes@[i - 1], t.nodes@[(i - 1) + 1]));
        assert(!net.reach(t.nodes@[i - 1], x));
    }
    if p > i {
        lemma_member_not_reached_from_later(t, i, p - 1);
    }
}

/// the nodes of a well-formed tour are pairwise distinct
pub proof fn lemma_tour_distinct(t: &Tour, i: int, j: int)
    requires t.wf(), 0 <= i < t.len(), 0 <= j < t.len(), t.nodes@[i] == t.nodes@[j],
    ensures i == j,
{
    if i < j {
        assert(t.network.reach(t.nodes@[j - 1], t.nodes@[(j - 1) + 1]));
        lemma_member_not_reached_from_later(t, i, j - 1);
    }
    if j < i {
        assert(t.network.reach(t.nodes@[i - 1], t.nodes@[(i - 1) + 1]));
        lemma_member_not_reached_from_later(t, j, i - 1);
    }
}

pub proof fn lemma_index_of(t: &Tour, x: NodeIdx, p: int)
    requires t.wf(), 0 <= p < t.len(), t.nodes@[p] == x,
    ensures t.has_node(x), t.index_of(x) == p,
{
    let i = t.index_of(x);
    lemma_tour_distinct(t, i, p);
}
pub proof fn lemma_not_has_node(t: &Tour, x: NodeIdx)
    requires !t.nodes@.contains(x),
    ensures !t.has_node(x),
{
    if t.has_node(x) {
        let i = choose|i: int| 0 <= i < t.len() && #[trigger] t.nodes@[i] == x;
        assert(t.nodes@.contains(x));
    }
}
