// ---- stubs shared by the tour slices (A-stub) ---------------------------------------------------------

//@item solution/src/tour.rs Tour::position_of : trusted
//@retname r
//@sig
    requires self.wf(), self.network.has(node),
    ensures
        r is Ok ==> 0 <= r.unwrap() < self.len() && self.nodes@[r.unwrap() as int] == node,
        r is Err ==> !self.nodes@.contains(node),
//@end

