// ---- stubs shared by the tour slices (A-stub) ---------------------------------------------------------
//@item solution/src/path.rs Path::new_trusted : trusted
//@retname r
//@sig
    requires nw.wf(), all_in_net(&nw, node_sequence@),
    ensures
        all_depots(&nw, node_sequence@) ==> r is None,
        !all_depots(&nw, node_sequence@) ==> r is Some && r.unwrap().node_sequence@ == node_sequence@ && r.unwrap().network == nw,
//@end

//@item solution/src/tour.rs Tour::position_of : trusted
//@retname r
//@sig
    requires self.wf(), self.network.has(node),
    ensures
        r is Ok ==> 0 <= r.unwrap() < self.len() && self.nodes@[r.unwrap() as int] == node,
        r is Err ==> !self.nodes@.contains(node),
//@end

