// ---- spec vocabulary and lemmas for slice `train_formation_update` (Schedule::update_train_formation) ----
// Included inside `pub mod tr { … }` after `struct Schedule` and the admission vocabulary (grows / replaces /
// shrinks / sp_node_limit / first_pos / has_vehicle / fcap / fseats).  No assumption is introduced here:
// only open spec functions and proved lemmas.

/// n is one of the moved nodes and not a depot: exactly the nodes whose formation update_train_formation rewrites
pub open spec fn moved_nd(net: &Network, moved: Seq<NodeIdx>, n: NodeIdx) -> bool {
    moved.contains(n) && !net.sp_node(n).sp_is_depot()
}
pub open spec fn max0(x: int) -> int { if x > 0 { x } else { 0 } }
/// C09 / C02: the unserved passengers of node n when it is served by formation f -- component 0: demand
/// above the formation's capacity, component 1: seated demand above its seats; only service trips count
pub open spec fn unserved_at(net: &Network, n: NodeIdx, f: Seq<Vehicle>, c: int) -> int {
    if !(net.sp_node(n) is Service) { 0 }
    else if c == 0 { max0(net.sp_trip(n).passengers as int - fcap(f)) }
    else { max0(net.sp_trip(n).seated as int - fseats(f)) }
}
pub type Formations = Map<NodeIdx, TrainFormation>;

impl Schedule {
    /// does vehicle_replacement_in_train_formation succeed on a node with formation f?  (the `r is Ok <==> …`
    /// clauses of its contract in slices/admission.vs, by case)
    pub open spec fn repl_ok(&self, f: Seq<Vehicle>, provider: Option<VehicleIdx>, receiver: Option<Vehicle>, node: NodeIdx) -> bool {
        if self.grows(provider, receiver) {
            // C02: growth only strictly below the node's limit
            self.sp_node_limit(node) is Some ==> f.len() < self.sp_node_limit(node).unwrap()
        } else if self.replaces(provider, receiver) || self.shrinks(provider, receiver) {
            has_vehicle(f, provider.unwrap())
        } else {
            true
        }
    }
    /// the formation vehicle_replacement_in_train_formation yields for formation f (C13: "a replacing vehicle
    /// takes the replaced one's position, additions go to the tail and removals keep the order")
    pub open spec fn repl_seq(&self, f: Seq<Vehicle>, provider: Option<VehicleIdx>, receiver: Option<Vehicle>) -> Seq<Vehicle> {
        if self.grows(provider, receiver) { f.push(receiver.unwrap()) }
        else if self.replaces(provider, receiver) { f.update(first_pos(f, provider.unwrap()), receiver.unwrap()) }
        else if self.shrinks(provider, receiver) { f.remove(first_pos(f, provider.unwrap())) }
        else { f }
    }
    /// the formation of node n before (`after == false`) / after the replacement, read off the OLD table tf0
    pub open spec fn form(&self, tf0: Formations, provider: Option<VehicleIdx>, receiver: Option<Vehicle>, n: NodeIdx, after: bool) -> Seq<Vehicle> {
        if after { self.repl_seq(tf0[n].formation@, provider, receiver) } else { tf0[n].formation@ }
    }
    /// Σ over the first k moved nodes of the unserved passengers (component c) with the old / new formation
    /// (depots and maintenance slots contribute 0)
    pub open spec fn un_sum(&self, tf0: Formations, provider: Option<VehicleIdx>, receiver: Option<Vehicle>, moved: Seq<NodeIdx>, k: int, after: bool, c: int) -> int
        decreases k,
    {
        if k <= 0 { 0 } else {
            self.un_sum(tf0, provider, receiver, moved, k - 1, after, c)
                + unserved_at(&self.network, moved[k - 1], self.form(tf0, provider, receiver, moved[k - 1], after), c)
        }
    }
    /// the replacement succeeds for each of the first k moved nodes (depots are skipped)
    pub open spec fn all_ok(&self, tf0: Formations, provider: Option<VehicleIdx>, receiver: Option<Vehicle>, moved: Seq<NodeIdx>, k: int) -> bool {
        forall|j: int| 0 <= j < k && !self.network.sp_node(#[trigger] moved[j]).sp_is_depot()
            ==> self.repl_ok(tf0[moved[j]].formation@, provider, receiver, moved[j])
    }
    /// what the body needs of one moved node (panics / callee preconditions)
    pub open spec fn node_pre(&self, tf0: Formations, provider: Option<VehicleIdx>, receiver: Option<Vehicle>, n: NodeIdx) -> bool {
        // `self.network.node(node)`
        &&& self.network.has(n)
        &&& !self.network.sp_node(n).sp_is_depot() ==> {
            // `train_formations.get(&node).unwrap()` and the panic "Node {} has no train formations."
            &&& tf0.contains_key(n)
            // `old_formation.vehicle_count()` is a u32
            &&& tf0[n].formation@.len() <= u32::MAX
            // `maximal_formation_count_for(node)`: the trip's vehicle type is a type of the network
            &&& self.network.sp_node(n) is Service ==> self.network.is_trip(n)
            // `TrainFormation::capacity()` / `seats()` are u32 sums, before and after the replacement
            &&& self.network.sp_node(n) is Service ==> {
                &&& fcap(tf0[n].formation@) <= u32::MAX && fseats(tf0[n].formation@) <= u32::MAX
                &&& self.repl_ok(tf0[n].formation@, provider, receiver, n) ==>
                        fcap(self.repl_seq(tf0[n].formation@, provider, receiver)) <= u32::MAX
                        && fseats(self.repl_seq(tf0[n].formation@, provider, receiver)) <= u32::MAX
            }
        }
    }
    /// `unserved_passengers.c -= before; … += after` at the k-th moved node, in u32: no underflow, no overflow
    /// (u0 = the value on entry).  Only required as far as the loop gets (up to the first failing replacement).
    pub open spec fn arith_ok_at(&self, tf0: Formations, provider: Option<VehicleIdx>, receiver: Option<Vehicle>, moved: Seq<NodeIdx>, u0: int, k: int, c: int) -> bool {
        &&& self.all_ok(tf0, provider, receiver, moved, k) ==>
                u0 - self.un_sum(tf0, provider, receiver, moved, k + 1, false, c) + self.un_sum(tf0, provider, receiver, moved, k, true, c) >= 0
        &&& self.all_ok(tf0, provider, receiver, moved, k + 1) ==>
                u0 - self.un_sum(tf0, provider, receiver, moved, k + 1, false, c) + self.un_sum(tf0, provider, receiver, moved, k + 1, true, c) <= u32::MAX
    }
    /// the precondition of update_train_formation
    pub open spec fn tfu_pre(&self, tf0: Formations, u0: (PassengerCount, PassengerCount), provider: Option<VehicleIdx>, receiver: Option<Vehicle>, moved: Seq<NodeIdx>) -> bool {
        // (all of these only as far as the loop gets: up to the first failing replacement)
        &&& forall|i: int| 0 <= i < moved.len() && self.all_ok(tf0, provider, receiver, moved, i)
                ==> self.node_pre(tf0, provider, receiver, #[trigger] moved[i])
        // every node is moved once
        &&& moved.no_duplicates()
        &&& forall|k: int| 0 <= k < moved.len() ==> #[trigger] self.arith_ok_at(tf0, provider, receiver, moved, u0.0 as int, k, 0)
        &&& forall|k: int| 0 <= k < moved.len() ==> #[trigger] self.arith_ok_at(tf0, provider, receiver, moved, u0.1 as int, k, 1)
    }

    // ---- the postconditions, as predicates on the old and the new table ------------------------------
    /// C13: "formations elsewhere … stay untouched": same nodes, and every node that is not a moved non-depot
    /// node keeps its formation
    pub open spec fn formations_elsewhere_untouched(&self, moved: Seq<NodeIdx>, tf0: Formations, tf1: Formations) -> bool {
        &&& tf1.dom() == tf0.dom()
        &&& forall|n: NodeIdx| !moved_nd(&self.network, moved, n) ==> #[trigger] tf1[n] == tf0[n]
    }
    /// C13: every moved non-depot node gets the formation vehicle_replacement_in_train_formation specifies for
    /// its OLD formation (and that replacement succeeded)
    pub open spec fn moved_get_replacement(&self, moved: Seq<NodeIdx>, tf0: Formations, tf1: Formations, provider: Option<VehicleIdx>, receiver: Option<Vehicle>) -> bool {
        forall|n: NodeIdx| moved_nd(&self.network, moved, n) ==>
            (#[trigger] tf1[n]).formation@ == self.repl_seq(tf0[n].formation@, provider, receiver)
            && self.repl_ok(tf0[n].formation@, provider, receiver, n)
    }
    /// C02 / C10: "formation, track and depot limits hold": a node that received an additional vehicle is
    /// within its limit (track count of a maintenance slot, maximal formation count of a service trip)
    pub open spec fn grown_within_limits(&self, moved: Seq<NodeIdx>, tf1: Formations, provider: Option<VehicleIdx>, receiver: Option<Vehicle>) -> bool {
        self.grows(provider, receiver) ==>
            forall|n: NodeIdx| moved_nd(&self.network, moved, n) && self.sp_node_limit(n) is Some ==>
                (#[trigger] tf1[n]).formation@.len() <= self.sp_node_limit(n).unwrap()
    }
    /// loop state after the first k moved nodes
    pub open spec fn upd_state(&self, tf0: Formations, tf: Formations, provider: Option<VehicleIdx>, receiver: Option<Vehicle>, moved: Seq<NodeIdx>, k: int) -> bool {
        &&& self.formations_elsewhere_untouched(moved.take(k), tf0, tf)
        &&& self.moved_get_replacement(moved.take(k), tf0, tf, provider, receiver)
    }
}

pub proof fn lemma_take_contains(moved: Seq<NodeIdx>, k: int, n: NodeIdx)
    requires 0 <= k < moved.len(),
    ensures moved.take(k + 1).contains(n) <==> (moved.take(k).contains(n) || n == moved[k]),
{
    let a = moved.take(k);
    let b = moved.take(k + 1);
    if b.contains(n) {
        let i = choose|i: int| 0 <= i < b.len() && b[i] == n;
        if i < k { assert(a[i] == n); }
    }
    if a.contains(n) {
        let i = choose|i: int| 0 <= i < a.len() && a[i] == n;
        assert(b[i] == n);
    }
    assert(b[k] == moved[k]);
}
/// the k-th moved node is not among the first k (every node is moved once)
pub proof fn lemma_not_yet_moved(moved: Seq<NodeIdx>, k: int)
    requires 0 <= k < moved.len(), moved.no_duplicates(),
    ensures !moved.take(k).contains(moved[k]),
{
    let a = moved.take(k);
    if a.contains(moved[k]) {
        let i = choose|i: int| 0 <= i < a.len() && a[i] == moved[k];
        assert(moved[i] == moved[k]);
    }
}
/// the loop state is not affected by a depot among the moved nodes
pub proof fn lemma_step_depot(s: &Schedule, tf0: Formations, tf: Formations, provider: Option<VehicleIdx>, receiver: Option<Vehicle>, moved: Seq<NodeIdx>, k: int)
    requires 0 <= k < moved.len(), s.upd_state(tf0, tf, provider, receiver, moved, k), s.network.sp_node(moved[k]).sp_is_depot(),
    ensures s.upd_state(tf0, tf, provider, receiver, moved, k + 1),
{
    assert forall|n: NodeIdx| moved_nd(&s.network, moved.take(k + 1), n) <==> moved_nd(&s.network, moved.take(k), n) by {
        lemma_take_contains(moved, k, n);
    }
}
/// the loop state after the formation of the k-th moved node has been replaced
pub proof fn lemma_step_moved(s: &Schedule, tf0: Formations, tf: Formations, tf2: Formations, provider: Option<VehicleIdx>, receiver: Option<Vehicle>, moved: Seq<NodeIdx>, k: int, newf: TrainFormation)
    requires
        0 <= k < moved.len(), moved.no_duplicates(),
        s.upd_state(tf0, tf, provider, receiver, moved, k),
        !s.network.sp_node(moved[k]).sp_is_depot(),
        tf0.contains_key(moved[k]),
        tf2 == tf.insert(moved[k], newf),
        newf.formation@ == s.repl_seq(tf0[moved[k]].formation@, provider, receiver),
        s.repl_ok(tf0[moved[k]].formation@, provider, receiver, moved[k]),
    ensures s.upd_state(tf0, tf2, provider, receiver, moved, k + 1),
{
    let node = moved[k];
    assert(tf2.dom() =~= tf0.dom());
    assert forall|n: NodeIdx| !moved_nd(&s.network, moved.take(k + 1), n) implies #[trigger] tf2[n] == tf0[n] by {
        lemma_take_contains(moved, k, n);
        assert(n != node);
        assert(!moved_nd(&s.network, moved.take(k), n));
        assert(tf[n] == tf0[n]);
    }
    assert forall|n: NodeIdx| moved_nd(&s.network, moved.take(k + 1), n) implies
        (#[trigger] tf2[n]).formation@ == s.repl_seq(tf0[n].formation@, provider, receiver)
        && s.repl_ok(tf0[n].formation@, provider, receiver, n) by {
        lemma_take_contains(moved, k, n);
        if n != node {
            assert(moved_nd(&s.network, moved.take(k), n));
            assert(tf[n].formation@ == s.repl_seq(tf0[n].formation@, provider, receiver));
        }
    }
}
/// the k-th moved node still has its old formation
pub proof fn lemma_untouched_yet(s: &Schedule, tf0: Formations, tf: Formations, provider: Option<VehicleIdx>, receiver: Option<Vehicle>, moved: Seq<NodeIdx>, k: int)
    requires 0 <= k < moved.len(), moved.no_duplicates(), s.upd_state(tf0, tf, provider, receiver, moved, k),
    ensures tf[moved[k]] == tf0[moved[k]], tf.dom() == tf0.dom(),
{
    lemma_not_yet_moved(moved, k);
    assert(!moved_nd(&s.network, moved.take(k), moved[k]));
}
/// a failing replacement at position k: not all replacements succeed
pub proof fn lemma_all_ok_prefix(s: &Schedule, tf0: Formations, provider: Option<VehicleIdx>, receiver: Option<Vehicle>, moved: Seq<NodeIdx>, k: int, m: int)
    requires 0 <= k <= m, s.all_ok(tf0, provider, receiver, moved, m),
    ensures s.all_ok(tf0, provider, receiver, moved, k),
{
}
/// C02: a grown formation is within the node's limit
pub proof fn lemma_grown_within_limits(s: &Schedule, moved: Seq<NodeIdx>, tf0: Formations, tf1: Formations, provider: Option<VehicleIdx>, receiver: Option<Vehicle>)
    requires s.moved_get_replacement(moved, tf0, tf1, provider, receiver),
    ensures s.grown_within_limits(moved, tf1, provider, receiver),
{
    if s.grows(provider, receiver) {
        assert forall|n: NodeIdx| moved_nd(&s.network, moved, n) && s.sp_node_limit(n) is Some implies
            (#[trigger] tf1[n]).formation@.len() <= s.sp_node_limit(n).unwrap() by {
            assert(tf1[n].formation@ == tf0[n].formation@.push(receiver.unwrap()));
        }
    }
}

// ---- the arithmetic precondition from totals -----------------------------------------------------------
pub proof fn lemma_un_sum_mono(s: &Schedule, tf0: Formations, provider: Option<VehicleIdx>, receiver: Option<Vehicle>, moved: Seq<NodeIdx>, a: int, b: int, after: bool, c: int)
    requires 0 <= a <= b,
    ensures 0 <= s.un_sum(tf0, provider, receiver, moved, a, after, c) <= s.un_sum(tf0, provider, receiver, moved, b, after, c),
    decreases b,
{
    if a < b {
        lemma_un_sum_mono(s, tf0, provider, receiver, moved, a, b - 1, after, c);
    } else if a > 0 {
        lemma_un_sum_mono(s, tf0, provider, receiver, moved, a - 1, b - 1, after, c);
    }
}
/// a sufficient condition for the u32 arithmetic that callers can read off C09 ("cached aggregates equal
/// recomputation": the pair is the sum over ALL service nodes of their unserved passengers, hence at least the
/// sum over the moved ones, every node being moved once): the running value covers the moved nodes' old
/// contribution, and adding all new contributions does not overflow
pub proof fn lemma_arith_from_totals(s: &Schedule, tf0: Formations, provider: Option<VehicleIdx>, receiver: Option<Vehicle>, moved: Seq<NodeIdx>, u0: int, c: int)
    requires
        s.un_sum(tf0, provider, receiver, moved, moved.len() as int, false, c) <= u0,
        u0 + s.un_sum(tf0, provider, receiver, moved, moved.len() as int, true, c) <= u32::MAX,
    ensures
        forall|k: int| 0 <= k < moved.len() ==> #[trigger] s.arith_ok_at(tf0, provider, receiver, moved, u0, k, c),
{
    let n = moved.len() as int;
    assert forall|k: int| 0 <= k < n implies #[trigger] s.arith_ok_at(tf0, provider, receiver, moved, u0, k, c) by {
        lemma_un_sum_mono(s, tf0, provider, receiver, moved, k + 1, n, false, c);
        lemma_un_sum_mono(s, tf0, provider, receiver, moved, k, n, true, c);
        lemma_un_sum_mono(s, tf0, provider, receiver, moved, k + 1, n, true, c);
        lemma_un_sum_mono(s, tf0, provider, receiver, moved, 0, k + 1, false, c);
    }
}

// ---- the contract implies the stub contract used in slices/remove_segment.vs ----------------------------
/// For "None: only delete provider" with a real provider, the Ok-postconditions of update_train_formation
/// (formations_elsewhere_untouched, moved_get_replacement) and its Ok <==> all_ok clause imply the
/// postcondition of the stub `Schedule::update_train_formation : trusted` of slices/remove_segment.vs
/// (there `moved_activity(net, moved, n)` is `moved.contains(n) && net.sp_node(n).sp_is_activity()`, which is
/// `moved_nd` since a node is an activity iff it is not a depot).
pub proof fn lemma_implies_remove_segment_stub(s: &Schedule, tf0: Formations, tf1: Formations, provider: Option<VehicleIdx>, moved: Seq<NodeIdx>, ok: bool)
    requires
        provider is Some && !s.sp_is_dummy(provider.unwrap()),
        ok <==> s.all_ok(tf0, provider, None, moved, moved.len() as int),
        ok ==> s.formations_elsewhere_untouched(moved, tf0, tf1) && s.moved_get_replacement(moved, tf0, tf1, provider, None),
    ensures
        ok <==> forall|n: NodeIdx| moved.contains(n) && s.network.sp_node(n).sp_is_activity()
                    ==> has_vehicle((#[trigger] tf0[n]).formation@, provider.unwrap()),
        ok ==> {
            &&& forall|n: NodeIdx| #[trigger] tf1.contains_key(n) <==> tf0.contains_key(n)
            &&& forall|n: NodeIdx| !(moved.contains(n) && s.network.sp_node(n).sp_is_activity()) ==> #[trigger] tf1[n] == tf0[n]
            &&& forall|n: NodeIdx| moved.contains(n) && s.network.sp_node(n).sp_is_activity()
                    ==> (#[trigger] tf1[n]).formation@
                        == tf0[n].formation@.remove(first_pos(tf0[n].formation@, provider.unwrap()))
        },
{
    let rv: Option<Vehicle> = None;
    assert(s.shrinks(provider, rv));
    assert(!s.grows(provider, rv) && !s.replaces(provider, rv));
    let p = provider.unwrap();
    if ok {
        assert forall|n: NodeIdx| moved.contains(n) && s.network.sp_node(n).sp_is_activity()
            implies has_vehicle((#[trigger] tf0[n]).formation@, p) by {
            let j = choose|j: int| 0 <= j < moved.len() && moved[j] == n;
            assert(s.repl_ok(tf0[moved[j]].formation@, provider, rv, moved[j]));
        }
        assert forall|n: NodeIdx| moved.contains(n) && s.network.sp_node(n).sp_is_activity()
            implies (#[trigger] tf1[n]).formation@ == tf0[n].formation@.remove(first_pos(tf0[n].formation@, p)) by {
            assert(moved_nd(&s.network, moved, n));
        }
        assert forall|n: NodeIdx| !(moved.contains(n) && s.network.sp_node(n).sp_is_activity()) implies #[trigger] tf1[n] == tf0[n] by {
            assert(!moved_nd(&s.network, moved, n));
        }
        assert forall|n: NodeIdx| #[trigger] tf1.contains_key(n) <==> tf0.contains_key(n) by {
            assert(tf1.dom().contains(n) <==> tf0.dom().contains(n));
        }
    }
    if forall|n: NodeIdx| moved.contains(n) && s.network.sp_node(n).sp_is_activity() ==> has_vehicle((#[trigger] tf0[n]).formation@, p) {
        assert forall|j: int| 0 <= j < moved.len() && !s.network.sp_node(#[trigger] moved[j]).sp_is_depot()
            implies s.repl_ok(tf0[moved[j]].formation@, provider, rv, moved[j]) by {
            assert(moved.contains(moved[j]));
            assert(has_vehicle(tf0[moved[j]].formation@, p));
        }
    }
}
