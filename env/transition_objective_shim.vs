// ---- shim for slice `transition_objective` (C15, last sentence): objectives of the two transition searches ----
// Included inside `pub mod tr { … }`.  Everything `axiom` / hand-written declaration here is an ASSUMPTION
// (listed in the header of slices/transition_objective.vs).

/// A-dyn (interface stub): rapid_solve's `pub trait Indicator<S>: Send + Sync { fn evaluate(&self, solution: &S)
/// -> BaseValue; fn name(&self) -> String; }` declared with `evaluate` only (no precondition is needed here: the
/// indicators only read a stored i64)
pub trait Indicator<S> {
    fn evaluate(&self, solution: &S) -> BaseValue;
}
/// what calling `evaluate` through the trait object yields
pub uninterp spec fn dyn_eval<S>(b: Box<dyn Indicator<S>>, s: S) -> BaseValue;
/// one hierarchy level that is exactly `1 * indicator`
pub open spec fn single_term<S>(l: LinearCombination<S>) -> bool {
    l.summands@.len() == 1 && l.summands@[0].0 == Coefficient::Integer(1)
}
pub open spec fn level_value<S>(l: LinearCombination<S>, s: S) -> BaseValue { dyn_eval(l.summands@[0].1, s) }
