// ---- spec vocabulary for the rotation-cycle bookkeeping (C15, C05) ----------------------------------
// Written from the property text (see DESIGN §4), not from the code.

/// magnitude of one tour's maintenance counter and of one dead-head distance (2^40 m)
pub open spec fn counter_bound() -> int { 0x100_0000_0000 }
/// bound of one vehicle's contribution to its cycle: its own counter plus its outgoing depot trip
pub open spec fn vehicle_bound() -> int { 0x200_0000_0000 }
/// number of vehicles a transition can hold (so that all sums stay below 2^58)
pub open spec fn max_vehicles() -> int { 0x2_0000 }

/// the dead-head distance in metres between the end location of node `a` and the start location of
/// node `b`; INF_DISTANCE if it is infinite
pub open spec fn dist_m(net: &Network, a: NodeIdx, b: NodeIdx) -> int {
    match net.locations.sp_distance(net.sp_node(a).sp_end_location(), net.sp_node(b).sp_start_location()) {
        Distance::Distance(d) => d as int,
        Distance::Infinity => INF_DISTANCE as int,
    }
}

/// the maintenance counter of a tour (distance travelled, minus the maintenance allowance if the
/// tour visits a maintenance slot) -- computed in the tour slice, abstract here
pub uninterp spec fn tour_counter(t: &Tour) -> int;
pub open spec fn sp_start_depot(t: &Tour) -> NodeIdx { t.nodes@[0] }
pub open spec fn sp_end_depot(t: &Tour) -> NodeIdx { t.nodes@[t.nodes@.len() - 1] }

/// a tour a rotation cycle may contain: a well-formed real (non-dummy) tour of this network whose
/// counter is small
pub open spec fn tour_ok(net: &Network, t: &Tour) -> bool {
    &&& t.wf()
    &&& !t.is_dummy
    &&& *t.network == *net
    &&& -counter_bound() <= tour_counter(t) <= counter_bound()
}

/// the tour of a vehicle while a schedule is modified step by step: the already updated tour if
/// there is one, the tour of the old schedule otherwise
pub open spec fn eff_tours(updated: Map<VehicleIdx, &Tour>, old_tours: Map<VehicleIdx, Tour>) -> Map<VehicleIdx, Tour> {
    Map::new(
        updated.dom().union(old_tours.dom()),
        |v: VehicleIdx| if updated.contains_key(v) { *updated[v] } else { old_tours[v] },
    )
}

pub open spec fn sum_seq(s: Seq<int>) -> int
    decreases s.len(),
{
    if s.len() == 0 { 0 } else { sum_seq(s.drop_last()) + s.last() }
}

/// dead-head trip from the end depot of u's tour to the start depot of v's tour
pub open spec fn depot_edge(net: &Network, tours: Map<VehicleIdx, Tour>, u: VehicleIdx, v: VehicleIdx) -> int {
    dist_m(net, sp_end_depot(&tours[u]), sp_start_depot(&tours[v]))
}
pub open spec fn counter_seq(tours: Map<VehicleIdx, Tour>, c: Seq<VehicleIdx>) -> Seq<int> {
    Seq::new(c.len(), |i: int| tour_counter(&tours[c[i]]))
}
/// the i-th entry is the depot trip between the cyclically consecutive pair (c[i], c[(i+1) % n])
pub open spec fn edge_seq(net: &Network, tours: Map<VehicleIdx, Tour>, c: Seq<VehicleIdx>) -> Seq<int> {
    Seq::new(c.len(), |i: int| depot_edge(net, tours, c[i], c[(i + 1) % (c.len() as int)]))
}
/// C15: 0 for the empty cycle; otherwise the sum of the tour counters of the cycle's vehicles plus
/// the depot trips between all cyclically consecutive pairs (a single self loop for one vehicle)
pub open spec fn spec_cycle_counter(net: &Network, tours: Map<VehicleIdx, Tour>, c: Seq<VehicleIdx>) -> int {
    if c.len() == 0 { 0 } else { sum_seq(counter_seq(tours, c)) + sum_seq(edge_seq(net, tours, c)) }
}

pub open spec fn max0(x: int) -> int { if x >= 0 { x } else { 0 } }
pub open spec fn counters_of(cs: Seq<TransitionCycle>) -> Seq<int> {
    Seq::new(cs.len(), |i: int| cs[i].maintenance_counter as int)
}
pub open spec fn violations_of(cs: Seq<TransitionCycle>) -> Seq<int> {
    Seq::new(cs.len(), |i: int| max0(cs[i].maintenance_counter as int))
}
pub open spec fn lens_of(cs: Seq<TransitionCycle>) -> Seq<int> {
    Seq::new(cs.len(), |i: int| cs[i].cycle@.len() as int)
}
/// new is a rearrangement of old
pub open spec fn is_permutation_of(new: Seq<VehicleIdx>, old: Seq<VehicleIdx>) -> bool {
    &&& new.len() == old.len()
    &&& new.no_duplicates()
    &&& forall|v: VehicleIdx| new.contains(v) <==> old.contains(v)
}

/// the abstract state of a Transition (the views of its fields); all C15 vocabulary is stated on it
pub ghost struct TView {
    pub cycles: Seq<TransitionCycle>,
    pub total_violation: int,
    pub total_counter: int,
    pub lookup: Map<VehicleIdx, CycleIdx>,
    pub empty: Seq<CycleIdx>,
}
impl View for Transition {
    type V = TView;
    open spec fn view(&self) -> TView {
        TView {
            cycles: self.cycles@,
            total_violation: self.total_maintenance_violation as int,
            total_counter: self.total_maintenance_counter as int,
            lookup: self.cycle_lookup@,
            empty: self.empty_cycles@,
        }
    }
}
impl Transition {
    pub open spec fn n(&self) -> int { self@.n() }
    pub open spec fn cyc(&self, i: int) -> Seq<VehicleIdx> { self@.cyc(i) }
    pub open spec fn has_vehicle(&self, v: VehicleIdx) -> bool { self@.has_vehicle(v) }
    pub open spec fn cycle_of(&self, v: VehicleIdx) -> int { self@.cycle_of(v) }
    pub open spec fn succ_of(&self, v: VehicleIdx) -> VehicleIdx { self@.succ_of(v) }
    pub open spec fn pred_of(&self, v: VehicleIdx) -> VehicleIdx { self@.pred_of(v) }
    pub open spec fn total_len(&self) -> int { self@.total_len() }
    pub open spec fn wf_cycles(&self) -> bool { self@.wf_cycles() }
    pub open spec fn wf_lookup(&self) -> bool { self@.wf_lookup() }
    pub open spec fn wf_empty(&self) -> bool { self@.wf_empty() }
    pub open spec fn tours_real(&self, tours: Map<VehicleIdx, Tour>) -> bool { self@.tours_real(tours) }
    pub open spec fn wf_but_empty(&self, net: &Network, tours: Map<VehicleIdx, Tour>) -> bool { self@.wf_but_empty(net, tours) }
    /// C15: the transition is consistent with the tours
    pub open spec fn wf(&self, net: &Network, tours: Map<VehicleIdx, Tour>) -> bool { self@.wf(net, tours) }
}
impl TView {
    pub open spec fn n(&self) -> int { self.cycles.len() as int }
    pub open spec fn cyc(&self, i: int) -> Seq<VehicleIdx> { self.cycles[i].cycle@ }
    pub open spec fn has_vehicle(&self, v: VehicleIdx) -> bool { self.lookup.contains_key(v) }
    pub open spec fn cycle_of(&self, v: VehicleIdx) -> int { self.lookup[v] as int }
    /// C05: the cyclic successor of v in the cycle containing it
    pub open spec fn succ_of(&self, v: VehicleIdx) -> VehicleIdx {
        let c = self.cyc(self.cycle_of(v));
        c[(c.index_of(v) + 1) % (c.len() as int)]
    }
    pub open spec fn pred_of(&self, v: VehicleIdx) -> VehicleIdx {
        let c = self.cyc(self.cycle_of(v));
        c[(c.index_of(v) + c.len() - 1) % (c.len() as int)]
    }
    pub open spec fn total_len(&self) -> int { sum_seq(lens_of(self.cycles)) }

    /// every cycle is duplicate-free, cycles are pairwise disjoint (and the transition is small)
    pub open spec fn wf_cycles(&self) -> bool {
        &&& self.total_len() <= max_vehicles()
        &&& forall|i: int| 0 <= i < self.n() ==> (#[trigger] self.cyc(i)).no_duplicates()
        &&& forall|i: int, j: int, a: int, b: int|
            0 <= i < self.n() && 0 <= j < self.n() && i != j && 0 <= a < self.cyc(i).len() && 0 <= b < self.cyc(j).len()
            ==> #[trigger] self.cyc(i)[a] != #[trigger] self.cyc(j)[b]
    }
    /// the lookup has exactly the vehicles occurring in cycles as keys and maps each to the index
    /// of the cycle containing it
    pub open spec fn wf_lookup(&self) -> bool {
        &&& forall|v: VehicleIdx| #[trigger] self.lookup.contains_key(v)
            ==> 0 <= self.cycle_of(v) < self.n() && self.cyc(self.cycle_of(v)).contains(v)
        &&& forall|i: int, a: int| 0 <= i < self.n() && 0 <= a < self.cyc(i).len()
            ==> self.lookup.contains_key(#[trigger] self.cyc(i)[a]) && self.cycle_of(self.cyc(i)[a]) == i
    }
    /// empty_cycles is duplicate-free and contains exactly the indices of the empty cycles
    pub open spec fn wf_empty(&self) -> bool {
        &&& self.empty.no_duplicates()
        &&& forall|x: CycleIdx| #[trigger] self.empty.contains(x) <==> (0 <= x < self.n() && self.cyc(x as int).len() == 0)
    }
    /// every vehicle of a cycle has a well-formed non-dummy tour (network-independent part)
    pub open spec fn tours_real(&self, tours: Map<VehicleIdx, Tour>) -> bool {
        forall|i: int, a: int| 0 <= i < self.n() && 0 <= a < self.cyc(i).len()
            ==> tours.contains_key(#[trigger] self.cyc(i)[a]) && tours[self.cyc(i)[a]].wf() && !tours[self.cyc(i)[a]].is_dummy
    }
    /// every vehicle of a cycle has a well-formed non-dummy tour
    pub open spec fn wf_tours(&self, net: &Network, tours: Map<VehicleIdx, Tour>) -> bool {
        &&& net.wf()
        &&& forall|i: int, a: int| 0 <= i < self.n() && 0 <= a < self.cyc(i).len()
            ==> tours.contains_key(#[trigger] self.cyc(i)[a]) && tour_ok(net, &tours[self.cyc(i)[a]])
    }
    /// the stored counters are exact
    pub open spec fn wf_counters(&self, net: &Network, tours: Map<VehicleIdx, Tour>) -> bool {
        &&& forall|i: int| 0 <= i < self.n()
            ==> self.cycles[i].maintenance_counter == spec_cycle_counter(net, tours, #[trigger] self.cyc(i))
        &&& self.total_counter == sum_seq(counters_of(self.cycles))
        &&& self.total_violation == sum_seq(violations_of(self.cycles))
    }
    /// everything but the clause about empty_cycles
    pub open spec fn wf_but_empty(&self, net: &Network, tours: Map<VehicleIdx, Tour>) -> bool {
        &&& self.wf_cycles()
        &&& self.wf_lookup()
        &&& self.wf_tours(net, tours)
        &&& self.wf_counters(net, tours)
    }
    /// C15: the transition is consistent with the tours
    pub open spec fn wf(&self, net: &Network, tours: Map<VehicleIdx, Tour>) -> bool {
        self.wf_but_empty(net, tours) && self.wf_empty()
    }
}

// ---- lemmas ------------------------------------------------------------------------------------------
pub proof fn lemma_mod_next(i: int, n: int)
    requires 0 <= i < n,
    ensures (i + 1) % n == (if i + 1 == n { 0 } else { i + 1 }),
{
    if i + 1 == n { vstd::arithmetic::div_mod::lemma_mod_self_0(n); } else { vstd::arithmetic::div_mod::lemma_small_mod((i + 1) as nat, n as nat); }
}
pub proof fn lemma_mod_prev(i: int, n: int)
    requires 0 <= i < n,
    ensures (i + n - 1) % n == (if i == 0 { n - 1 } else { i - 1 }),
{
    if i == 0 { vstd::arithmetic::div_mod::lemma_small_mod((n - 1) as nat, n as nat); }
    else {
        vstd::arithmetic::div_mod::lemma_mod_add_multiples_vanish(i - 1, n);
        vstd::arithmetic::div_mod::lemma_small_mod((i - 1) as nat, n as nat);
        assert(n + (i - 1) == i + n - 1);
    }
}
/// a dead-head distance between two nodes of the network is small
pub proof fn lemma_dist_bound(net: &Network, a: NodeIdx, b: NodeIdx)
    requires net.wf(), net.has(a), net.has(b),
    ensures 0 <= dist_m(net, a, b) <= counter_bound(),
{
    assert(net.nodes@.contains_key(a) && net.nodes@.contains_key(b));
    let l1 = net.sp_node(a).sp_end_location();
    let l2 = net.sp_node(b).sp_start_location();
    lemma_locations_wf2(&net.locations, l1, l2);
}
/// the depots of an admissible tour are nodes of the network
pub proof fn lemma_tour_ok_depots(net: &Network, t: &Tour)
    requires tour_ok(net, t),
    ensures net.wf(), net.has(sp_start_depot(t)), net.has(sp_end_depot(t)),
{
    assert(t.network.has(t.nodes@[0]));
    assert(t.network.has(t.nodes@[t.nodes@.len() - 1]));
}

// ---- sums over integer sequences ---------------------------------------------------------------------
pub proof fn lemma_sum_one(x: int)
    ensures sum_seq(seq![x]) == x,
{
    assert(seq![x].drop_last() =~= Seq::<int>::empty());
    assert(sum_seq(seq![x]) == sum_seq(seq![x].drop_last()) + seq![x].last());
}
pub proof fn lemma_sum_push(s: Seq<int>, x: int)
    ensures sum_seq(s.push(x)) == sum_seq(s) + x,
{
    assert(s.push(x).drop_last() =~= s);
}
pub proof fn lemma_sum_append(a: Seq<int>, b: Seq<int>)
    ensures sum_seq(a + b) == sum_seq(a) + sum_seq(b),
    decreases b.len(),
{
    if b.len() == 0 {
        assert(a + b =~= a);
    } else {
        assert((a + b).drop_last() =~= a + b.drop_last());
        lemma_sum_append(a, b.drop_last());
    }
}
pub proof fn lemma_sum_update(s: Seq<int>, i: int, x: int)
    requires 0 <= i < s.len(),
    ensures sum_seq(s.update(i, x)) == sum_seq(s) - s[i] + x,
    decreases s.len(),
{
    if i == s.len() - 1 {
        assert(s.update(i, x).drop_last() =~= s.drop_last());
    } else {
        assert(s.update(i, x).drop_last() =~= s.drop_last().update(i, x));
        lemma_sum_update(s.drop_last(), i, x);
    }
}
pub proof fn lemma_sum_remove(s: Seq<int>, i: int)
    requires 0 <= i < s.len(),
    ensures sum_seq(s.remove(i)) == sum_seq(s) - s[i],
    decreases s.len(),
{
    if i == s.len() - 1 {
        assert(s.remove(i) =~= s.drop_last());
    } else {
        assert(s.remove(i).drop_last() =~= s.drop_last().remove(i));
        assert(s.remove(i).last() == s.last());
        lemma_sum_remove(s.drop_last(), i);
    }
}
pub proof fn lemma_sum_bounds(s: Seq<int>, lo: int, hi: int)
    requires forall|i: int| 0 <= i < s.len() ==> lo <= #[trigger] s[i] <= hi,
    ensures lo * s.len() <= sum_seq(s) <= hi * s.len(),
    decreases s.len(),
{
    if s.len() > 0 {
        lemma_sum_bounds(s.drop_last(), lo, hi);
        assert(lo * s.len() == lo * (s.len() - 1) + lo) by (nonlinear_arith);
        assert(hi * s.len() == hi * (s.len() - 1) + hi) by (nonlinear_arith);
    }
}
/// weighted bound: |s[i]| <= w[i] * b for all i  ==>  |sum s| <= (sum w) * b
pub proof fn lemma_sum_scaled(s: Seq<int>, w: Seq<int>, b: int)
    requires s.len() == w.len(), forall|i: int| 0 <= i < s.len() ==> -(w[i] * b) <= #[trigger] s[i] <= w[i] * b,
    ensures -(sum_seq(w) * b) <= sum_seq(s) <= sum_seq(w) * b,
    decreases s.len(),
{
    if s.len() > 0 {
        lemma_sum_scaled(s.drop_last(), w.drop_last(), b);
        let x = sum_seq(w.drop_last()); let y = w.last();
        assert((x + y) * b == x * b + y * b) by (nonlinear_arith);
    }
}
/// weighted bound for non-negative sums
pub proof fn lemma_sum_scaled_nonneg(s: Seq<int>, w: Seq<int>, b: int)
    requires s.len() == w.len(), forall|i: int| 0 <= i < s.len() ==> 0 <= #[trigger] s[i] <= w[i] * b,
    ensures 0 <= sum_seq(s) <= sum_seq(w) * b,
    decreases s.len(),
{
    if s.len() > 0 {
        lemma_sum_scaled_nonneg(s.drop_last(), w.drop_last(), b);
        let x = sum_seq(w.drop_last()); let y = w.last();
        assert((x + y) * b == x * b + y * b) by (nonlinear_arith);
    }
}
/// an entry of a sequence of non-negative numbers is at most the sum
pub proof fn lemma_sum_elem_le(s: Seq<int>, i: int)
    requires 0 <= i < s.len(), forall|j: int| 0 <= j < s.len() ==> 0 <= #[trigger] s[j],
    ensures 0 <= s[i] <= sum_seq(s),
    decreases s.len(),
{
    if i < s.len() - 1 {
        lemma_sum_elem_le(s.drop_last(), i);
    } else {
        lemma_sum_nonneg(s.drop_last());
    }
}
pub proof fn lemma_sum_nonneg(s: Seq<int>)
    requires forall|j: int| 0 <= j < s.len() ==> 0 <= #[trigger] s[j],
    ensures 0 <= sum_seq(s),
    decreases s.len(),
{
    if s.len() > 0 { lemma_sum_nonneg(s.drop_last()); }
}

// ---- the counter of one cycle -------------------------------------------------------------------------
/// all vehicles of c have an admissible tour
pub open spec fn cycle_tours_ok(net: &Network, tours: Map<VehicleIdx, Tour>, c: Seq<VehicleIdx>) -> bool {
    forall|a: int| 0 <= a < c.len() ==> tours.contains_key(#[trigger] c[a]) && tour_ok(net, &tours[c[a]])
}
/// the counter of a cycle only depends on the tours of its vehicles
pub proof fn lemma_counter_same(net: &Network, t1: Map<VehicleIdx, Tour>, t2: Map<VehicleIdx, Tour>, c: Seq<VehicleIdx>)
    requires forall|a: int| 0 <= a < c.len() ==> t1[#[trigger] c[a]] == t2[c[a]],
    ensures spec_cycle_counter(net, t1, c) == spec_cycle_counter(net, t2, c),
{
    let n = c.len() as int;
    assert(counter_seq(t1, c) =~= counter_seq(t2, c));
    assert forall|i: int| 0 <= i < n implies edge_seq(net, t1, c)[i] == edge_seq(net, t2, c)[i] by {
        lemma_mod_next(i, n);
    }
    assert(edge_seq(net, t1, c) =~= edge_seq(net, t2, c));
}
pub proof fn lemma_counter_single(net: &Network, tours: Map<VehicleIdx, Tour>, v: VehicleIdx)
    ensures spec_cycle_counter(net, tours, seq![v]) == tour_counter(&tours[v]) + depot_edge(net, tours, v, v),
{
    let c = seq![v];
    lemma_mod_next(0, 1);
    assert(counter_seq(tours, c) =~= seq![tour_counter(&tours[v])]);
    assert(edge_seq(net, tours, c) =~= seq![depot_edge(net, tours, v, v)]);
    lemma_sum_one(tour_counter(&tours[v]));
    lemma_sum_one(depot_edge(net, tours, v, v));
}
pub proof fn lemma_edge_bound(net: &Network, tours: Map<VehicleIdx, Tour>, u: VehicleIdx, v: VehicleIdx)
    requires tours.contains_key(u), tours.contains_key(v), tour_ok(net, &tours[u]), tour_ok(net, &tours[v]),
    ensures 0 <= depot_edge(net, tours, u, v) <= counter_bound(),
{
    lemma_tour_ok_depots(net, &tours[u]);
    lemma_tour_ok_depots(net, &tours[v]);
    lemma_dist_bound(net, sp_end_depot(&tours[u]), sp_start_depot(&tours[v]));
}
/// |counter| <= len * 2^41
pub proof fn lemma_counter_bound(net: &Network, tours: Map<VehicleIdx, Tour>, c: Seq<VehicleIdx>)
    requires cycle_tours_ok(net, tours, c),
    ensures -(c.len() * vehicle_bound()) <= spec_cycle_counter(net, tours, c) <= c.len() * vehicle_bound(),
{
    let n = c.len() as int;
    if n > 0 {
        let cs = counter_seq(tours, c);
        let es = edge_seq(net, tours, c);
        assert forall|i: int| 0 <= i < n implies 0 <= #[trigger] es[i] <= counter_bound() by {
            lemma_mod_next(i, n);
            lemma_edge_bound(net, tours, c[i], c[(i + 1) % n]);
        }
        assert forall|i: int| 0 <= i < n implies -counter_bound() <= #[trigger] cs[i] <= counter_bound() by {
            assert(tour_ok(net, &tours[c[i]]));
        }
        lemma_sum_bounds(cs, -counter_bound(), counter_bound());
        lemma_sum_bounds(es, 0, counter_bound());
        assert(n * vehicle_bound() == n * counter_bound() + n * counter_bound()) by (nonlinear_arith)
            requires vehicle_bound() == 2 * counter_bound();
        assert((-counter_bound()) * n == -(n * counter_bound())) by (nonlinear_arith);
        assert(counter_bound() * n == n * counter_bound()) by (nonlinear_arith);
        assert(0 * n == 0);
    }
}
/// replacing the tour of the vehicle at position p of a cycle with at least two vehicles
pub proof fn lemma_counter_update(net: &Network, tours: Map<VehicleIdx, Tour>, c: Seq<VehicleIdx>, p: int, nt: Tour)
    requires c.no_duplicates(), c.len() >= 2, 0 <= p < c.len(),
    ensures ({
        let n = c.len() as int;
        let v = c[p];
        let pred = c[(p + n - 1) % n];
        let succ = c[(p + 1) % n];
        spec_cycle_counter(net, tours.insert(v, nt), c) == spec_cycle_counter(net, tours, c)
            - (tour_counter(&tours[v]) + dist_m(net, sp_end_depot(&tours[pred]), sp_start_depot(&tours[v]))
                + dist_m(net, sp_end_depot(&tours[v]), sp_start_depot(&tours[succ])))
            + (tour_counter(&nt) + dist_m(net, sp_end_depot(&tours[pred]), sp_start_depot(&nt))
                + dist_m(net, sp_end_depot(&nt), sp_start_depot(&tours[succ])))
    }),
{
    let n = c.len() as int;
    let v = c[p];
    let pm = (p + n - 1) % n;
    let ps = (p + 1) % n;
    lemma_mod_next(p, n);
    lemma_mod_prev(p, n);
    lemma_mod_next(pm, n);
    let t2 = tours.insert(v, nt);
    let a1 = counter_seq(tours, c);
    let a2 = counter_seq(t2, c);
    let b1 = edge_seq(net, tours, c);
    let b2 = edge_seq(net, t2, c);
    let x = dist_m(net, sp_end_depot(&tours[c[pm]]), sp_start_depot(&nt));
    let y = dist_m(net, sp_end_depot(&nt), sp_start_depot(&tours[c[ps]]));
    assert(a2 =~= a1.update(p, tour_counter(&nt)));
    assert forall|i: int| 0 <= i < n implies #[trigger] b2[i] == b1.update(pm, x).update(p, y)[i] by {
        lemma_mod_next(i, n);
    }
    assert(b2 =~= b1.update(pm, x).update(p, y));
    lemma_sum_update(a1, p, tour_counter(&nt));
    lemma_sum_update(b1, pm, x);
    lemma_sum_update(b1.update(pm, x), p, y);
}
/// removing the vehicle at position p of a cycle with at least two vehicles
pub proof fn lemma_counter_remove(net: &Network, tours: Map<VehicleIdx, Tour>, c: Seq<VehicleIdx>, p: int)
    requires c.len() >= 2, 0 <= p < c.len(),
    ensures ({
        let n = c.len() as int;
        let v = c[p];
        let pred = c[(p + n - 1) % n];
        let succ = c[(p + 1) % n];
        spec_cycle_counter(net, tours, c.remove(p)) == spec_cycle_counter(net, tours, c)
            - (tour_counter(&tours[v]) + depot_edge(net, tours, pred, v) + depot_edge(net, tours, v, succ))
            + depot_edge(net, tours, pred, succ)
    }),
{
    let n = c.len() as int;
    let pm = (p + n - 1) % n;
    let ps = (p + 1) % n;
    lemma_mod_next(p, n);
    lemma_mod_prev(p, n);
    lemma_mod_next(pm, n);
    let c2 = c.remove(p);
    let a1 = counter_seq(tours, c);
    let a2 = counter_seq(tours, c2);
    let b1 = edge_seq(net, tours, c);
    let b2 = edge_seq(net, tours, c2);
    let x = depot_edge(net, tours, c[pm], c[ps]);
    assert(a2 =~= a1.remove(p));
    assert forall|i: int| 0 <= i < n - 1 implies #[trigger] b2[i] == b1.update(pm, x).remove(p)[i] by {
        lemma_mod_next(i, n - 1);
        lemma_mod_next(i, n);
        lemma_mod_next(i + 1, n);
    }
    assert(b2 =~= b1.update(pm, x).remove(p));
    lemma_sum_remove(a1, p);
    lemma_sum_update(b1, pm, x);
    lemma_sum_remove(b1.update(pm, x), p);
}
/// appending a vehicle to a non-empty cycle
pub proof fn lemma_counter_push(net: &Network, tours: Map<VehicleIdx, Tour>, c: Seq<VehicleIdx>, v: VehicleIdx)
    requires c.len() >= 1,
    ensures
        spec_cycle_counter(net, tours, c.push(v)) == spec_cycle_counter(net, tours, c)
            - depot_edge(net, tours, c[c.len() - 1], c[0])
            + (tour_counter(&tours[v]) + depot_edge(net, tours, c[c.len() - 1], v) + depot_edge(net, tours, v, c[0])),
{
    let n = c.len() as int;
    let c2 = c.push(v);
    lemma_mod_next(n - 1, n);
    let a1 = counter_seq(tours, c);
    let a2 = counter_seq(tours, c2);
    let b1 = edge_seq(net, tours, c);
    let b2 = edge_seq(net, tours, c2);
    let x = depot_edge(net, tours, c[n - 1], v);
    let y = depot_edge(net, tours, v, c[0]);
    assert(a2 =~= a1.push(tour_counter(&tours[v])));
    assert forall|i: int| 0 <= i < n + 1 implies #[trigger] b2[i] == b1.update(n - 1, x).push(y)[i] by {
        lemma_mod_next(i, n + 1);
        if i < n { lemma_mod_next(i, n); }
    }
    assert(b2 =~= b1.update(n - 1, x).push(y));
    lemma_sum_push(a1, tour_counter(&tours[v]));
    lemma_sum_update(b1, n - 1, x);
    lemma_sum_push(b1.update(n - 1, x), y);
}

// ---- the whole transition -----------------------------------------------------------------------------
impl TView {
    /// magnitudes implied by wf: they make the i64 arithmetic of the modifications overflow free
    pub proof fn lemma_bounds(&self, net: &Network, tours: Map<VehicleIdx, Tour>)
        requires self.wf_but_empty(net, tours),
        ensures
            forall|i: int| 0 <= i < self.n() ==> 0 <= (#[trigger] self.cyc(i)).len() <= self.total_len(),
            forall|i: int| 0 <= i < self.n() ==>
                -(self.cyc(i).len() * vehicle_bound()) <= (#[trigger] self.cycles[i]).maintenance_counter <= self.cyc(i).len() * vehicle_bound(),
            -(self.total_len() * vehicle_bound()) <= self.total_counter <= self.total_len() * vehicle_bound(),
            0 <= self.total_violation <= self.total_len() * vehicle_bound(),
            0 <= self.total_len() * vehicle_bound() <= 0x400_0000_0000_0000,
            forall|i: int| 0 <= i < self.n() ==>
                -0x400_0000_0000_0000 <= (#[trigger] self.cycles[i]).maintenance_counter <= 0x400_0000_0000_0000,
    {
        let ls = lens_of(self.cycles);
        let cs = counters_of(self.cycles);
        let vs = violations_of(self.cycles);
        assert forall|i: int| 0 <= i < self.n() implies 0 <= (#[trigger] self.cyc(i)).len() <= self.total_len() by {
            lemma_sum_elem_le(ls, i);
            assert(ls[i] == self.cyc(i).len());
        }
        assert forall|i: int| 0 <= i < self.n() implies
            -(ls[i] * vehicle_bound()) <= #[trigger] cs[i] <= ls[i] * vehicle_bound() by {
            let c = self.cyc(i);
            assert(cycle_tours_ok(net, tours, c));
            lemma_counter_bound(net, tours, c);
        }
        assert forall|i: int| 0 <= i < self.n() implies 0 <= #[trigger] vs[i] <= ls[i] * vehicle_bound() by {
            assert(cs[i] == self.cycles[i].maintenance_counter);
        }
        lemma_sum_scaled(cs, ls, vehicle_bound());
        lemma_sum_scaled_nonneg(vs, ls, vehicle_bound());
        lemma_sum_nonneg(ls);
        assert forall|i: int| 0 <= i < self.n() implies
            -(self.cyc(i).len() * vehicle_bound()) <= (#[trigger] self.cycles[i]).maintenance_counter <= self.cyc(i).len() * vehicle_bound() by {
            assert(cs[i] == self.cycles[i].maintenance_counter);
            assert(ls[i] == self.cyc(i).len());
        }
        let tl = self.total_len();
        assert(0 <= tl * vehicle_bound() <= 0x400_0000_0000_0000) by (nonlinear_arith)
            requires 0 <= tl <= 0x2_0000, vehicle_bound() == 0x200_0000_0000;
        assert forall|i: int| 0 <= i < self.n() implies
            -0x400_0000_0000_0000 <= (#[trigger] self.cycles[i]).maintenance_counter <= 0x400_0000_0000_0000 by {
            let l = self.cyc(i).len() as int;
            assert(0 <= l <= tl);
            assert(l * vehicle_bound() <= tl * vehicle_bound()) by (nonlinear_arith)
                requires 0 <= l <= tl, vehicle_bound() == 0x200_0000_0000;
        }
    }
}

/// C15 frame lemma: one cycle (index k) of a consistent transition is replaced by `nc`; the tours may
/// change for the vehicles of that cycle and for vehicles not in any cycle.  The new cycle must be
/// duplicate-free, must not take vehicles of other cycles, its vehicles need admissible tours and
/// its counter must be exact; the lookup and the totals must have been adjusted accordingly.
pub proof fn lemma_frame(old_t: TView, new_t: TView, net: &Network, tours: Map<VehicleIdx, Tour>, tours2: Map<VehicleIdx, Tour>, k: int, nc: TransitionCycle)
    requires
        old_t.wf_but_empty(net, tours),
        0 <= k < old_t.n(),
        new_t.cycles == old_t.cycles.update(k, nc),
        // tours
        forall|x: VehicleIdx| #[trigger] old_t.lookup.contains_key(x) && old_t.cycle_of(x) != k ==> tours2.contains_key(x) && tours2[x] == tours[x],
        cycle_tours_ok(net, tours2, nc.cycle@),
        // new cycle
        nc.cycle@.no_duplicates(),
        forall|a: int| 0 <= a < nc.cycle@.len() ==> !(old_t.lookup.contains_key(#[trigger] nc.cycle@[a]) && old_t.cycle_of(nc.cycle@[a]) != k),
        old_t.total_len() - old_t.cyc(k).len() + nc.cycle@.len() <= max_vehicles(),
        // lookup
        forall|v: VehicleIdx| #[trigger] new_t.lookup.contains_key(v) ==>
            (nc.cycle@.contains(v) && new_t.cycle_of(v) == k)
            || (old_t.lookup.contains_key(v) && old_t.cycle_of(v) != k && new_t.cycle_of(v) == old_t.cycle_of(v)),
        forall|a: int| 0 <= a < nc.cycle@.len() ==> new_t.lookup.contains_key(#[trigger] nc.cycle@[a]) && new_t.cycle_of(nc.cycle@[a]) == k,
        forall|v: VehicleIdx| #[trigger] old_t.lookup.contains_key(v) && old_t.cycle_of(v) != k ==>
            new_t.lookup.contains_key(v) && new_t.cycle_of(v) == old_t.cycle_of(v),
        // counters
        nc.maintenance_counter == spec_cycle_counter(net, tours2, nc.cycle@),
        new_t.total_counter == old_t.total_counter - old_t.cycles[k].maintenance_counter + nc.maintenance_counter,
        new_t.total_violation == old_t.total_violation - max0(old_t.cycles[k].maintenance_counter as int) + max0(nc.maintenance_counter as int),
    ensures
        new_t.wf_but_empty(net, tours2),
        new_t.total_len() == old_t.total_len() - old_t.cyc(k).len() + nc.cycle@.len(),
        new_t.n() == old_t.n(),
        new_t.cyc(k) == nc.cycle@,
        forall|i: int| 0 <= i < old_t.n() && i != k ==> #[trigger] new_t.cyc(i) == old_t.cyc(i),
{
    let n = old_t.n();
    assert(new_t.n() == n);
    assert(new_t.cyc(k) == nc.cycle@);
    assert forall|i: int| 0 <= i < n && i != k implies #[trigger] new_t.cyc(i) == old_t.cyc(i) by {}
    // sizes
    assert(lens_of(new_t.cycles) =~= lens_of(old_t.cycles).update(k, nc.cycle@.len() as int));
    lemma_sum_update(lens_of(old_t.cycles), k, nc.cycle@.len() as int);
    // cycles
    assert forall|i: int| 0 <= i < n implies (#[trigger] new_t.cyc(i)).no_duplicates() by {
        if i != k { assert(old_t.cyc(i).no_duplicates()); }
    }
    assert forall|i: int, j: int, a: int, b: int|
        0 <= i < n && 0 <= j < n && i != j && 0 <= a < new_t.cyc(i).len() && 0 <= b < new_t.cyc(j).len()
        implies #[trigger] new_t.cyc(i)[a] != #[trigger] new_t.cyc(j)[b] by {
        if i != k && j != k {
            assert(old_t.cyc(i)[a] != old_t.cyc(j)[b]);
        } else if i == k {
            let y = old_t.cyc(j)[b];
            assert(old_t.lookup.contains_key(y) && old_t.cycle_of(y) == j);
            assert(nc.cycle@[a] != y);
        } else {
            let y = old_t.cyc(i)[a];
            assert(old_t.lookup.contains_key(y) && old_t.cycle_of(y) == i);
            assert(nc.cycle@[b] != y);
        }
    }
    assert(new_t.wf_cycles());
    // lookup
    assert forall|v: VehicleIdx| #[trigger] new_t.lookup.contains_key(v)
        implies 0 <= new_t.cycle_of(v) < n && new_t.cyc(new_t.cycle_of(v)).contains(v) by {
        if !(nc.cycle@.contains(v) && new_t.cycle_of(v) == k) {
            assert(old_t.lookup.contains_key(v));
            assert(old_t.cyc(old_t.cycle_of(v)).contains(v));
            assert(new_t.cyc(old_t.cycle_of(v)) == old_t.cyc(old_t.cycle_of(v)));
        }
    }
    assert forall|i: int, a: int| 0 <= i < n && 0 <= a < new_t.cyc(i).len()
        implies new_t.lookup.contains_key(#[trigger] new_t.cyc(i)[a]) && new_t.cycle_of(new_t.cyc(i)[a]) == i by {
        if i != k {
            let y = old_t.cyc(i)[a];
            assert(old_t.lookup.contains_key(y) && old_t.cycle_of(y) == i);
        }
    }
    assert(new_t.wf_lookup());
    // tours
    assert forall|i: int, a: int| 0 <= i < n && 0 <= a < new_t.cyc(i).len()
        implies tours2.contains_key(#[trigger] new_t.cyc(i)[a]) && tour_ok(net, &tours2[new_t.cyc(i)[a]]) by {
        if i != k {
            let y = old_t.cyc(i)[a];
            assert(old_t.lookup.contains_key(y) && old_t.cycle_of(y) == i);
            assert(tours.contains_key(y) && tour_ok(net, &tours[y]));
        }
    }
    assert(new_t.wf_tours(net, tours2));
    // counters
    assert forall|i: int| 0 <= i < n
        implies new_t.cycles[i].maintenance_counter == spec_cycle_counter(net, tours2, #[trigger] new_t.cyc(i)) by {
        if i != k {
            let c = old_t.cyc(i);
            assert forall|a: int| 0 <= a < c.len() implies tours[#[trigger] c[a]] == tours2[c[a]] by {
                let y = old_t.cyc(i)[a];
                assert(old_t.lookup.contains_key(y) && old_t.cycle_of(y) == i);
            }
            lemma_counter_same(net, tours, tours2, c);
            assert(old_t.cycles[i].maintenance_counter == spec_cycle_counter(net, tours, old_t.cyc(i)));
        }
    }
    assert(counters_of(new_t.cycles) =~= counters_of(old_t.cycles).update(k, nc.maintenance_counter as int));
    lemma_sum_update(counters_of(old_t.cycles), k, nc.maintenance_counter as int);
    assert(violations_of(new_t.cycles) =~= violations_of(old_t.cycles).update(k, max0(nc.maintenance_counter as int)));
    lemma_sum_update(violations_of(old_t.cycles), k, max0(nc.maintenance_counter as int));
    assert(new_t.wf_counters(net, tours2));
}

/// a rearrangement of cycle k keeps the tours admissible, takes no vehicle of another cycle and
/// keeps the lookup right
pub proof fn lemma_perm_tours_ok(t: TView, net: &Network, tours: Map<VehicleIdx, Tour>, k: int, nc: Seq<VehicleIdx>)
    requires t.wf_but_empty(net, tours), 0 <= k < t.n(), is_permutation_of(nc, t.cyc(k)),
    ensures
        cycle_tours_ok(net, tours, nc),
        forall|a: int| 0 <= a < nc.len() ==> t.lookup.contains_key(#[trigger] nc[a]) && t.cycle_of(nc[a]) == k,
        forall|v: VehicleIdx| #[trigger] t.lookup.contains_key(v) && t.cycle_of(v) == k ==> nc.contains(v),
{
    let c = t.cyc(k);
    assert forall|a: int| 0 <= a < nc.len() implies
        tours.contains_key(#[trigger] nc[a]) && tour_ok(net, &tours[nc[a]]) && t.lookup.contains_key(nc[a]) && t.cycle_of(nc[a]) == k by {
        assert(nc.contains(nc[a]));
        assert(c.contains(nc[a]));
        let b = choose|b: int| 0 <= b < c.len() && c[b] == nc[a];
        assert(t.cyc(k)[b] == nc[a]);
    }
    assert forall|v: VehicleIdx| #[trigger] t.lookup.contains_key(v) && t.cycle_of(v) == k implies nc.contains(v) by {
        assert(t.cyc(t.cycle_of(v)).contains(v));
    }
}
/// C15 frame lemma for a cycle appended at the end of `cycles`
pub proof fn lemma_push_cycle(old_t: TView, new_t: TView, net: &Network, tours: Map<VehicleIdx, Tour>, tours2: Map<VehicleIdx, Tour>, nc: TransitionCycle)
    requires
        old_t.wf_but_empty(net, tours),
        new_t.cycles == old_t.cycles.push(nc),
        forall|x: VehicleIdx| #[trigger] old_t.lookup.contains_key(x) ==> tours2.contains_key(x) && tours2[x] == tours[x],
        cycle_tours_ok(net, tours2, nc.cycle@),
        nc.cycle@.no_duplicates(),
        forall|a: int| 0 <= a < nc.cycle@.len() ==> !old_t.lookup.contains_key(#[trigger] nc.cycle@[a]),
        old_t.total_len() + nc.cycle@.len() <= max_vehicles(),
        forall|v: VehicleIdx| #[trigger] new_t.lookup.contains_key(v) ==>
            (nc.cycle@.contains(v) && new_t.cycle_of(v) == old_t.n())
            || (old_t.lookup.contains_key(v) && new_t.cycle_of(v) == old_t.cycle_of(v)),
        forall|a: int| 0 <= a < nc.cycle@.len() ==> new_t.lookup.contains_key(#[trigger] nc.cycle@[a]) && new_t.cycle_of(nc.cycle@[a]) == old_t.n(),
        forall|v: VehicleIdx| #[trigger] old_t.lookup.contains_key(v) ==> new_t.lookup.contains_key(v) && new_t.cycle_of(v) == old_t.cycle_of(v),
        nc.maintenance_counter == spec_cycle_counter(net, tours2, nc.cycle@),
        new_t.total_counter == old_t.total_counter + nc.maintenance_counter,
        new_t.total_violation == old_t.total_violation + max0(nc.maintenance_counter as int),
    ensures
        new_t.wf_but_empty(net, tours2),
        new_t.total_len() == old_t.total_len() + nc.cycle@.len(),
        new_t.n() == old_t.n() + 1,
        new_t.cyc(old_t.n()) == nc.cycle@,
        forall|i: int| 0 <= i < old_t.n() ==> #[trigger] new_t.cyc(i) == old_t.cyc(i),
{
    let n = old_t.n();
    let k = n;
    assert(new_t.n() == n + 1);
    assert(new_t.cyc(k) == nc.cycle@);
    assert forall|i: int| 0 <= i < n implies #[trigger] new_t.cyc(i) == old_t.cyc(i) by {}
    assert(lens_of(new_t.cycles) =~= lens_of(old_t.cycles).push(nc.cycle@.len() as int));
    lemma_sum_push(lens_of(old_t.cycles), nc.cycle@.len() as int);
    assert forall|i: int| 0 <= i < n + 1 implies (#[trigger] new_t.cyc(i)).no_duplicates() by {
        if i != k { assert(old_t.cyc(i).no_duplicates()); }
    }
    assert forall|i: int, j: int, a: int, b: int|
        0 <= i < n + 1 && 0 <= j < n + 1 && i != j && 0 <= a < new_t.cyc(i).len() && 0 <= b < new_t.cyc(j).len()
        implies #[trigger] new_t.cyc(i)[a] != #[trigger] new_t.cyc(j)[b] by {
        if i != k && j != k {
            assert(old_t.cyc(i)[a] != old_t.cyc(j)[b]);
        } else if i == k {
            let y = old_t.cyc(j)[b];
            assert(old_t.lookup.contains_key(y) && old_t.cycle_of(y) == j);
            assert(nc.cycle@[a] != y);
        } else {
            let y = old_t.cyc(i)[a];
            assert(old_t.lookup.contains_key(y) && old_t.cycle_of(y) == i);
            assert(nc.cycle@[b] != y);
        }
    }
    assert(new_t.wf_cycles());
    assert forall|v: VehicleIdx| #[trigger] new_t.lookup.contains_key(v)
        implies 0 <= new_t.cycle_of(v) < n + 1 && new_t.cyc(new_t.cycle_of(v)).contains(v) by {
        if !(nc.cycle@.contains(v) && new_t.cycle_of(v) == k) {
            assert(old_t.lookup.contains_key(v));
            assert(old_t.cyc(old_t.cycle_of(v)).contains(v));
            assert(new_t.cyc(old_t.cycle_of(v)) == old_t.cyc(old_t.cycle_of(v)));
        }
    }
    assert forall|i: int, a: int| 0 <= i < n + 1 && 0 <= a < new_t.cyc(i).len()
        implies new_t.lookup.contains_key(#[trigger] new_t.cyc(i)[a]) && new_t.cycle_of(new_t.cyc(i)[a]) == i by {
        if i != k {
            let y = old_t.cyc(i)[a];
            assert(old_t.lookup.contains_key(y) && old_t.cycle_of(y) == i);
        }
    }
    assert(new_t.wf_lookup());
    assert forall|i: int, a: int| 0 <= i < n + 1 && 0 <= a < new_t.cyc(i).len()
        implies tours2.contains_key(#[trigger] new_t.cyc(i)[a]) && tour_ok(net, &tours2[new_t.cyc(i)[a]]) by {
        if i != k {
            let y = old_t.cyc(i)[a];
            assert(old_t.lookup.contains_key(y) && old_t.cycle_of(y) == i);
            assert(tours.contains_key(y) && tour_ok(net, &tours[y]));
        }
    }
    assert(new_t.wf_tours(net, tours2));
    assert forall|i: int| 0 <= i < n + 1
        implies new_t.cycles[i].maintenance_counter == spec_cycle_counter(net, tours2, #[trigger] new_t.cyc(i)) by {
        if i != k {
            let c = old_t.cyc(i);
            assert forall|a: int| 0 <= a < c.len() implies tours[#[trigger] c[a]] == tours2[c[a]] by {
                let y = old_t.cyc(i)[a];
                assert(old_t.lookup.contains_key(y) && old_t.cycle_of(y) == i);
            }
            lemma_counter_same(net, tours, tours2, c);
            assert(old_t.cycles[i].maintenance_counter == spec_cycle_counter(net, tours, old_t.cyc(i)));
        }
    }
    assert(counters_of(new_t.cycles) =~= counters_of(old_t.cycles).push(nc.maintenance_counter as int));
    lemma_sum_push(counters_of(old_t.cycles), nc.maintenance_counter as int);
    assert(violations_of(new_t.cycles) =~= violations_of(old_t.cycles).push(max0(nc.maintenance_counter as int)));
    lemma_sum_push(violations_of(old_t.cycles), max0(nc.maintenance_counter as int));
    assert(new_t.wf_counters(net, tours2));
}

// ---- membership in duplicate-free lists ---------------------------------------------------------------
pub proof fn lemma_drop_last_contains<T>(s: Seq<T>)
    requires s.no_duplicates(), s.len() > 0,
    ensures s.drop_last().no_duplicates(),
        forall|x: T| #[trigger] s.drop_last().contains(x) <==> (s.contains(x) && x != s.last()),
{
    let d = s.drop_last();
    assert forall|x: T| #[trigger] d.contains(x) <==> (s.contains(x) && x != s.last()) by {
        if d.contains(x) {
            let i = choose|i: int| 0 <= i < d.len() && d[i] == x;
            assert(s[i] == x);
        }
        if s.contains(x) && x != s.last() {
            let i = choose|i: int| 0 <= i < s.len() && s[i] == x;
            assert(d[i] == x);
        }
    }
}
pub proof fn lemma_push_contains<T>(s: Seq<T>, y: T)
    requires s.no_duplicates(), !s.contains(y),
    ensures s.push(y).no_duplicates(),
        forall|x: T| #[trigger] s.push(y).contains(x) <==> (s.contains(x) || x == y),
{
    let d = s.push(y);
    assert forall|x: T| #[trigger] d.contains(x) <==> (s.contains(x) || x == y) by {
        if d.contains(x) {
            let i = choose|i: int| 0 <= i < d.len() && d[i] == x;
            if i < s.len() { assert(s[i] == x); }
        }
        if s.contains(x) {
            let i = choose|i: int| 0 <= i < s.len() && s[i] == x;
            assert(d[i] == x);
        }
        if x == y { assert(d[s.len() as int] == x); }
    }
    assert forall|i: int, j: int| 0 <= i < d.len() && 0 <= j < d.len() && i != j implies d[i] != d[j] by {
        if i < s.len() && j < s.len() {
        } else if i < s.len() {
            assert(s.contains(s[i]));
        } else {
            assert(s.contains(s[j]));
        }
    }
}
pub proof fn lemma_remove_contains<T>(s: Seq<T>, p: int)
    requires s.no_duplicates(), 0 <= p < s.len(),
    ensures s.remove(p).no_duplicates(),
        forall|x: T| #[trigger] s.remove(p).contains(x) <==> (s.contains(x) && x != s[p]),
{
    let d = s.remove(p);
    assert forall|x: T| #[trigger] d.contains(x) <==> (s.contains(x) && x != s[p]) by {
        if d.contains(x) {
            let i = choose|i: int| 0 <= i < d.len() && d[i] == x;
            if i < p { assert(s[i] == x); } else { assert(s[i + 1] == x); }
        }
        if s.contains(x) && x != s[p] {
            let i = choose|i: int| 0 <= i < s.len() && s[i] == x;
            if i < p { assert(d[i] == x); } else { assert(d[i - 1] == x); }
        }
    }
    assert forall|i: int, j: int| 0 <= i < d.len() && 0 <= j < d.len() && i != j implies d[i] != d[j] by {
        let i2 = if i < p { i } else { i + 1 };
        let j2 = if j < p { j } else { j + 1 };
        assert(d[i] == s[i2] && d[j] == s[j2]);
    }
}

/// C15, remove_vehicle: vehicle v leaves its cycle
pub proof fn lemma_remove_vehicle_wf(old_t: TView, new_t: TView, net: &Network, tours: Map<VehicleIdx, Tour>, v: VehicleIdx, nc: TransitionCycle)
    requires
        old_t.wf(net, tours),
        old_t.lookup.contains_key(v),
        ({
            let k = old_t.cycle_of(v);
            let c = old_t.cyc(k);
            let p = c.index_of(v);
            &&& new_t.cycles == old_t.cycles.update(k, nc)
            &&& nc.cycle@ == c.remove(p)
            &&& nc.maintenance_counter == spec_cycle_counter(net, tours, nc.cycle@)
            &&& new_t.lookup == old_t.lookup.remove(v)
            &&& new_t.empty == (if c.len() == 1 { old_t.empty.push(k as CycleIdx) } else { old_t.empty })
            &&& new_t.total_counter == old_t.total_counter - old_t.cycles[k].maintenance_counter + nc.maintenance_counter
            &&& new_t.total_violation == old_t.total_violation - max0(old_t.cycles[k].maintenance_counter as int) + max0(nc.maintenance_counter as int)
        }),
    ensures
        new_t.wf(net, tours),
        new_t.total_len() == old_t.total_len() - 1,
{
    let k = old_t.cycle_of(v);
    let c = old_t.cyc(k);
    assert(c.contains(v));
    let p = c.index_of(v);
    assert(old_t.cyc(k)[p] == v);
    let d = nc.cycle@;
    lemma_remove_contains(c, p);
    assert forall|a: int| 0 <= a < d.len() implies
        tours.contains_key(#[trigger] d[a]) && tour_ok(net, &tours[d[a]]) && old_t.lookup.contains_key(d[a]) && old_t.cycle_of(d[a]) == k && d[a] != v by {
        let a2 = if a < p { a } else { a + 1 };
        assert(d[a] == old_t.cyc(k)[a2]);
    }
    assert forall|x: VehicleIdx| #[trigger] new_t.lookup.contains_key(x) implies
        (d.contains(x) && new_t.cycle_of(x) == k)
        || (old_t.lookup.contains_key(x) && old_t.cycle_of(x) != k && new_t.cycle_of(x) == old_t.cycle_of(x)) by {
        if old_t.cycle_of(x) == k {
            assert(old_t.cyc(old_t.cycle_of(x)).contains(x));
        }
    }
    lemma_frame(old_t, new_t, net, tours, tours, k, nc);
    // empty cycles
    if c.len() == 1 {
        assert(!old_t.empty.contains(k as CycleIdx));
        lemma_push_contains(old_t.empty, k as CycleIdx);
    }
    assert forall|x: CycleIdx| #[trigger] new_t.empty.contains(x) <==> (0 <= x < new_t.n() && new_t.cyc(x as int).len() == 0) by {
        if x < old_t.n() && x != k { assert(new_t.cyc(x as int) == old_t.cyc(x as int)); }
    }
}

/// C15, add_vehicle_at_the_end: vehicle v (in no cycle so far) is appended to cycle k
pub proof fn lemma_add_at_end_wf(old_t: TView, new_t: TView, net: &Network, tours: Map<VehicleIdx, Tour>, v: VehicleIdx, kk: CycleIdx, nc: TransitionCycle)
    requires
        old_t.wf(net, tours),
        !old_t.lookup.contains_key(v),
        0 <= kk < old_t.n(),
        tours.contains_key(v) && tour_ok(net, &tours[v]),
        old_t.total_len() < max_vehicles(),
        new_t.cycles == old_t.cycles.update(kk as int, nc),
        nc.cycle@ == old_t.cyc(kk as int).push(v),
        nc.maintenance_counter == spec_cycle_counter(net, tours, nc.cycle@),
        new_t.lookup == old_t.lookup.insert(v, kk),
        new_t.total_counter == old_t.total_counter - old_t.cycles[kk as int].maintenance_counter + nc.maintenance_counter,
        new_t.total_violation == old_t.total_violation - max0(old_t.cycles[kk as int].maintenance_counter as int) + max0(nc.maintenance_counter as int),
    ensures
        new_t.wf_but_empty(net, tours),
        new_t.total_len() == old_t.total_len() + 1,
        // what empty_cycles has to look like afterwards: k is no longer listed
        (new_t.empty.no_duplicates() && forall|x: CycleIdx| #[trigger] new_t.empty.contains(x) <==> (old_t.empty.contains(x) && x != kk))
            ==> new_t.wf_empty(),
{
    let k = kk as int;
    let c = old_t.cyc(k);
    let d = nc.cycle@;
    // v occurs in no cycle
    assert forall|i: int, a: int| 0 <= i < old_t.n() && 0 <= a < old_t.cyc(i).len() implies #[trigger] old_t.cyc(i)[a] != v by {
        assert(old_t.lookup.contains_key(old_t.cyc(i)[a]));
    }
    assert(!c.contains(v)) by {
        if c.contains(v) {
            let a = choose|a: int| 0 <= a < c.len() && c[a] == v;
            assert(old_t.cyc(k)[a] == v);
        }
    }
    lemma_push_contains(c, v);
    assert forall|a: int| 0 <= a < d.len() implies
        tours.contains_key(#[trigger] d[a]) && tour_ok(net, &tours[d[a]])
        && !(old_t.lookup.contains_key(d[a]) && old_t.cycle_of(d[a]) != k)
        && new_t.lookup.contains_key(d[a]) && new_t.cycle_of(d[a]) == k by {
        if a < c.len() { assert(d[a] == old_t.cyc(k)[a]); }
    }
    assert forall|x: VehicleIdx| #[trigger] new_t.lookup.contains_key(x) implies
        (d.contains(x) && new_t.cycle_of(x) == k)
        || (old_t.lookup.contains_key(x) && old_t.cycle_of(x) != k && new_t.cycle_of(x) == old_t.cycle_of(x)) by {
        if x != v && old_t.cycle_of(x) == k {
            assert(old_t.cyc(old_t.cycle_of(x)).contains(x));
        }
    }
    lemma_frame(old_t, new_t, net, tours, tours, k, nc);
    if new_t.empty.no_duplicates() && forall|x: CycleIdx| #[trigger] new_t.empty.contains(x) <==> (old_t.empty.contains(x) && x != k) {
        assert forall|x: CycleIdx| #[trigger] new_t.empty.contains(x) <==> (0 <= x < new_t.n() && new_t.cyc(x as int).len() == 0) by {
            if x < old_t.n() && x != k { assert(new_t.cyc(x as int) == old_t.cyc(x as int)); }
        }
    }
}

// ---- three_opt ----------------------------------------------------------------------------------------
/// C15: the cycle after a 3-opt move: c[..=i] + c[j+1..=k] + c[i+1..=j] + c[k+1..]
pub open spec fn three_opt_seq(c: Seq<VehicleIdx>, i: int, j: int, k: int) -> Seq<VehicleIdx> {
    c.subrange(0, i + 1) + c.subrange(j + 1, k + 1) + c.subrange(i + 1, j + 1) + c.subrange(k + 1, c.len() as int)
}
pub proof fn lemma_sum_append4(a: Seq<int>, b: Seq<int>, c: Seq<int>, d: Seq<int>)
    ensures sum_seq(a + b + c + d) == sum_seq(a) + sum_seq(b) + sum_seq(c) + sum_seq(d),
{
    lemma_sum_append(a, b);
    lemma_sum_append(a + b, c);
    lemma_sum_append(a + b + c, d);
}
/// position in the old cycle of the vehicle at position q of the new cycle
pub open spec fn three_opt_src(i: int, j: int, k: int, q: int) -> int {
    if q <= i { q } else if q <= i + (k - j) { q + (j - i) } else if q <= k { q - (k - j) } else { q }
}
pub proof fn lemma_three_opt_index(c: Seq<VehicleIdx>, i: int, j: int, k: int, q: int)
    requires 0 <= i < j < k < c.len(), 0 <= q < c.len(),
    ensures three_opt_seq(c, i, j, k).len() == c.len(),
        0 <= three_opt_src(i, j, k, q) < c.len(),
        three_opt_seq(c, i, j, k)[q] == c[three_opt_src(i, j, k, q)],
{
}
/// the depot trips of the new cycle, block by block
pub open spec fn three_opt_edges(net: &Network, tours: Map<VehicleIdx, Tour>, c: Seq<VehicleIdx>, i: int, j: int, k: int) -> Seq<int> {
    let n = c.len() as int;
    let b = edge_seq(net, tours, c);
    b.subrange(0, i + 1).update(i, depot_edge(net, tours, c[i], c[j + 1]))
        + b.subrange(j + 1, k + 1).update(k - j - 1, depot_edge(net, tours, c[k], c[i + 1]))
        + b.subrange(i + 1, j + 1).update(j - i - 1, depot_edge(net, tours, c[j], c[(k + 1) % n]))
        + b.subrange(k + 1, n)
}
pub proof fn lemma_three_opt_edge(net: &Network, tours: Map<VehicleIdx, Tour>, c: Seq<VehicleIdx>, i: int, j: int, k: int, q: int)
    requires 0 <= i < j < k < c.len(), 0 <= q < c.len(),
    ensures three_opt_edges(net, tours, c, i, j, k).len() == c.len(),
        edge_seq(net, tours, three_opt_seq(c, i, j, k))[q] == three_opt_edges(net, tours, c, i, j, k)[q],
{
    let n = c.len() as int;
    let c2 = three_opt_seq(c, i, j, k);
    let q2 = (q + 1) % n;
    lemma_mod_next(q, n);
    lemma_mod_next(k, n);
    lemma_three_opt_index(c, i, j, k, q);
    lemma_three_opt_index(c, i, j, k, q2);
    let o = three_opt_src(i, j, k, q);
    let o2 = three_opt_src(i, j, k, q2);
    lemma_mod_next(o, n);
    let e = three_opt_edges(net, tours, c, i, j, k);
    let b = edge_seq(net, tours, c);
    assert(edge_seq(net, tours, c2)[q] == depot_edge(net, tours, c[o], c[o2]));
    if q < i {
        assert(e[q] == b[q]);
    } else if q == i {
    } else if q < i + (k - j) {
        assert(e[q] == b[o]);
    } else if q == i + (k - j) {
    } else if q < k {
        assert(e[q] == b[o]);
    } else if q == k {
    } else {
        assert(e[q] == b[q]);
    }
}
/// the counter after a 3-opt move: the depot trips (i,i+1), (j,j+1), (k,k+1) are replaced by
/// (i,j+1), (k,i+1), (j,k+1) (indices of the old cycle, k+1 taken cyclically)
pub proof fn lemma_three_opt(net: &Network, tours: Map<VehicleIdx, Tour>, c: Seq<VehicleIdx>, i: int, j: int, k: int)
    requires 0 <= i < j < k < c.len(),
    ensures ({
        let n = c.len() as int;
        spec_cycle_counter(net, tours, three_opt_seq(c, i, j, k)) == spec_cycle_counter(net, tours, c)
            - depot_edge(net, tours, c[i], c[i + 1]) - depot_edge(net, tours, c[j], c[j + 1]) - depot_edge(net, tours, c[k], c[(k + 1) % n])
            + depot_edge(net, tours, c[i], c[j + 1]) + depot_edge(net, tours, c[j], c[(k + 1) % n]) + depot_edge(net, tours, c[k], c[i + 1])
    }),
{
    let n = c.len() as int;
    let c2 = three_opt_seq(c, i, j, k);
    assert(c2.len() == n);
    lemma_three_opt_counters(tours, c, i, j, k);
    lemma_three_opt_edge_sum(net, tours, c, i, j, k);
}
/// counters: a permutation of the same four blocks
pub proof fn lemma_three_opt_counters(tours: Map<VehicleIdx, Tour>, c: Seq<VehicleIdx>, i: int, j: int, k: int)
    requires 0 <= i < j < k < c.len(),
    ensures sum_seq(counter_seq(tours, three_opt_seq(c, i, j, k))) == sum_seq(counter_seq(tours, c)),
{
    let n = c.len() as int;
    let c2 = three_opt_seq(c, i, j, k);
    let a = counter_seq(tours, c);
    let a2 = counter_seq(tours, c2);
    let a_1 = a.subrange(0, i + 1); let a_2 = a.subrange(i + 1, j + 1); let a_3 = a.subrange(j + 1, k + 1); let a_4 = a.subrange(k + 1, n);
    assert(a =~= a_1 + a_2 + a_3 + a_4);
    assert forall|q: int| 0 <= q < n implies #[trigger] a2[q] == (a_1 + a_3 + a_2 + a_4)[q] by {
        lemma_three_opt_index(c, i, j, k, q);
    }
    assert(a2 =~= a_1 + a_3 + a_2 + a_4);
    lemma_sum_append4(a_1, a_2, a_3, a_4);
    lemma_sum_append4(a_1, a_3, a_2, a_4);
}
/// depot trips: the same four blocks, the last trip of the first three blocks is redirected
pub proof fn lemma_three_opt_edge_sum(net: &Network, tours: Map<VehicleIdx, Tour>, c: Seq<VehicleIdx>, i: int, j: int, k: int)
    requires 0 <= i < j < k < c.len(),
    ensures ({
        let n = c.len() as int;
        sum_seq(edge_seq(net, tours, three_opt_seq(c, i, j, k))) == sum_seq(edge_seq(net, tours, c))
            - depot_edge(net, tours, c[i], c[i + 1]) - depot_edge(net, tours, c[j], c[j + 1]) - depot_edge(net, tours, c[k], c[(k + 1) % n])
            + depot_edge(net, tours, c[i], c[j + 1]) + depot_edge(net, tours, c[j], c[(k + 1) % n]) + depot_edge(net, tours, c[k], c[i + 1])
    }),
{
    let n = c.len() as int;
    let c2 = three_opt_seq(c, i, j, k);
    let kn = (k + 1) % n;
    lemma_mod_next(i, n);
    lemma_mod_next(j, n);
    lemma_mod_next(k, n);
    let b = edge_seq(net, tours, c);
    let b2 = edge_seq(net, tours, c2);
    let b_1 = b.subrange(0, i + 1); let b_2 = b.subrange(i + 1, j + 1); let b_3 = b.subrange(j + 1, k + 1); let b_4 = b.subrange(k + 1, n);
    let x = depot_edge(net, tours, c[i], c[j + 1]);
    let y = depot_edge(net, tours, c[k], c[i + 1]);
    let z = depot_edge(net, tours, c[j], c[kn]);
    let d_1 = b_1.update(i, x);
    let d_3 = b_3.update(k - j - 1, y);
    let d_2 = b_2.update(j - i - 1, z);
    assert(b =~= b_1 + b_2 + b_3 + b_4);
    let e = three_opt_edges(net, tours, c, i, j, k);
    assert(e == d_1 + d_3 + d_2 + b_4);
    assert(c2.len() == n);
    assert forall|q: int| 0 <= q < n implies #[trigger] b2[q] == e[q] by {
        lemma_three_opt_edge(net, tours, c, i, j, k, q);
    }
    assert(b2 =~= e);
    lemma_sum_append4(b_1, b_2, b_3, b_4);
    lemma_sum_append4(d_1, d_3, d_2, b_4);
    lemma_sum_update(b_1, i, x);
    lemma_sum_update(b_3, k - j - 1, y);
    lemma_sum_update(b_2, j - i - 1, z);
    assert(b_1[i] == b[i] && b_3[k - j - 1] == b[k] && b_2[j - i - 1] == b[j]);
}
/// everything the executable 3-opt move needs: its six vehicles have tours whose depots are nodes of
/// the network, the six depot trips and the old counter are small, and the counter formula
pub proof fn lemma_three_opt_exec(net: &Network, tours: Map<VehicleIdx, Tour>, c: Seq<VehicleIdx>, i: int, j: int, k: int)
    requires 0 <= i < j < k < c.len(), c.len() <= max_vehicles(), cycle_tours_ok(net, tours, c),
    ensures ({
        let n = c.len() as int;
        let kn = (k + 1) % n;
        &&& (i + 1) % n == i + 1 && (j + 1) % n == j + 1 && 0 <= kn < n
        &&& net.wf()
        &&& tours.contains_key(c[i]) && tour_ok(net, &tours[c[i]]) && net.has(sp_end_depot(&tours[c[i]]))
        &&& tours.contains_key(c[j]) && tour_ok(net, &tours[c[j]]) && net.has(sp_end_depot(&tours[c[j]]))
        &&& tours.contains_key(c[k]) && tour_ok(net, &tours[c[k]]) && net.has(sp_end_depot(&tours[c[k]]))
        &&& tours.contains_key(c[i + 1]) && tour_ok(net, &tours[c[i + 1]]) && net.has(sp_start_depot(&tours[c[i + 1]]))
        &&& tours.contains_key(c[j + 1]) && tour_ok(net, &tours[c[j + 1]]) && net.has(sp_start_depot(&tours[c[j + 1]]))
        &&& tours.contains_key(c[kn]) && tour_ok(net, &tours[c[kn]]) && net.has(sp_start_depot(&tours[c[kn]]))
        &&& 0 <= depot_edge(net, tours, c[i], c[i + 1]) <= counter_bound()
        &&& 0 <= depot_edge(net, tours, c[j], c[j + 1]) <= counter_bound()
        &&& 0 <= depot_edge(net, tours, c[k], c[kn]) <= counter_bound()
        &&& 0 <= depot_edge(net, tours, c[i], c[j + 1]) <= counter_bound()
        &&& 0 <= depot_edge(net, tours, c[j], c[kn]) <= counter_bound()
        &&& 0 <= depot_edge(net, tours, c[k], c[i + 1]) <= counter_bound()
        &&& -0x400_0000_0000_0000 <= spec_cycle_counter(net, tours, c) <= 0x400_0000_0000_0000
        &&& spec_cycle_counter(net, tours, three_opt_seq(c, i, j, k)) == spec_cycle_counter(net, tours, c)
            - depot_edge(net, tours, c[i], c[i + 1]) - depot_edge(net, tours, c[j], c[j + 1]) - depot_edge(net, tours, c[k], c[kn])
            + depot_edge(net, tours, c[i], c[j + 1]) + depot_edge(net, tours, c[j], c[kn]) + depot_edge(net, tours, c[k], c[i + 1])
    }),
{
    let t = tours;
    let nn = c.len() as int;
    lemma_mod_next(i, nn);
    lemma_mod_next(j, nn);
    lemma_mod_next(k, nn);
    let kn = (k + 1) % nn;
    lemma_counter_bound(net, t, c);
    assert(nn * vehicle_bound() <= 0x400_0000_0000_0000) by (nonlinear_arith)
        requires 0 <= nn <= 0x2_0000, vehicle_bound() == 0x200_0000_0000;
    assert(tour_ok(net, &t[c[i]]) && tour_ok(net, &t[c[i + 1]]) && tour_ok(net, &t[c[j]])
        && tour_ok(net, &t[c[j + 1]]) && tour_ok(net, &t[c[k]]) && tour_ok(net, &t[c[kn]]));
    lemma_edge_bound(net, t, c[i], c[i + 1]);
    lemma_edge_bound(net, t, c[j], c[j + 1]);
    lemma_edge_bound(net, t, c[k], c[kn]);
    lemma_edge_bound(net, t, c[i], c[j + 1]);
    lemma_edge_bound(net, t, c[j], c[kn]);
    lemma_edge_bound(net, t, c[k], c[i + 1]);
    lemma_tour_ok_depots(net, &t[c[i]]);
    lemma_tour_ok_depots(net, &t[c[i + 1]]);
    lemma_tour_ok_depots(net, &t[c[j]]);
    lemma_tour_ok_depots(net, &t[c[j + 1]]);
    lemma_tour_ok_depots(net, &t[c[k]]);
    lemma_tour_ok_depots(net, &t[c[kn]]);
    lemma_three_opt(net, t, c, i, j, k);
}
/// a 3-opt move rearranges the cycle (what replace_cycle asks of its argument)
pub proof fn lemma_three_opt_permutation(c: Seq<VehicleIdx>, i: int, j: int, k: int)
    requires 0 <= i < j < k < c.len(), c.no_duplicates(),
    ensures is_permutation_of(three_opt_seq(c, i, j, k), c),
{
    let c2 = three_opt_seq(c, i, j, k);
    assert forall|q1: int, q2: int| 0 <= q1 < c2.len() && 0 <= q2 < c2.len() && q1 != q2 implies c2[q1] != c2[q2] by {
        lemma_three_opt_index(c, i, j, k, q1);
        lemma_three_opt_index(c, i, j, k, q2);
        assert(three_opt_src(i, j, k, q1) != three_opt_src(i, j, k, q2));
    }
    assert forall|v: VehicleIdx| c2.contains(v) <==> c.contains(v) by {
        if c2.contains(v) {
            let q = choose|q: int| 0 <= q < c2.len() && c2[q] == v;
            lemma_three_opt_index(c, i, j, k, q);
            assert(c[three_opt_src(i, j, k, q)] == v);
        }
        if c.contains(v) {
            let o = choose|o: int| 0 <= o < c.len() && c[o] == v;
            let q = if o <= i { o } else if o <= j { o + (k - j) } else if o <= k { o - (j - i) } else { o };
            lemma_three_opt_index(c, i, j, k, q);
            assert(c2[q] == v);
        }
    }
}
