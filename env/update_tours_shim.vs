// ---- environment of the slice `update_tours` (Schedule::update_tours) -----------------------------------
// Included inside `pub mod tr { … }` after env/im_shim.vs, env/depot_usage_shim.vs and the type definitions
// (Schedule, TrainFormation, …) and BEFORE env/train_formation_update_shim.vs (which uses the admission
// vocabulary copied below).  Everything `assume_specification` / `external_body` in this file is an ASSUMPTION
// (listed in the header of slices/update_tours.vs); everything else is an open spec function or a proved lemma.
//
// Copied text (the files that define it cannot be included next to env/depot_usage_shim.vs, or are slices):
//   * A-derive Ord of VehicleIdx, A-std7 `<[T]>::binary_search`: text of env/remove_segment_shim.vs (that file
//     re-declares the depot-usage vocabulary of env/depot_usage_shim.vs and needs env/schedule_shim.vs);
//   * `impl Schedule { sp_is_vehicle … real_tour_ok }`, `tour_of_net`: text of slices/depot_usage.vs;
//   * `combined_limit`, `Network::{sp_trip, is_trip}`, `fcap`, `fseats`, `first_pos`, `has_vehicle`,
//     `Schedule::{grows, replaces, shrinks, sp_node_limit}`: text of slices/train_formation_update.vs
//     (= slices/admission.vs), the vocabulary env/train_formation_update_shim.vs is written in.
use vstd::std_specs::cmp::OrdSpec;

// =====================================================================================================
// ASSUMPTIONS
// =====================================================================================================
// ---- A-derive: derived PartialOrd / Ord of VehicleIdx (variant order, then the index) ------------------
pub open spec fn vidx_rank(v: VehicleIdx) -> int {
    match v { VehicleIdx::Vehicle(i) => i as int, VehicleIdx::Dummy(i) => 0x10000 + i as int }
}
impl vstd::std_specs::cmp::PartialOrdSpecImpl for VehicleIdx {
    open spec fn obeys_partial_cmp_spec() -> bool { true }
    open spec fn partial_cmp_spec(&self, other: &VehicleIdx) -> Option<core::cmp::Ordering> { Some(int_cmp(vidx_rank(*self), vidx_rank(*other))) }
}
impl vstd::std_specs::cmp::OrdSpecImpl for VehicleIdx {
    open spec fn obeys_cmp_spec() -> bool { true }
    open spec fn cmp_spec(&self, other: &VehicleIdx) -> core::cmp::Ordering { int_cmp(vidx_rank(*self), vidx_rank(*other)) }
}

// ---- A-std7: `<[T]>::binary_search` ---------------------------------------------------------------------
/// sorted w.r.t. `Ord::cmp` (non-strict)
pub open spec fn sorted_cmp<T: Ord>(s: Seq<T>) -> bool {
    forall|i: int, j: int| #![trigger s[i], s[j]] 0 <= i < j < s.len() ==> !(s[i].cmp_spec(&s[j]) is Greater)
}
/// what `binary_search` returns on a sorted slice
pub open spec fn bsearch_post<T: Ord>(s: Seq<T>, x: T, r: Result<usize, usize>) -> bool {
    match r {
        Ok(i) => i < s.len() && s[i as int].cmp_spec(&x) is Equal,
        Err(i) => i <= s.len()
            && (forall|j: int| 0 <= j < i ==> (#[trigger] s[j]).cmp_spec(&x) is Less)
            && (forall|j: int| i <= j < s.len() ==> (#[trigger] s[j]).cmp_spec(&x) is Greater),
    }
}
/// std: "Binary searches this slice for a given element.  If the slice is not sorted, the returned result is
/// unspecified and meaningless.  If the value is found then Result::Ok is returned, containing the index of
/// the matching element.  If there are multiple matches, then any one of the matches could be returned.  If
/// the value is not found then Result::Err is returned, containing the index where a matching element could
/// be inserted while maintaining sorted order."
pub assume_specification<T: Ord>[ <[T]>::binary_search ](s: &[T], x: &T) -> (r: Result<usize, usize>)
    ensures sorted_cmp(s@) ==> bsearch_post(s@, *x, r);

// ---- A-im: `map[&k]` / `map[&k] = …` on an im::HashMap (`impl Index<&BK> / IndexMut<&BK> for HashMap`) ------
// im: index "Panics if the key is not present"; index_mut returns a mutable reference INTO the map (im copies
// shared nodes on write): when the borrow ends the map is the old one with the key bound to the final value
// of the reference.  `index_req` is the precondition vstd attaches to both `m[k]` forms.
impl<'a, K, V> std::ops::Index<&'a K> for self::im::HashMap<K, V> {
    type Output = V;
    #[verifier::external_body]
    fn index(&self, k: &'a K) -> (r: &V)
        ensures *r == self@[*k],
    { unimplemented!() }
}
impl<'a, K, V> vstd::std_specs::core::IndexSpecImpl<&'a K> for self::im::HashMap<K, V> {
    open spec fn index_req(&self, k: &&'a K) -> bool { self@.contains_key(**k) }
}
impl<'a, K, V> std::ops::IndexMut<&'a K> for self::im::HashMap<K, V> {
    #[verifier::external_body]
    fn index_mut(&mut self, k: &'a K) -> (r: &mut V)
        ensures *r == old(self)@[*k], final(self)@ == old(self)@.insert(*k, *final(r)),
    { unimplemented!() }
}

// =====================================================================================================
// vocabulary copied from slices/depot_usage.vs
// =====================================================================================================
impl Schedule {
    /// a real vehicle of this schedule
    pub open spec fn sp_is_vehicle(&self, v: VehicleIdx) -> bool { self.vehicles@.contains_key(v) }
    pub open spec fn sp_is_dummy(&self, v: VehicleIdx) -> bool { self.dummy_tours@.contains_key(v) }
    /// the type of a real vehicle
    pub open spec fn type_of(&self, v: VehicleIdx) -> VehicleTypeIdx { self.vehicles@[v].vehicle_type.idx }
    /// the depot where the tour of v starts / ends in this schedule
    pub open spec fn start_depot_of(&self, v: VehicleIdx) -> DepotIdx { sp_depot_idx_of(&self.network, sp_start_depot(&self.tours@[v])) }
    pub open spec fn end_depot_of(&self, v: VehicleIdx) -> DepotIdx { sp_depot_idx_of(&self.network, sp_end_depot(&self.tours@[v])) }
    /// part of C10 (schedule validity): a real vehicle has a real (non-dummy) well-formed tour over the
    /// schedule's network
    pub open spec fn real_tour_ok(&self, v: VehicleIdx) -> bool {
        self.tours@.contains_key(v) && tour_of_net(&self.network, &self.tours@[v])
    }
}
/// a real well-formed tour over the network `net`
pub open spec fn tour_of_net(net: &Network, t: &Tour) -> bool { t.wf() && !t.is_dummy && *t.network == *net }

// =====================================================================================================
// vocabulary copied from slices/train_formation_update.vs (limits, formations)
// =====================================================================================================
pub open spec fn combined_limit(type_limit: Option<VehicleCount>, segment_limit: Option<VehicleCount>) -> Option<VehicleCount> {
    match (type_limit, segment_limit) {
        (Some(a), Some(b)) => Some(if a <= b { a } else { b }),
        (Some(a), None) => Some(a),
        (None, Some(b)) => Some(b),
        (None, None) => None,
    }
}
impl Network {
    pub open spec fn sp_trip(&self, n: NodeIdx) -> ServiceTrip { self.sp_node(n)->Service_0.1 }
    pub open spec fn is_trip(&self, n: NodeIdx) -> bool {
        self.has(n) && self.sp_node(n) is Service && self.vehicle_types.vehicle_types@.contains_key(self.sp_trip(n).vehicle_type)
    }
}
/// passenger capacity / seats of a formation: the sums over its vehicles
pub open spec fn fcap(f: Seq<Vehicle>) -> int { isum(f.map_values(|v: Vehicle| v.vehicle_type.capacity as int)) }
pub open spec fn fseats(f: Seq<Vehicle>) -> int { isum(f.map_values(|v: Vehicle| v.vehicle_type.seats as int)) }
/// position of the first vehicle with the given id (s.len() if there is none)
pub open spec fn first_pos(s: Seq<Vehicle>, v: VehicleIdx) -> int
    decreases s.len(),
{
    if s.len() == 0 { 0 } else if s[0].idx == v { 0 } else { 1 + first_pos(s.drop_first(), v) }
}
pub open spec fn has_vehicle(s: Seq<Vehicle>, v: VehicleIdx) -> bool {
    exists|i: int| 0 <= i < s.len() && #[trigger] s[i].idx == v
}
impl Schedule {
    pub open spec fn grows(&self, provider: Option<VehicleIdx>, receiver: Option<Vehicle>) -> bool {
        receiver is Some && !self.sp_is_dummy(receiver.unwrap().idx) && !(provider is Some && !self.sp_is_dummy(provider.unwrap()))
    }
    pub open spec fn replaces(&self, provider: Option<VehicleIdx>, receiver: Option<Vehicle>) -> bool {
        receiver is Some && !self.sp_is_dummy(receiver.unwrap().idx) && provider is Some && !self.sp_is_dummy(provider.unwrap())
    }
    pub open spec fn shrinks(&self, provider: Option<VehicleIdx>, receiver: Option<Vehicle>) -> bool {
        !(receiver is Some && !self.sp_is_dummy(receiver.unwrap().idx)) && provider is Some && !self.sp_is_dummy(provider.unwrap())
    }
    pub open spec fn sp_node_limit(&self, node: NodeIdx) -> Option<VehicleCount> {
        match self.network.sp_node(node) {
            Node::Maintenance((_, m)) => Some(m.track_count),
            Node::Service((_, s)) => combined_limit(
                self.network.vehicle_types.vehicle_types@[s.vehicle_type].maximal_formation_count,
                s.maximal_formation_count),
            _ => None,
        }
    }
}

// =====================================================================================================
// Schedule::update_tours: the documented effect (C13), the listings (C10), costs and depot usage (C09)
// =====================================================================================================
/// the abstract `vehicle_ids_grouped_and_sorted`: per vehicle type the list of the ids of that type
pub type Grouped = Map<VehicleTypeIdx, Vec<VehicleIdx>>;

/// `new` is `old` with one occurrence of `id` taken out (the others keep their order)
pub open spec fn ids_lose(old: Seq<VehicleIdx>, new: Seq<VehicleIdx>, id: VehicleIdx) -> bool {
    exists|p: int| 0 <= p < old.len() && old[p] == id && new == #[trigger] old.remove(p)
}
/// C10: "vehicle and dummy listings are sorted [and duplicate-free]"
pub open spec fn listing_sorted(s: Seq<VehicleIdx>) -> bool { sorted_cmp(s) && s.no_duplicates() }
/// C10: "vehicle and dummy listings are sorted and match the stored tours": every type's list is sorted and
/// duplicate-free and holds exactly the real vehicles of that type, every real vehicle's type has a list; the
/// dummy list is sorted and duplicate-free and holds exactly the ids of the dummy tours
pub open spec fn listings_ok(vehicles: VehicleMap, dummies: TourMap, grouped: Grouped, dummy_ids: Seq<VehicleIdx>) -> bool {
    &&& forall|vt: VehicleTypeIdx| #[trigger] grouped.contains_key(vt) ==> listing_sorted(grouped[vt]@)
    &&& forall|vt: VehicleTypeIdx, v: VehicleIdx| grouped.contains_key(vt) ==>
            (#[trigger] grouped[vt]@.contains(v) <==> vehicles.contains_key(v) && vehicles[v].vehicle_type.idx == vt)
    &&& forall|v: VehicleIdx| #[trigger] vehicles.contains_key(v) ==> grouped.contains_key(vehicles[v].vehicle_type.idx)
    &&& listing_sorted(dummy_ids)
    &&& forall|v: VehicleIdx| #[trigger] dummy_ids.contains(v) <==> dummies.contains_key(v)
}

impl Schedule {
    /// `self.vehicles.get(&receiver).cloned()`: the receiver as a vehicle of the OLD schedule (None for a dummy)
    pub open spec fn sp_receiver_vehicle(&self, receiver: VehicleIdx) -> Option<Vehicle> {
        if self.vehicles@.contains_key(receiver) { Some(self.vehicles@[receiver]) } else { None }
    }
    /// the maps handed in agree with the schedule's own maps at v (the callers hand in clones of them)
    pub open spec fn agrees_at(&self, vehicles0: VehicleMap, tours0: TourMap, dummies0: TourMap, v: VehicleIdx) -> bool {
        &&& vehicles0.contains_key(v) == self.vehicles@.contains_key(v) && (vehicles0.contains_key(v) ==> vehicles0[v] == self.vehicles@[v])
        &&& tours0.contains_key(v) == self.tours@.contains_key(v) && (tours0.contains_key(v) ==> tours0[v] == self.tours@[v])
        &&& dummies0.contains_key(v) == self.dummy_tours@.contains_key(v) && (dummies0.contains_key(v) ==> dummies0[v] == self.dummy_tours@[v])
    }
    /// part of C10 for one participant v of the modification ("It is assumed that provider (if some) and receiver
    /// are part of self.vehicles" -- or of the dummies): v is a real vehicle or a dummy, not both; a real vehicle is
    /// stored under its own id and has a real tour over the schedule's network
    pub open spec fn participant_ok(&self, v: VehicleIdx) -> bool {
        &&& self.sp_is_vehicle(v) != self.sp_is_dummy(v)
        &&& self.sp_is_vehicle(v) ==> self.vehicles@[v].idx == v && self.real_tour_ok(v)
    }
    /// "None: provider is deleted", a real vehicle / a dummy
    pub open spec fn deletes_vehicle(&self, provider: Option<VehicleIdx>, ntp: Option<Tour>) -> bool {
        provider is Some && ntp is None && self.sp_is_vehicle(provider.unwrap())
    }
    pub open spec fn deletes_dummy(&self, provider: Option<VehicleIdx>, ntp: Option<Tour>) -> bool {
        provider is Some && ntp is None && self.sp_is_dummy(provider.unwrap())
    }

    // ---- C13: the maps afterwards, as functions of the maps before -------------------------------------------
    /// "a vehicle left without activities disappears"; every other vehicle stays
    pub open spec fn vehicles_after(&self, vehicles0: VehicleMap, provider: Option<VehicleIdx>, ntp: Option<Tour>) -> VehicleMap {
        if self.deletes_vehicle(provider, ntp) { vehicles0.remove(provider.unwrap()) } else { vehicles0 }
    }
    /// the tours of the real vehicles: a real provider's entry is the new provider tour or is removed, a real
    /// receiver's entry is the new receiver tour, every other key is untouched
    pub open spec fn tours_after(&self, tours0: TourMap, provider: Option<VehicleIdx>, ntp: Option<Tour>, receiver: VehicleIdx, ntr: Tour) -> TourMap {
        let t1 = if provider is Some && self.sp_is_vehicle(provider.unwrap()) {
            match ntp { Some(t) => tours0.insert(provider.unwrap(), t), None => tours0.remove(provider.unwrap()) }
        } else { tours0 };
        if self.sp_is_vehicle(receiver) { t1.insert(receiver, ntr) } else { t1 }
    }
    /// the dummy tours: the same for a dummy provider / receiver
    pub open spec fn dummies_after(&self, dummies0: TourMap, provider: Option<VehicleIdx>, ntp: Option<Tour>, receiver: VehicleIdx, ntr: Tour) -> TourMap {
        let t1 = if provider is Some && self.sp_is_dummy(provider.unwrap()) {
            match ntp { Some(t) => dummies0.insert(provider.unwrap(), t), None => dummies0.remove(provider.unwrap()) }
        } else { dummies0 };
        if self.sp_is_dummy(receiver) { t1.insert(receiver, ntr) } else { t1 }
    }
    /// the listings: the id of a deleted provider leaves exactly its list (its type's list / the dummy list), all
    /// other lists are untouched
    pub open spec fn lists_follow(&self, grouped0: Grouped, grouped1: Grouped, dummy_ids0: Seq<VehicleIdx>, dummy_ids1: Seq<VehicleIdx>,
            provider: Option<VehicleIdx>, ntp: Option<Tour>) -> bool {
        &&& if self.deletes_vehicle(provider, ntp) {
                let ty = self.type_of(provider.unwrap());
                &&& grouped1.dom() == grouped0.dom()
                &&& forall|vt: VehicleTypeIdx| vt != ty ==> #[trigger] grouped1[vt] == grouped0[vt]
                &&& ids_lose(grouped0[ty]@, grouped1[ty]@, provider.unwrap())
            } else { grouped1 == grouped0 }
        &&& if self.deletes_dummy(provider, ntp) { ids_lose(dummy_ids0, dummy_ids1, provider.unwrap()) } else { dummy_ids1 == dummy_ids0 }
    }

    // ---- C09: costs ----------------------------------------------------------------------------------------------
    /// the costs of the tours that are replaced / removed (real vehicles only)
    pub open spec fn cost_out_provider(&self, tours0: TourMap, provider: Option<VehicleIdx>) -> int {
        if provider is Some && self.sp_is_vehicle(provider.unwrap()) { tours0[provider.unwrap()].costs as int } else { 0 }
    }
    pub open spec fn cost_out_receiver(&self, tours0: TourMap, receiver: VehicleIdx) -> int {
        if self.sp_is_vehicle(receiver) { tours0[receiver].costs as int } else { 0 }
    }
    /// the costs of the new tours of real vehicles
    pub open spec fn cost_in_provider(&self, provider: Option<VehicleIdx>, ntp: Option<Tour>) -> int {
        if provider is Some && self.sp_is_vehicle(provider.unwrap()) && ntp is Some { ntp.unwrap().costs as int } else { 0 }
    }
    pub open spec fn cost_in_receiver(&self, receiver: VehicleIdx, ntr: Tour) -> int {
        if self.sp_is_vehicle(receiver) { ntr.costs as int } else { 0 }
    }
    /// the u64 arithmetic `(*costs + new) - old` for the provider, then for the receiver (`*costs -= old` for a
    /// deleted provider): no overflow, no underflow -- step by step, the weakest condition
    pub open spec fn costs_arith_ok(&self, c0: int, tours0: TourMap, provider: Option<VehicleIdx>, ntp: Option<Tour>, receiver: VehicleIdx, ntr: Tour) -> bool {
        let c1 = c0 + self.cost_in_provider(provider, ntp) - self.cost_out_provider(tours0, provider);
        &&& c0 + self.cost_in_provider(provider, ntp) <= u64::MAX
        &&& c1 >= 0
        &&& c1 + self.cost_in_receiver(receiver, ntr) <= u64::MAX
        &&& c1 + self.cost_in_receiver(receiver, ntr) - self.cost_out_receiver(tours0, receiver) >= 0
    }

    /// the precondition of update_tours apart from the one of update_train_formation (tfu_pre)
    pub open spec fn ut_pre(&self, vehicles0: VehicleMap, tours0: TourMap, du0: UsageMap, dummies0: TourMap, grouped0: Grouped,
            dummy_ids0: Seq<VehicleIdx>, c0: Cost, provider: Option<VehicleIdx>, ntp: Option<Tour>, receiver: VehicleIdx, ntr: Tour) -> bool {
        // the depot bookkeeping runs once per vehicle: provider and receiver differ (the only enumerator of these
        // modifications, Neighborhood::segment_exchange_iterator, "skip[s] provider as receiver"; PathExchange then
        // calls fit_reassign with a fresh dummy as provider)
        &&& provider != Some(receiver)
        // C10 (ids, tours) for the participants
        &&& self.participant_ok(receiver)
        &&& provider is Some ==> self.participant_ok(provider.unwrap())
        // the maps under construction still are the schedule's at the participants (the callers pass clones)
        &&& self.agrees_at(vehicles0, tours0, dummies0, receiver)
        &&& provider is Some ==> self.agrees_at(vehicles0, tours0, dummies0, provider.unwrap())
        // C10 for the new schedule: the new tour of a real vehicle is a real tour over the schedule's network
        // (`start_depot().unwrap()` / `end_depot().unwrap()` in the depot bookkeeping)
        &&& self.sp_is_vehicle(receiver) ==> tour_of_net(&self.network, &ntr)
        &&& provider is Some && self.sp_is_vehicle(provider.unwrap()) && ntp is Some ==> tour_of_net(&self.network, &ntp.unwrap())
        // C09 before the step: the depot table is exact for the participants in the OLD schedule
        &&& usage_exact_for(du0, &self.network, self.vehicles@, self.tours@, receiver)
        &&& provider is Some ==> usage_exact_for(du0, &self.network, self.vehicles@, self.tours@, provider.unwrap())
        // C09 / magnitudes: the u64 cost arithmetic (see lemma_costs_arith_from_totals)
        &&& self.costs_arith_ok(c0 as int, tours0, provider, ntp, receiver, ntr)
        // C10 (listings) as far as the body needs it (`binary_search(..).unwrap()`, `[&provider_vehicle_type]`): a
        // deleted provider is listed in its (sorted) list
        &&& self.deletes_dummy(provider, ntp) ==> sorted_cmp(dummy_ids0) && dummy_ids0.contains(provider.unwrap())
        &&& self.deletes_vehicle(provider, ntp) ==> grouped0.contains_key(self.type_of(provider.unwrap()))
                && sorted_cmp(grouped0[self.type_of(provider.unwrap())]@)
                && grouped0[self.type_of(provider.unwrap())]@.contains(provider.unwrap())
    }
}
/// the entries of every vehicle but v and w are the same in both tables
pub open spec fn usage_same_except_two(du0: UsageMap, du1: UsageMap, v: Option<VehicleIdx>, w: VehicleIdx) -> bool {
    &&& forall|d: DepotIdx, vt: VehicleTypeIdx, u: VehicleIdx| Some(u) != v && u != w ==>
            ((#[trigger] sp_spawned(du1, d, vt).contains(u)) <==> sp_spawned(du0, d, vt).contains(u))
    &&& forall|d: DepotIdx, vt: VehicleTypeIdx, u: VehicleIdx| Some(u) != v && u != w ==>
            ((#[trigger] sp_despawned(du1, d, vt).contains(u)) <==> sp_despawned(du0, d, vt).contains(u))
}

// ---- lemmas: sorted lists --------------------------------------------------------------------------------
/// ids with the same rank are the same id (Idx is 16 bit)
pub proof fn lemma_rank_injective(a: VehicleIdx, b: VehicleIdx)
    requires vidx_rank(a) == vidx_rank(b),
    ensures a == b,
{
}
/// binary search for an id that is in the sorted list finds it
pub proof fn lemma_bsearch_finds(s: Seq<VehicleIdx>, x: VehicleIdx, r: Result<usize, usize>)
    requires sorted_cmp(s), s.contains(x), bsearch_post(s, x, r),
    ensures r is Ok, 0 <= r->Ok_0 < s.len(), s[r->Ok_0 as int] == x,
{
    let k = choose|k: int| 0 <= k < s.len() && s[k] == x;
    match r {
        Ok(i) => { lemma_rank_injective(s[i as int], x); }
        Err(i) => {
            if k < i { assert(s[k].cmp_spec(&x) is Less); } else { assert(s[k].cmp_spec(&x) is Greater); }
        }
    }
}
/// taking position p out of a list: membership, order, duplicate-freeness
pub proof fn lemma_remove_listing(s: Seq<VehicleIdx>, p: int)
    requires 0 <= p < s.len(),
    ensures
        sorted_cmp(s) ==> sorted_cmp(s.remove(p)),
        s.no_duplicates() ==> s.remove(p).no_duplicates(),
        s.no_duplicates() ==> forall|x: VehicleIdx| #[trigger] s.remove(p).contains(x) <==> (s.contains(x) && x != s[p]),
{
    let t = s.remove(p);
    if sorted_cmp(s) {
        assert forall|i: int, j: int| #![trigger t[i], t[j]] 0 <= i < j < t.len() implies !(t[i].cmp_spec(&t[j]) is Greater) by {
            let a = if i < p { i } else { i + 1 };
            let b = if j < p { j } else { j + 1 };
            assert(t[i] == s[a] && t[j] == s[b]);
            assert(!(s[a].cmp_spec(&s[b]) is Greater));
        }
    }
    if s.no_duplicates() {
        assert forall|i: int, j: int| 0 <= i < t.len() && 0 <= j < t.len() && i != j implies t[i] != t[j] by {
            let a = if i < p { i } else { i + 1 };
            let b = if j < p { j } else { j + 1 };
            assert(t[i] == s[a] && t[j] == s[b]);
        }
        assert forall|x: VehicleIdx| #[trigger] t.contains(x) <==> (s.contains(x) && x != s[p]) by {
            if t.contains(x) {
                let i = choose|i: int| 0 <= i < t.len() && t[i] == x;
                let a = if i < p { i } else { i + 1 };
                assert(t[i] == s[a]);
            }
            if s.contains(x) && x != s[p] {
                let a = choose|a: int| 0 <= a < s.len() && s[a] == x;
                if a < p { assert(t[a] == x); } else { assert(t[a - 1] == x); }
            }
        }
    }
}

// ---- lemmas: C10 listings are preserved ------------------------------------------------------------------
/// C10: if the listings were sorted, duplicate-free and matched the maps before, they do afterwards
pub proof fn lemma_listings_preserved(s: &Schedule, vehicles0: VehicleMap, dummies0: TourMap, grouped0: Grouped, dummy_ids0: Seq<VehicleIdx>,
        grouped1: Grouped, dummy_ids1: Seq<VehicleIdx>, provider: Option<VehicleIdx>, ntp: Option<Tour>, receiver: VehicleIdx, ntr: Tour)
    requires
        listings_ok(vehicles0, dummies0, grouped0, dummy_ids0),
        s.lists_follow(grouped0, grouped1, dummy_ids0, dummy_ids1, provider, ntp),
        provider != Some(receiver),
        s.participant_ok(receiver), provider is Some ==> s.participant_ok(provider.unwrap()),
        agrees_vd_at(s, vehicles0, dummies0, receiver),
        provider is Some ==> agrees_vd_at(s, vehicles0, dummies0, provider.unwrap()),
    ensures
        listings_ok(s.vehicles_after(vehicles0, provider, ntp), s.dummies_after(dummies0, provider, ntp, receiver, ntr), grouped1, dummy_ids1),
{
    let vehicles1 = s.vehicles_after(vehicles0, provider, ntp);
    let dummies1 = s.dummies_after(dummies0, provider, ntp, receiver, ntr);
    // ---- the dummy list
    let d1 = if provider is Some && s.sp_is_dummy(provider.unwrap()) {
        match ntp { Some(t) => dummies0.insert(provider.unwrap(), t), None => dummies0.remove(provider.unwrap()) }
    } else { dummies0 };
    if s.deletes_dummy(provider, ntp) {
        let p = provider.unwrap();
        let i = choose|i: int| 0 <= i < dummy_ids0.len() && dummy_ids0[i] == p && dummy_ids1 == #[trigger] dummy_ids0.remove(i);
        lemma_remove_listing(dummy_ids0, i);
        assert forall|v: VehicleIdx| #[trigger] dummy_ids1.contains(v) <==> d1.contains_key(v) by {
            assert(dummy_ids0.contains(v) <==> dummies0.contains_key(v));
        }
    } else {
        assert forall|v: VehicleIdx| #[trigger] dummy_ids1.contains(v) <==> d1.contains_key(v) by {
            assert(dummy_ids0.contains(v) <==> dummies0.contains_key(v));
        }
    }
    assert forall|v: VehicleIdx| #[trigger] dummy_ids1.contains(v) <==> dummies1.contains_key(v) by {
        assert(dummy_ids1.contains(v) <==> d1.contains_key(v));
        assert(dummy_ids0.contains(receiver) <==> dummies0.contains_key(receiver));
    }
    // ---- the lists of the real vehicles
    if s.deletes_vehicle(provider, ntp) {
        let p = provider.unwrap();
        let ty = s.type_of(p);
        assert(vehicles0.contains_key(p) && vehicles0[p].vehicle_type.idx == ty);
        assert(grouped0.contains_key(ty));
        let l0 = grouped0[ty]@;
        let i = choose|i: int| 0 <= i < l0.len() && l0[i] == p && grouped1[ty]@ == #[trigger] l0.remove(i);
        lemma_remove_listing(l0, i);
        assert forall|vt: VehicleTypeIdx| #[trigger] grouped1.contains_key(vt) implies listing_sorted(grouped1[vt]@) by {
            assert(grouped0.dom().contains(vt));
            assert(grouped0.contains_key(vt));
            if vt != ty { assert(grouped1[vt] == grouped0[vt]); }
        }
        assert forall|vt: VehicleTypeIdx, v: VehicleIdx| grouped1.contains_key(vt) implies
            (#[trigger] grouped1[vt]@.contains(v) <==> vehicles1.contains_key(v) && vehicles1[v].vehicle_type.idx == vt) by {
            assert(grouped0.dom().contains(vt));
            assert(grouped0.contains_key(vt));
            assert(grouped0[vt]@.contains(v) <==> vehicles0.contains_key(v) && vehicles0[v].vehicle_type.idx == vt);
            if vt != ty { assert(grouped1[vt] == grouped0[vt]); }
        }
        assert forall|v: VehicleIdx| #[trigger] vehicles1.contains_key(v) implies grouped1.contains_key(vehicles1[v].vehicle_type.idx) by {
            assert(vehicles0.contains_key(v));
            assert(grouped0.contains_key(vehicles0[v].vehicle_type.idx));
            assert(grouped1.dom().contains(vehicles0[v].vehicle_type.idx));
        }
    }
}
/// the part of `agrees_at` that speaks about vehicles and dummies
pub open spec fn agrees_vd_at(s: &Schedule, vehicles0: VehicleMap, dummies0: TourMap, v: VehicleIdx) -> bool {
    &&& vehicles0.contains_key(v) == s.vehicles@.contains_key(v) && (vehicles0.contains_key(v) ==> vehicles0[v] == s.vehicles@[v])
    &&& dummies0.contains_key(v) == s.dummy_tours@.contains_key(v)
}

// ---- lemmas: C09 depot usage ------------------------------------------------------------------------------
/// the table stays exact for v when the bookkeeping step of another vehicle w runs and the maps do not change at v
pub proof fn lemma_exact_for_transfer(du_a: UsageMap, du_b: UsageMap, net: &Network, vehicles_a: VehicleMap, tours_a: TourMap,
        vehicles_b: VehicleMap, tours_b: TourMap, v: VehicleIdx, w: VehicleIdx)
    requires
        usage_exact_for(du_a, net, vehicles_a, tours_a, v),
        usage_same_except(du_a, du_b, w), v != w,
        vehicles_b.contains_key(v) == vehicles_a.contains_key(v), vehicles_b[v] == vehicles_a[v],
        tours_b.contains_key(v) == tours_a.contains_key(v), tours_b[v] == tours_a[v],
    ensures
        usage_exact_for(du_b, net, vehicles_b, tours_b, v),
{
    assert forall|d: DepotIdx, vt: VehicleTypeIdx| (#[trigger] sp_spawned(du_b, d, vt)).contains(v) <==> starts_at(net, vehicles_b, tours_b, v, d, vt) by {
        assert(sp_spawned(du_b, d, vt).contains(v) <==> sp_spawned(du_a, d, vt).contains(v));
    }
    assert forall|d: DepotIdx, vt: VehicleTypeIdx| (#[trigger] sp_despawned(du_b, d, vt)).contains(v) <==> ends_at(net, vehicles_b, tours_b, v, d, vt) by {
        assert(sp_despawned(du_b, d, vt).contains(v) <==> sp_despawned(du_a, d, vt).contains(v));
    }
}
/// two bookkeeping steps, for v (if any) and then for w, leave all other vehicles' entries alone
pub proof fn lemma_same_except_two(du0: UsageMap, du1: UsageMap, du2: UsageMap, v: Option<VehicleIdx>, w: VehicleIdx)
    requires
        v is Some ==> usage_same_except(du0, du1, v.unwrap()),
        v is None ==> du1 == du0,
        usage_same_except(du1, du2, w),
    ensures usage_same_except_two(du0, du2, v, w),
{
    assert forall|d: DepotIdx, vt: VehicleTypeIdx, u: VehicleIdx| Some(u) != v && u != w implies
        ((#[trigger] sp_spawned(du2, d, vt).contains(u)) <==> sp_spawned(du0, d, vt).contains(u)) by {
        assert(sp_spawned(du2, d, vt).contains(u) <==> sp_spawned(du1, d, vt).contains(u));
        if v is Some { assert(sp_spawned(du1, d, vt).contains(u) <==> sp_spawned(du0, d, vt).contains(u)); }
    }
    assert forall|d: DepotIdx, vt: VehicleTypeIdx, u: VehicleIdx| Some(u) != v && u != w implies
        ((#[trigger] sp_despawned(du2, d, vt).contains(u)) <==> sp_despawned(du0, d, vt).contains(u)) by {
        assert(sp_despawned(du2, d, vt).contains(u) <==> sp_despawned(du1, d, vt).contains(u));
        if v is Some { assert(sp_despawned(du1, d, vt).contains(u) <==> sp_despawned(du0, d, vt).contains(u)); }
    }
}

// ---- lemmas: C09 costs ------------------------------------------------------------------------------------
/// the form of `costs_arith_ok` a caller reads off C09 ("cached aggregates equal recomputation": the costs are the sum
/// of the tours' costs plus non-negative terms, hence at least the costs of the two distinct tours that go) and the
/// magnitude bound of the schedule's costs: the total covers both old tours, and adding both new tours does not overflow
pub proof fn lemma_costs_arith_from_totals(s: &Schedule, c0: int, tours0: TourMap, provider: Option<VehicleIdx>, ntp: Option<Tour>, receiver: VehicleIdx, ntr: Tour)
    requires
        0 <= c0,
        s.cost_out_provider(tours0, provider) + s.cost_out_receiver(tours0, receiver) <= c0,
        c0 + s.cost_in_provider(provider, ntp) + s.cost_in_receiver(receiver, ntr) <= u64::MAX,
    ensures s.costs_arith_ok(c0, tours0, provider, ntp, receiver, ntr),
{
}

// ---- corollaries for the callers ---------------------------------------------------------------------------
/// C13 "all other vehicles' tours … stay untouched" (the frame, read off the map expressions): every key other than
/// the provider and the receiver is in the three maps afterwards iff it was before, with the same value
pub proof fn lemma_frame(s: &Schedule, vehicles0: VehicleMap, tours0: TourMap, dummies0: TourMap,
        provider: Option<VehicleIdx>, ntp: Option<Tour>, receiver: VehicleIdx, ntr: Tour, u: VehicleIdx)
    requires Some(u) != provider, u != receiver,
    ensures
        s.vehicles_after(vehicles0, provider, ntp).contains_key(u) == vehicles0.contains_key(u),
        s.vehicles_after(vehicles0, provider, ntp)[u] == vehicles0[u],
        s.tours_after(tours0, provider, ntp, receiver, ntr).contains_key(u) == tours0.contains_key(u),
        s.tours_after(tours0, provider, ntp, receiver, ntr)[u] == tours0[u],
        s.dummies_after(dummies0, provider, ntp, receiver, ntr).contains_key(u) == dummies0.contains_key(u),
        s.dummies_after(dummies0, provider, ntp, receiver, ntr)[u] == dummies0[u],
{
}
/// C09 for the whole table: if the depot table had its from-scratch value for the maps handed in, then -- being exact
/// for provider and receiver afterwards and untouched for everybody else -- it has it for the maps handed back
pub proof fn lemma_usage_exact_after(s: &Schedule, du0: UsageMap, du2: UsageMap, vehicles0: VehicleMap, tours0: TourMap,
        provider: Option<VehicleIdx>, ntp: Option<Tour>, receiver: VehicleIdx, ntr: Tour)
    requires
        usage_exact(du0, &s.network, vehicles0, tours0),
        usage_exact_for(du2, &s.network, s.vehicles_after(vehicles0, provider, ntp), s.tours_after(tours0, provider, ntp, receiver, ntr), receiver),
        provider is Some ==> usage_exact_for(du2, &s.network, s.vehicles_after(vehicles0, provider, ntp), s.tours_after(tours0, provider, ntp, receiver, ntr), provider.unwrap()),
        usage_same_except_two(du0, du2, provider, receiver),
    ensures
        usage_exact(du2, &s.network, s.vehicles_after(vehicles0, provider, ntp), s.tours_after(tours0, provider, ntp, receiver, ntr)),
{
    let net = &s.network;
    let vehicles2 = s.vehicles_after(vehicles0, provider, ntp);
    let tours2 = s.tours_after(tours0, provider, ntp, receiver, ntr);
    assert forall|u: VehicleIdx| #[trigger] usage_exact_for(du2, net, vehicles2, tours2, u) by {
        if Some(u) != provider && u != receiver {
            assert(usage_exact_for(du0, net, vehicles0, tours0, u));
            assert forall|d: DepotIdx, vt: VehicleTypeIdx| (#[trigger] sp_spawned(du2, d, vt)).contains(u) <==> starts_at(net, vehicles2, tours2, u, d, vt) by {
                assert(sp_spawned(du2, d, vt).contains(u) <==> sp_spawned(du0, d, vt).contains(u));
            }
            assert forall|d: DepotIdx, vt: VehicleTypeIdx| (#[trigger] sp_despawned(du2, d, vt)).contains(u) <==> ends_at(net, vehicles2, tours2, u, d, vt) by {
                assert(sp_despawned(du2, d, vt).contains(u) <==> sp_despawned(du0, d, vt).contains(u));
            }
        }
    }
}
