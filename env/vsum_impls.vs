// ---- A-iter: what `.sum()` means for the item types used in the repository -------------------------
// Distance / Duration implement std::iter::Sum by folding with `+` from ZERO: the sum is Infinity iff
// one item is, otherwise the total; u64 / u32 / i64 sums are the integer totals (no wrap-around:
// `sum_req` demands that the total fits, as debug builds would panic).
pub open spec fn dval(d: Distance) -> int { match d { Distance::Distance(m) => m as int, Distance::Infinity => 0 } }
impl VSum<Distance> for Distance {
    open spec fn sum_req(s: Seq<Distance>) -> bool { isum(s.map_values(|d: Distance| dval(d))) <= u64::MAX }
    open spec fn spec_sum(s: Seq<Distance>) -> Distance { ddec(isum(s.map_values(|d: Distance| denc(d)))) }
}
pub open spec const TBIG: int = 0x1_0000_0000_0000_0000_0000; // 2^80
pub open spec fn tenc(d: Duration) -> int { match d { Duration::Length(l) => l.seconds as int, Duration::Infinity => TBIG } }
pub open spec fn tval(d: Duration) -> int { match d { Duration::Length(l) => l.seconds as int, Duration::Infinity => 0 } }
pub open spec fn tdec(x: int) -> Duration { if x >= TBIG { Duration::Infinity } else { Duration::Length(DurationLength { seconds: x as u64 }) } }
impl VSum<Duration> for Duration {
    open spec fn sum_req(s: Seq<Duration>) -> bool { isum(s.map_values(|d: Duration| tval(d))) <= u64::MAX }
    open spec fn spec_sum(s: Seq<Duration>) -> Duration { tdec(isum(s.map_values(|d: Duration| tenc(d)))) }
}
impl VSum<u64> for u64 {
    open spec fn sum_req(s: Seq<u64>) -> bool { isum(s.map_values(|x: u64| x as int)) <= u64::MAX }
    open spec fn spec_sum(s: Seq<u64>) -> u64 { isum(s.map_values(|x: u64| x as int)) as u64 }
}
impl VSum<u32> for u32 {
    open spec fn sum_req(s: Seq<u32>) -> bool { isum(s.map_values(|x: u32| x as int)) <= u32::MAX }
    open spec fn spec_sum(s: Seq<u32>) -> u32 { isum(s.map_values(|x: u32| x as int)) as u32 }
}
/// i64 (`MaintenanceCounter`): std folds with `+` from 0, left to right; every partial sum must fit
impl VSum<i64> for i64 {
    open spec fn sum_req(s: Seq<i64>) -> bool {
        forall|k: int| 0 <= k <= s.len() ==> i64::MIN <= isum((#[trigger] s.take(k)).map_values(|x: i64| x as int)) <= i64::MAX
    }
    open spec fn spec_sum(s: Seq<i64>) -> i64 { isum(s.map_values(|x: i64| x as int)) as i64 }
}
