use serde_json::json;
use model::base_types::VehicleTypeIdx;
fn main() {
    // v0: A->B, v1: B->A, each in its own rotation cycle: every cycle pays the transfer back to its own start depot
    let inst = json!({
        "vehicleTypes": [{"id": "vt", "capacity": 100, "seats": 50}],
        "locations": [{"id": "A"}, {"id": "B"}],
        "routes": [
            {"id": "r0", "vehicleType": "vt", "segments": [{"id": "rs0", "order": 0, "origin": "A", "destination": "B", "distance": 1000, "duration": 1800}]},
            {"id": "r1", "vehicleType": "vt", "segments": [{"id": "rs1", "order": 0, "origin": "B", "destination": "A", "distance": 1000, "duration": 1800}]}
        ],
        "departures": [
            {"id": "d0", "route": "r0", "segments": [{"id": "t0", "routeSegment": "rs0", "departure": "2024-01-01T08:00:00", "passengers": 10, "seated": 0}]},
            {"id": "d1", "route": "r1", "segments": [{"id": "t1", "routeSegment": "rs1", "departure": "2024-01-01T08:00:00", "passengers": 10, "seated": 0}]}
        ],
        "deadHeadTrips": {"indices": ["A", "B"], "durations": [[0, 600], [600, 0]], "distances": [[0, 5000], [5000, 0]]},
        "parameters": {"shunting": {"minimalDuration": 0, "deadHeadTripDuration": 0},
            "maintenance": {"maximalDistance": 1500},
            "costs": {"staff": 100, "serviceTrip": 50, "maintenance": 10, "deadHeadTrip": 500, "idle": 20}}
    });
    let net = model::json_serialisation::load_rolling_stock_problem_instance_from_json(inst);
    let vt = VehicleTypeIdx(0);
    let s = solution::Schedule::empty(net.clone());
    let t0 = net.all_service_nodes().next().unwrap();
    let t1 = net.all_service_nodes().nth(1).unwrap();
    let (s, v0) = s.spawn_vehicle_for_path(vt, vec![t0]).unwrap();
    let (s, _v1) = s.spawn_vehicle_for_path(vt, vec![t1]).unwrap();
    let old = s.next_day_transition_of(vt).clone();
    println!("schedule violation {}  transition violation {}", s.maintenance_violation(), old.maintenance_violation());
    // a better transition (what the optimiser would return): both vehicles in one cycle
    let better = old.move_vehicle(v0, 1, s.get_tours(), &net);
    let mut m = im::HashMap::new();
    m.insert(vt, better.clone());
    let s2 = s.set_next_day_transitions(m);
    println!("after set_next_day_transitions: schedule violation {}  transition violation {}", s2.maintenance_violation(), s2.next_day_transition_of(vt).maintenance_violation());
    let s3 = s2.reassign_end_depots_consistent_with_transitions();
    println!("after reassign_end_depots: schedule violation {}  transition violation {}", s3.maintenance_violation(), s3.next_day_transition_of(vt).maintenance_violation());
    assert_eq!(s3.maintenance_violation(), s3.next_day_transition_of(vt).maintenance_violation(), "reported maintenance violation differs from the transitions' own total");
}
