use serde_json::json;
use model::base_types::{VehicleTypeIdx, VehicleIdx};
fn main() {
    let inst = json!({
        "vehicleTypes": [{"id": "vt", "capacity": 100, "seats": 50}],
        "locations": [{"id": "A"}, {"id": "B"}],
        "routes": [
            {"id": "r0", "vehicleType": "vt", "segments": [{"id": "rs0", "order": 0, "origin": "A", "destination": "B", "distance": 1000, "duration": 1800}]},
            {"id": "r1", "vehicleType": "vt", "segments": [{"id": "rs1", "order": 0, "origin": "B", "destination": "A", "distance": 1000, "duration": 1800}]}
        ],
        "departures": [
            {"id": "d0", "route": "r0", "segments": [{"id": "t0", "routeSegment": "rs0", "departure": "2024-01-01T08:00:00", "passengers": 10, "seated": 0}]},
            {"id": "d1", "route": "r1", "segments": [{"id": "t1", "routeSegment": "rs1", "departure": "2024-01-01T08:00:00", "passengers": 10, "seated": 0}]}
        ],
        "deadHeadTrips": {"indices": ["A", "B"], "durations": [[0, 600], [600, 0]], "distances": [[0, 5000], [5000, 0]]},
        "parameters": {"shunting": {"minimalDuration": 0, "deadHeadTripDuration": 0},
            "costs": {"staff": 100, "serviceTrip": 50, "maintenance": 10, "deadHeadTrip": 500, "idle": 20}}
    });
    let net = model::json_serialisation::load_rolling_stock_problem_instance_from_json(inst);
    let vt = VehicleTypeIdx(0);
    let s = solution::Schedule::empty(net.clone());
    let t0 = net.all_service_nodes().next().unwrap();
    let t1 = net.all_service_nodes().nth(1).unwrap();
    // t1 is handed back and forth: vehicle -> dummy -> vehicle ... (what the local search does with a trip it keeps re-assigning)
    let (s, v) = s.spawn_vehicle_for_path(vt, vec![t1]).unwrap();
    let s = s.replace_vehicle_by_dummy(v).unwrap();
    let dummy = s.dummy_iter().next().unwrap();
    let (s, v) = s.spawn_vehicle_to_replace_dummy_tour(dummy, vt).unwrap();
    // this vehicle serves t0 for the whole history
    let (mut s, v0) = s.spawn_vehicle_for_path(vt, vec![t0]).unwrap();
    println!("permanent vehicle {:?} serves t0", v0);
    let mut v = v;
    let mut steps = 0u64;
    loop {
        let before = s.tour_of(v0).unwrap().all_nodes_iter().collect::<Vec<_>>();
        assert!(before.contains(&t0), "after {} modifications vehicle 0 no longer serves t0: its tour is {:?}", steps, before);
        s = match s.replace_vehicle_by_dummy(v) { Ok(x) => x, Err(e) => { println!("after {} modifications the schedule refuses: {}", steps, e); break; } };
        let dummy = s.dummy_iter().next().unwrap();
        let (s2, v2) = match s.spawn_vehicle_to_replace_dummy_tour(dummy, vt) { Ok(x) => x, Err(e) => { println!("after {} modifications the schedule refuses: {}", steps, e); break; } };
        s = s2; v = v2; steps += 2; if steps % 20000 == 0 || (steps > 65500 && steps < 65545) { println!("step {} vehicle {:?} dummy {:?}", steps, v, dummy); }
        if steps > 200_000 { break; }
    }
    let after = s.tour_of(v0).unwrap().all_nodes_iter().collect::<Vec<_>>();
    assert!(after.contains(&t0));
    println!("permanent vehicle still serves t0 after {} modifications", steps);
}
