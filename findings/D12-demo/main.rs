use serde_json::json;
use model::base_types::VehicleTypeIdx;
fn main() {
    // one depot at A with room for ONE vehicle; three chained trips A->B->A->B
    let inst = json!({
        "vehicleTypes": [{"id": "vt", "capacity": 100, "seats": 50}],
        "locations": [{"id": "A"}, {"id": "B"}],
        "depots": [{"id": "depA", "location": "A", "capacity": 1, "allowedTypes": [{"vehicleType": "vt", "capacity": 1}]}],
        "routes": [
            {"id": "r0", "vehicleType": "vt", "segments": [{"id": "rs0", "order": 0, "origin": "A", "destination": "B", "distance": 1000, "duration": 1800}]},
            {"id": "r1", "vehicleType": "vt", "segments": [{"id": "rs1", "order": 0, "origin": "B", "destination": "A", "distance": 1000, "duration": 1800}]}
        ],
        "departures": [
            {"id": "d0", "route": "r0", "segments": [{"id": "t0", "routeSegment": "rs0", "departure": "2024-01-01T08:00:00", "passengers": 10, "seated": 0}]},
            {"id": "d1", "route": "r1", "segments": [{"id": "t1", "routeSegment": "rs1", "departure": "2024-01-01T10:00:00", "passengers": 10, "seated": 0}]},
            {"id": "d2", "route": "r0", "segments": [{"id": "t2", "routeSegment": "rs0", "departure": "2024-01-01T12:00:00", "passengers": 10, "seated": 0}]}
        ],
        "deadHeadTrips": {"indices": ["A", "B"], "durations": [[0, 600], [600, 0]], "distances": [[0, 5000], [5000, 0]]},
        "parameters": {"shunting": {"minimalDuration": 0, "deadHeadTripDuration": 0},
            "costs": {"staff": 100, "serviceTrip": 50, "maintenance": 10, "deadHeadTrip": 500, "idle": 20}}
    });
    let net = model::json_serialisation::load_rolling_stock_problem_instance_from_json(inst);
    let vt = VehicleTypeIdx(0);
    let trips: Vec<_> = net.all_service_nodes().collect();
    let (t0, t1, t2) = (trips[0], trips[1], trips[2]);
    let dep_a = net.depots_iter().find(|d| *d != net.overflow_depot_idxs().0).unwrap();
    let start_a = net.get_start_depot_node(dep_a);
    let s = solution::Schedule::empty(net.clone());
    // the first vehicle takes the only place of depot A
    let (s, _v0) = s.spawn_vehicle_for_path(vt, vec![start_a, t0]).unwrap();
    // the second vehicle is asked to start at A as well and to serve t1 and t2
    let (s, v1) = s.spawn_vehicle_for_path(vt, vec![start_a, t1, t2]).unwrap();
    let tour: Vec<_> = s.tour_of(v1).unwrap().all_nodes_iter().collect();
    println!("tour of the new vehicle: {:?}", tour);
    assert!(tour.contains(&t1) && tour.contains(&t2), "spawn_vehicle_for_path(.., [depot A, t1, t2]) returned Ok but the new vehicle's tour {:?} does not serve t2 = {:?}", tour, t2);
}
