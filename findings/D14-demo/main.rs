use std::sync::Arc;
fn instance(tracks: u64, formation: &str) -> serde_json::Value { instance2(tracks, formation, 0) }
fn instance2(tracks: u64, formation: &str, depcap: u64) -> serde_json::Value {
    // one trip A->B 10:00-10:30, formation limit 1 => the type gets an overflow depot capacity of 1 * 1;
    // one maintenance slot at B 09:00-12:00 (overlaps the trip: no vehicle can do both) with `tracks` tracks;
    // the only real depot has capacity 0
    let s = format!(r#"{{
  "vehicleTypes": [ {{ "id": "T", "capacity": 100, "seats": 100 {formation} }} ],
  "locations": [ {{ "id": "A" }}, {{ "id": "B" }} ],
  "depots": [ {{ "id": "dep", "location": "A", "capacity": {depcap}, "allowedTypes": [ {{ "vehicleType": "T" }} ] }} ],
  "routes": [ {{ "id": "r0", "vehicleType": "T", "segments": [
      {{ "id": "r0s0", "order": 0, "origin": "A", "destination": "B", "distance": 100000, "duration": 1800 }} ] }} ],
  "departures": [ {{ "id": "d0", "route": "r0", "segments": [
      {{ "id": "d0s0", "routeSegment": "r0s0", "departure": "2023-07-24T10:00:00", "passengers": 50, "seated": 0 }} ] }} ],
  "maintenanceSlots": [ {{ "id": "m0", "location": "B", "start": "2023-07-24T09:00:00", "end": "2023-07-24T12:00:00", "trackCount": {tracks} }} ],
  "deadHeadTrips": {{ "indices": ["A", "B"], "durations": [[0, 600], [600, 0]], "distances": [[0, 1000], [1000, 0]] }},
  "parameters": {{ "shunting": {{ "minimalDuration": 120, "deadHeadTripDuration": 300 }},
     "maintenance": {{ "maximalDistance": 1000 }},
     "costs": {{ "staff": 100, "serviceTrip": 50, "maintenance": 10, "deadHeadTrip": 500, "idle": 20 }} }}
}}"#);
    serde_json::from_str(&s).unwrap()
}
fn run(name: &str, v: serde_json::Value) {
    let name = name.to_string();
    let r = std::panic::catch_unwind(move || {
        let network: Arc<model::network::Network> = model::json_serialisation::load_rolling_stock_problem_instance_from_json(v);
        let ov = network.overflow_depot_idxs().0;
        let vt = network.vehicle_types().iter().next().unwrap();
        println!("[{}] overflow depot capacity_for(type) = {}", name, network.get_depot(ov).capacity_for(vt));
        let schedule = solver::min_cost_flow_solver::MinCostFlowSolver::initialize(network).solve();
        println!("[{}] solved: {} vehicles", name, schedule.number_of_vehicles());
    });
    match r { Ok(()) => println!("=> no panic"), Err(_) => println!("=> PANIC (message above)") }
}
fn main() {
    run("limit1_tracks1", instance(1, r#", "maximalFormationCount": 1"#));
    run("limit1_tracks3", instance(3, r#", "maximalFormationCount": 1"#));
    run("limit1_tracks3_ample_depot", instance2(3, r#", "maximalFormationCount": 1"#, 10));
    run("limit2_tracks3_ample_depot", instance2(3, r#", "maximalFormationCount": 2"#, 10));
    run("nolimit_tracks3_ample_depot", instance2(3, "", 10));
}
