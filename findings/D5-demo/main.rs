use std::sync::Arc;
fn instance(passengers: u64, depots: &str) -> serde_json::Value { instance2(passengers, depots, "", 1) }
fn instance2(passengers: u64, depots: &str, mfc: &str, ntrips: usize) -> serde_json::Value {
    let deps: Vec<String> = (0..ntrips).map(|i| format!(r#"{{ "id": "d{i}", "route": "r0", "segments": [
      {{ "id": "d{i}s0", "routeSegment": "r0s0", "departure": "2023-07-24T1{i}:00:00", "passengers": {passengers}, "seated": 0 }} ] }}"#)).collect();
    let deps = deps.join(", ");
    let s = format!(r#"{{
  "vehicleTypes": [ {{ "id": "T", "capacity": 100, "seats": 100 {mfc} }} ],
  "locations": [ {{ "id": "A" }}, {{ "id": "B" }} ],
  {depots}
  "routes": [ {{ "id": "r0", "vehicleType": "T", "segments": [
      {{ "id": "r0s0", "order": 0, "origin": "A", "destination": "B", "distance": 1000, "duration": 1800 }} ] }} ],
  "departures": [ {deps} ],
  "deadHeadTrips": {{ "indices": ["A", "B"], "durations": [[0, 600], [600, 0]], "distances": [[0, 1000], [1000, 0]] }},
  "parameters": {{ "shunting": {{ "minimalDuration": 120, "deadHeadTripDuration": 300 }},
     "costs": {{ "staff": 100, "serviceTrip": 50, "deadHeadTrip": 500, "idle": 20 }} }}
}}"#);
    serde_json::from_str(&s).unwrap()
}
fn run(name: &str, passengers: u64, depots: &str) { run2(name, instance(passengers, depots)) }
fn run2(name: &str, v: serde_json::Value) {
    let name = name.to_string();
    let r = std::panic::catch_unwind(move || {
        let network: Arc<model::network::Network> =
            model::json_serialisation::load_rolling_stock_problem_instance_from_json(v);
        let ov = network.overflow_depot_idxs().0;
        let vt = network.vehicle_types().iter().next().unwrap();
        let trip = network.service_nodes(vt).next().unwrap();
        println!("[{}] overflow depot capacity_for(type) = {}, vehicles required for the trip = {}, formation limit = {:?}",
            name, network.get_depot(ov).capacity_for(vt),
            network.number_of_vehicles_required_to_serve(vt, trip), network.maximal_formation_count_for(trip));
        for d in network.depots_iter() { println!("[{}]   depot {:?} capacity_for = {}", name, d, network.get_depot(d).capacity_for(vt)); }
        let schedule = solver::min_cost_flow_solver::MinCostFlowSolver::initialize(network).solve();
        println!("[{}] solved: {} vehicles", name, schedule.number_of_vehicles());
    });
    match r { Ok(()) => println!("=> no panic"), Err(_) => println!("=> PANIC (message above)") }
}
fn main() {
    let zero = r#""depots": [ { "id": "dep", "location": "A", "capacity": 0, "allowedTypes": [ { "vehicleType": "T" } ] } ],"#;
    // control: 100 passengers need one vehicle -> overflow depot (capacity 1*1) suffices
    run("control_1_vehicle", 100, zero);
    // D5: 1000 passengers need 10 coupled vehicles of a type WITHOUT formation limit, real depot capacity 0
    run("d5_10_vehicles", 1000, zero);
    // the same demand with default depots (no `depots` entry): capacity = number of trips = 1 per location
    run("default_depots_10_vehicles", 1000, "");
    // u32 overflow of `number_of_service_nodes as VehicleCount * max_formation_count`: 2 trips, limit 2^31
    run2("mul_overflow", instance2(100, zero, r#", "maximalFormationCount": 2147483648"#, 2));
}
