import subprocess, re, sys, concurrent.futures as cf
def run(seed):
    try:
        p = subprocess.run(["/var/tmp/d7/target/release/d7", str(seed)], capture_output=True, text=True, timeout=120)
    except subprocess.TimeoutExpired:
        return seed, "timeout", None, None
    out = p.stdout
    m = re.search(r"NextDayTransitions for vt:\n((?:Cycle: .*\n)+)", out)
    rep = re.search(r"REPORTED-CYCLES (.*)", out)
    if not m or not rep:
        return seed, "noparse rc=%d %s" % (p.returncode, p.stderr[-200:]), None, None
    opt = sorted(tuple(int(x) for x in re.findall(r"\d+", l.split("counter")[0])) for l in m.group(1).strip().split("\n"))
    reported = sorted(tuple(int(re.sub(r"\D", "", v)) for v in cyc) for cyc in eval(rep.group(1)))
    return seed, "ok", opt, reported
with cf.ThreadPoolExecutor(12) as ex:
    for seed, st, opt, rep in ex.map(run, range(1, int(sys.argv[1]))):
        if st != "ok": print(seed, st); continue
        # compare as cyclic sequences up to rotation
        def canon(c):
            i = c.index(min(c)); return c[i:] + c[:i]
        a = sorted(canon(c) for c in opt if c); b = sorted(canon(c) for c in rep if c)
        if a != b: print("DIFF seed", seed, "optimiser:", a, "reported:", b)
print("done")
