use serde_json::json;
// tiny deterministic generator
struct Rng(u64);
impl Rng { fn next(&mut self, n: u64) -> u64 { self.0 = self.0.wrapping_mul(6364136223846793005).wrapping_add(1442695040888963407); (self.0 >> 33) % n } }
fn main() {
    let seed: u64 = std::env::args().nth(1).and_then(|s| s.parse().ok()).unwrap_or(1);
    let mut r = Rng(seed);
    let locs = ["A", "B", "C"];
    let ntrips = 4 + r.next(5) as usize;
    let mut routes = Vec::new(); let mut deps = Vec::new();
    for k in 0..ntrips {
        let o = r.next(3) as usize; let mut d = r.next(3) as usize; if d == o { d = (o + 1) % 3; }
        let hour = 6 + r.next(12); let min = 10 * r.next(6);
        routes.push(json!({"id": format!("r{}", k), "vehicleType": "vt", "segments": [{"id": format!("rs{}", k), "order": 0, "origin": locs[o], "destination": locs[d], "distance": 1000 + 500 * r.next(6), "duration": 1800 + 600 * r.next(4)}]}));
        deps.push(json!({"id": format!("d{}", k), "route": format!("r{}", k), "segments": [{"id": format!("t{}", k), "routeSegment": format!("rs{}", k), "departure": format!("2024-01-01T{:02}:{:02}:00", hour, min), "passengers": 10, "seated": 0}]}));
    }
    let mut slots = Vec::new();
    for k in 0..(1 + r.next(3)) {
        let h = 6 + r.next(14);
        slots.push(json!({"id": format!("m{}", k), "location": locs[r.next(3) as usize], "start": format!("2024-01-01T{:02}:00:00", h), "end": format!("2024-01-01T{:02}:00:00", h + 1), "trackCount": 1 + r.next(2)}));
    }
    let dist: Vec<Vec<u64>> = (0..3).map(|a| (0..3).map(|b| if a == b { 0 } else { 1000 + 1000 * r.next(8) }).collect()).collect();
    let inst = json!({
        "vehicleTypes": [{"id": "vt", "capacity": 100, "seats": 50}],
        "locations": locs.iter().map(|l| json!({"id": l})).collect::<Vec<_>>(),
        "routes": routes, "departures": deps, "maintenanceSlots": slots,
        "deadHeadTrips": {"indices": locs, "durations": [[0, 600, 900], [600, 0, 600], [900, 600, 0]], "distances": dist},
        "parameters": {"shunting": {"minimalDuration": 60, "deadHeadTripDuration": 60},
            "maintenance": {"maximalDistance": 1500 + 1000 * r.next(6)},
            "costs": {"staff": 100, "serviceTrip": 50, "maintenance": 10, "deadHeadTrip": 500, "idle": 20}}
    });
    let out = server::solve_instance(inst.clone());
    println!("REPORTED-CYCLES {}", serde_json::to_string(&out["schedule"]["fleet"][0]["vehicleCycles"]).unwrap_or_default());
    if std::env::args().nth(2).is_some() { println!("INSTANCE {}", serde_json::to_string(&inst).unwrap()); }
}
