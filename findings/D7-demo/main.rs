use serde_json::json;
use rapid_solve::heuristics::Solver;
use model::base_types::VehicleTypeIdx;
use solver::transition_local_search::{build_transition_local_search_solver, TransitionWithInfo};
fn main() {
    let inst = json!({
        "vehicleTypes": [{"id": "vt", "capacity": 100, "seats": 50}],
        "locations": [{"id": "A"}, {"id": "B"}],
        "routes": [
            {"id": "r0", "vehicleType": "vt", "segments": [{"id": "rs0", "order": 0, "origin": "A", "destination": "B", "distance": 1000, "duration": 1800}]},
            {"id": "r1", "vehicleType": "vt", "segments": [{"id": "rs1", "order": 0, "origin": "B", "destination": "A", "distance": 1000, "duration": 1800}]}
        ],
        "departures": [
            {"id": "d0", "route": "r0", "segments": [{"id": "t0", "routeSegment": "rs0", "departure": "2024-01-01T08:00:00", "passengers": 10, "seated": 0}]},
            {"id": "d1", "route": "r1", "segments": [{"id": "t1", "routeSegment": "rs1", "departure": "2024-01-01T08:00:00", "passengers": 10, "seated": 0}]}
        ],
        "deadHeadTrips": {"indices": ["A", "B"], "durations": [[0, 600], [600, 0]], "distances": [[0, 1000], [1000, 0]]},
        "parameters": {"shunting": {"minimalDuration": 0, "deadHeadTripDuration": 0},
            "maintenance": {"maximalDistance": 1500},
            "costs": {"staff": 100, "serviceTrip": 50, "maintenance": 10, "deadHeadTrip": 500, "idle": 20}}
    });
    let net = model::json_serialisation::load_rolling_stock_problem_instance_from_json(inst);
    let vt = VehicleTypeIdx(0);
    let s = solution::Schedule::empty(net.clone());
    let t0 = net.all_service_nodes().next().unwrap();
    let t1 = net.all_service_nodes().nth(1).unwrap();
    let (s, _) = s.spawn_vehicle_for_path(vt, vec![t0]).unwrap();
    let (s, _) = s.spawn_vehicle_for_path(vt, vec![t1]).unwrap();
    s.next_day_transition_of(vt).print();   // two one-vehicle cycles
    let solver = build_transition_local_search_solver(&s, net.clone());
    let r = solver.solve(TransitionWithInfo::new(s.next_day_transition_of(vt).clone(), "start".to_string()));
    println!("optimiser returned: {}", r.objective_value().iter().count());
}
