//! Kani leaf harnesses (thorough tier): loop-free, map-free functions of the *compiled* model crate,
//! checked over their full input domain against the same specification the Verus slices use.
//! They discharge A-derive (derived Ord/Eq = the rank order assumed in env/*.vs) for the index types
//! and Distance, and re-check Distance arithmetic with a second back end (CBMC).
#![allow(unused)]
use model::base_types::{Distance, NodeIdx, VehicleIdx};
use std::cmp::Ordering;

fn node_idx_rank(n: NodeIdx) -> u32 {
    match n {
        NodeIdx::StartDepot(i) => i as u32,
        NodeIdx::Service(i) => 0x10000 + i as u32,
        NodeIdx::Maintenance(i) => 0x20000 + i as u32,
        NodeIdx::EndDepot(i) => 0x30000 + i as u32,
    }
}
#[cfg(kani)]
fn any_node_idx() -> NodeIdx {
    let i: u16 = kani::any();
    match kani::any::<u8>() % 4 {
        0 => NodeIdx::StartDepot(i),
        1 => NodeIdx::Service(i),
        2 => NodeIdx::Maintenance(i),
        _ => NodeIdx::EndDepot(i),
    }
}
#[cfg(kani)]
fn any_distance() -> Distance {
    if kani::any() { Distance::Infinity } else { Distance::Distance(kani::any()) }
}
fn denc(d: Distance) -> u128 {
    match d { Distance::Distance(m) => m as u128, Distance::Infinity => 1u128 << 80 }
}

/// A-derive: derived Ord/Eq of NodeIdx is the order of node_idx_rank (used by slice net_enum)
#[cfg(kani)]
#[kani::proof]
fn node_idx_derived_order_is_rank_order() {
    let a = any_node_idx();
    let b = any_node_idx();
    assert_eq!(a.cmp(&b), node_idx_rank(a).cmp(&node_idx_rank(b)));
    assert_eq!(a == b, node_idx_rank(a) == node_idx_rank(b));
    assert!(NodeIdx::smallest() <= a);
    assert!(a <= NodeIdx::EndDepot(u16::MAX));
}

/// A-derive: derived Ord/Eq of Distance: finite by metres, Infinity above everything
#[cfg(kani)]
#[kani::proof]
fn distance_derived_order_is_encoding_order() {
    let a = any_distance();
    let b = any_distance();
    assert_eq!(a.cmp(&b), denc(a).cmp(&denc(b)));
    assert_eq!(a == b, denc(a) == denc(b));
}

/// Distance::sub_max_zero against its contract (env/dist_ops.vs), full domain
#[cfg(kani)]
#[kani::proof]
fn distance_sub_max_zero_spec() {
    let a = any_distance();
    let b = any_distance();
    let r = a.sub_max_zero(b);
    let expect = match (a, b) {
        (Distance::Infinity, _) => Distance::Infinity,
        (Distance::Distance(_), Distance::Infinity) => Distance::Distance(0),
        (Distance::Distance(x), Distance::Distance(y)) => Distance::Distance(if x < y { 0 } else { x - y }),
    };
    assert_eq!(r, expect);
}

/// Distance + Distance against dist_add under add_req (no overflow of the finite parts)
#[cfg(kani)]
#[kani::proof]
fn distance_add_spec() {
    let a = any_distance();
    let b = any_distance();
    if let (Distance::Distance(x), Distance::Distance(y)) = (a, b) {
        kani::assume(x.checked_add(y).is_some());
    }
    let r = a + b;
    let expect = match (a, b) {
        (Distance::Distance(x), Distance::Distance(y)) => Distance::Distance(x + y),
        _ => Distance::Infinity,
    };
    assert_eq!(r, expect);
}

/// Distance - Distance against sub_spec under sub_req (mirrors the panic!/assert! of the body)
#[cfg(kani)]
#[kani::proof]
fn distance_sub_spec() {
    let a = any_distance();
    let b = any_distance();
    if let Distance::Distance(x) = a {
        match b { Distance::Distance(y) => kani::assume(x >= y), Distance::Infinity => kani::assume(false) }
    }
    let r = a - b;
    let expect = match (a, b) {
        (Distance::Infinity, _) => Distance::Infinity,
        (Distance::Distance(x), Distance::Distance(y)) => Distance::Distance(x - y),
        _ => unreachable!(),
    };
    assert_eq!(r, expect);
}

/// in_meter: Ok(m) for finite, Err for Infinity
#[cfg(kani)]
#[kani::proof]
fn distance_in_meter_spec() {
    let a = any_distance();
    match a {
        Distance::Distance(m) => assert_eq!(a.in_meter(), Ok(m)),
        Distance::Infinity => assert!(a.in_meter().is_err()),
    }
}

/// VehicleIdx: derived Eq is structural; is_dummy / is_real partition
#[cfg(kani)]
#[kani::proof]
fn vehicle_idx_kinds() {
    let i: u16 = kani::any();
    let v = if kani::any() { VehicleIdx::vehicle_from(i) } else { VehicleIdx::dummy_from(i) };
    assert!(v.is_dummy() != v.is_real());
    assert_eq!(v.idx(), i);
}
