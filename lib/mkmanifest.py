#!/usr/bin/env python3
"""regenerates MANIFEST.json from props.py (claimed) + NOT_APPLICABLE below"""
import json, os, sys
VERIF = os.path.dirname(os.path.dirname(os.path.abspath(__file__)))
sys.path.insert(0, VERIF)
import props

checks = []
for pid in sorted(props.PROPS):
    c = props.PROPS[pid]
    checks.append(dict(
        property_id=pid,
        quick_cmd="./check %s --tier quick" % pid,
        thorough_cmd="./check %s --tier thorough" % pid,
        evidence_file="/verif/evidence/%s.json" % pid,
        replay_cmd_template="./check %s --replay {path}" % pid,
        engine="verus-slices",
        level_claimed=dict(category="proof", text=c["level_text"], design_ref=c.get("design_ref", "DESIGN.md §5")),
        level_note=c["level_note"],
        technique="contract-based deductive verification (Verus/Z3) of the real functions, extracted mechanically on every run",
    ))
na = []
for pid, reason in sorted(props.NOT_APPLICABLE.items()):
    if pid not in props.PROPS:
        na.append(dict(property_id=pid, reason=reason))
m = dict(
    version=1,
    setup_cmd="./setup.sh",
    hooks=dict(guard="rssched_verif", enable="none needed: extraction reads sources; no hook is compiled into /repo",
               baseline_off_cmd="cd /repo && cargo test --workspace --no-fail-fast --offline",
               source_commits=[], add_only=True),
    engines=[dict(name="verus-slices", path="/verif/check", serves_properties=sorted(props.PROPS),
                  kind_free_text="vx (syn-based extractor/annotator) -> single-file Verus slices -> classifier/evidence (lib/runner.py)")],
    checks=checks,
    not_applicable=na,
    notes="exit 2 from a check means undecided (lost anchor, unsupported construct, resource limit) and is never an alarm; see DESIGN.md",
)
json.dump(m, open(os.path.join(VERIF, "MANIFEST.json"), "w"), indent=1)
print("MANIFEST.json: %d checks, %d not applicable" % (len(checks), len(na)))
