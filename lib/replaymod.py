"""./check Cxx --replay FILE : re-execute a recorded violation against the current tree."""
import json, os, subprocess, sys
import runner


def replay(prop, path):
    d = json.load(open(path))
    w = d.get("witness")
    tool = runner.build_replay_tool() if w else None
    if w and tool:
        p = subprocess.run([tool, "replay", path], text=True)
        return 1 if p.returncode == 1 else (0 if p.returncode == 0 else 2)
    # no concrete input: re-run the verifier on the slice and report whether the obligation still fails
    r = runner.verify_slice(d["slice"], "quick")
    if r["undecided"]:
        for u in r["undecided"]:
            print("UNDECIDED:", u, file=sys.stderr)
        return 2
    still = [o for o in r["failures"] if o["id"] == d["obligation"]]
    if still:
        print("obligation %s still fails: %s" % (d["obligation"], still[0]["message"]))
        return 1
    print("obligation %s is discharged on the current tree" % d["obligation"])
    return 0
