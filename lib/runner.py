"""Runner / classifier / evidence writer (DESIGN §3.4)."""
import concurrent.futures as cf
import glob
import hashlib
import json
import os
import re
import subprocess
import sys
import time

VERIF = os.path.dirname(os.path.dirname(os.path.abspath(__file__)))
REPO = os.environ.get("VERIF_REPO", "/repo")
TOOLS = os.path.join(VERIF, "build")  # tool binaries (vx, replay) built by setup.sh
BUILD = os.environ.get("VERIF_BUILD", TOOLS)  # generated slices / logs (a scratch dir for self-tests)
VX = os.path.join(TOOLS, "vx-target", "release", "vx")
sys.path.insert(0, VERIF)
import props  # noqa: E402  (per-property configuration)

VERIF_MSG = [
    "postcondition not satisfied",
    "precondition not satisfied",
    "assertion failed",
    "possible arithmetic underflow/overflow",
    "possible division by zero",
    "invariant not satisfied",
    "decreases not satisfied",
    "loop invariant",
    "unreachable",
    "panic",
    "possible bit shift underflow/overflow",
    "recommendation not met",
    "unable to prove",
]
UNDECIDED_MSG = ["Resource limit", "rlimit", "timed out", "out of memory"]


def log(*a):
    print(*a, file=sys.stderr, flush=True)


def crate_dirs():
    """resolve registry sources of external crates at the version pinned by /repo/Cargo.lock"""
    lp = os.path.join(REPO, "Cargo.lock")
    if not os.path.exists(lp):  # scratch worktrees used by the self-tests do not carry the (untracked) lock file
        lp = "/repo/Cargo.lock"
    lock = open(lp).read()
    out = {}
    for name in ("rapid_time", "rapid_solve"):
        m = re.search(r'name = "%s"\nversion = "([^"]+)"' % name, lock)
        if not m:
            continue
        hits = glob.glob(os.path.expanduser("~/.cargo/registry/src/*/%s-%s" % (name, m.group(1))))
        if hits:
            out[name] = hits[0]
    return out


def sha256(b):
    return hashlib.sha256(b).hexdigest()


def gen_slice(name):
    """run vx; returns dict(ok, msg, map, path, canary_path)"""
    os.makedirs(BUILD, exist_ok=True)
    out = os.path.join(BUILD, name + ".rs")
    mp = os.path.join(BUILD, name + ".map.json")
    cn = os.path.join(BUILD, name + "_canary.rs")
    cmd = [VX, os.path.join(VERIF, "slices", name + ".vs"), "--repo", REPO, "--out", out, "--map", mp, "--canary-out", cn]
    for k, v in crate_dirs().items():
        cmd += ["--crate-dir", "%s=%s" % (k, v)]
    p = subprocess.run(cmd, capture_output=True, text=True)
    if p.returncode != 0:
        return dict(ok=False, msg=(p.stderr or p.stdout).strip(), name=name)
    m = json.load(open(mp))
    # sha256 of the verbatim text of each extracted item
    cache = {}
    for it in m["items"]:
        src = cache.setdefault(it["path"], open(it["path"], "rb").read())
        it["sha256"] = sha256(src[it["byte_start"]:it["byte_end"]])
    return dict(ok=True, name=name, path=out, map=m, canary_path=cn, cmd=" ".join(cmd))


def run_verus(path, extra=(), timeout=1800):
    cmd = ["verus", path, "--error-format=json", "--output-json", "--time"] + list(extra)
    t0 = time.time()
    try:
        p = subprocess.run(cmd, capture_output=True, text=True, timeout=timeout, cwd=BUILD)
    except subprocess.TimeoutExpired:
        return dict(cmd=" ".join(cmd), timeout=True, wall=time.time() - t0, diags=[], results=None, funcs=[], stderr="timeout")
    diags = []
    for line in p.stderr.splitlines():
        line = line.strip()
        if line.startswith("{"):
            try:
                d = json.loads(line)
            except ValueError:
                continue
            if d.get("$message_type") == "diagnostic":
                diags.append(d)
    res = None
    funcs = []
    try:
        j = json.loads(p.stdout)
        res = j.get("verification-results")
        for m in j.get("times-ms", {}).get("smt", {}).get("smt-run-module-times", []):
            for f in m.get("function-breakdown", []):
                funcs.append(f)
    except ValueError:
        pass
    return dict(cmd=" ".join(cmd), timeout=False, wall=time.time() - t0, diags=diags, results=res, funcs=funcs,
                stderr=p.stderr, rc=p.returncode)


def contract_index():
    """(file, selector) -> [(slice, mode, contract hash)] over ALL slices of the framework (vx only, no Verus):
    used to tell stubs whose contract is discharged in another slice (R7a) from plain assumptions (R7b)"""
    idx = {}
    d = os.path.join(BUILD, "index")
    os.makedirs(d, exist_ok=True)
    for f in sorted(glob.glob(os.path.join(VERIF, "slices", "*.vs"))):
        name = os.path.basename(f)[:-3]
        cmd = [VX, f, "--repo", REPO, "--out", os.path.join(d, name + ".rs"), "--map", os.path.join(d, name + ".map.json")]
        for k, v in crate_dirs().items():
            cmd += ["--crate-dir", "%s=%s" % (k, v)]
        p = subprocess.run(cmd, capture_output=True, text=True)
        if p.returncode != 0:
            continue
        for it in json.load(open(os.path.join(d, name + ".map.json")))["items"]:
            idx.setdefault((it["file"], it["selector"]), []).append((name, it["mode"], it.get("contract"), it.get("contract_req"), it.get("contract_ens_lines") or []))
    return idx


def seg_for_line(m, line):
    best = None
    for s in m["segments"]:
        if s["out_line"] <= line < s["out_line"] + max(1, s["n_lines"]):
            best = s
    return best


def item_for_line(m, line):
    for it in m["items"]:
        if it["out_line_start"] <= line <= it["out_line_end"]:
            return it
    return None


def msg_kind(msg):
    k = re.sub(r"[^a-z]+", "_", msg.lower()).strip("_")
    return k[:40]


def obligation_of(diag, sl):
    """map a Verus error diagnostic to a stable obligation id + description"""
    m = sl["map"]
    lines = open(sl["path"]).read().split("\n")
    spans = [s for s in diag.get("spans", []) if s["file_name"].endswith(os.path.basename(sl["path"]))]
    spans.sort(key=lambda s: (not s.get("is_primary"), s["line_start"]))
    tagged = None
    for s in spans:
        for ln in range(s["line_start"], s["line_end"] + 1):
            if ln - 1 < len(lines):
                mm = re.search(r"@obl\s+(\S+)", lines[ln - 1])
                if mm:
                    tagged = mm.group(1)
                    break
        if tagged:
            break
    where = None
    fn = None
    prim = spans[0] if spans else None
    # prefer a span that lies inside an extracted item for the location
    for s in spans:
        it = item_for_line(m, s["line_start"])
        if it:
            seg = seg_for_line(m, s["line_start"])
            src_line = None
            if seg and seg.get("kind") == "verbatim":
                src_line = seg["src_line"] + (s["line_start"] - seg["out_line"])
            fn = it["selector"]
            where = "%s:%s" % (it["file"], src_line if src_line else "contract(%s)" % (seg or {}).get("kind"))
            break
    if where is None and prim is not None:
        where = "slice:%s:%d" % (sl["name"], prim["line_start"])
        # function name: nearest preceding `fn name`
        for ln in range(prim["line_start"], 0, -1):
            mm = re.search(r"\bfn\s+(\w+)", lines[ln - 1])
            if mm:
                fn = mm.group(1)
                break
    kind = msg_kind(diag["message"])
    oid = tagged if tagged else "%s.%s@%s" % (fn or "?", kind, where)
    text = ""
    if prim:
        text = " | ".join(t["text"].strip() for t in prim.get("text", [])[:3])
    return dict(id=oid, function=fn, message=diag["message"], where=where, slice=sl["name"],
                slice_line=prim["line_start"] if prim else None, text=text, tagged=bool(tagged),
                rendered=diag.get("rendered", ""))


def classify(diags):
    """returns (verification_failures, undecided_reasons)"""
    fails, undec = [], []
    for d in diags:
        if d.get("level") != "error":
            continue
        msg = d.get("message", "")
        if msg.startswith("aborting due to"):
            continue
        if d.get("code"):
            undec.append("rustc error %s: %s" % (d["code"].get("code"), msg))
            continue
        if any(u.lower() in msg.lower() for u in UNDECIDED_MSG):
            undec.append("resource limit: " + msg)
            continue
        if any(v in msg for v in VERIF_MSG):
            fails.append(d)
        else:
            undec.append("verus error (not a proof obligation): " + msg.split("\n")[0])
    return fails, undec


TRUST_PAT = re.compile(r"(external_body|assume_specification|\badmit\(|\bassume\(|\baxiom fn\b|external_type_specification|verifier::external\b|unimplemented!)")


def scan_trusted(sl):
    out = []
    lines = open(sl["path"]).read().split("\n")
    i = 0
    while i < len(lines):
        l = lines[i]
        if TRUST_PAT.search(l) and not l.strip().startswith("//"):
            # describe by the next line that names a fn / struct
            desc = l.strip()
            if "external_body" in l or "axiom fn" in l or "assume_specification" in l or "external_type_specification" in l:
                for k in range(i, min(i + 8, len(lines))):
                    mm = re.search(r"\b(fn|struct|enum)\s+(\w+)", lines[k])
                    if mm:
                        desc = "%s %s %s" % (re.search(TRUST_PAT, l).group(1), mm.group(1), mm.group(2))
                        it = item_for_line(sl["map"], k + 1)
                        if it:
                            desc += " [%s %s]" % (it["file"], it["selector"])
                        break
                out.append("%s: %s" % (sl["name"], desc))
            elif "unimplemented!" in l:
                pass
            else:
                out.append("%s:%d: %s" % (sl["name"], i + 1, desc[:120]))
        i += 1
    return sorted(set(out))


def verify_slice(name, tier):
    """full pipeline for one slice; returns a result dict"""
    r = dict(name=name, undecided=[], failures=[], unstable=[], canaries=0, canaries_failed=0, wall=0.0)
    t0 = time.time()
    sl = gen_slice(name)
    if not sl["ok"]:
        r["undecided"].append("vx: " + sl["msg"])
        r["wall"] = time.time() - t0
        return r
    r["sl"] = sl
    base = ["--multiple-errors", "50", "--rlimit", "60"]
    v = run_verus(sl["path"], base)
    r["cmd"] = v["cmd"]
    if v["timeout"] or v["results"] is None:
        r["undecided"].append("verus produced no result (%s)" % (v["stderr"][-400:] if v["stderr"] else "timeout"))
        r["wall"] = time.time() - t0
        return r
    fails, undec = classify(v["diags"])
    if v["results"].get("encountered-vir-error"):
        undec.append("verus: unsupported construct / VIR error")
    r["undecided"] += undec
    r["results"] = v["results"]
    r["funcs"] = v["funcs"]
    obls = [obligation_of(d, sl) for d in fails]
    if obls and not undec:
        # one retry with a larger resource limit and another seed (DESIGN §3.4 step 4)
        v2 = run_verus(sl["path"], ["--multiple-errors", "50", "--rlimit", "240", "--smt-option", "smt.random_seed=7"])
        if v2["results"] is not None:
            f2, u2 = classify(v2["diags"])
            ids2 = set(obligation_of(d, sl)["id"] for d in f2)
            if not u2:
                for o in obls:
                    if o["id"] not in ids2:
                        r["unstable"].append(o["id"])
                obls = [o for o in obls if o["id"] in ids2]
                if not obls:
                    r["results"] = v2["results"]
                    r["funcs"] = v2["funcs"]
    # de-duplicate by id
    seen = {}
    for o in obls:
        seen.setdefault(o["id"], o)
    r["failures"] = list(seen.values())
    # vacuity canaries (DESIGN §3.4 step 5): every canary must FAIL to verify
    ncan = len(sl["map"].get("canaries", []))
    r["canaries"] = ncan
    if ncan and not r["undecided"]:
        text = open(sl["canary_path"]).read()
        mods = [None] + module_paths_with_canaries(text)
        ok_fail = 0
        verified = []
        for m in mods:
            sel = ["--verify-root"] if m is None else ["--verify-only-module", m]
            vc = run_verus(sl["canary_path"], sel + ["--verify-function", "*canary_*", "--multiple-errors", "0", "--rlimit", "20"])
            if vc["results"] is None:
                continue  # module without canaries: verus reports "could not find function"
            for f in vc["funcs"]:
                if "canary_" in f["function"]:
                    if f.get("success"):
                        verified.append(f["function"])
                    else:
                        ok_fail += 1
        if verified or ok_fail != ncan:
            r["undecided"].append("vacuity guard: %d canaries, %d failed as expected, verified: %s" % (ncan, ok_fail, verified))
        r["canaries_failed"] = ok_fail
    r["trusted"] = scan_trusted(sl)
    r["wall"] = time.time() - t0
    return r


def module_paths_with_canaries(text):
    """full paths (a::b) of the inline modules that contain a canary fn"""
    out, stack, depth = [], [], 0
    for line in text.split("\n"):
        m = re.match(r"\s*pub mod (\w+) \{", line)
        if m:
            stack.append((m.group(1), depth))
        if "fn canary_" in line and stack:
            p = "::".join(n for n, _ in stack)
            if p not in out:
                out.append(p)
        depth += line.count("{") - line.count("}")
        while stack and depth <= stack[-1][1]:
            stack.pop()
    return out


def load_known():
    p = os.path.join(VERIF, "known_findings.jsonl")
    out = []
    if os.path.exists(p):
        for l in open(p):
            l = l.strip()
            if l and not l.startswith("#"):
                out.append(json.loads(l))
    return out


def write_replay(prop, obl, witness):
    d = os.environ.get("VERIF_REPLAY_DIR", os.path.join(VERIF, "replay"))
    os.makedirs(d, exist_ok=True)
    fn = os.path.join(d, "%s-%s.json" % (prop, re.sub(r"[^A-Za-z0-9_.-]+", "_", obl["id"])[:120]))
    json.dump(dict(property=prop, obligation=obl["id"], function=obl["function"], message=obl["message"],
                   where=obl["where"], slice=obl["slice"], verifier_output=obl["rendered"], witness=witness),
              open(fn, "w"), indent=1)
    return fn


def build_replay_tool():
    """(re)build the replay tool against /repo's current working tree (cargo is incremental)"""
    d = os.path.join(VERIF, "tools", "replay")
    env = dict(os.environ, CARGO_NET_OFFLINE="true", CARGO_TARGET_DIR=os.path.join(TOOLS, "replay-target"))
    try:
        p = subprocess.run(["cargo", "build", "--release", "--offline"], cwd=d, env=env, capture_output=True, text=True, timeout=1200)
    except subprocess.TimeoutExpired:
        return None
    tool = os.path.join(TOOLS, "replay-target", "release", "replay")
    if p.returncode != 0 or not os.path.exists(tool):
        log("replay tool did not build:", p.stderr[-500:])
        return None
    return tool


def witness_search(prop, obl, tier):
    """DESIGN §3.5: drive the real crates on small inputs; never the deciding step."""
    fam = props.PROPS[prop].get("witness_family")
    if not fam:
        return None
    tool = build_replay_tool()
    if not tool:
        return None
    fam = obl.get("family") or fam
    outp = os.path.join(BUILD, "witness.%d.json" % os.getpid())
    if os.path.exists(outp):
        os.remove(outp)
    try:
        p = subprocess.run([tool, "search", fam, "--obligation", obl["id"], "--tier", tier], capture_output=True,
                           text=True, timeout=900 if tier == "thorough" else 240,
                           env=dict(os.environ, VERIF_SEED=os.environ.get("VERIF_SEED", "0"), REPLAY_OUT=outp))
    except subprocess.TimeoutExpired:
        return None
    if p.returncode == 1 and os.path.exists(outp):
        try:
            w = json.load(open(outp))
        except ValueError:
            w = None
        os.remove(outp)
        return w
    return None


def main(argv):
    if not argv:
        print(__doc__ if __doc__ else "usage: check <Cxx> [--tier quick|thorough]")
        return 2
    prop = argv[0]
    tier = os.environ.get("VERIF_TIER", "quick")
    replay = None
    i = 1
    while i < len(argv):
        if argv[i] == "--tier":
            tier = argv[i + 1]
            i += 2
        elif argv[i] == "--replay":
            replay = argv[i + 1]
            i += 2
        else:
            i += 1
    if prop not in props.PROPS:
        log("unknown or unclaimed property", prop)
        return 2
    if replay:
        import replaymod
        return replaymod.replay(prop, replay)
    seed = int(os.environ.get("VERIF_SEED", "0") or 0)
    cfg = props.PROPS[prop]
    t0 = time.time()
    if not os.path.exists(VX):
        log("vx not built; running setup.sh")
        subprocess.run([os.path.join(VERIF, "setup.sh")], check=False)
    results = []
    with cf.ThreadPoolExecutor(max_workers=8) as ex:
        slice_names = cfg.get("thorough_slices", cfg["slices"]) if tier == "thorough" else cfg["slices"]
        for r in ex.map(lambda n: verify_slice(n, tier), slice_names):
            results.append(r)
    extra = []
    if tier == "thorough":
        import thorough
        extra = thorough.run(prop, cfg, results)

    undecided = [("%s: %s" % (r["name"], u)) for r in results for u in r["undecided"]]
    for e in extra:
        undecided += e.get("undecided", [])
    failures = [o for r in results for o in r["failures"]]
    for e in extra:
        failures += e.get("failures", [])
    known = [k for k in load_known() if k.get("status") == "known" and prop in k.get("properties", [k.get("property")])]
    known_ids = {k["obligation"]: k for k in known}
    new_fail = [o for o in failures if o["id"] not in known_ids]
    known_hit = [o for o in failures if o["id"] in known_ids]

    verified = sum((r.get("results") or {}).get("verified", 0) for r in results)
    errors = sum((r.get("results") or {}).get("errors", 0) for r in results)
    for e in extra:
        verified += e.get("verified", 0)
        errors += e.get("errors", 0)
    funcs = []
    solver_ms = 0
    for r in results:
        for f in r.get("funcs", []):
            solver_ms += f.get("time-micros", 0) / 1000.0
    under_contract = []
    rewrites = []
    for r in results:
        sl = r.get("sl")
        if not sl:
            continue
        for it in sl["map"]["items"]:
            if it["mode"] in ("verify", "trusted"):
                kind = "fn" if ("::" in it["selector"] or it["selector"].startswith("fn ") or it["selector"].startswith("impl ")) else "item"
                if kind == "fn":
                    under_contract.append(dict(slice=r["name"], file=it["file"], item=it["selector"], mode=it["mode"],
                                               lines="%d-%d" % (it["src_line_start"], it["src_line_end"]), sha256=it["sha256"][:16]))
            for rw in it["rewrites"]:
                if not rw.startswith("R2") and not rw.startswith("R3"):
                    rewrites.append("%s %s: %s" % (it["file"], it["selector"], rw))
    trusted = sorted(set(t for r in results for t in r.get("trusted", [])))
    # classify the stubs: R7a (same contract text verified in another slice) vs R7b (assumption)
    cidx = contract_index()
    stubs_r7a, stubs_r7b = [], []
    for r in results:
        sl = r.get("sl")
        if not sl:
            continue
        for it in sl["map"]["items"]:
            if it["mode"] != "trusted":
                continue
            others = [o for o in cidx.get((it["file"], it["selector"]), []) if o[1] == "verify"]
            same = [o[0] for o in others if o[2] == it.get("contract")]
            label = "%s %s" % (it["file"], it["selector"])
            weaker = [o[0] for o in others if len(o) > 4 and o[3] == it.get("contract_req") and set(it.get("contract_ens_lines") or []) <= set(o[4])]
            if same:
                stubs_r7a.append("%s (verified with the same contract in slice %s)" % (label, same[0]))
            elif weaker:
                stubs_r7a.append("%s (same requires, a subset of the ensures lines of the contract verified in slice %s: implied by it)" % (label, weaker[0]))
            elif others:
                stubs_r7b.append("%s (verified in slice %s under a DIFFERENT contract text; here assumed)" % (label, others[0][0]))
            else:
                stubs_r7b.append("%s (not verified in any slice: assumption)" % label)
    stubs_r7a = sorted(set(stubs_r7a))
    stubs_r7b = sorted(set(stubs_r7b))
    samples = []
    for r in results:
        sl = r.get("sl")
        if not sl:
            continue
        lines = open(sl["path"]).read().split("\n")
        for ln, l in enumerate(lines):
            mm = re.search(r"@obl\s+(\S+)", l)
            if mm and len(samples) < 12:
                samples.append(dict(obligation=mm.group(1), clause=l.split("//")[0].strip(), slice=r["name"]))
    if not samples:
        for r in results:
            for f in r.get("funcs", [])[:6]:
                samples.append(dict(function=f["function"], success=f["success"], ms=f.get("time-micros", 0) / 1000.0))
    wall = time.time() - t0
    n_verify = len([u for u in under_contract if u["mode"] == "verify"])
    ev = dict(
        property_id=prop, tier=tier, seed=seed, level="proof",
        coverage=dict(
            obligations=verified + errors,
            discharged=verified,
            checker_cmd="; ".join(r.get("cmd", "") for r in results if r.get("cmd")),
            trusted_base=trusted,
            samples=samples,
            obligation_unit="one SMT query group per function/lemma/loop as counted by Verus (verified + errors)",
            back_end="verus 0.2026.09.13 / z3" + ("; kani 0.68 / cbmc 6.11 for leaf harnesses" if any(e.get("kani") for e in extra) else ""),
            solver_ms=round(solver_ms, 1),
            functions_under_contract=under_contract,
            functions_verified=n_verify,
            functions_trusted_stub=len(under_contract) - n_verify,
            stubs_discharged_elsewhere=stubs_r7a,
            stubs_assumed=stubs_r7b,
            rewrites_applied=sorted(set(rewrites)),
            slices=[dict(name=r["name"], verified=(r.get("results") or {}).get("verified"), errors=(r.get("results") or {}).get("errors"),
                         wall_s=round(r["wall"], 1), canaries=r["canaries"], canaries_failed_as_expected=r["canaries_failed"],
                         unstable=r["unstable"]) for r in results],
            failed_obligations=[dict(id=o["id"], message=o["message"], where=o["where"]) for o in failures],
            undecided=undecided,
            extra=[{k: v for k, v in e.items() if k not in ("failures",)} for e in extra],
            scope=cfg.get("scope", ""),
        ),
        assumptions=cfg.get("assumptions", []) + ["A-solver: Z3 as driven by Verus; rustc front end of Verus' toolchain"],
        wall_s=round(wall, 2),
        violations=len(new_fail),
    )
    evdir = os.environ.get("VERIF_EVIDENCE_DIR", os.path.join(VERIF, "evidence"))  # scratch dir for self-tests
    os.makedirs(evdir, exist_ok=True)
    json.dump(ev, open(os.path.join(evdir, prop + ".json"), "w"), indent=1)

    for o in known_hit:
        print("KNOWN-FINDING: property=%s %s (%s)" % (prop, known_ids[o["id"]].get("what", o["id"]), o["id"]))
    if undecided:
        for u in undecided:
            log("UNDECIDED:", u)
    rc = 0
    if new_fail:
        for o in new_fail:
            w = o.get("witness") or witness_search(prop, o, tier)
            fn = write_replay(prop, o, w)
            log("failed obligation:", o["id"], "--", o["message"], "at", o["where"])
            print("VIOLATION property=%s replay=%s%s" % (prop, fn, "" if w else " no-failing-input-found"))
        rc = 1
    elif undecided:
        rc = 2
    log("%s: %d obligations, %d discharged, %d failed (%d known), %d undecided, %.1fs" %
        (prop, verified + errors, verified, len(failures), len(known_hit), len(undecided), wall))
    return rc
