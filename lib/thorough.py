"""thorough tier extras (DESIGN §3.4): Kani leaf harnesses on the compiled code, witness search with the
larger bounds on the real crates, and the self-test (seeded mutants that the check is known to detect
must still be detected)."""
import glob
import json
import os
import re
import subprocess
import tempfile
import time

import runner


def run_kani():
    d = os.path.join(runner.VERIF, "kani_leaf")
    lock = os.path.join(runner.REPO, "Cargo.lock")
    if not os.path.exists(lock):
        lock = "/repo/Cargo.lock"
    subprocess.run(["cp", lock, os.path.join(d, "Cargo.lock")])
    env = dict(os.environ, CARGO_NET_OFFLINE="true", CARGO_TARGET_DIR=os.path.join(runner.TOOLS, "kani-target"))
    t0 = time.time()
    try:
        p = subprocess.run(["cargo", "kani"], cwd=d, env=env, capture_output=True, text=True, timeout=1800)
    except subprocess.TimeoutExpired:
        return dict(kani=True, undecided=["kani: timeout"], verified=0, errors=0)
    out = p.stdout + p.stderr
    m = re.search(r"Complete - (\d+) successfully verified harnesses, (\d+) failures, (\d+) total", out)
    res = dict(kani=True, cmd="cargo kani (kani_leaf, CBMC, loop-free full-domain harnesses)", wall_s=round(time.time() - t0, 1), failures=[], undecided=[])
    if not m:
        res["undecided"].append("kani produced no summary: " + out[-300:])
        res["verified"] = 0
        res["errors"] = 0
        return res
    ok, bad, total = int(m.group(1)), int(m.group(2)), int(m.group(3))
    res["verified"] = ok
    res["errors"] = bad
    res["harnesses"] = re.findall(r"Checking harness (\S+?)\.\.\.", out)
    if bad:
        for h in re.findall(r"Checking harness (\S+?)\.\.\.(?:(?!Checking harness).)*?VERIFICATION:- FAILED", out, re.S):
            res["failures"].append(dict(id="kani." + h, function=h, message="Kani harness failed (CBMC counterexample)", where="kani_leaf/src/lib.rs",
                                        slice="kani_leaf", rendered=out[-3000:], tagged=True, slice_line=None, text=""))
    return res


def run_search(family):
    tool = runner.build_replay_tool()
    if not tool:
        return dict(search=family, undecided=["replay tool did not build"], verified=0, errors=0)
    outp = os.path.join(runner.BUILD, "thorough_witness_%s.json" % family)
    if os.path.exists(outp):
        os.remove(outp)
    t0 = time.time()
    try:
        p = subprocess.run([tool, "search", family, "--tier", "thorough"], capture_output=True, text=True, timeout=3000,
                           env=dict(os.environ, REPLAY_OUT=outp))
    except subprocess.TimeoutExpired:
        return dict(search=family, undecided=[], note="witness search timed out (not deciding)", verified=0, errors=0)
    res = dict(search=family, wall_s=round(time.time() - t0, 1), verified=0, errors=0, failures=[], undecided=[],
               note="enumerative search on the real crates against the executable transcription of the spec; never the deciding step")
    if p.returncode == 1 and os.path.exists(outp):
        w = json.load(open(outp))
        res["failures"].append(dict(id="search.%s.%s" % (family, re.sub(r"\W+", "_", w["disagreement"].get("what", "disagreement"))[:60]),
                                    function=w["op"].get("kind"), message="real code disagrees with the reference on a concrete input: " + w["disagreement"].get("what", ""),
                                    where="tools/replay", slice="replay:" + family, rendered=json.dumps(w["disagreement"])[:2000], tagged=True,
                                    slice_line=None, text="", witness=w))
        res["errors"] = 1
    return res


def run_selftest(prop):
    """every stored seeded mutant of this property that is recorded as detected must still be detected"""
    out = dict(selftest=True, verified=0, errors=0, failures=[], undecided=[], mutants=[])
    metas = []
    for meta_path in sorted(glob.glob(os.path.join(runner.VERIF, "seeded", "*", "meta.json"))):
        meta = json.load(open(meta_path))
        # the self-test runs the QUICK tier on the mutant: skip mutants that only the thorough tier of this property
        # catches (their slice is not in the quick slice list; recorded as `thorough_only` in the meta file)
        if prop in meta.get("detected_by", []) and prop not in meta.get("thorough_only", []):
            metas.append(meta_path)
    # at most VERIF_SELFTEST_MAX mutants per run (default 6): the property's own first, then evenly over the rest
    cap = int(os.environ.get("VERIF_SELFTEST_MAX", "6") or 6)
    own = [m for m in metas if os.path.basename(os.path.dirname(m)).startswith(prop + "-")]
    rest = [m for m in metas if m not in own]
    chosen = own[:cap]
    if len(chosen) < cap and rest:
        step = max(1, len(rest) // (cap - len(chosen)))
        chosen += rest[::step][:cap - len(chosen)]
    out["mutants_available"] = len(metas)
    for meta_path in chosen:
        meta = json.load(open(meta_path))
        d = os.path.dirname(meta_path)
        wt = "/var/tmp/verif_selftest_wt_%d" % os.getpid()
        scratch = tempfile.mkdtemp(prefix="verif_selftest_", dir="/var/tmp")
        try:
            head = subprocess.run(["git", "-C", "/repo", "rev-parse", "HEAD"], capture_output=True, text=True).stdout.strip()
            subprocess.run(["git", "-C", "/repo", "worktree", "add", "-q", "--detach", wt, head], check=True)
            a = subprocess.run(["git", "-C", wt, "apply", os.path.join(d, "patch.diff")], capture_output=True, text=True)
            if a.returncode != 0:
                out["mutants"].append(dict(id=os.path.basename(d), result="patch no longer applies"))
                continue
            env = dict(os.environ, VERIF_REPO=wt, VERIF_BUILD=os.path.join(scratch, "build"), VERIF_EVIDENCE_DIR=os.path.join(scratch, "ev"),
                       VERIF_REPLAY_DIR=os.path.join(scratch, "rp"), VERIF_TIER="quick")
            r = subprocess.run([os.path.join(runner.VERIF, "check"), prop, "--tier", "quick"], capture_output=True, text=True, env=env)
            detected = r.returncode == 1
            out["mutants"].append(dict(id=os.path.basename(d), result="detected" if detected else "NOT detected (rc=%d)" % r.returncode))
            if not detected:
                out["undecided"].append("self-test: seeded mutant %s is no longer detected by check %s" % (os.path.basename(d), prop))
        finally:
            subprocess.run(["git", "-C", "/repo", "worktree", "remove", "--force", wt], capture_output=True)
            subprocess.run(["rm", "-rf", scratch, wt])
    return out


def run(prop, cfg, results):
    extra = []
    if cfg.get("kani"):
        extra.append(run_kani())
    if cfg.get("witness_family") and not os.environ.get("VERIF_REPO"):
        extra.append(run_search(cfg["witness_family"]))
    if not os.environ.get("VERIF_REPO"):
        extra.append(run_selftest(prop))
    return extra
