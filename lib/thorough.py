"""thorough tier extras (Kani leaf harnesses, self-test mutants); filled in by later waves"""


def run(prop, cfg, results):
    return []
