"""Per-property configuration: which slices decide it, what is assumed (DESIGN §5)."""

A_COMMON = [
    "A-vstd: vstd's specifications of Vec, Option, Result, std HashMap (with obeys_key_model assumed for the derived Hash of the index types), Arc",
    "A-derive: derived PartialEq/Eq/PartialOrd/Ord are structural / lexicographic in declaration order",
    "Network::wf: instance validity as documented (references resolve, activity durations positive, dead-head matrix total on the stations, times are proper points with seconds < 86400, magnitudes < 2^48 s / 2^40 m so that u64 arithmetic cannot overflow)",
]

A_ITER = [
    "A-iter (frame): the listing `sched_vehicles` (what Schedule::vehicles_iter_all yields, in order) depends only on the network's vehicle types and on vehicle_ids_grouped_and_sorted (axiom_sched_vehicles_frame in env/depot_ops_shim.vs, read off the body of vehicles_iter_all / vehicles_iter)",
    "A-iter: SeqIter shim (env/seqiter.vs): map, sum, any, all, position, tuple_windows, take, skip, copied, collect, for-loops carry the assumed semantics of std::iter / itertools; R5 routes `.iter()` chains to it",
    "A-fmt (R9): format!(LIT, ..) with literal text returns a non-empty String; Display impls have no precondition",
    "A-len: a well-formed tour has at most 2^17+2 nodes (pairwise distinct nodes, Idx = u16) — stated precondition of the operations, argued not machine-checked",
]

PROPS = {
    "C17": dict(
        kani=True,
        slices=["time", "network", "net_enum", "network_new"],
        witness_family="net",
        level_text="Verus proves, for all networks satisfying Network::wf and all node pairs, that the real Network::can_reach / minimal_duration_between_nodes equal the timing rule written from the property statement; of the JSON loader the per-segment computations of create_service_trips are proved (R8 fragments): arrival = departure + route-segment duration, distance, seated passengers and formation limit are the route segment's / departure segment's own values, and the node is built from exactly these values in the right fields; a maintenance slot's node carries the slot's own id, location, times and track count; a given depot gets its own total capacity and exactly its listed per-type capacities; the zero-passengers rule counts zero as one for every segment (R8 statement fragment); the look-ups by id and the loops of the loader are pinned by skeleton hashes, not proved",
        level_note="trusted: vstd specs, key-model axioms for derived Hash, structural derived Eq/Ord; instance validity (Network::wf) is a precondition",
        scope="can_reach / minimal_duration_between_nodes equal the documented timing rule for all networks and node pairs; successors/predecessors: the scanned key range contains every reachable node and the filter keeps exactly the reachable ones (ties included); Network::new / create_network / create_depots (R8 fragments): the overflow depot has no per-type limit and capacity >= every demand the flow stage can raise, default depots get capacity = number of service trips for every type; create_service_trips (R8 fragments): per-segment node data",
        assumptions=A_COMMON + [
            "JSON loading (model/src/json_serialisation/mod.rs): serde, string look-ups, create_locations / create_vehicle_types / create_config / create_maintenance_slots and the loops of create_service_trips / create_depots are not under contract (skeleton hashes pin the plumbing around the lifted fragments)",
            "A-lib: BTreeMap::range(b) yields exactly the entries whose key lies in b (derived lexicographic tuple order); filter_map(f) keeps exactly the Some images; the plumbing around the lifted fragments is pinned by a skeleton hash",
            "A-index: Network::new (not under contract) keys the per-type sorted maps by (start_time(n), n) resp. (end_time(n), n) for exactly the type's nodes",
        ],
    ),
}


PROPS["C12"] = dict(
    slices=["tour_pos", "tour_mod", "path", "tour_ctor"],
    witness_family="tour",
    level_text="Verus proves, for all well-formed tours over all valid networks, all connected paths and all segments, that the real code satisfies the reference semantics written from the property statement: the position logic (binary searches, latest_not_reaching_node, latest_not_reached_by_node, get_insert_positions) yields the longest prefix / longest suffix; insert_path returns prefix + whole path + suffix and reports exactly the dropped block (None iff it holds no activity); remove returns the tour without exactly the segment's nodes and is refused exactly when a depot would be stranded or the gap is unconnectable; check_if_sequence_is_removable, conflict and sub_path (always succeeds for an existing segment) likewise",
    level_note="trusted: vstd specs, key-model axioms, structural derived Eq/Ord, to_vec, the SeqIter shim incl. splice (R5b) and Vec::extend; Tour::position_of is a stub (A-stub); Tour::wf / Network::wf / path connectedness are preconditions",
    scope="solution/src/tour.rs position logic + Tour::insert_path / remove / sub_path / conflict",
    assumptions=A_COMMON + [
        "A-stub/A-lib: Tour::position_of is a stub in the tour slices; slice tour_ctor proves that its contract follows from the std semantics of slice::binary_search_by (A-lib) applied to the verified comparator (R8 fragment, Node::cmp_start_time) on a tour that is strictly sorted by that key (proved), plus A-index (the node stored under key i has index i)",
    ] + A_ITER,
)


PROPS["C01"] = dict(
    slices=["network", "net_enum", "tour_pos", "tour_mod", "path", "tour_ctor", "sched_guard", "json_writer", "spawn_vehicle", "add_path", "override_reassign", "fit_reassign", "dummy_ops"],
    witness_family="tour",
    level_text="Verus proves on the real code: can_reach equals the documented timing rule; Tour::new_allow_invalid returns Ok exactly for node sequences that start at a start depot, end at an end depot, have only activities in between, at least one of them, and are pairwise connectable; replace_start_depot, replace_end_depot, remove and insert_path (given a connected path, which Path::new is proved to establish) preserve that invariant (Tour::wf); successors/predecessors enumerate exactly the connectable nodes. The schedule-level type guard check_receiver_type_compatibility returns true only if every moved node is compatible with the receiver's vehicle type. the JSON writer (vehicle_to_json) emits exactly the nodes of the tour it is given, in order, with the nodes' own data. spawn_vehicle_for_path refuses a path with a node that is not compatible with the vehicle type and gives the new vehicle exactly the given nodes (plus depots at the ends). add_path_to_vehicle_tour refuses a path with an incompatible node and keeps a compatible tour compatible; override_reassign refuses an incompatible segment",
    level_note="trusted: vstd, key-model axioms, derived Eq/Ord, the SeqIter shim, to_vec/Option::or/Result::unwrap_or specs, A-fmt; stub: Tour::position_of; A-path (paths handed to insert_path are connected) and A-type (compatible_with_vehicle_type guards in schedule/modifications.rs) are caller-side assumptions; A-text / A-serde for the writer",
    scope="tour-level feasibility invariant under the constructor and all four modifiers of solution/src/tour",
    assumptions=A_COMMON + A_ITER + [
        "A-path: every path handed to Tour::insert_path of a real vehicle is connected (holds for Path::new and paths cut from real tours; dummy-tour paths rely on the triangle inequality, D9)",
        "A-type: of the compatible_with_vehicle_type guards at schedule level, check_receiver_type_compatibility, the guards of spawn_vehicle_for_path, add_path_to_vehicle_tour and override_reassign are proved; fit_reassign and spawn_vehicle_to_replace_dummy_tour are all proved",
        "A-text / A-serde: text rendering of values and serde_json::to_value are opaque (see C03)",
    ],
)
PROPS["C10"] = dict(
    slices=["network", "tour_pos", "tour_mod", "path", "transition", "sched_guard", "admission", "train_formation_update", "update_tours", "remove_segment", "spawn_vehicle", "add_path", "override_reassign", "fit_reassign", "sched_ctor", "dummy_ops"],
    witness_family="tour",
    level_text="clause 1 (every vehicle tour is a chronological path of connectable nodes from a start depot to an end depot with activities in between): same obligations as C01 on the Tour constructor and modifiers; cycle-membership clause: update_transitions_and_violation_fast keeps every type's rotation cycles well formed w.r.t. the new tours with exactly the new real vehicles of the type as members (under the stated caller-side precondition: no vehicle listed twice); formation, track and depot limits: the admission checks vehicle_replacement_in_train_formation and can_depot_spawn_vehicle_custom_usage are exact and update_train_formation applies them to exactly the moved nodes (same obligations as C02); sorted listings: update_tours keeps the vehicle and dummy listings sorted, duplicate-free and matching the maps; formation/tour agreement: the whole modifications under contract (remove_segment, spawn_vehicle_for_path, add_path_to_vehicle_tour, override_reassign) add / remove the vehicle in the formations of exactly the nodes its tour gains / loses; the base case: Schedule::empty satisfies the schedule invariants the modification slices take as precondition (ids, listings, usage table, formations, transitions) and from_tours re-establishes them after every spawn; that this holds for every reachable schedule (the dummy operations, and the re-establishment of every invariant by every modification) is NOT decided",
    level_note="same trusted base and caller-side assumptions as C01",
    scope="Tour::wf established by new_allow_invalid and preserved by replace_start_depot / replace_end_depot / remove / insert_path",
    assumptions=A_COMMON + A_ITER + ["A-path, A-type as for C01", "schedule-level invariants (formations, listings, depot usage, cycles) not under contract"],
)
PROPS["C02"] = dict(
    slices=["limits", "admission", "mcf_bounds", "train_formation_update", "add_path", "depot_choice"],
    witness_family="net",
    level_text="Verus proves the per-call contracts: maximal_formation_count_for returns the smaller of the limits that are present (None iff neither), Depot::capacity_for is bounded by total and per-type capacity and is 0 for unlisted types, number_of_vehicles_required_to_serve is the exact ceiling; the schedule-level admission checks are exact: vehicle_replacement_in_train_formation lets a formation grow only while it is strictly below the track count (maintenance) resp. the combined formation limit (service) and otherwise performs exactly replace / remove / add_at_tail / no-op, can_depot_spawn_vehicle_custom_usage is true iff the type is listed with room left for the type and in total; find_best_start_depot_for_spawning returns the nearest start depot that has room for the type (per type and in total, w.r.t. the usage table it is given) and adding the vehicle there keeps both limits (lemma over the contracts); find_best_end_depot_for_despawning returns the nearest end depot and ignores capacities, as documented; the composition over schedule histories (train_formations single writer, spawn paths) is a structural argument, not machine-checked",
    level_note="trusted: vstd, key-model axioms, u32::div_ceil and Option::or specs; stubs: VehicleTypes::get, VehicleTypes::iter; A-im (im::HashMap / HashSet shims), std HashMap Index spec; update_train_formation (the single writer of the formation table) is under contract in slice train_formation_update: moved nodes get exactly the admitted replacement, a grown formation stays within the node's limit; of the min-cost-flow stage only the bound expressions on trip and depot edges are under contract (R8 fragments: upper bound = combined limit resp. capacity_for, lower bound = min(required, limit)); that the circulation returned by rs_graph's network_simplex respects them is A-lib",
    scope="limit combination, depot capacity, vehicles required, formation/track admission, depot spawn admission, unserved passengers per node",
    assumptions=A_COMMON + ["A-stub: VehicleTypes::get returns the stored type", "A-lib: rs_graph::mcf::network_simplex returns a circulation within the edge bounds; the graph plumbing of solve_for_vehicle_type is pinned by a skeleton hash, not verified", "the stand-in 100 for 'no formation limit' in the flow network is documented behaviour (trips needing more than 100 unlimited vehicles are not fully served by the start solution)"],
)
PROPS["C03"] = dict(
    slices=["json_out", "json_writer", "train_formation_update", "remove_segment", "spawn_vehicle", "add_path", "override_reassign", "fit_reassign"],
    witness_family=None,
    level_text="Verus proves on the verbatim writer functions of solution/src/json_serialisation.rs (schedule_dead_head_trip, vehicle_to_json, fleet_to_json, departure_segments_to_json, maintenance_slots_to_json, depot_usage_to_json, depots_usage_to_json, schedule_to_json): every dead-head trip lies inside the gap between the two activities it connects; a vehicle's itinerary lists exactly the service nodes and maintenance nodes of its tour, in tour order, each with the node's own id, origin, destination and times, and its dead-head trips are exactly the legs whose locations differ; the trip perspective lists every service node / maintenance slot of the network's index lists once, with the node's own data and the schedule's train formation of that node; depot loads are one entry per depot of the depot table and spawning type with the number of vehicles spawned there; the document is assembled from exactly these parts. That the stored train formation of a node equals the set of vehicles whose tour contains it (the two views agree) is an invariant of Schedule: the whole modifications under contract (remove_segment, spawn_vehicle_for_path, add_path_to_vehicle_tour, override_reassign, via update_train_formation) add / remove a vehicle in the formations of exactly the nodes its tour gains / loses; fit_reassign likewise; the dummy operations are not yet under contract and the re-establishment of all invariants is proved only in part, so the agreement is NOT decided for every reachable schedule; arrival = departure + duration is a property of the input loader (Network::new copies the times) and not decided",
    level_note="trusted: vstd, rapid_time operator contracts (verified in slice time), Network accessors (verified in slice network), A-text (to_string / String + &str / as_iso render the named value), A-serde (serde_json::to_value keeps the struct), SeqIter stubs for the repository's iterators, A-index (Network's per-type lists enumerate the service / maintenance nodes exactly once)",
    scope="solution/src/json_serialisation.rs: all writer functions",
    assumptions=A_COMMON + A_ITER + [
        "precondition: consecutive tour nodes are connectable (C01) and the instance does not start within one dead-head duration of year 0",
        "A-text: the text of a value (iso time, vehicle id, integer) is an opaque function of the value; contracts say which value is rendered where",
        "A-serde: serde_json::to_value(ScheduleJson) never fails and encodes the struct it is given",
        "A-index: Network::service_nodes(vt) / maintenance_nodes list every such node exactly once (built by Network::new; not under contract)",
        "vehicle_ok / type_ok / segments_pre / slots_pre / usage_pre: parts of schedule validity (C10) needed for panic freedom are preconditions",
    ],
)
PROPS["C09"] = dict(
    kani=True,
    slices=["tour_mod", "formation", "transition", "depot_usage", "sched_guard", "train_formation_update", "update_tours", "remove_segment", "spawn_vehicle", "add_path", "override_reassign", "fit_reassign", "sched_ctor", "depot_ops", "dummy_ops"],
    witness_family="tour",
    level_text="tour level: Verus proves that compute_*_of_nodes (and hence new_computing / every freshly built tour) equal the from-scratch meaning of the five cached figures written from the property text, and that replace_start_depot, replace_end_depot, remove and insert_path keep all five caches exact (delta formulas = recomputation), including tours through the infinitely distant overflow depot; schedule level: the depot-usage table stays exact for the updated vehicle and untouched for all others under update_depot_usage (from-scratch meaning: spawned/despawned sets per depot and type), depot_balance / total_depot_balance_violation are the sizes' differences resp. their absolute sum, Schedule::empty starts every aggregate at its from-scratch value (compute_unserved_passengers = the sum over all service trips) and from_tours keeps them exact, the depot-only operations (reassign_end_depots_greedily, improve_depots, recompute_transitions_for) keep costs, depot usage and the violation sum exact, update_tour_and_costs applies exactly the cost delta, update_tours (the common bookkeeping of fit/override_reassign) applies exactly the cost delta of the replaced / removed real tours and keeps the depot-usage table exact for provider and receiver and untouched for everyone else, update_train_formation changes the unserved-passengers pair by exactly - Σ unserved(old formation) + Σ unserved(new formation) over the moved service trips, update_transitions_and_violation_fast and set_next_day_transitions keep the schedule's maintenance violation equal to the sum of the per-type totals; the other schedule aggregates (costs across whole modifications, unserved passengers) are NOT decided",
    level_note="trusted: as C01 plus A-iter sums (Sum for Distance/Duration folds with +; integer sums do not wrap); Network::bounded magnitudes are a stated precondition",
    scope="the five per-tour caches under the constructor and all four modifiers; depot-usage bookkeeping of one vehicle update",
    assumptions=A_COMMON + A_ITER + ["Schedule.{costs, unserved_passengers, maintenance_violation, depot_usage} delta updates are not under contract"],
)
PROPS["C13"] = dict(
    slices=["formation", "train_formation_update", "update_tours", "remove_segment", "spawn_vehicle", "add_path", "override_reassign", "fit_reassign", "depot_ops", "dummy_ops"],
    witness_family=None,
    level_text="last sentence and the formation frame: Verus proves that TrainFormation::replace puts the new vehicle at the replaced one's position, add_at_tail appends, remove keeps the order, and replace/remove return Err iff the vehicle is absent; Schedule::update_train_formation (the formation bookkeeping of every modification) gives every moved non-depot node exactly the replacement that vehicle_replacement_in_train_formation specifies for its old formation, leaves the formations of all other nodes untouched, and refuses iff one replacement is refused; Schedule::update_tours replaces exactly the provider's and the receiver's tour (a provider without new tour disappears from tours / vehicles / its sorted listing, a dummy provider from the dummy tours and listing), leaves every other vehicle, tour, dummy tour and listing untouched and passes the formation update through; Schedule::remove_segment as a whole modification: the provider loses exactly the segment (or the whole-tour case delegates to replace_vehicle_by_dummy), the removed service trips are handed back in exactly one new dummy tour with a fresh id (none if there is no service trip), every other tour, the vehicle set, the formations of all other nodes stay untouched, the aggregates follow (costs, unserved passengers, depot usage, transitions); Tour::new_dummy keeps exactly the service trips in order; Schedule::spawn_vehicle_for_path adds exactly one vehicle with a fresh id whose tour is the given path in order with depots at the ends (defect D12), inserts the id at its sorted position, changes no other tour, vehicle, dummy or listing, and the aggregates follow; Schedule::override_reassign: the provider loses exactly the segment (or disappears), the receiver's tour is the insertion of the removed path, the displaced service trips go to exactly one new dummy tour with a fresh id, a real receiver leaves the formations of every displaced node whether or not a dummy tour is created, formations elsewhere and all other tours untouched; Schedule::add_path_to_vehicle_tour: the vehicle's tour is prefix + whole path + suffix, the returned conflict path is exactly the dropped block, the vehicle joins the formations of the path and leaves those of the dropped block, it is refused exactly for an incompatible node, a full start depot or a full formation; depot-only operations (reassign_end_depots_greedily, improve_depots, improve_depots_of_tour, recompute_transitions_for) change no activity: every tour keeps its inner nodes in order, only the first / last node may be replaced by a depot node, everything else is untouched; Schedule::fit_reassign with its greedy helper fit_path_into_tour (full verbatim body, `while let` with `continue`): the moved nodes are a duplicate-free sub-sequence of the segment, the provider keeps exactly its other nodes (or disappears when only depots are left), the receiver keeps all its activities and gains exactly the moved ones, no new dummy, formations of the moved nodes get provider replaced by receiver; WHICH conflict-free nodes the greedy search moves is not specified; replace_vehicle_by_dummy (the vehicle disappears from vehicles / tours / its listing, its service trips go to one new dummy tour with a fresh id, it leaves the formations of exactly its activities), delete_dummy (exactly the dummy tour and its id disappear) and spawn_vehicle_to_replace_dummy_tour (= delete_dummy then spawn_vehicle_for_path, type guard first) complete the list: every public modification of solution/src/schedule/modifications.rs is under contract",
    level_note="trusted: vstd Vec specs (push, swap_remove, remove, clone), SeqIter::position, A-clone (derived Clone of Vehicle returns an equal value)",
    scope="solution/src/train_formation.rs",
    assumptions=["A-iter: SeqIter::position = first index satisfying the predicate", "A-clone: derived Clone returns an equal value"],
)

PROPS["C15"] = dict(
    slices=["transition", "tsp_ranges", "transition_objective", "new_fast"],
    witness_family="trans",
    level_text="bookkeeping half: Verus proves that every rotation-cycle operation of solution/src/transition (update_vehicle, add_vehicle_to_own_cycle, remove_vehicle, add_vehicle_at_the_end, move_vehicle, replace_cycle, three_opt) preserves the representation invariant written from the property (cycles duplicate-free and pairwise disjoint, lookup and empty-cycle list match the cycles, every cycle counter and both totals equal their recomputed values); 'optimisation never worsens': the two searches are built with the objectives (maintenance violation, then total maintenance counter) for the cycles of a type and (cycle counter) for the 3-opt inside one cycle, each level 1 * the transition's / cycle's own cached total (slice transition_objective; the lexicographic comparison is verified in slice objective_eval, run under C08); that rapid_solve's search never returns something worse in that order is assumed; the 3-opt index ranges of TransitionCycleNeighborhood::neighbors_of (R8 fragments) are total for every cycle length and only generate triples satisfying three_opt's precondition; Transition::new_fast / one_cluster_per_maintenance (the initial clustering): push_vehicle_to_end_of_cluster verbatim and seven verbatim-lifted pieces (R8: the splitting loop, the sort keys, the cluster search, the join step, the closing step with the totals, the lookup construction) are proved, the remaining plumbing (two sorts, the loop heads, the FnMut map) is pinned by a skeleton hash, and a proved lemma composes the fragment contracts into: the result is well formed, every given vehicle is in exactly one cycle, no other vehicle is, counters and totals exact, no empty cycle",
    level_note="trusted: vstd, A-im (im::HashMap shim with Map view), SeqIter shim incl. filter, Option::copied / Vec::extend / Vec::retain specs, stubs Tour::{maintenance_counter,start_depot,end_depot}, TransitionCycle::iter; caller-side: the vehicle passed to update_vehicle/remove_vehicle is not a key of updated_tours",
    scope="solution/src/transition.rs (get_successor_of), transition/transition_cycle.rs, transition/modifications.rs",
    assumptions=A_COMMON + [
        "A-im: im::HashMap behaves as a finite map (new/get/insert/remove/clone/contains_key)",
        "A-iter incl. filter (mask form), chain, once, position, collect",
        "caller-side: update_transitions_and_violation_fast never passes the same vehicle twice (vehicle not in updated_tours)",
        "magnitudes: |tour counter| <= 2^40, at most 2^17 vehicles per type",
        "the acceptance rule of rapid_solve::LocalSearchSolver (never worsens) is assumed, not proved",
    ],
)
PROPS["C05"] = dict(
    slices=["transition", "tour_mod", "reassign", "json_writer"],
    witness_family="trans",
    level_text="Verus proves on the real code: the rotation cycles partition the vehicles they were given under every cycle operation (Transition::wf); get_successor_of returns the cyclic successor cycle[(pos+1) % len]; Tour::replace_end_depot changes exactly the end depot; and reassign_end_depots_consistent_with_transitions gives every vehicle's tour the end node of the depot where its cyclic successor starts (a one-vehicle cycle ends where it starts), leaving every start depot, every activity, all other tours, formations and listings unchanged; fleet_to_json emits the cycles of the type's transition verbatim (every cycle, every member, in order, including empty and one-vehicle cycles) and every vehicle's start and end depot id",
    level_note="trusted: base of C15 and C09; stubs vehicles_iter_all / tour_of / vehicle_type_of; update_depot_usage and update_transitions_and_violation_fast are uninterpreted (they cannot change `tours`); sched_ok (every listed vehicle has a well-formed real tour, a type and a transition containing it; depot table as built by Network::new) is a precondition",
    scope="Transition partition invariant, get_successor_of, Tour::replace_end_depot, Schedule::reassign_end_depots_consistent_with_transitions",
    assumptions=A_COMMON + ["sched_ok: schedule-level consistency is a precondition (not proved to be preserved by the other schedule modifications)", "A-depots: Network::new builds the depot table (end node of depot d is an EndDepot node with depot_idx d)", "A-text / A-serde for the writer (see C03)", "A-im"],
)

PROPS["C16"] = dict(
    slices=["pipeline", "depot_usage", "reassign"],
    witness_family=None,
    level_text="data-flow (wiring) proof: with every stage abstracted by an uninterpreted function of its inputs, Verus proves on the verbatim bodies of server::solve_instance and internal::run that the answer is output(evaluate(reassign(set_transitions(S, {vt -> optimise(transition_of(S, vt))})))) with S the local-search result of the depot-improved min-cost-flow solution (or that solution itself without maintenance): no stage's result is discarded or replaced by an earlier one; and Schedule::set_next_day_transitions (slice depot_usage) installs exactly the transitions it is given and changes nothing else but the maintenance violation derived from them; reassign_end_depots_consistent_with_transitions (slice reassign) aligns every end depot with the cyclic successor's start depot and changes no activity. What the other stages compute is NOT decided here",
    level_note="trusted: every callee is a stub `r == spec_stage(args)` (signatures extracted from /repo resp. the pinned rapid_solve source), three accessor-undoes-constructor assumptions (A-pipe-proj), A-im, A-iter for-loops, A-clone; println! dropped (R1)",
    scope="server/src/lib.rs::solve_instance, internal/src/lib.rs::run",
    assumptions=["A-pipe: each stage is a function of its arguments (no hidden state), stub signatures as in the real crates", "A-pipe-proj: Objective::evaluate keeps the solution, ScheduleWithInfo::new / TransitionWithInfo::new keep their payload", "A-im, A-iter, A-clone"],
)

PROPS["C04"] = dict(
    slices=["objective", "objective_eval", "depot_usage", "sched_guard", "admission", "tour_mod", "reassign", "train_formation_update", "update_tours", "remove_segment", "sched_ctor"],
    witness_family="tour",
    level_text="per-function links of the chain 'reported component = independent evaluation': Verus proves on the real code that each of the four indicators of solver/src/objective.rs reports exactly the schedule's aggregate of its name (unserved passengers: the pair added; maintenance violation; number of real vehicles; costs) and that objective::build arranges them as the four hierarchy levels in the order unserved passengers, maintenance violation, vehicle count, costs, each with coefficient one; rapid_solve's own evaluation code is verified as well (pinned crate source, Integer cases): LinearCombination::evaluate = sum of coefficient * indicator, Objective::evaluate = the vector of the level values with the solution kept, so the reported vector is exactly [unserved, violation, vehicle count, costs] of the evaluated schedule (lemma_reported_vector); that the aggregates equal their recomputation is proved where C09 proves it: the five per-tour caches incl. costs under every tour operation, compute_unserved_passengers_at_node (per-segment shortfall), the schedule's maintenance violation = sum over the installed transitions under update_transitions_and_violation_fast and set_next_day_transitions (defect D10 was exactly a C04 violation), the schedule's costs follow the tours' costs under reassign_end_depots_consistent_with_transitions, transition totals = sum of positive parts of the cycle counters (C15). The composition over a whole history of schedule modifications (Schedule.costs and unserved_passengers across fit/override_reassign, spawn, delete) is NOT decided",
    level_note="trusted: A-dyn (hand-declared trait Indicator with evaluate only; a boxed indicator evaluates like its impl), A-im, `as i64` casts stated as cast values plus exactness when the number fits; A-lib: rapid_solve's Objective::evaluate (sum per level, lexicographic comparison) and ObjectiveValue printing are not under contract; base of C09/C15",
    scope="solver/src/objective.rs (all of it except Indicator::name); the aggregate-maintaining functions listed under C09",
    assumptions=A_COMMON + A_ITER + [
        "A-dyn: dynamic dispatch on Box<dyn Indicator> runs the impl's evaluate; Indicator::name (JSON keys of the objective value) not under contract",
        "A-lib (remaining): only the Integer variants of rapid_solve's BaseValue / Coefficient arithmetic are under contract (the objective built here uses no others); Objective::objective_value_to_json (the JSON keys and numbers of objectiveValue) is not under contract",
        "whole-history composition of the schedule aggregates (costs, unserved passengers) across all schedule modifications is not machine-checked",
    ],
)

PROPS["C07"] = dict(
    slices=["limits", "mcf_bounds", "admission", "objective", "objective_eval", "train_formation_update", "remove_segment"],
    witness_family="net",
    level_text="the per-function links: Verus proves on the real code that number_of_vehicles_required_to_serve is the exact ceiling (enough vehicles for passengers and seated passengers, and not one more), that the flow stage puts the lower bound min(required, combined formation limit) and the upper bound = combined limit on every trip edge (R8 fragments of solve_for_vehicle_type), that compute_unserved_passengers_at_node is max(0, demand - capacity of the formation) per component, and -- as a lemma over these contracts -- that a formation of at least `required` vehicles of the segment's type leaves nobody behind while a formation capped at k vehicles leaves exactly demand - k * capacity; unserved passengers is the first objective level (C04.build); the schedule's unserved-passengers pair follows the formations exactly under update_train_formation and remove_segment (the bookkeeping later stages rely on). That the circulation returned by the network simplex respects the bounds, that flow units are decoded into formations of that size, and that the local search never accepts a worse first level are assumptions (A-lib), so the equality with the instance's lower bound for every returned schedule is NOT decided end to end",
    level_note="trusted: as C02; A-lib: rs_graph::mcf::network_simplex returns a feasible circulation, rapid_solve's acceptance rule is lexicographic in the level order; the decoding of the flow into tours (solve_for_vehicle_type after the solver call) is pinned by a skeleton hash, not verified",
    scope="model/src/network.rs::number_of_vehicles_required_to_serve, the trip-edge bounds of solver/src/min_cost_flow_solver.rs, solution/src/schedule.rs::compute_unserved_passengers_at_node, solver/src/objective.rs::build",
    assumptions=A_COMMON + [
        "A-lib: network_simplex returns a circulation within the edge bounds; flow decoding pinned by skeleton hash only",
        "A-lib: the local search accepts only lexicographic improvements (rapid_solve), with unserved passengers as first level (level order proved in slice objective)",
        "a segment is served by vehicles of one type only (C01 type guard) -- premise `homogeneous` of the coverage lemma",
        "the stand-in 100 for 'no formation limit' in the flow network: a trip needing more than 100 unlimited-type vehicles gets lower bound 100 (documented behaviour, not the property's bound)",
    ],
)

ALL_SLICES = ["time", "network", "net_enum", "limits", "json_out", "tour_pos", "tour_mod", "path", "tour_ctor", "formation", "transition",
              "tsp_ranges", "admission", "reassign", "pipeline", "mcf_bounds", "sched_guard", "depot_usage", "network_new", "json_writer",
              "objective", "train_formation_update", "update_tours", "remove_segment", "spawn_vehicle", "add_path", "override_reassign", "sched_ctor", "depot_ops", "fit_reassign", "dummy_ops", "objective_eval", "swaps", "swaps_sem", "transition_objective", "depot_choice", "new_fast"]
PROPS["C06"] = dict(
    slices=["time", "network_new", "tsp_ranges", "mcf_bounds", "limits", "objective", "pipeline", "json_out", "transition", "sched_ctor", "depot_choice"],
    thorough_slices=ALL_SLICES,
    witness_family=None,
    level_text="per-function totality only: for every function under contract (quick tier: the places where the unchanged code used to panic -- overflow depot capacity D5/D13, flow-network edge bounds D14, 3-opt index ranges D7 -- plus the rotation-cycle operations, time arithmetic, limits, objective and pipeline wiring; thorough tier: every slice) Verus proves that, under the function's stated preconditions (parts of instance validity and of schedule validity), no unwrap / expect / index / slice / division / explicit panic! is reachable, no integer operation overflows or underflows (so the optimised build and the build with arithmetic checks agree) and every loop terminates (decreases clauses; for-loops over finite sequences). That the preconditions hold along the whole pipeline, termination of the local search and of the external network simplex, and panic freedom of the functions not under contract are NOT decided",
    level_note="trusted: as for the owning properties of each slice; stubs can hide panics of their bodies unless another slice verifies them (R7a/R7b classification in the evidence); println!/format! paths (R1, R9) and the SeqIter / im shims are assumed total",
    scope="panic freedom, absence of overflow and termination of each function under contract, under its stated preconditions",
    assumptions=A_COMMON + A_ITER + [
        "pipeline-level composition: rayon parallel local search, rapid_solve's loop, rs_graph::mcf::network_simplex (termination and .unwrap() on its result beyond D5) are not under contract",
        "preconditions of the functions under contract (instance validity Network::wf, schedule validity sched_ok, magnitudes) are assumed at each entry, not proved to be established by the callers outside the slices",
        "functions of /repo that no slice verifies can still panic",
    ],
)

PROPS["C08"] = dict(
    slices=["objective", "objective_eval"],
    witness_family=None,
    level_text="the order only: Verus proves on the real code (solver/src/objective.rs and the pinned rapid_solve source) that the objective the local search is built with has the four levels unserved passengers, maintenance violation, vehicle count, costs in this order, each 1 * indicator of the schedule's aggregate, that Objective::evaluate yields exactly this vector and that ObjectiveValue::cmp / partial_cmp on two such vectors is the LEXICOGRAPHIC order of the four numbers (first differing level decides). That ParallelLocalSearchSolver accepts a neighbour only if it is strictly smaller in this order (std's default `<` from partial_cmp, rapid_solve's improvers under rayon), that the result is therefore never worse than the start solution, and the fixpoint claim are NOT decided",
    level_note="trusted: A-dyn (a boxed indicator evaluates like its impl), A-iter / A-std shims for zip, fold, Ordering::then_with; only the Integer variants of BaseValue are in scope; rapid_solve's local-search loop (rayon, channels) is not under contract",
    scope="solver/src/objective.rs::build; rapid_solve::objective::{ObjectiveValue::cmp / partial_cmp, BaseValue::cmp / partial_cmp / add / sum, Coefficient * BaseValue, LinearCombination::evaluate, Objective::evaluate}",
    assumptions=A_COMMON + [
        "the acceptance rule, the termination and the fixpoint property of rapid_solve's ParallelLocalSearchSolver (rayon, channels, function_between_steps) are not under contract",
        "std's default PartialOrd::lt (a < b iff partial_cmp == Some(Less)) and the derived Ord of EvaluatedSolution are assumed",
        "A-dyn, A-iter (zip / fold trace semantics), A-std (Ordering::then_with)",
    ],
)

PROPS["C11"] = dict(
    slices=["swaps", "swaps_sem", "sched_guard"],
    thorough_slices=["swaps", "swaps_sem", "sched_guard", "remove_segment", "override_reassign", "fit_reassign", "add_path", "spawn_vehicle", "dummy_ops", "depot_ops", "update_tours", "train_formation_update"],
    witness_family=None,
    level_text="per-function links: Verus proves on the verbatim bodies of the four neighbourhood moves (RemoveSingleNode, AddTripForHitchHiking, SpawnVehicleForMaintenance, PathExchange: Swap::apply) and of improve_depot_and_recompute_transitions that every candidate is exactly the documented composition of schedule modifications (with every modification an uninterpreted function of its arguments: wiring), that no unwrap / index of these bodies can panic under stated preconditions on the move's parameters, and -- for RemoveSingleNode with the real contract of remove_segment -- that the candidate is a schedule with valid ids, exact depot usage, the removed trip handed back in a fresh dummy tour and exact aggregates; the transition bookkeeping every move ends with (update_transitions_and_violation_fast: slice sched_guard) keeps the violation sum and the cycles consistent with the new tours; the modifications themselves are under contract one by one (thorough tier: their slices), each taking the schedule invariants as precondition. That every modification re-establishes ALL invariants the next one needs (the induction over compositions), the rayon generator and that the base schedule is only read (a `&Schedule` parameter: Rust's type system, not a proof obligation) are NOT decided",
    level_note="trusted: A-wire (modification stubs `r == sw::f(args)`), A-dyn (hand-declared trait Swap with a precondition hook), A-std (sort, dedup, filter_map), A-derive (Ord of VehicleTypeIdx), A-clone (Schedule::clone)",
    scope="solver/src/local_search/neighborhood/swaps.rs and swaps/*.rs (Swap::apply of the four moves, improve_depot_and_recompute_transitions)",
    assumptions=A_COMMON + A_ITER + [
        "A-wire: at the composition level each schedule modification is an uninterpreted function of its arguments; its real contract is proved in its own slice (thorough tier) under the schedule invariants as precondition",
        "the induction 'every modification re-establishes every invariant' is proved only in part (the clauses each modification slice lists); candidates of the three composite moves are therefore not proved structurally valid end to end",
        "the parallel neighbourhood generator (rayon, iterators over vehicles / segments) is not under contract; preconditions on the moves' parameters (real vehicles, existing formations) are what the iterators are documented to pass",
    ],
)

NOT_APPLICABLE = {
    "C14": "optimality of the circulation returned by rs_graph::mcf::network_simplex; the network construction is a 230-line loop over HashMaps with I/O. Per-function parts that are proved elsewhere: the edge bounds of the flow network (C02 / C07 / C06, slice mcf_bounds), the predecessor enumeration (C17) and, for the last sentence, Schedule::from_tours turns every given tour into the tour of exactly one vehicle (obligation C14.from_tours.one_vehicle_per_given_tour in slice sched_ctor, run under C09 / C10); the decomposition of the circulation into tours (solve_for_vehicle_type after the solver call) is not under contract",
    "C18": "HTTP concurrency and fault isolation across tokio tasks: no thread support in Verus (without rewriting to its permission types) or Kani",
}
