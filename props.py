"""Per-property configuration: which slices decide it, what is assumed (DESIGN §5)."""

A_COMMON = [
    "A-vstd: vstd's specifications of Vec, Option, Result, std HashMap (with obeys_key_model assumed for the derived Hash of the index types), Arc",
    "A-derive: derived PartialEq/Eq/PartialOrd/Ord are structural / lexicographic in declaration order",
    "Network::wf: instance validity as documented (references resolve, activity durations positive, dead-head matrix total on the stations, times are proper points with seconds < 86400, magnitudes < 2^48 s / 2^40 m so that u64 arithmetic cannot overflow)",
]

PROPS = {
    "C17": dict(
        slices=["time", "network", "net_enum"],
        witness_family="net",
        level_text="Verus proves, for all networks satisfying Network::wf and all node pairs, that the real Network::can_reach / minimal_duration_between_nodes equal the timing rule written from the property statement; claims nothing about JSON loading",
        level_note="trusted: vstd specs, key-model axioms for derived Hash, structural derived Eq/Ord; instance validity (Network::wf) is a precondition",
        scope="can_reach / minimal_duration_between_nodes equal the documented timing rule for all networks and node pairs; successors/predecessors: the scanned key range contains every reachable node and the filter keeps exactly the reachable ones (ties included)",
        assumptions=A_COMMON + [
            "JSON loading (model/src/json_serialisation/mod.rs: serde, string look-ups) is not under contract",
            "A-lib: BTreeMap::range(b) yields exactly the entries whose key lies in b (derived lexicographic tuple order); filter_map(f) keeps exactly the Some images; the plumbing around the lifted fragments is pinned by a skeleton hash",
            "A-index: Network::new (not under contract) keys the per-type sorted maps by (start_time(n), n) resp. (end_time(n), n) for exactly the type's nodes",
        ],
    ),
}


PROPS["C12"] = dict(
    slices=["tour_pos"],
    witness_family="tour",
    level_text="Verus proves, for all well-formed tours over all valid networks and all segments/nodes, that the real position logic (binary searches, latest_not_reaching_node, latest_not_reached_by_node, get_insert_positions), check_if_sequence_is_removable, conflict and sub_path satisfy the reference semantics written from the property statement (longest prefix / longest suffix, exactly the dropped block, refusal conditions, sub_path always succeeds)",
    level_note="trusted: vstd specs, key-model axioms, structural derived Eq/Ord, to_vec; Tour::position_of and Path::new_trusted are stubs in this slice; Tour::wf and Network::wf are preconditions",
    scope="position logic, removability, conflict, sub_path of solution/src/tour.rs",
    assumptions=A_COMMON + [
        "A-stub: Tour::position_of (binary_search_by on cmp_start_time) returns the index of the node iff it is in the tour",
        "A-stub: Path::new_trusted returns None iff all nodes are depots, else a path with exactly the given nodes",
    ],
)

NOT_APPLICABLE = {
    "C01": "pending: tour slices not built yet in this revision",
    "C02": "pending: limit contracts not built yet in this revision",
    "C03": "pending: schedule_dead_head_trip contract not built yet in this revision",
    "C04": "objective truth needs a whole-history invariant over ~900 lines of persistent-map code plus rapid_solve's dyn Objective; no contract within reach of Verus/Kani carries it",
    "C05": "pending: transition slices not built yet in this revision",
    "C06": "whole-pipeline termination and panic freedom through rayon and the external network simplex: liveness over histories, no thread support in either verifier; per-function totality is reported under the owning property",
    "C07": "coverage equals an optimality statement about the external network-simplex solution and the search trajectory; its per-function lemmas are proved under C02/C17",
    "C08": "the acceptance rule and fixpoint live in rapid_solve (rayon, channels, dyn objects); trajectory property",
    "C09": "pending: tour cache slices not built yet in this revision",
    "C10": "pending: tour slices not built yet in this revision",
    "C11": "neighbourhood candidates are compositions of schedule-level modifications generated under rayon; outside per-function contracts",
    "C12": "pending: tour position slices not built yet in this revision",
    "C13": "pending: formation slice not built yet in this revision",
    "C14": "optimality of the circulation returned by rs_graph::mcf::network_simplex; the network construction is a 230-line loop over HashMaps with I/O",
    "C15": "pending: transition slices not built yet in this revision",
    "C16": "pending: wiring slice not built yet in this revision",
    "C18": "HTTP concurrency and fault isolation across tokio tasks: no thread support in Verus (without rewriting to its permission types) or Kani",
}
