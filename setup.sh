#!/bin/sh
# builds the framework's own tools offline into /verif/build (gitignored)
set -e
cd "$(dirname "$0")"
export CARGO_NET_OFFLINE=true
mkdir -p build
(cd tools/vx && CARGO_TARGET_DIR=../../build/vx-target cargo build --release --offline 2>&1 | tail -3)
if [ -d tools/replay ]; then
  (cd tools/replay && cp -f /repo/Cargo.lock Cargo.lock 2>/dev/null || true; CARGO_TARGET_DIR=../../build/replay-target cargo build --release --offline 2>&1 | tail -3) || echo "setup: replay tool did not build (witness search disabled)"
fi
echo "setup done"
