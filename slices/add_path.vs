// slice `add_path`: Schedule::add_path_to_vehicle_tour and Schedule::can_depot_spawn_vehicle (solution/src/schedule/
// modifications.rs, schedule.rs), verbatim bodies; the bookkeeping callees are stubs with the contract text of the slices
// that verify them.  Contract of add_path_to_vehicle_tour(&self, v, path) (vocabulary in env/add_path_shim.vs; t0 = the
// vehicle's old tour, p = the path's nodes, (s, e) = THE positions Tour::insert_path cuts t0 at -- ins_positions is
// functional: lemma_ins_unique --, displaced = t0[s .. e), vt = the vehicle's type):
//   C01 / C10  "a vehicle only serves service trips of the vehicle's type": Err if some node of p is not compatible with vt;
//        on Ok every node of the new tour is compatible if every node of t0 was (discharges the A-type assumption of C01
//        for this modification).
//   C02  "depot limits hold": Err if p starts with a depot node other than t0's start depot whose depot has no room for
//        one more vehicle of vt (ap_depot_has_room = the verified result of can_depot_spawn_vehicle: type listed, fewer
//        vehicles of the type / in total start there than the capacities);  "formation limits hold": Err if the formation
//        of some non-depot node of p is not strictly below its limit (ap_room); on Ok the grown formations are within
//        their limits (ap_within_limits).
//   C13  "documented effect and nothing else": on Ok((r, removed)): r.tours == self.tours + {v -> new tour}, new tour's nodes
//        == t0[0 .. s) + p + t0[e ..) (prefix + WHOLE path + suffix), a well-formed real tour of the network with exact
//        caches; `removed` is exactly the dropped block: None iff displaced holds no activity, else Some(displaced); every
//        other tour, all vehicles, dummy tours, both listings, the id counter, the network are untouched
//        (ap_tours_after, ap_rest_untouched).  These are the only refusals: type guard passes && start depot admitted &&
//        ap_room ==> Ok (refused_only_as_documented; uses C10 "the vehicle is listed in the formations of its tour").
//   C10 / C03 formations: every non-depot node of p gets the vehicle at the tail (ap_joins: update_train_formation(None,
//        Some(vehicle), p)); every non-depot node of displaced listed the vehicle and loses its first occurrence, order
//        kept (ap_leaves: update_train_formation(Some(v), None, displaced), which runs on the table the first call
//        leaves -- path and displaced block share no activity: displaced is a block of t0 and no activity of p is a node
//        of t0, precondition ap_path_fresh --); every other node keeps its formation, same key set (ap_elsewhere).
//   C09  costs == old + new tour's costs - old tour's costs; depot usage exact for v, unchanged for all others, hence exact
//        (usage_exact) for r; unserved passengers: old - Σ_p unserved(old formation) + Σ_p unserved(formation + vehicle)
//        - Σ_displaced unserved(old formation) + Σ_displaced unserved(formation - vehicle), all read off the OLD table;
//        rotation cycles / maintenance violation: the postcondition of update_transitions_and_violation_fast
//        (transitions_follow: consistent with the new tours, membership, violation sum, other types untouched).
//   C10 / C09 / C11 CLOSURE (the induction step of "after any sequence of schedule modifications" / "for every reachable
//        schedule"; tag result_satisfies_the_schedule_invariants_again; lemma_apcl_closed, env/add_path_shim.vs, derives it from
//        the effect clauses above, collected in `ap_effects`): on Ok the result r satisfies the invariant bundle of the
//        precondition AGAIN.  Schedule invariants = every conjunct of ap_ok; ap_vehicle_ok(v) is about the argument v and is
//        re-established for the same v; ap_path_ok / ap_counter_ok / ap_admission_pre are about the arguments (no target).
//          proved outright: r.network.wf(); sv_ids_ok(r); the non-magnitude clauses of sv_formations_ok(r) (every activity has a
//            formation, trips' types known, the pair covers any duplicate-free list: ap_formations_exact); ap_unserved_covers(r);
//            transitions_ok(r) INCLUDING its magnitude len_sum < 2^17 (same vehicles in the cycles of every type);
//            usage_exact(r); every clause of ap_vehicle_ok(r, v) but A-len (in particular ap_listed for the NEW tour);
//          proved under a hypothesis on the RESULT (magnitudes the operation does not preserve): the length / u32 sum clauses
//            of sv_formations_ok(r) under ap_grown_small (= these two clauses for the formations of the path's non-depot nodes,
//            the only ones that grow; untouched / shrunk formations are proved); costs <= 2^61 under r.costs <= 2^61; A-len
//            of the new tour under tour_len_ok(new tour);
//          NOT proved, because NOT INDUCTIVE as written: ap_unserved_room(r) (hypothesis of the bundle clause).  It is a
//            consequence of "pair == Σ over all service trips" + "total demand fits u32" that speaks about removing ONE vehicle
//            from the current table; a model of ap_ok that loses it is given at lemma_apcl_closed.  No defect of the code.
//        can_depot_spawn_vehicle returns a bool: there is no result schedule.
//
// ASSUMPTIONS introduced / used by this slice:
//   A-display NEW (env/add_path_shim.vs): `{}` of a Path has no precondition (the repository's impl prints the nodes and
//            unwraps the first one: a Path is never empty; no-op impl outside verus!); `{}` of VehicleTypeIdx
//            (env/spawn_vehicle_shim.vs), of VehicleIdx (env/model_spec.vs)
//   A-iter   Path::iter yields the path's nodes in order (stub returning SeqIter; text as in slices/sched_guard.vs);
//            SeqIter::any (env/seqiter.vs)
//   R7a stubs (verified elsewhere with the SAME contract text, hashes checked): Tour::insert_path (tour_mod),
//            Schedule::can_depot_spawn_vehicle_custom_usage (admission), Schedule::update_train_formation
//            (train_formation_update; R12: `moved_nodes` retyped to SeqIter<NodeIdx>), Schedule::update_depot_usage
//            (depot_usage), Schedule::update_transitions_and_violation_fast (sched_guard); env/time_ops.vs,
//            env/model_fns.vs (Network::node, Node::is_depot, …), env/dist_ops.vs included trusted (slices time / network /
//            tour_ctor).  No stub without a verified contract (A-stub) is used.
//   A-im     env/im_shim.vs (im::HashMap get / insert / clone), env/schedule_shim.vs (opaque im::HashSet + clone)
//   A-derive derived Clone of Vehicle (external_body in env/spawn_vehicle_shim.vs, used through vstd's specification of
//            Option::<&T>::cloned) and of TransitionCycle are structural; vstd: Arc::clone, Option::unwrap,
//            Result::{unwrap, expect}, vec!
//   included but NOT used by the code under contract (they come with env/spawn_vehicle_shim.vs, env/sched_guard_shim.vs,
//            env/im_shim.vs): <[T]>::binary_search, Result::unwrap_or_else, std::mem::replace, Index / IndexMut of
//            im::HashMap, Ord of VehicleIdx, Debug of Vec<NodeIdx>, im::HashMap::keys, SeqIter::{contains, filter},
//            Option::copied, Vec::{extend, retain}
//   plus env/broadcast_model.vs (key model of the index types).  env/add_path_shim.vs copies (files that cannot be
//   included next to env/spawn_vehicle_shim.vs / env/sched_guard_shim.vs, or slices): `ins_pos` + `lemma_ins_unique`
//   (env/override_reassign_shim.vs), `lemma_first_pos` (slices/admission.vs), `lemma_isum_remove` (env/depot_usage_shim.vs); the
//   depot-admission vocabulary `Depot::sp_capacity_for`, `Network::{has_depot, sp_depot, sp_depot_idx_of}`, `spawned_of_type`,
//   `spawned_counts`, `spawned_total` (text of slices/admission.vs) now comes from env/spawn_vehicle_shim.vs (last block; one
//   definition for spawn_vehicle, add_path, dummy_ops, sched_ctor).  env/remove_lemmas.vs + env/insert_lemmas.vs (the
//   vocabulary of insert_path's contract) are included in a module of their own (`cut`): in the root module the
//   unrelated lemma_remove_dhd exceeded the resource limit.
//
// PRECONDITIONS the caller must guarantee (Schedule::{ap_ok, ap_vehicle_ok, ap_path_ok, …}, env/add_path_shim.vs):
//   * derived from the code: `vehicle_idx` is a REAL vehicle.  The doc comment says "(dummy or real)", but
//     `self.vehicles.get(&vehicle_idx).cloned().unwrap()` and `tours.get(&vehicle_idx).unwrap()` panic for a dummy (and
//     for an unknown id already `tour_of(..).unwrap()` / `expect("Vehicle must be real, as it starts with a depot")` if the
//     path starts with a depot).  Both callers (swaps/spawn_vehicle_for_maintenance.rs, swaps/add_trip_for_hitch_hiking.rs)
//     take the vehicle from `schedule.vehicles_iter_all()` (real vehicles only); tests / benches pass real vehicles: the
//     function is never called with a dummy;
//   * ap_ok: instance validity (Network::wf); C10 ids (sv_ids_ok); C10 / C09 for the formation table (sv_formations_ok:
//     every activity has a formation, magnitudes, trips' types are types of the network); C09 for the unserved passengers
//     in the forms the u32 arithmetic needs: the pair covers the contribution of any list of nodes without a repeated
//     activity (ap_unserved_covers), and -- with the instance magnitude "total demand fits u32" -- taking a listed vehicle
//     out of any duplicate-free set of formations keeps it within u32 (ap_unserved_room); C15 / C10 / C09 for the rotation
//     cycles (transitions_ok); C09 usage_exact; costs <= 2^61;
//   * ap_vehicle_ok: the vehicle's type is a listed type of the network and the vehicle carries the network's record of
//     it (C10); its tour is a well-formed real tour of the network with exact caches (C01 / C10 / C09), A-len; its costs are
//     part of the schedule's costs (C09); it is listed in the formation of every activity of its tour (C10, ap_listed);
//   * ap_path_ok: path.network is the schedule's network; A-path (nodes of the network, connected, not only depots),
//     A-len; ap_path_fresh: no ACTIVITY of the path is a node of the vehicle's tour (a depot may be: schedule/tests.rs
//     add_path_to_vehicle_tour_with_same_start_depot_test) -- see "NOT covered / finding";
//   * A-counter: ap_counter_ok (the uninterpreted maintenance counter of the new tour is within +-2^40);
//   * ap_admission_pre: if the path starts with a depot node: A-depots (the node's depot is in the network's table) and
//     the u32 magnitudes of the `as VehicleCount` casts in the admission check.
//
// NOT covered:
//   * on Err nothing is claimed about the message; that the callers establish the preconditions;
//   * of the closure (see C10 / C09 / C11 CLOSURE above): ap_unserved_room of the result (not inductive as written) and the
//     magnitudes the operation does not preserve (grown formations, costs, A-len of the new tour) are hypotheses on the result;
//     invariants that are not in the bundle (e.g. the converse of ap_listed: a formation lists ONLY vehicles whose tour holds
//     the node; listings match the vehicles) are not claimed for the result either;
//   * FINDING (candidate defect, low severity; both effects confirmed with unit tests on solution::test_utilities, the
//     refusal with vehicleTypes[0].maximalFormationCount = 2): a path that
//     contains an activity the vehicle ALREADY serves (ap_path_fresh violated; e.g. default_schedule,
//     add_path_to_vehicle_tour(veh1, [trip31]) with tour(veh1) = [sd2, trip31, trip14, ed1]; the benchmark
//     solution/benches/schedule_modification_benchmarks.rs adds [trip12, trip23, trip31] to veh0, which serves trip12 and
//     trip23; Neighborhood::hitch_hiking_iterator enumerates every service trip of the vehicle's type including its
//     own): the node is first ADDED (second entry of the vehicle in the formation; refused with Err when the formation is
//     at its limit although the vehicle count would not change), then falls into the block insert_path drops and is
//     REMOVED (first entry): result Ok, tour unchanged, but the vehicle moves to the tail of the formation
//     ([veh1, veh2] -> [veh2, veh1]) and the node is reported in the returned conflict path although the vehicle still
//     serves it ("displaced … service trips are handed back", C13: it was not displaced).  Harmless today:
//     AddTripForHitchHiking turns any conflict into Err, SpawnVehicleForMaintenance (which re-spawns a vehicle for the
//     conflict path) only adds a maintenance slot to a tour without one.
#![feature(allocator_api)]
use vstd::prelude::*;
use std::ops::Add;
use std::ops::Sub;
use std::collections::{BTreeMap, HashMap};
use std::sync::Arc;
//@include env/display_time.rs
//@include env/display_model.rs
impl std::fmt::Display for VehicleTypeIdx { fn fmt(&self, _f: &mut std::fmt::Formatter) -> std::fmt::Result { Ok(()) } }
impl std::fmt::Debug for NodeIdx { fn fmt(&self, _f: &mut std::fmt::Formatter) -> std::fmt::Result { Ok(()) } }
impl std::fmt::Display for Path { fn fmt(&self, _f: &mut std::fmt::Formatter) -> std::fmt::Result { Ok(()) } }
verus! {
//@include env/std_specs.vs
//@include env/seqiter.vs
//@include env/time_types.vs
//@include-trusted env/time_ops.vs
//@include env/model_types.vs
//@include env/broadcast_model.vs
//@include env/model_network_types.vs
//@include env/model_spec.vs
//@include-trusted env/model_fns.vs
//@include env/solution_types.vs
//@include env/tour_spec.vs
//@include env/sums.vs
//@include-trusted env/dist_ops.vs
//@include env/vsum_impls.vs
//@include env/cache_spec.vs
//@include-proved env/cache_lemmas.vs
pub mod cut {
use super::*;
use vstd::prelude::*;
//@include-proved env/remove_lemmas.vs
//@include-proved env/insert_lemmas.vs
} // mod cut
pub use self::cut::*;

pub mod tr {
use super::*;
use vstd::prelude::*;
use self::im::HashMap;
use self::im_set::HashSet;
//@include env/im_shim.vs

//@item solution/src/transition.rs type CycleIdx : plain
//@end
//@item solution/src/transition/transition_cycle.rs struct TransitionCycle : plain
//@drop-derive Clone
//@end
impl Clone for TransitionCycle {
    #[verifier::external_body]
    fn clone(&self) -> (r: Self)
        ensures r == *self
    { unimplemented!() }
}
//@item solution/src/transition.rs struct Transition : plain
//@end
//@include env/transition_spec.vs
//@include env/schedule_shim.vs
//@include env/sched_guard_shim.vs
//@include env/spawn_vehicle_shim.vs
//@include env/add_path_shim.vs

// ---- model: the type guard (verified here; contract text as in slices/sched_guard.vs) -------------------
//@item model/src/network/nodes.rs ServiceTrip::vehicle_type
//@retname r
//@sig
    ensures r == self.vehicle_type,
//@end
//@item model/src/network/nodes.rs Node::as_service_trip
//@retname r
//@sig
    requires self is Service,
    ensures *r == self->Service_0.1,
//@end
//@item model/src/network.rs Network::vehicle_type_for
//@retname r
//@sig
    requires self.has(service_trip), self.sp_node(service_trip) is Service,
    ensures r == self.sp_node(service_trip)->Service_0.1.vehicle_type,
//@end
//@item model/src/network.rs Network::compatible_with_vehicle_type
//@retname r
//@sig
    requires self.has(node),
    ensures r == self.sp_compatible(node, vehicle_type), // @obl C01.compatible_with_vehicle_type.not_a_trip_of_another_type
//@end

// ---- small functions verified here (verbatim bodies; contract text as in slices/sched_guard.vs / depot_usage.vs / tour_mod.vs)
//@item model/src/vehicle_types.rs VehicleType::idx
//@retname r
//@sig
    ensures r == self.idx,
//@end
//@item solution/src/vehicle.rs Vehicle::type_idx
//@retname r
//@sig
    ensures r == vtype(*self),
//@end
//@item solution/src/schedule.rs Schedule::get_vehicle
//@retname r
//@sig
    ensures
        self.vehicles@.contains_key(vehicle) ==> r is Ok && *r->Ok_0 == self.vehicles@[vehicle],
        !self.vehicles@.contains_key(vehicle) ==> r is Err,
//@end
//@item solution/src/schedule.rs Schedule::vehicle_type_of
//@retname r
//@sig
    ensures
        self.vehicles@.contains_key(vehicle) ==> r == Ok::<VehicleTypeIdx, String>(self.type_of(vehicle)),
        !self.vehicles@.contains_key(vehicle) ==> r is Err,
//@end
//@item solution/src/schedule.rs Schedule::tour_of
//@retname r
//@sig
    ensures
        self.has_tour(vehicle) ==> r is Ok && *r->Ok_0 == self.sp_tour_of(vehicle),
        !self.has_tour(vehicle) ==> r is Err,
//@end
//@item solution/src/tour.rs Tour::first_node
//@retname r
//@sig
    requires self.nodes@.len() >= 1,
    ensures r == self.nodes@[0],
//@end
//@item solution/src/tour.rs Tour::start_depot
//@retname r
//@sig
    requires self.wf(),
    ensures !self.is_dummy ==> r == Ok::<NodeIdx, String>(sp_start_depot(self)),
//@first
        proof { assert(self.network.has(self.nodes@[0])); }
//@end
//@item solution/src/tour.rs Tour::costs
//@retname r
//@sig
    ensures r == self.costs,
//@end
//@item solution/src/path.rs Path::first
//@retname r
//@sig
    requires self.node_sequence@.len() >= 1,
    ensures r == self.node_sequence@[0],
//@end
//@item solution/src/schedule.rs Schedule::new
//@retname r
//@sig
    ensures
        r.vehicles == vehicles, r.tours == tours, r.next_period_transitions == next_period_transitions,
        r.train_formations == train_formations, r.depot_usage == depot_usage, r.dummy_tours == dummy_tours,
        r.vehicle_counter == vehicle_counter, r.vehicle_ids_grouped_and_sorted == vehicle_ids_grouped_and_sorted,
        r.dummy_ids_sorted == dummy_ids_sorted, r.unserved_passengers == unserved_passengers,
        r.maintenance_violation == maintenance_violation, r.costs == costs, r.network == network,
//@end

// ---- Tour / Path: trusted stubs -----------------------------------------------------------------------
/// A-iter: `Path::iter` yields the nodes of the path in order (`self.node_sequence.iter().copied()`)
//@item solution/src/path.rs Path::iter : trusted
//@ret SeqIter<NodeIdx>
//@retname r
//@sig
    ensures r@ == self.node_sequence@,
//@end
// verified in slice tour_mod; contract text copied from there
//@item solution/src/tour/modifications.rs Tour::insert_path : trusted
//@retname r
//@sig
    requires self.wf(), self.caches_ok(), tour_len_ok(self.nodes@),
        path.network == self.network, tour_len_ok(path.node_sequence@),
        // A-path: the inserted path is a path of the network (connected) with an activity
        path_shape(&self.network, path.node_sequence@),
    ensures ({
        let n = eff_path(self, path.node_sequence@);
        exists|s: int, e: int| {
            &&& ins_positions(self, n, s, e) && 0 <= s <= e <= self.len()
            // C12: longest prefix whose last node reaches the path + the whole path + longest suffix the path reaches
            &&& r.0.nodes@ == #[trigger] self.spliced(s, e, n) // @obl C12.insert_path.prefix_path_suffix
            // C12: reports exactly the dropped nodes
            &&& (all_depots(&self.network, self.mid(s, e)) ==> r.1 is None)
            &&& (!all_depots(&self.network, self.mid(s, e)) ==> r.1 is Some && r.1.unwrap().node_sequence@ == self.mid(s, e)) // @obl C12.insert_path.reports_exactly_dropped
        }
    }),
        r.0.is_dummy == self.is_dummy && r.0.network == self.network,
        r.0.wf(), // @obl C01.insert_path.wf
        r.0.caches_ok(), // @obl C09.insert_path.caches
//@end

// ---- Schedule: trusted stubs ----------------------------------------------------------------------------
// verified in slice admission; contract text copied from there
//@item solution/src/schedule.rs Schedule::can_depot_spawn_vehicle_custom_usage : trusted
//@retname r
//@sig
    requires
        self.network.has(start_depot), self.network.sp_node(start_depot).sp_is_depot(),
        self.network.has_depot(self.network.sp_depot_idx_of(start_depot)),
        spawned_of_type(depot_usage@, self.network.sp_depot_idx_of(start_depot), vehicle_type) <= u32::MAX,
        spawned_total(depot_usage@, self.network.sp_depot_idx_of(start_depot), self.network.vehicle_types.ids_sorted@) <= u32::MAX,
    ensures
        r == ({
            let d = self.network.sp_depot_idx_of(start_depot);
            &&& self.network.sp_depot(d).sp_capacity_for(vehicle_type) > 0
            &&& spawned_of_type(depot_usage@, d, vehicle_type) < self.network.sp_depot(d).sp_capacity_for(vehicle_type)
            &&& spawned_total(depot_usage@, d, self.network.vehicle_types.ids_sorted@) < self.network.sp_depot(d).total_capacity
        }), // @obl C02.can_depot_spawn.iff_room_for_type_and_in_total
        // in the words of the property: after one more vehicle of this type starts there, the depot is
        // still within its total capacity and within the per-type capacity, and the type is listed
        r ==> ({
            let d = self.network.sp_depot_idx_of(start_depot);
            let dep = self.network.sp_depot(d);
            &&& dep.allowed_types@.contains_key(vehicle_type)
            &&& (dep.allowed_types@[vehicle_type] is Some ==> spawned_of_type(depot_usage@, d, vehicle_type) + 1 <= dep.allowed_types@[vehicle_type].unwrap())
            &&& spawned_total(depot_usage@, d, self.network.vehicle_types.ids_sorted@) + 1 <= dep.total_capacity
        }), // @obl C02.can_depot_spawn.within_capacities_after_spawn
//@end
// verified here (verbatim body): the admission check on the schedule's own usage table
//@item solution/src/schedule.rs Schedule::can_depot_spawn_vehicle
//@retname r
//@sig
    requires
        self.network.has(start_depot), self.network.sp_node(start_depot).sp_is_depot(),
        self.ap_admission_pre(start_depot, vehicle_type),
    ensures
        r == self.ap_depot_has_room(start_depot, vehicle_type), // @obl C02.can_depot_spawn_vehicle.iff_room_for_type_and_in_total
//@end
// verified in slice train_formation_update; contract text copied from there
//@item solution/src/schedule/modifications.rs Schedule::update_train_formation : trusted
//@param-type moved_nodes SeqIter<NodeIdx>
//@retname r
//@sig
    requires
        self.tfu_pre(old(train_formations)@, *old(unserved_passengers), provider, receiver_vehicle, moved_nodes@),
    ensures
        // C13: "Each schedule modification has its documented effect and nothing else … formations elsewhere … stay untouched"
        r is Ok ==> self.formations_elsewhere_untouched(moved_nodes@, old(train_formations)@, final(train_formations)@), // @obl C13.update_train_formation.formations_elsewhere_untouched
        // C13: "In a formation a replacing vehicle takes the replaced one's position, additions go to the tail and
        // removals keep the order": every moved non-depot node gets the replacement of its OLD formation
        r is Ok ==> self.moved_get_replacement(moved_nodes@, old(train_formations)@, final(train_formations)@, provider, receiver_vehicle), // @obl C13.update_train_formation.moved_nodes_get_the_replacement
        // C02 / C10: "formation, track and depot limits hold"
        r is Ok ==> self.grown_within_limits(moved_nodes@, final(train_formations)@, provider, receiver_vehicle), // @obl C02.update_train_formation.grown_formations_within_limits
        // C09: "cached aggregates equal recomputation": the delta is exact
        r is Ok ==> final(unserved_passengers).0 == old(unserved_passengers).0
            - self.un_sum(old(train_formations)@, provider, receiver_vehicle, moved_nodes@, moved_nodes@.len() as int, false, 0)
            + self.un_sum(old(train_formations)@, provider, receiver_vehicle, moved_nodes@, moved_nodes@.len() as int, true, 0)
          && final(unserved_passengers).1 == old(unserved_passengers).1
            - self.un_sum(old(train_formations)@, provider, receiver_vehicle, moved_nodes@, moved_nodes@.len() as int, false, 1)
            + self.un_sum(old(train_formations)@, provider, receiver_vehicle, moved_nodes@, moved_nodes@.len() as int, true, 1), // @obl C09.update_train_formation.unserved_passengers_delta_exact
        // the modification is refused iff the replacement fails for some moved non-depot node
        r is Ok <==> self.all_ok(old(train_formations)@, provider, receiver_vehicle, moved_nodes@, moved_nodes@.len() as int), // @obl C13.update_train_formation.refused_iff_a_replacement_fails
//@end
// verified in slice depot_usage; contract text copied from there
//@item solution/src/schedule/modifications.rs Schedule::update_depot_usage : trusted
//@sig
    requires
        // part of C10 for the old schedule and for the new maps: a vehicle is stored under its own id, a
        // real vehicle has a real tour, and an id keeps its vehicle type
        self.sp_is_vehicle(vehicle_idx) ==> self.vehicles@[vehicle_idx].idx == vehicle_idx && self.real_tour_ok(vehicle_idx),
        vehicles@.contains_key(vehicle_idx) ==> vehicles@[vehicle_idx].idx == vehicle_idx,
        vehicles@.contains_key(vehicle_idx) && tours@.contains_key(vehicle_idx) ==> tour_of_net(&self.network, &tours@[vehicle_idx]),
        vehicles@.contains_key(vehicle_idx) && self.sp_is_vehicle(vehicle_idx) ==>
            vehicles@[vehicle_idx].vehicle_type.idx == self.vehicles@[vehicle_idx].vehicle_type.idx,
        // C09 before the step: the table is exact for this vehicle in the OLD schedule (`self`); in
        // particular this bookkeeping step runs once per vehicle and modification
        usage_exact_for(old(depot_usage)@, &self.network, self.vehicles@, self.tours@, vehicle_idx),
    ensures
        usage_exact_for(final(depot_usage)@, &self.network, vehicles@, tours@, vehicle_idx), // @obl C09.depot_usage.exact_for_vehicle_in_new_schedule
        usage_same_except(old(depot_usage)@, final(depot_usage)@, vehicle_idx), // @obl C09.depot_usage.other_vehicles_untouched
//@end
// verified in slice sched_guard; contract text copied from there
//@item solution/src/schedule/modifications.rs Schedule::update_transitions_and_violation_fast : trusted
//@sig
    requires
        // the old schedule is consistent (C15, C10, C09), no real vehicle is listed twice, every listed real
        // vehicle is an old and / or a new vehicle with an admissible new tour, magnitudes: see upd_pre
        self.upd_pre(old(transitions)@, *old(maintenance_violation) as int, changed_vehicles@, vehicles@, tours@),
        // (clause of upd_pre, repeated: the caller-side assumption the transition slice names) no real vehicle
        // is listed twice: update_vehicle / remove_vehicle read the previous tour of the vehicle from self.tours
        forall|i: int, j: int| 0 <= i < j < changed_vehicles@.len() && changed_vehicles@[i] is Vehicle
            ==> #[trigger] changed_vehicles@[i] != #[trigger] changed_vehicles@[j],
    ensures
        forall|vt: VehicleTypeIdx| old(transitions)@.contains_key(vt) <==> #[trigger] final(transitions)@.contains_key(vt),
        // C15 / C10: every transition is consistent with the NEW tours ...
        forall|vt: VehicleTypeIdx| #[trigger] final(transitions)@.contains_key(vt) ==> final(transitions)@[vt].wf(&self.network, tours@), // @obl C10.update_transitions.consistent_with_new_tours
        // ... and its cycles hold exactly the NEW vehicles of its type ("every real vehicle belongs to
        // exactly one rotation cycle of its type": one cycle by wf_cycles / wf_lookup)
        forall|vt: VehicleTypeIdx, v: VehicleIdx| #![trigger final(transitions)@[vt].has_vehicle(v)] final(transitions)@.contains_key(vt)
            ==> (final(transitions)@[vt].has_vehicle(v) <==> (vehicles@.contains_key(v) && vtype(vehicles@[v]) == vt)), // @obl C10.update_transitions.membership
        // C09: "the schedule's maintenance violation equals its from-scratch value"
        *final(maintenance_violation) == viol_sum(final(transitions)@, sched_types(self)), // @obl C09.update_transitions.violation_sum
        // the transitions of the other types are untouched
        forall|vt: VehicleTypeIdx| #[trigger] final(transitions)@.contains_key(vt) && !self.touches_type(vehicles@, changed_vehicles@, vt)
            ==> final(transitions)@[vt] == old(transitions)@[vt], // @obl C10.update_transitions.other_types_untouched
//@end

// ---- the function under contract ----------------------------------------------------------------------
//@item solution/src/schedule/modifications.rs Schedule::add_path_to_vehicle_tour
//@retname r
//@sig
    requires
        // schedule invariants (parts of C10 / C09 / C15, see ap_ok) and C10 / C01 / C09 for the receiving vehicle, which
        // must be a REAL vehicle (`self.vehicles.get(&vehicle_idx).cloned().unwrap()`, `tours.get(&vehicle_idx).unwrap()`)
        self.ap_ok(),
        self.ap_vehicle_ok(vehicle_idx),
        // the path: a path of the schedule's network (A-path), none of whose nodes the vehicle serves already
        self.ap_path_ok(vehicle_idx, &path),
        // A-counter (magnitude)
        self.ap_counter_ok(vehicle_idx, path.node_sequence@),
        // A-depots / magnitudes for the admission check, if the path brings a start depot
        self.ap_admission_pre(path.node_sequence@[0], self.type_of(vehicle_idx)),
    ensures
        // C01 / C10 "a vehicle only serves service trips of the vehicle's type": "If some node on the path is not
        // compatible with the vehicle type (if real vehicle) an error is returned", and a tour all of whose nodes were
        // compatible stays so
        !all_compatible(&self.network, path.node_sequence@, self.type_of(vehicle_idx)) ==> r is Err, // @obl C01.add_path.only_compatible_nodes
        r is Ok && all_compatible(&self.network, self.tours@[vehicle_idx].nodes@, self.type_of(vehicle_idx))
            ==> all_compatible(&self.network, r->Ok_0.0.tours@[vehicle_idx].nodes@, self.type_of(vehicle_idx)), // @obl C01.add_path.only_compatible_nodes
        // C02 "depot limits hold": a path that brings a start depot other than the old one is refused when that depot
        // cannot spawn a vehicle of the type
        self.network.sp_node(path.node_sequence@[0]).sp_is_depot() && path.node_sequence@[0] != self.tours@[vehicle_idx].nodes@[0]
            && !self.ap_depot_has_room(path.node_sequence@[0], self.type_of(vehicle_idx)) ==> r is Err, // @obl C02.add_path.refuses_full_start_depot
        // C02 "formation … limits hold": "If a train formation of some node on the path is full, an error is returned."
        !self.ap_room(vehicle_idx, path.node_sequence@) ==> r is Err, // @obl C02.add_path.refuses_full_formation
        // C13: … and these are the only refusals
        all_compatible(&self.network, path.node_sequence@, self.type_of(vehicle_idx))
            && !(self.network.sp_node(path.node_sequence@[0]).sp_is_depot() && path.node_sequence@[0] != self.tours@[vehicle_idx].nodes@[0]
                && !self.ap_depot_has_room(path.node_sequence@[0], self.type_of(vehicle_idx)))
            && self.ap_room(vehicle_idx, path.node_sequence@) ==> r is Ok, // @obl C13.add_path.refused_only_as_documented
        // C13 "documented effect and nothing else"
        r is Ok ==> self.ap_tours_after(vehicle_idx, path.node_sequence@, &r->Ok_0.0, r->Ok_0.1), // @obl C13.add_path.receiver_gains_path_displaced_block_returned_everything_else_untouched
        r is Ok ==> self.ap_rest_untouched(&r->Ok_0.0), // @obl C13.add_path.receiver_gains_path_displaced_block_returned_everything_else_untouched
        // C10 / C03 formations
        r is Ok ==> self.ap_joins(vehicle_idx, path.node_sequence@, r->Ok_0.0.train_formations@), // @obl C10.add_path.vehicle_joins_formations_of_the_path
        r is Ok ==> self.ap_within_limits(vehicle_idx, path.node_sequence@, r->Ok_0.0.train_formations@), // @obl C02.add_path.grown_formations_within_limits
        r is Ok ==> self.ap_leaves(vehicle_idx, path.node_sequence@, r->Ok_0.0.train_formations@), // @obl C10.add_path.vehicle_leaves_formations_of_the_displaced_block
        r is Ok ==> self.ap_elsewhere(vehicle_idx, path.node_sequence@, r->Ok_0.0.train_formations@), // @obl C13.add_path.formations_elsewhere_untouched
        // C09 "cached aggregates equal recomputation"
        r is Ok ==> r->Ok_0.0.costs == self.costs + r->Ok_0.0.tours@[vehicle_idx].costs - self.tours@[vehicle_idx].costs, // @obl C09.add_path.costs_delta_exact
        r is Ok ==> usage_exact_for(r->Ok_0.0.depot_usage@, &self.network, r->Ok_0.0.vehicles@, r->Ok_0.0.tours@, vehicle_idx)
            && usage_same_except(self.depot_usage@, r->Ok_0.0.depot_usage@, vehicle_idx)
            && usage_exact(r->Ok_0.0.depot_usage@, &self.network, r->Ok_0.0.vehicles@, r->Ok_0.0.tours@), // @obl C09.add_path.depot_usage_exact
        r is Ok ==> self.ap_unserved_after(vehicle_idx, path.node_sequence@, r->Ok_0.0.unserved_passengers), // @obl C09.add_path.unserved_passengers_delta_exact
        // C15 / C10 / C09: rotation cycles and maintenance violation
        r is Ok ==> self.transitions_follow(self.type_of(vehicle_idx), &r->Ok_0.0), // @obl C10.add_path.transitions_follow
        // ---- CLOSURE (induction step of C10 / C09 / C11): the result satisfies the schedule invariants `ap_ok` again, and
        // `ap_vehicle_ok` for the same vehicle; conjunct by conjunct, derived (lemma_apcl_closed, env/add_path_shim.vs) from
        // the effect clauses above, which `ap_effects` collects (nothing new is claimed by this line)
        r is Ok ==> self.ap_effects(vehicle_idx, path.node_sequence@, &r->Ok_0.0), // @obl C10.add_path.result_satisfies_the_schedule_invariants_again
        // ids / listings: instance validity, vehicles under their own ids with a tour, dummy tours under Dummy ids, sorted listings
        r is Ok ==> r->Ok_0.0.network.wf() && r->Ok_0.0.sv_ids_ok(), // @obl C10.add_path.result_satisfies_the_schedule_invariants_again
        // formations: every activity has a formation, trips' types are types of the network, the cached pair covers any list
        // without a repeated activity (C09) -- the non-magnitude clauses of sv_formations_ok and ap_unserved_covers
        r is Ok ==> r->Ok_0.0.ap_formations_exact() && r->Ok_0.0.ap_unserved_covers(), // @obl C10.add_path.result_satisfies_the_schedule_invariants_again
        // formations, MAGNITUDES (formation length <= 2^17, u32 capacity / seat sums with one more vehicle): not preserved by a
        // formation that grows; hold again if they hold for the formations of the path's non-depot nodes in the RESULT
        r is Ok && self.ap_grown_small(path.node_sequence@, &r->Ok_0.0) ==> r->Ok_0.0.sv_formations_ok(), // @obl C10.add_path.result_satisfies_the_schedule_invariants_again
        // usage
        r is Ok ==> usage_exact(r->Ok_0.0.depot_usage@, &r->Ok_0.0.network, r->Ok_0.0.vehicles@, r->Ok_0.0.tours@), // @obl C10.add_path.result_satisfies_the_schedule_invariants_again
        // transitions: one transition per listed type, consistent with the new tours, holding exactly the type's vehicles, the
        // violation is their sum, fewer than 2^17 vehicles (the magnitude is preserved: same vehicles in the cycles)
        r is Ok ==> r->Ok_0.0.transitions_ok(), // @obl C10.add_path.result_satisfies_the_schedule_invariants_again
        // the bundle.  Hypotheses on the RESULT: the magnitudes that the operation does not preserve (grown formations, costs
        // <= 2^61) and ap_unserved_room, which is not inductive as written (see lemma_apcl_closed)
        r is Ok && self.ap_grown_small(path.node_sequence@, &r->Ok_0.0) && r->Ok_0.0.ap_unserved_room() && r->Ok_0.0.costs <= sched_cost_bound()
            ==> r->Ok_0.0.ap_ok(), // @obl C10.add_path.result_satisfies_the_schedule_invariants_again
        // the receiving vehicle: real, type known, the network's record of its type, its new tour is a tour of the network with
        // exact caches whose costs are part of the schedule's costs, it is listed in the formation of every activity of the
        // new tour.  Hypothesis on the RESULT: A-len for the new tour (magnitude)
        r is Ok && tour_len_ok(r->Ok_0.0.tours@[vehicle_idx].nodes@) ==> r->Ok_0.0.ap_vehicle_ok(vehicle_idx), // @obl C10.add_path.result_satisfies_the_schedule_invariants_again
//@closure? any#0
    -> (b: bool) requires self.network.has(n) ensures b == !self.network.sp_compatible(n, vehicle_type_id) /* @obl C01.add_path.only_compatible_nodes */
//@first
        let ghost p = path.node_sequence@;
        let ghost v = vehicle_idx;
        let ghost t0 = self.tours@[vehicle_idx];
        let ghost vh = self.vehicles@[vehicle_idx];
        let ghost vt = self.type_of(vehicle_idx);
        let ghost tf0 = self.train_formations@;
        proof { lemma_ap_setup(self, v, &path); }
//@before "if self.network.node(path.first())"
        proof {
            // `any` returned false: every node of the path is compatible with the vehicle's type
            assert(all_compatible(&self.network, p, vt)) by { // @obl C01.add_path.only_compatible_nodes
                assert forall|i: int| 0 <= i < p.len() implies self.network.sp_compatible(#[trigger] p[i], vt) by {} // @obl C01.add_path.only_compatible_nodes
            }
        }
//@before "let (new_tour"
        let ghost tf1 = train_formations@;
        let ghost u1 = unserved_passengers;
        proof {
            assert(self.ap_between(v, p, tf1, u1)); // @obl C10.add_path.vehicle_joins_formations_of_the_path
        }
//@after "let (new_tour"
        let ghost nt = new_tour;
        let ghost rp = removed_path_opt;
        proof {
            lemma_ap_inserted(self, v, p, nt, rp); // @obl C13.add_path.receiver_gains_path_displaced_block_returned_everything_else_untouched
            lemma_ap_displace_pre(self, v, p, tf1, u1);
            lemma_ap_new_tour(self, v, p, nt);
        }
//@before "costs ="
        let ghost tf2 = train_formations@;
        let ghost u2 = unserved_passengers;
        proof {
            assert(self.ap_second(v, p, rp is Some, tf1, u1, tf2, u2)); // @obl C10.add_path.vehicle_leaves_formations_of_the_displaced_block
            lemma_ap_formations(self, v, p, rp is Some, tf1, u1, tf2, u2);
        }
//@before "self.update_transitions_and_violation_fast("
        proof { lemma_ap_upd_pre(self, v, nt, tours@); }
//@before "Ok(("
        proof {
            assert(tours@ == self.tours@.insert(v, nt)); // @obl C13.add_path.receiver_gains_path_displaced_block_returned_everything_else_untouched
            if all_compatible(&self.network, t0.nodes@, vt) {
                lemma_ap_compatible(&self.network, &t0, self.ap_s(v, p), self.ap_e(v, p), p, vt); // @obl C01.add_path.only_compatible_nodes
            }
            // C09: the usage table was brought up to date for the vehicle and left alone for everybody else
            lemma_usage_exact_step(self.depot_usage@, depot_usage@, &self.network, self.vehicles@, self.tours@, self.vehicles@, tours@, v); // @obl C09.add_path.depot_usage_exact
        }
        // CLOSURE: a ghost schedule built from the components the tail expression hands to Schedule::new has the effects above;
        // every schedule with the same abstract state (the result) has them, too, and satisfies the invariants again
        let ghost res = Schedule {
            vehicles: self.vehicles, tours: tours, next_period_transitions: next_period_transitions, train_formations: train_formations,
            depot_usage: depot_usage, dummy_tours: self.dummy_tours, vehicle_counter: self.vehicle_counter,
            vehicle_ids_grouped_and_sorted: self.vehicle_ids_grouped_and_sorted, dummy_ids_sorted: self.dummy_ids_sorted,
            unserved_passengers: unserved_passengers, maintenance_violation: maintenance_violation, costs: costs, network: self.network,
        };
        proof {
            assert(self.ap_tour_after(v, p, &res)); // @obl C10.add_path.result_satisfies_the_schedule_invariants_again
            assert(self.ap_rest_untouched(&res)); // @obl C10.add_path.result_satisfies_the_schedule_invariants_again
            assert(self.transitions_follow(vt, &res)); // @obl C10.add_path.result_satisfies_the_schedule_invariants_again
            assert(self.ap_effects(v, p, &res)); // @obl C10.add_path.result_satisfies_the_schedule_invariants_again
            lemma_apcl_closed_like(self, v, p, &res); // @obl C10.add_path.result_satisfies_the_schedule_invariants_again
        }
//@end

} // mod tr
} // verus!
fn main() {}
