// slice `add_path`: Schedule::add_path_to_vehicle_tour (solution/src/schedule/modifications.rs), verbatim body -- DRAFT HEADER
#![feature(allocator_api)]
use vstd::prelude::*;
use std::ops::Add;
use std::ops::Sub;
use std::collections::{BTreeMap, HashMap};
use std::sync::Arc;
//@include env/display_time.rs
//@include env/display_model.rs
impl std::fmt::Display for VehicleTypeIdx { fn fmt(&self, _f: &mut std::fmt::Formatter) -> std::fmt::Result { Ok(()) } }
impl std::fmt::Debug for NodeIdx { fn fmt(&self, _f: &mut std::fmt::Formatter) -> std::fmt::Result { Ok(()) } }
impl std::fmt::Display for Path { fn fmt(&self, _f: &mut std::fmt::Formatter) -> std::fmt::Result { Ok(()) } }
verus! {
//@include env/std_specs.vs
//@include env/seqiter.vs
//@include env/time_types.vs
//@include-trusted env/time_ops.vs
//@include env/model_types.vs
//@include env/broadcast_model.vs
//@include env/model_network_types.vs
//@include env/model_spec.vs
//@include-trusted env/model_fns.vs
//@include env/solution_types.vs
//@include env/tour_spec.vs
//@include env/sums.vs
//@include-trusted env/dist_ops.vs
//@include env/vsum_impls.vs
//@include env/cache_spec.vs
//@include env/cache_lemmas.vs
//@include env/remove_lemmas.vs
//@include env/insert_lemmas.vs

pub mod tr {
use super::*;
use vstd::prelude::*;
use self::im::HashMap;
use self::im_set::HashSet;
//@include env/im_shim.vs

//@item solution/src/transition.rs type CycleIdx : plain
//@end
//@item solution/src/transition/transition_cycle.rs struct TransitionCycle : plain
//@drop-derive Clone
//@end
impl Clone for TransitionCycle {
    #[verifier::external_body]
    fn clone(&self) -> (r: Self)
        ensures r == *self
    { unimplemented!() }
}
//@item solution/src/transition.rs struct Transition : plain
//@end
//@include env/transition_spec.vs
//@include env/schedule_shim.vs
//@include env/sched_guard_shim.vs
//@include env/spawn_vehicle_shim.vs
//@include env/add_path_shim.vs

// ---- model: the type guard (verified here; contract text as in slices/sched_guard.vs) -------------------
//@item model/src/network/nodes.rs ServiceTrip::vehicle_type
//@retname r
//@sig
    ensures r == self.vehicle_type,
//@end
//@item model/src/network/nodes.rs Node::as_service_trip
//@retname r
//@sig
    requires self is Service,
    ensures *r == self->Service_0.1,
//@end
//@item model/src/network.rs Network::vehicle_type_for
//@retname r
//@sig
    requires self.has(service_trip), self.sp_node(service_trip) is Service,
    ensures r == self.sp_node(service_trip)->Service_0.1.vehicle_type,
//@end
//@item model/src/network.rs Network::compatible_with_vehicle_type
//@retname r
//@sig
    requires self.has(node),
    ensures r == self.sp_compatible(node, vehicle_type), // @obl C01.compatible_with_vehicle_type.not_a_trip_of_another_type
//@end

// ---- small functions verified here (verbatim bodies; contract text as in slices/sched_guard.vs / depot_usage.vs / tour_mod.vs)
//@item model/src/vehicle_types.rs VehicleType::idx
//@retname r
//@sig
    ensures r == self.idx,
//@end
//@item solution/src/vehicle.rs Vehicle::type_idx
//@retname r
//@sig
    ensures r == vtype(*self),
//@end
//@item solution/src/schedule.rs Schedule::get_vehicle
//@retname r
//@sig
    ensures
        self.vehicles@.contains_key(vehicle) ==> r is Ok && *r->Ok_0 == self.vehicles@[vehicle],
        !self.vehicles@.contains_key(vehicle) ==> r is Err,
//@end
//@item solution/src/schedule.rs Schedule::vehicle_type_of
//@retname r
//@sig
    ensures
        self.vehicles@.contains_key(vehicle) ==> r == Ok::<VehicleTypeIdx, String>(self.type_of(vehicle)),
        !self.vehicles@.contains_key(vehicle) ==> r is Err,
//@end
//@item solution/src/schedule.rs Schedule::tour_of
//@retname r
//@sig
    ensures
        self.has_tour(vehicle) ==> r is Ok && *r->Ok_0 == self.sp_tour_of(vehicle),
        !self.has_tour(vehicle) ==> r is Err,
//@end
//@item solution/src/tour.rs Tour::first_node
//@retname r
//@sig
    requires self.nodes@.len() >= 1,
    ensures r == self.nodes@[0],
//@end
//@item solution/src/tour.rs Tour::start_depot
//@retname r
//@sig
    requires self.wf(),
    ensures !self.is_dummy ==> r == Ok::<NodeIdx, String>(sp_start_depot(self)),
//@first
        proof { assert(self.network.has(self.nodes@[0])); }
//@end
//@item solution/src/tour.rs Tour::costs
//@retname r
//@sig
    ensures r == self.costs,
//@end
//@item solution/src/path.rs Path::first
//@retname r
//@sig
    requires self.node_sequence@.len() >= 1,
    ensures r == self.node_sequence@[0],
//@end
//@item solution/src/schedule.rs Schedule::new
//@retname r
//@sig
    ensures
        r.vehicles == vehicles, r.tours == tours, r.next_period_transitions == next_period_transitions,
        r.train_formations == train_formations, r.depot_usage == depot_usage, r.dummy_tours == dummy_tours,
        r.vehicle_counter == vehicle_counter, r.vehicle_ids_grouped_and_sorted == vehicle_ids_grouped_and_sorted,
        r.dummy_ids_sorted == dummy_ids_sorted, r.unserved_passengers == unserved_passengers,
        r.maintenance_violation == maintenance_violation, r.costs == costs, r.network == network,
//@end

// ---- Tour / Path: trusted stubs -----------------------------------------------------------------------
/// A-iter: `Path::iter` yields the nodes of the path in order (`self.node_sequence.iter().copied()`)
//@item solution/src/path.rs Path::iter : trusted
//@ret SeqIter<NodeIdx>
//@retname r
//@sig
    ensures r@ == self.node_sequence@,
//@end
// verified in slice tour_mod; contract text copied from there
//@item solution/src/tour/modifications.rs Tour::insert_path : trusted
//@retname r
//@sig
    requires self.wf(), self.caches_ok(), tour_len_ok(self.nodes@),
        path.network == self.network, tour_len_ok(path.node_sequence@),
        // A-path: the inserted path is a path of the network (connected) with an activity
        path_shape(&self.network, path.node_sequence@),
    ensures ({
        let n = eff_path(self, path.node_sequence@);
        exists|s: int, e: int| {
            &&& ins_positions(self, n, s, e) && 0 <= s <= e <= self.len()
            // C12: longest prefix whose last node reaches the path + the whole path + longest suffix the path reaches
            &&& r.0.nodes@ == #[trigger] self.spliced(s, e, n) // @obl C12.insert_path.prefix_path_suffix
            // C12: reports exactly the dropped nodes
            &&& (all_depots(&self.network, self.mid(s, e)) ==> r.1 is None)
            &&& (!all_depots(&self.network, self.mid(s, e)) ==> r.1 is Some && r.1.unwrap().node_sequence@ == self.mid(s, e)) // @obl C12.insert_path.reports_exactly_dropped
        }
    }),
        r.0.is_dummy == self.is_dummy && r.0.network == self.network,
        r.0.wf(), // @obl C01.insert_path.wf
        r.0.caches_ok(), // @obl C09.insert_path.caches
//@end

// ---- Schedule: trusted stubs ----------------------------------------------------------------------------
// A-stub (verified in no slice): the result is uninterpreted -- it only selects the Err branch
//@item solution/src/schedule.rs Schedule::can_depot_spawn_vehicle : trusted
//@retname r
//@sig
    ensures r == spec_can_depot_spawn(self, start_depot, vehicle_type),
//@end
// verified in slice train_formation_update; contract text copied from there
//@item solution/src/schedule/modifications.rs Schedule::update_train_formation : trusted
//@param-type moved_nodes SeqIter<NodeIdx>
//@retname r
//@sig
    requires
        self.tfu_pre(old(train_formations)@, *old(unserved_passengers), provider, receiver_vehicle, moved_nodes@),
    ensures
        // C13: "Each schedule modification has its documented effect and nothing else … formations elsewhere … stay untouched"
        r is Ok ==> self.formations_elsewhere_untouched(moved_nodes@, old(train_formations)@, final(train_formations)@), // @obl C13.update_train_formation.formations_elsewhere_untouched
        // C13: "In a formation a replacing vehicle takes the replaced one's position, additions go to the tail and
        // removals keep the order": every moved non-depot node gets the replacement of its OLD formation
        r is Ok ==> self.moved_get_replacement(moved_nodes@, old(train_formations)@, final(train_formations)@, provider, receiver_vehicle), // @obl C13.update_train_formation.moved_nodes_get_the_replacement
        // C02 / C10: "formation, track and depot limits hold"
        r is Ok ==> self.grown_within_limits(moved_nodes@, final(train_formations)@, provider, receiver_vehicle), // @obl C02.update_train_formation.grown_formations_within_limits
        // C09: "cached aggregates equal recomputation": the delta is exact
        r is Ok ==> final(unserved_passengers).0 == old(unserved_passengers).0
            - self.un_sum(old(train_formations)@, provider, receiver_vehicle, moved_nodes@, moved_nodes@.len() as int, false, 0)
            + self.un_sum(old(train_formations)@, provider, receiver_vehicle, moved_nodes@, moved_nodes@.len() as int, true, 0)
          && final(unserved_passengers).1 == old(unserved_passengers).1
            - self.un_sum(old(train_formations)@, provider, receiver_vehicle, moved_nodes@, moved_nodes@.len() as int, false, 1)
            + self.un_sum(old(train_formations)@, provider, receiver_vehicle, moved_nodes@, moved_nodes@.len() as int, true, 1), // @obl C09.update_train_formation.unserved_passengers_delta_exact
        // the modification is refused iff the replacement fails for some moved non-depot node
        r is Ok <==> self.all_ok(old(train_formations)@, provider, receiver_vehicle, moved_nodes@, moved_nodes@.len() as int), // @obl C13.update_train_formation.refused_iff_a_replacement_fails
//@end
// verified in slice depot_usage; contract text copied from there
//@item solution/src/schedule/modifications.rs Schedule::update_depot_usage : trusted
//@sig
    requires
        // part of C10 for the old schedule and for the new maps: a vehicle is stored under its own id, a
        // real vehicle has a real tour, and an id keeps its vehicle type
        self.sp_is_vehicle(vehicle_idx) ==> self.vehicles@[vehicle_idx].idx == vehicle_idx && self.real_tour_ok(vehicle_idx),
        vehicles@.contains_key(vehicle_idx) ==> vehicles@[vehicle_idx].idx == vehicle_idx,
        vehicles@.contains_key(vehicle_idx) && tours@.contains_key(vehicle_idx) ==> tour_of_net(&self.network, &tours@[vehicle_idx]),
        vehicles@.contains_key(vehicle_idx) && self.sp_is_vehicle(vehicle_idx) ==>
            vehicles@[vehicle_idx].vehicle_type.idx == self.vehicles@[vehicle_idx].vehicle_type.idx,
        // C09 before the step: the table is exact for this vehicle in the OLD schedule (`self`); in
        // particular this bookkeeping step runs once per vehicle and modification
        usage_exact_for(old(depot_usage)@, &self.network, self.vehicles@, self.tours@, vehicle_idx),
    ensures
        usage_exact_for(final(depot_usage)@, &self.network, vehicles@, tours@, vehicle_idx), // @obl C09.depot_usage.exact_for_vehicle_in_new_schedule
        usage_same_except(old(depot_usage)@, final(depot_usage)@, vehicle_idx), // @obl C09.depot_usage.other_vehicles_untouched
//@end
// verified in slice sched_guard; contract text copied from there
//@item solution/src/schedule/modifications.rs Schedule::update_transitions_and_violation_fast : trusted
//@sig
    requires
        // the old schedule is consistent (C15, C10, C09), no real vehicle is listed twice, every listed real
        // vehicle is an old and / or a new vehicle with an admissible new tour, magnitudes: see upd_pre
        self.upd_pre(old(transitions)@, *old(maintenance_violation) as int, changed_vehicles@, vehicles@, tours@),
        // (clause of upd_pre, repeated: the caller-side assumption the transition slice names) no real vehicle
        // is listed twice: update_vehicle / remove_vehicle read the previous tour of the vehicle from self.tours
        forall|i: int, j: int| 0 <= i < j < changed_vehicles@.len() && changed_vehicles@[i] is Vehicle
            ==> #[trigger] changed_vehicles@[i] != #[trigger] changed_vehicles@[j],
    ensures
        forall|vt: VehicleTypeIdx| old(transitions)@.contains_key(vt) <==> #[trigger] final(transitions)@.contains_key(vt),
        // C15 / C10: every transition is consistent with the NEW tours ...
        forall|vt: VehicleTypeIdx| #[trigger] final(transitions)@.contains_key(vt) ==> final(transitions)@[vt].wf(&self.network, tours@), // @obl C10.update_transitions.consistent_with_new_tours
        // ... and its cycles hold exactly the NEW vehicles of its type ("every real vehicle belongs to
        // exactly one rotation cycle of its type": one cycle by wf_cycles / wf_lookup)
        forall|vt: VehicleTypeIdx, v: VehicleIdx| #![trigger final(transitions)@[vt].has_vehicle(v)] final(transitions)@.contains_key(vt)
            ==> (final(transitions)@[vt].has_vehicle(v) <==> (vehicles@.contains_key(v) && vtype(vehicles@[v]) == vt)), // @obl C10.update_transitions.membership
        // C09: "the schedule's maintenance violation equals its from-scratch value"
        *final(maintenance_violation) == viol_sum(final(transitions)@, sched_types(self)), // @obl C09.update_transitions.violation_sum
        // the transitions of the other types are untouched
        forall|vt: VehicleTypeIdx| #[trigger] final(transitions)@.contains_key(vt) && !self.touches_type(vehicles@, changed_vehicles@, vt)
            ==> final(transitions)@[vt] == old(transitions)@[vt], // @obl C10.update_transitions.other_types_untouched
//@end

// ---- the function under contract ----------------------------------------------------------------------
//@item solution/src/schedule/modifications.rs Schedule::add_path_to_vehicle_tour
//@retname r
//@sig
    requires
        // schedule invariants (parts of C10 / C09 / C15, see ap_ok) and C10 / C01 / C09 for the receiving vehicle, which
        // must be a REAL vehicle (`self.vehicles.get(&vehicle_idx).cloned().unwrap()`, `tours.get(&vehicle_idx).unwrap()`)
        self.ap_ok(),
        self.ap_vehicle_ok(vehicle_idx),
        // the path: a path of the schedule's network (A-path), none of whose nodes the vehicle serves already
        self.ap_path_ok(vehicle_idx, &path),
        // A-counter (magnitude)
        self.ap_counter_ok(vehicle_idx, path.node_sequence@),
    ensures
        // C01 / C10 "a vehicle only serves service trips of the vehicle's type": "If some node on the path is not
        // compatible with the vehicle type (if real vehicle) an error is returned", and a tour all of whose nodes were
        // compatible stays so
        !all_compatible(&self.network, path.node_sequence@, self.type_of(vehicle_idx)) ==> r is Err, // @obl C01.add_path.only_compatible_nodes
        r is Ok && all_compatible(&self.network, self.tours@[vehicle_idx].nodes@, self.type_of(vehicle_idx))
            ==> all_compatible(&self.network, r->Ok_0.0.tours@[vehicle_idx].nodes@, self.type_of(vehicle_idx)), // @obl C01.add_path.only_compatible_nodes
        // C02 "depot limits hold": a path that brings a start depot other than the old one is refused when that depot
        // cannot spawn a vehicle of the type
        self.network.sp_node(path.node_sequence@[0]).sp_is_depot() && path.node_sequence@[0] != self.tours@[vehicle_idx].nodes@[0]
            && !spec_can_depot_spawn(self, path.node_sequence@[0], self.type_of(vehicle_idx)) ==> r is Err, // @obl C02.add_path.refuses_full_start_depot
        // C13 "documented effect and nothing else"
        r is Ok ==> self.ap_tours_after(vehicle_idx, path.node_sequence@, &r->Ok_0.0, r->Ok_0.1), // @obl C13.add_path.receiver_gains_path_displaced_block_returned_everything_else_untouched
        r is Ok ==> self.ap_rest_untouched(&r->Ok_0.0), // @obl C13.add_path.receiver_gains_path_displaced_block_returned_everything_else_untouched
        // C10 / C03 formations
        r is Ok ==> self.ap_joins(vehicle_idx, path.node_sequence@, r->Ok_0.0.train_formations@), // @obl C10.add_path.vehicle_joins_formations_of_the_path
        r is Ok ==> self.ap_within_limits(vehicle_idx, path.node_sequence@, r->Ok_0.0.train_formations@), // @obl C02.add_path.grown_formations_within_limits
        r is Ok ==> self.ap_leaves(vehicle_idx, path.node_sequence@, r->Ok_0.0.train_formations@), // @obl C10.add_path.vehicle_leaves_formations_of_the_displaced_block
        r is Ok ==> self.ap_elsewhere(vehicle_idx, path.node_sequence@, r->Ok_0.0.train_formations@), // @obl C13.add_path.formations_elsewhere_untouched
        // C09 "cached aggregates equal recomputation"
        r is Ok ==> r->Ok_0.0.costs == self.costs + r->Ok_0.0.tours@[vehicle_idx].costs - self.tours@[vehicle_idx].costs, // @obl C09.add_path.costs_delta_exact
        r is Ok ==> usage_exact_for(r->Ok_0.0.depot_usage@, &self.network, r->Ok_0.0.vehicles@, r->Ok_0.0.tours@, vehicle_idx)
            && usage_same_except(self.depot_usage@, r->Ok_0.0.depot_usage@, vehicle_idx)
            && usage_exact(r->Ok_0.0.depot_usage@, &self.network, r->Ok_0.0.vehicles@, r->Ok_0.0.tours@), // @obl C09.add_path.depot_usage_exact
        r is Ok ==> self.ap_unserved_after(vehicle_idx, path.node_sequence@, r->Ok_0.0.unserved_passengers), // @obl C09.add_path.unserved_passengers_delta_exact
        // C15 / C10 / C09: rotation cycles and maintenance violation
        r is Ok ==> self.transitions_follow(self.type_of(vehicle_idx), &r->Ok_0.0), // @obl C10.add_path.transitions_follow
//@closure any#0
    -> (b: bool) requires self.network.has(n) ensures b == !self.network.sp_compatible(n, vehicle_type_id) /* @obl C01.add_path.only_compatible_nodes */
//@first
        let ghost p = path.node_sequence@;
        let ghost v = vehicle_idx;
        let ghost t0 = self.tours@[vehicle_idx];
        let ghost vh = self.vehicles@[vehicle_idx];
        let ghost vt = self.type_of(vehicle_idx);
        let ghost tf0 = self.train_formations@;
        proof { lemma_ap_setup(self, v, &path); }
//@before "if self.network.node(path.first())"
        proof {
            // `any` returned false: every node of the path is compatible with the vehicle's type
            assert(all_compatible(&self.network, p, vt)) by {
                assert forall|i: int| 0 <= i < p.len() implies self.network.sp_compatible(#[trigger] p[i], vt) by {}
            } // @obl C01.add_path.only_compatible_nodes
        }
//@before "let (new_tour"
        let ghost tf1 = train_formations@;
        let ghost u1 = unserved_passengers;
        proof {
            assert(self.ap_between(v, p, tf1, u1)); // @obl C10.add_path.vehicle_joins_formations_of_the_path
        }
//@after "let (new_tour"
        let ghost nt = new_tour;
        let ghost rp = removed_path_opt;
        proof {
            lemma_ap_inserted(self, v, p, nt, rp); // @obl C13.add_path.receiver_gains_path_displaced_block_returned_everything_else_untouched
            lemma_ap_displace_pre(self, v, p, tf1, u1);
            lemma_ap_new_tour(self, v, p, nt);
        }
//@before "costs ="
        let ghost tf2 = train_formations@;
        let ghost u2 = unserved_passengers;
        proof {
            assert(self.ap_second(v, p, rp is Some, tf1, u1, tf2, u2)); // @obl C10.add_path.vehicle_leaves_formations_of_the_displaced_block
            lemma_ap_formations(self, v, p, rp is Some, tf1, u1, tf2, u2);
        }
//@before "self.update_transitions_and_violation_fast("
        proof { lemma_ap_upd_pre(self, v, nt, tours@); }
//@before "Ok(("
        proof {
            assert(tours@ == self.tours@.insert(v, nt)); // @obl C13.add_path.receiver_gains_path_displaced_block_returned_everything_else_untouched
            if all_compatible(&self.network, t0.nodes@, vt) {
                lemma_ap_compatible(&self.network, &t0, self.ap_s(v, p), self.ap_e(v, p), p, vt); // @obl C01.add_path.only_compatible_nodes
            }
            // C09: the usage table was brought up to date for the vehicle and left alone for everybody else
            lemma_usage_exact_step(self.depot_usage@, depot_usage@, &self.network, self.vehicles@, self.tours@, self.vehicles@, tours@, v); // @obl C09.add_path.depot_usage_exact
        }
//@end

} // mod tr
} // verus!
fn main() {}
