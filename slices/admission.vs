// slice `admission`: schedule-level admission checks for formation, track and depot limits (C02),
// unserved-passenger formula and formation capacity / seats sums
#![feature(allocator_api)]
use vstd::prelude::*;
use std::ops::Add;
use std::ops::Sub;
use std::collections::{BTreeMap, HashMap};
use std::sync::Arc;
//@include env/display_time.rs
//@include env/display_model.rs
verus! {
//@include env/std_specs.vs
//@include env/seqiter.vs
//@include env/time_types.vs
//@include-trusted env/time_ops.vs
//@include env/model_types.vs
//@include env/broadcast_model.vs
//@include env/model_network_types.vs
//@include env/model_spec.vs
//@include-trusted env/model_fns.vs
//@include env/solution_types.vs
//@include env/sums.vs
//@include-trusted env/dist_ops.vs
//@include env/vsum_impls.vs
//@include env/admission_shim.vs

// =====================================================================================================
// model: limits vocabulary (text copied from slices/limits.vs, where these functions are verified)
// =====================================================================================================
/// C02: "the smaller of its vehicle type's and its route segment's maximal formation count",
/// over the limits that are present; no limit iff neither is given
pub open spec fn combined_limit(type_limit: Option<VehicleCount>, segment_limit: Option<VehicleCount>) -> Option<VehicleCount> {
    match (type_limit, segment_limit) {
        (Some(a), Some(b)) => Some(if a <= b { a } else { b }),
        (Some(a), None) => Some(a),
        (None, Some(b)) => Some(b),
        (None, None) => None,
    }
}
impl Network {
    pub open spec fn sp_trip(&self, n: NodeIdx) -> ServiceTrip { self.sp_node(n)->Service_0.1 }
    pub open spec fn is_trip(&self, n: NodeIdx) -> bool {
        self.has(n) && self.sp_node(n) is Service && self.vehicle_types.vehicle_types@.contains_key(self.sp_trip(n).vehicle_type)
    }
}
// ---- trusted stubs: verified in slice `limits` with the same contract text --------------------------
//@item model/src/network/nodes.rs ServiceTrip::passengers : trusted
//@retname r
//@sig
    ensures r == self.passengers,
//@end
//@item model/src/network/nodes.rs ServiceTrip::seated : trusted
//@retname r
//@sig
    ensures r == self.seated,
//@end
//@item model/src/network/nodes.rs Node::as_service_trip : trusted
//@retname r
//@sig
    requires self is Service,
    ensures *r == self->Service_0.1,
//@end
//@item model/src/vehicle_types.rs VehicleType::seats : trusted
//@retname r
//@sig
    ensures r == self.seats,
//@end
//@item model/src/vehicle_types.rs VehicleType::capacity : trusted
//@retname r
//@sig
    ensures r == self.capacity,
//@end
//@item model/src/network.rs Network::vehicle_types : trusted
//@retname r
//@sig
    ensures r == self.vehicle_types,
//@end
//@item model/src/network.rs Network::track_count_of_maintenance_slot : trusted
//@retname r
//@sig
    requires self.has(maintenance_node), self.sp_node(maintenance_node) is Maintenance,
    ensures r == self.sp_node(maintenance_node)->Maintenance_0.1.track_count,
//@end
//@item model/src/network.rs Network::maximal_formation_count_for : trusted
//@retname r
//@sig
    requires self.is_trip(service_trip),
    ensures r == combined_limit(
        self.vehicle_types.vehicle_types@[self.sp_trip(service_trip).vehicle_type].maximal_formation_count,
        self.sp_trip(service_trip).maximal_formation_count), // @obl C02.maximal_formation_count_for.smaller_of_present_limits
//@end
//@item model/src/network/depot.rs Depot::total_capacity : trusted
//@retname r
//@sig
    ensures r == self.total_capacity,
//@end
//@item model/src/network/depot.rs Depot::capacity_for : trusted
//@retname r
//@sig
    ensures
        // C02: within the depot's total capacity and within the per-type capacity; types not listed never start there
        !self.allowed_types@.contains_key(vehicle_type_idx) ==> r == 0,
        self.allowed_types@.contains_key(vehicle_type_idx) ==> r <= self.total_capacity
            && (self.allowed_types@[vehicle_type_idx] is Some ==> r <= self.allowed_types@[vehicle_type_idx].unwrap())
            && (r == self.total_capacity || (self.allowed_types@[vehicle_type_idx] is Some && r == self.allowed_types@[vehicle_type_idx].unwrap())), // @obl C02.capacity_for.min_of_limits
//@end

// =====================================================================================================
// model: depot lookups of the network (verified here, verbatim bodies)
// =====================================================================================================
impl Depot {
    /// C02: the number of vehicles of a type that may start at a depot: 0 if the type is not listed,
    /// the depot's total capacity if it is listed without a limit, the smaller of both otherwise
    pub open spec fn sp_capacity_for(&self, vt: VehicleTypeIdx) -> VehicleCount {
        if !self.allowed_types@.contains_key(vt) { 0 }
        else {
            match self.allowed_types@[vt] {
                Some(c) => if c <= self.total_capacity { c } else { self.total_capacity },
                None => self.total_capacity,
            }
        }
    }
}
impl Network {
    pub open spec fn has_depot(&self, d: DepotIdx) -> bool { self.depots@.contains_key(d) }
    pub open spec fn sp_depot(&self, d: DepotIdx) -> Depot { self.depots@[d].0 }
    /// the depot a start / end depot node belongs to
    pub open spec fn sp_depot_idx_of(&self, n: NodeIdx) -> DepotIdx {
        match self.sp_node(n) {
            Node::StartDepot((_, d)) => d.depot_idx,
            Node::EndDepot((_, d)) => d.depot_idx,
            _ => arbitrary(),
        }
    }
}
//@item model/src/network/nodes.rs DepotNode::depot_idx
//@retname r
//@sig
    ensures r == self.depot_idx,
//@end
//@item model/src/network/nodes.rs Node::as_depot
//@retname r
//@sig
    requires self.sp_is_depot(),
    ensures *r == (match *self { Node::StartDepot((_, d)) => d, Node::EndDepot((_, d)) => d, _ => arbitrary() }),
//@end
//@item model/src/network.rs Network::get_depot_idx
//@retname r
//@sig
    requires self.has(node_idx), self.sp_node(node_idx).sp_is_depot(),
    ensures r == self.sp_depot_idx_of(node_idx),
//@end
//@item model/src/network.rs Network::capacity_of
//@retname r
//@sig
    requires self.has_depot(depot_idx),
    ensures r == self.sp_depot(depot_idx).sp_capacity_for(vehicle_type_idx),
//@first
        broadcast use axiom_hashmap_index_req;
//@end
//@item model/src/network.rs Network::total_capacity_of
//@retname r
//@sig
    requires self.has_depot(depot_idx),
    ensures r == self.sp_depot(depot_idx).total_capacity,
//@first
        broadcast use axiom_hashmap_index_req;
//@end
//@item model/src/network.rs Network::passengers_of
//@retname r
//@sig
    requires self.has(service_trip), self.sp_node(service_trip) is Service,
    ensures r == self.sp_trip(service_trip).passengers,
//@end
//@item model/src/network.rs Network::seated_passengers_of
//@retname r
//@sig
    requires self.has(service_trip), self.sp_node(service_trip) is Service,
    ensures r == self.sp_trip(service_trip).seated,
//@end
/// A-iter: `VehicleTypes::iter` yields the ids of `ids_sorted` in order (`self.ids_sorted.iter().cloned()`)
//@item model/src/vehicle_types.rs VehicleTypes::iter : trusted
//@ret SeqIter<VehicleTypeIdx>
//@retname r
//@sig
    ensures r@ == self.ids_sorted@,
//@end

// =====================================================================================================
// solution: Vehicle, TrainFormation
// =====================================================================================================
//@item solution/src/vehicle.rs struct Vehicle : plain
//@drop-derive Clone
//@end
//@item solution/src/train_formation.rs struct TrainFormation : plain
//@drop-derive Clone
//@end
impl Clone for TrainFormation {
    #[verifier::external_body]
    fn clone(&self) -> (r: Self)
        ensures r == *self
    { unimplemented!() }
}
impl Clone for Vehicle {
    #[verifier::external_body]
    fn clone(&self) -> (r: Self)
        ensures r == *self
    { unimplemented!() }
}

/// passenger capacity / seats of a formation: the sums over its vehicles
pub open spec fn fcap(f: Seq<Vehicle>) -> int { isum(f.map_values(|v: Vehicle| v.vehicle_type.capacity as int)) }
pub open spec fn fseats(f: Seq<Vehicle>) -> int { isum(f.map_values(|v: Vehicle| v.vehicle_type.seats as int)) }
/// position of the first vehicle with the given id (s.len() if there is none)
pub open spec fn first_pos(s: Seq<Vehicle>, v: VehicleIdx) -> int
    decreases s.len(),
{
    if s.len() == 0 { 0 } else if s[0].idx == v { 0 } else { 1 + first_pos(s.drop_first(), v) }
}
pub open spec fn has_vehicle(s: Seq<Vehicle>, v: VehicleIdx) -> bool {
    exists|i: int| 0 <= i < s.len() && #[trigger] s[i].idx == v
}
pub proof fn lemma_first_pos(s: Seq<Vehicle>, v: VehicleIdx)
    ensures
        0 <= first_pos(s, v) <= s.len(),
        forall|i: int| 0 <= i < first_pos(s, v) ==> (#[trigger] s[i]).idx != v,
        first_pos(s, v) < s.len() ==> s[first_pos(s, v)].idx == v,
        has_vehicle(s, v) <==> first_pos(s, v) < s.len(),
    decreases s.len(),
{
    if s.len() == 0 {
    } else if s[0].idx == v {
    } else {
        let t = s.drop_first();
        lemma_first_pos(t, v);
        assert forall|i: int| 0 <= i < first_pos(s, v) implies (#[trigger] s[i]).idx != v by {
            if i > 0 { assert(t[i - 1] == s[i]); }
        }
        if first_pos(s, v) < s.len() { assert(t[first_pos(t, v)] == s[first_pos(s, v)]); }
        if has_vehicle(s, v) {
            let i = choose|i: int| 0 <= i < s.len() && #[trigger] s[i].idx == v;
            assert(t[i - 1].idx == v);
        }
    }
}
pub open spec fn is_caps_of(f: Seq<Vehicle>, s: Seq<PassengerCount>) -> bool {
    s.len() == f.len() && forall|i: int| 0 <= i < s.len() ==> #[trigger] s[i] == f[i].vehicle_type.capacity
}
pub open spec fn is_seats_of(f: Seq<Vehicle>, s: Seq<PassengerCount>) -> bool {
    s.len() == f.len() && forall|i: int| 0 <= i < s.len() ==> #[trigger] s[i] == f[i].vehicle_type.seats
}
pub proof fn lemma_fcap_sum(f: Seq<Vehicle>)
    requires fcap(f) <= u32::MAX,
    ensures
        fcap(f) >= 0,
        forall|s: Seq<PassengerCount>| is_caps_of(f, s) ==> #[trigger] <u32 as VSum<u32>>::sum_req(s),
        forall|s: Seq<PassengerCount>| is_caps_of(f, s) ==> #[trigger] <u32 as VSum<u32>>::spec_sum(s) == fcap(f),
{
    lemma_isum_bounds(f.map_values(|v: Vehicle| v.vehicle_type.capacity as int), 0, u32::MAX as int);
    assert(0 * f.len() == 0);
    assert forall|s: Seq<PassengerCount>| is_caps_of(f, s) implies
        <u32 as VSum<u32>>::sum_req(s) && <u32 as VSum<u32>>::spec_sum(s) == fcap(f) by {
        assert(s.map_values(|x: u32| x as int) =~= f.map_values(|v: Vehicle| v.vehicle_type.capacity as int));
    }
}
pub proof fn lemma_fseats_sum(f: Seq<Vehicle>)
    requires fseats(f) <= u32::MAX,
    ensures
        fseats(f) >= 0,
        forall|s: Seq<PassengerCount>| is_seats_of(f, s) ==> #[trigger] <u32 as VSum<u32>>::sum_req(s),
        forall|s: Seq<PassengerCount>| is_seats_of(f, s) ==> #[trigger] <u32 as VSum<u32>>::spec_sum(s) == fseats(f),
{
    lemma_isum_bounds(f.map_values(|v: Vehicle| v.vehicle_type.seats as int), 0, u32::MAX as int);
    assert(0 * f.len() == 0);
    assert forall|s: Seq<PassengerCount>| is_seats_of(f, s) implies
        <u32 as VSum<u32>>::sum_req(s) && <u32 as VSum<u32>>::spec_sum(s) == fseats(f) by {
        assert(s.map_values(|x: u32| x as int) =~= f.map_values(|v: Vehicle| v.vehicle_type.seats as int));
    }
}

//@item solution/src/vehicle.rs Vehicle::idx
//@retname r
//@sig
    ensures r == self.idx,
//@end
//@item solution/src/vehicle.rs Vehicle::seats
//@retname r
//@sig
    ensures r == self.vehicle_type.seats,
//@end
//@item solution/src/vehicle.rs Vehicle::capacity
//@retname r
//@sig
    ensures r == self.vehicle_type.capacity,
//@end
// ---- trusted stubs: verified in slice `formation` with the same contract text -----------------------
//@item solution/src/train_formation.rs TrainFormation::replace : trusted
//@retname r
//@sig
    ensures
        // C13: "a replacing vehicle takes the replaced one's position"
        (forall|i: int| 0 <= i < self.formation@.len() ==> self.formation@[i].idx != old) ==> r is Err,
        forall|p: int| 0 <= p < self.formation@.len() && self.formation@[p].idx == old
            && (forall|i: int| 0 <= i < p ==> self.formation@[i].idx != old)
            ==> r is Ok && r.unwrap().formation@ == self.formation@.update(p, new), // @obl C13.formation.replace_keeps_position
//@end
//@item solution/src/train_formation.rs TrainFormation::remove : trusted
//@retname r
//@sig
    ensures
        // C13: "removals keep the order"
        (forall|i: int| 0 <= i < self.formation@.len() ==> self.formation@[i].idx != vehicle) ==> r is Err,
        forall|p: int| 0 <= p < self.formation@.len() && self.formation@[p].idx == vehicle
            && (forall|i: int| 0 <= i < p ==> self.formation@[i].idx != vehicle)
            ==> r is Ok && r.unwrap().formation@ == self.formation@.remove(p), // @obl C13.formation.remove_keeps_order
//@end
//@item solution/src/train_formation.rs TrainFormation::add_at_tail : trusted
//@retname r
//@sig
    ensures r.formation@ == self.formation@.push(vehicle), // @obl C13.formation.add_at_tail
//@end
//@item solution/src/train_formation.rs TrainFormation::vehicle_count : trusted
//@retname r
//@sig
    requires self.formation@.len() <= u32::MAX,
    ensures r == self.formation@.len(),
//@end
// ---- capacity / seats of a formation ----------------------------------------------------------------
//@item solution/src/train_formation.rs TrainFormation::capacity
//@retname r
//@viter
//@sig
    requires fcap(self.formation@) <= u32::MAX,
    ensures r == fcap(self.formation@), // @obl C02.formation_capacity.sum_of_vehicle_capacities
//@first
        proof { lemma_fcap_sum(self.formation@); }
//@closure-params 0
    &Vehicle
//@closure 0
    -> (c: PassengerCount) ensures c == v.vehicle_type.capacity
//@end
//@item solution/src/train_formation.rs TrainFormation::seats
//@retname r
//@viter
//@sig
    requires fseats(self.formation@) <= u32::MAX,
    ensures r == fseats(self.formation@), // @obl C02.formation_seats.sum_of_vehicle_seats
//@first
        proof { lemma_fseats_sum(self.formation@); }
//@closure-params 0
    &Vehicle
//@closure 0
    -> (c: PassengerCount) ensures c == v.vehicle_type.seats
//@end

pub mod tr {
use super::*;
use vstd::prelude::*;
use self::im::HashMap;
use crate::im_set::HashSet;
//@include env/im_shim.vs

//@item solution/src/transition.rs type CycleIdx : plain
//@end
//@item solution/src/transition/transition_cycle.rs struct TransitionCycle : plain
//@end
//@item solution/src/transition.rs struct Transition : plain
//@end
//@item solution/src/schedule.rs type DepotUsage : plain
//@end
//@item solution/src/schedule.rs struct Schedule : plain
//@drop-derive Clone
//@end

/// the abstract depot usage: (depot, type) -> (vehicles spawned there, vehicles despawned there)
pub type UsageMap = Map<(DepotIdx, VehicleTypeIdx), (HashSet<VehicleIdx>, HashSet<VehicleIdx>)>;
/// C02: "the number of vehicles [of a type] starting there"
pub open spec fn spawned_of_type(du: UsageMap, d: DepotIdx, vt: VehicleTypeIdx) -> nat {
    if du.contains_key((d, vt)) { du[(d, vt)].0@.len() } else { 0 }
}
pub open spec fn spawned_counts(du: UsageMap, d: DepotIdx, types: Seq<VehicleTypeIdx>) -> Seq<int> {
    types.map_values(|vt: VehicleTypeIdx| spawned_of_type(du, d, vt) as int)
}
/// C02: "the number of vehicles starting there": the total over the given vehicle types
pub open spec fn spawned_total(du: UsageMap, d: DepotIdx, types: Seq<VehicleTypeIdx>) -> int {
    isum(spawned_counts(du, d, types))
}
pub open spec fn is_counts_of(du: UsageMap, d: DepotIdx, types: Seq<VehicleTypeIdx>, s: Seq<VehicleCount>) -> bool {
    s.len() == types.len() && forall|i: int| 0 <= i < s.len() ==> #[trigger] s[i] == spawned_of_type(du, d, types[i])
}
pub proof fn lemma_isum_nonneg_le(s: Seq<int>, k: int)
    requires forall|i: int| 0 <= i < s.len() ==> 0 <= #[trigger] s[i], 0 <= k < s.len(),
    ensures 0 <= s[k] <= isum(s),
    decreases s.len(),
{
    let t = s.drop_last();
    assert forall|i: int| 0 <= i < t.len() implies 0 <= #[trigger] t[i] by { assert(t[i] == s[i]); }
    lemma_isum_bounds_lo(t);
    if k < t.len() {
        lemma_isum_nonneg_le(t, k);
        assert(t[k] == s[k]);
    }
}
pub proof fn lemma_isum_bounds_lo(s: Seq<int>)
    requires forall|i: int| 0 <= i < s.len() ==> 0 <= #[trigger] s[i],
    ensures 0 <= isum(s),
    decreases s.len(),
{
    if s.len() > 0 {
        let t = s.drop_last();
        assert forall|i: int| 0 <= i < t.len() implies 0 <= #[trigger] t[i] by { assert(t[i] == s[i]); }
        lemma_isum_bounds_lo(t);
    }
}
pub proof fn lemma_spawned_sum(du: UsageMap, d: DepotIdx, types: Seq<VehicleTypeIdx>)
    requires spawned_total(du, d, types) <= u32::MAX,
    ensures
        0 <= spawned_total(du, d, types),
        forall|i: int| 0 <= i < types.len() ==> spawned_of_type(du, d, #[trigger] types[i]) <= spawned_total(du, d, types),
        forall|s: Seq<VehicleCount>| is_counts_of(du, d, types, s) ==> #[trigger] <u32 as VSum<u32>>::sum_req(s),
        forall|s: Seq<VehicleCount>| is_counts_of(du, d, types, s) ==> #[trigger] <u32 as VSum<u32>>::spec_sum(s) == spawned_total(du, d, types),
{
    let c = spawned_counts(du, d, types);
    lemma_isum_bounds_lo(c);
    assert forall|i: int| 0 <= i < types.len() implies spawned_of_type(du, d, #[trigger] types[i]) <= spawned_total(du, d, types) by {
        lemma_isum_nonneg_le(c, i);
    }
    assert forall|s: Seq<VehicleCount>| is_counts_of(du, d, types, s) implies
        <u32 as VSum<u32>>::sum_req(s) && <u32 as VSum<u32>>::spec_sum(s) == spawned_total(du, d, types) by {
        assert(s.map_values(|x: u32| x as int) =~= c);
    }
}

impl Schedule {
    /// a real vehicle: not one of the dummy tours (dummies are never part of a train formation)
    pub open spec fn sp_is_dummy(&self, v: VehicleIdx) -> bool { self.dummy_tours@.contains_key(v) }
    /// the formation grows: the receiver is a real vehicle and the provider is None or a dummy
    pub open spec fn grows(&self, provider: Option<VehicleIdx>, receiver: Option<Vehicle>) -> bool {
        receiver is Some && !self.sp_is_dummy(receiver.unwrap().idx) && !(provider is Some && !self.sp_is_dummy(provider.unwrap()))
    }
    /// a real receiver takes the position of a real provider
    pub open spec fn replaces(&self, provider: Option<VehicleIdx>, receiver: Option<Vehicle>) -> bool {
        receiver is Some && !self.sp_is_dummy(receiver.unwrap().idx) && provider is Some && !self.sp_is_dummy(provider.unwrap())
    }
    /// a real provider leaves, nobody (or a dummy) takes over
    pub open spec fn shrinks(&self, provider: Option<VehicleIdx>, receiver: Option<Vehicle>) -> bool {
        !(receiver is Some && !self.sp_is_dummy(receiver.unwrap().idx)) && provider is Some && !self.sp_is_dummy(provider.unwrap())
    }
    /// C02: the number of vehicles a node may host: its tracks for a maintenance slot, the smaller of the
    /// type's and the route segment's maximal formation count for a service trip; None = unlimited
    pub open spec fn sp_node_limit(&self, node: NodeIdx) -> Option<VehicleCount> {
        match self.network.sp_node(node) {
            Node::Maintenance((_, m)) => Some(m.track_count),
            Node::Service((_, s)) => combined_limit(
                self.network.vehicle_types.vehicle_types@[s.vehicle_type].maximal_formation_count,
                s.maximal_formation_count),
            _ => None,
        }
    }
}

//@item solution/src/schedule.rs Schedule::is_dummy
//@retname r
//@sig
    ensures r == self.sp_is_dummy(vehicle),
//@end

//@item solution/src/schedule/modifications.rs Schedule::vehicle_replacement_in_train_formation
//@retname r
//@sig
    requires
        train_formations@.contains_key(node),
        self.network.has(node),
        self.network.sp_node(node) is Service ==> self.network.is_trip(node),
        train_formations@[node].formation@.len() <= u32::MAX,
    ensures
        // growth is admitted only while there is room: strictly below the limit before, within it after
        self.grows(provider, receiver_vehicle) ==>
            (r is Ok <==> (self.sp_node_limit(node) is Some ==> train_formations@[node].formation@.len() < self.sp_node_limit(node).unwrap())), // @obl C02.vehicle_replacement.growth_only_below_limit
        self.grows(provider, receiver_vehicle) && r is Ok && self.network.sp_node(node) is Maintenance ==>
            r.unwrap().formation@.len() <= self.network.sp_node(node)->Maintenance_0.1.track_count, // @obl C02.vehicle_replacement.track_count_respected
        self.grows(provider, receiver_vehicle) && r is Ok && self.network.sp_node(node) is Service ==>
            (self.sp_node_limit(node) is Some ==> r.unwrap().formation@.len() <= self.sp_node_limit(node).unwrap()), // @obl C02.vehicle_replacement.formation_count_respected
        self.grows(provider, receiver_vehicle) && r is Ok ==>
            r.unwrap().formation@ == train_formations@[node].formation@.push(receiver_vehicle.unwrap()), // @obl C02.vehicle_replacement.add_at_tail
        // replace keeps the count
        self.replaces(provider, receiver_vehicle) ==> (r is Ok <==> has_vehicle(train_formations@[node].formation@, provider.unwrap())),
        self.replaces(provider, receiver_vehicle) && r is Ok ==>
            r.unwrap().formation@ == train_formations@[node].formation@.update(
                first_pos(train_formations@[node].formation@, provider.unwrap()), receiver_vehicle.unwrap())
            && r.unwrap().formation@.len() == train_formations@[node].formation@.len(), // @obl C02.vehicle_replacement.replace_keeps_count
        // remove shrinks it by one
        self.shrinks(provider, receiver_vehicle) ==> (r is Ok <==> has_vehicle(train_formations@[node].formation@, provider.unwrap())),
        self.shrinks(provider, receiver_vehicle) && r is Ok ==>
            r.unwrap().formation@ == train_formations@[node].formation@.remove(
                first_pos(train_formations@[node].formation@, provider.unwrap()))
            && r.unwrap().formation@.len() == train_formations@[node].formation@.len() - 1, // @obl C02.vehicle_replacement.remove_shrinks_by_one
        // nothing real moves: the formation is unchanged
        !self.grows(provider, receiver_vehicle) && !self.replaces(provider, receiver_vehicle) && !self.shrinks(provider, receiver_vehicle)
            ==> r == Ok::<TrainFormation, String>(train_formations@[node]), // @obl C02.vehicle_replacement.noop_unchanged
//@closure 0
    -> (q: &TrainFormation) requires false
//@first
        proof {
            if provider is Some { lemma_first_pos(train_formations@[node].formation@, provider.unwrap()); }
        }
//@before "old_formation.replace"
                        // the position the contract of `replace` talks about (trigger term)
                        let ghost replaced = old_formation.formation@.update(first_pos(old_formation.formation@, prov), receiver_vh);
//@before "old_formation.remove"
                        let ghost removed = old_formation.formation@.remove(first_pos(old_formation.formation@, prov));
//@end

//@item solution/src/schedule.rs Schedule::number_of_vehicles_of_same_type_spawned_at_custom_usage
//@retname r
//@sig
    requires spawned_of_type(depot_usage@, depot, vehicle_type) <= u32::MAX,
    ensures r == spawned_of_type(depot_usage@, depot, vehicle_type), // @obl C02.spawned_of_same_type.count
//@closure-params 0
    &(HashSet<VehicleIdx>, HashSet<VehicleIdx>)
//@closure 0
    -> (c: usize) ensures c == p0.0@.len()
//@end

//@item solution/src/schedule.rs Schedule::number_of_vehicles_spawned_at_custom_usage
//@retname r
//@sig
    requires spawned_total(depot_usage@, depot, self.network.vehicle_types.ids_sorted@) <= u32::MAX,
    ensures r == spawned_total(depot_usage@, depot, self.network.vehicle_types.ids_sorted@), // @obl C02.spawned_total.sum_over_types
//@first
        proof { lemma_spawned_sum(depot_usage@, depot, self.network.vehicle_types.ids_sorted@); }
//@closure 0
    -> (c: VehicleCount)
    requires spawned_of_type(depot_usage@, depot, vt) <= u32::MAX
    ensures c == spawned_of_type(depot_usage@, depot, vt)
//@closure-params 1
    &(HashSet<VehicleIdx>, HashSet<VehicleIdx>)
//@closure 1
    -> (c: VehicleCount) requires p0.0@.len() <= u32::MAX ensures c == p0.0@.len()
//@end

// the non-custom variants read the schedule's own usage table (stubs: present so that a call to them type-checks)
//@item solution/src/schedule.rs Schedule::number_of_vehicles_spawned_at
//@retname r
//@sig
    requires spawned_total(self.depot_usage@, depot, self.network.vehicle_types.ids_sorted@) <= u32::MAX,
    ensures r == spawned_total(self.depot_usage@, depot, self.network.vehicle_types.ids_sorted@), // @obl C02.number_of_vehicles_spawned_at.total_over_the_schedules_own_usage
//@end
//@item solution/src/schedule.rs Schedule::number_of_vehicles_of_same_type_spawned_at
//@retname r
//@sig
    requires spawned_of_type(self.depot_usage@, depot, vehicle_type) <= u32::MAX,
    ensures r == spawned_of_type(self.depot_usage@, depot, vehicle_type), // @obl C02.number_of_vehicles_of_same_type_spawned_at.count_in_the_schedules_own_usage
//@end

//@item solution/src/schedule.rs Schedule::can_depot_spawn_vehicle_custom_usage
//@retname r
//@sig
    requires
        self.network.has(start_depot), self.network.sp_node(start_depot).sp_is_depot(),
        self.network.has_depot(self.network.sp_depot_idx_of(start_depot)),
        spawned_of_type(depot_usage@, self.network.sp_depot_idx_of(start_depot), vehicle_type) <= u32::MAX,
        spawned_total(depot_usage@, self.network.sp_depot_idx_of(start_depot), self.network.vehicle_types.ids_sorted@) <= u32::MAX,
    ensures
        r == ({
            let d = self.network.sp_depot_idx_of(start_depot);
            &&& self.network.sp_depot(d).sp_capacity_for(vehicle_type) > 0
            &&& spawned_of_type(depot_usage@, d, vehicle_type) < self.network.sp_depot(d).sp_capacity_for(vehicle_type)
            &&& spawned_total(depot_usage@, d, self.network.vehicle_types.ids_sorted@) < self.network.sp_depot(d).total_capacity
        }), // @obl C02.can_depot_spawn.iff_room_for_type_and_in_total
        // in the words of the property: after one more vehicle of this type starts there, the depot is
        // still within its total capacity and within the per-type capacity, and the type is listed
        r ==> ({
            let d = self.network.sp_depot_idx_of(start_depot);
            let dep = self.network.sp_depot(d);
            &&& dep.allowed_types@.contains_key(vehicle_type)
            &&& (dep.allowed_types@[vehicle_type] is Some ==> spawned_of_type(depot_usage@, d, vehicle_type) + 1 <= dep.allowed_types@[vehicle_type].unwrap())
            &&& spawned_total(depot_usage@, d, self.network.vehicle_types.ids_sorted@) + 1 <= dep.total_capacity
        }), // @obl C02.can_depot_spawn.within_capacities_after_spawn
//@end

//@item solution/src/schedule.rs Schedule::compute_unserved_passengers_at_node
//@retname r
//@sig
    requires
        network.has(node), network.sp_node(node) is Service,
        fcap(train_formation.formation@) <= u32::MAX, fseats(train_formation.formation@) <= u32::MAX,
    ensures
        r.0 == (if network.sp_trip(node).passengers as int > fcap(train_formation.formation@)
            { network.sp_trip(node).passengers as int - fcap(train_formation.formation@) } else { 0 }), // @obl C02.unserved_passengers.max0_demand_minus_capacity
        r.1 == (if network.sp_trip(node).seated as int > fseats(train_formation.formation@)
            { network.sp_trip(node).seated as int - fseats(train_formation.formation@) } else { 0 }), // @obl C02.unserved_passengers.max0_seated_minus_seats
//@end

// ---- C07: what the number of vehicles in a formation means for the passengers of the segment ------------
/// a formation whose vehicles all have the passenger capacity `cap` and `seats` seats (a segment is served by
/// vehicles of one type only: C01 type guard)
pub open spec fn homogeneous(f: Seq<Vehicle>, cap: int, seats: int) -> bool {
    forall|i: int| 0 <= i < f.len() ==> (#[trigger] f[i]).vehicle_type.capacity as int == cap && f[i].vehicle_type.seats as int == seats
}
/// the capacity of k equal vehicles is k times one vehicle's
pub proof fn lemma_homogeneous_capacity(f: Seq<Vehicle>, cap: int, seats: int)
    requires homogeneous(f, cap, seats),
    ensures fcap(f) == f.len() * cap, fseats(f) == f.len() * seats,
{
    let a = f.map_values(|v: Vehicle| v.vehicle_type.capacity as int);
    let b = f.map_values(|v: Vehicle| v.vehicle_type.seats as int);
    assert forall|i: int| 0 <= i < a.len() implies cap <= #[trigger] a[i] <= cap by { assert(f[i].vehicle_type.capacity as int == cap); }
    assert forall|i: int| 0 <= i < b.len() implies seats <= #[trigger] b[i] <= seats by { assert(f[i].vehicle_type.seats as int == seats); }
    lemma_isum_bounds(a, cap, cap);
    lemma_isum_bounds(b, seats, seats);
    assert(cap * a.len() == f.len() * cap) by (nonlinear_arith) requires a.len() == f.len();
    assert(seats * b.len() == f.len() * seats) by (nonlinear_arith) requires b.len() == f.len();
}
/// C07: "every departure segment is served by enough vehicles for its passengers and seated passengers": a
/// formation of at least `required` vehicles (required as in number_of_vehicles_required_to_serve: the
/// lower bound the flow stage puts on the trip) leaves nobody behind -- compute_unserved_passengers_at_node
/// then returns (0, 0) -- and a formation capped at `k < required` vehicles leaves exactly the shortfall
pub proof fn lemma_required_vehicles_serve_the_demand(f: Seq<Vehicle>, cap: int, seats: int, required: int, passengers: int, seated: int)
    requires
        homogeneous(f, cap, seats), cap >= 0, seats >= 0, required >= 0,
        required * cap >= passengers, required * seats >= seated,
    ensures
        f.len() >= required ==> fcap(f) >= passengers && fseats(f) >= seated, // @obl C07.coverage.required_vehicles_leave_nobody_behind
        fcap(f) == f.len() * cap && fseats(f) == f.len() * seats, // @obl C07.coverage.capped_formation_leaves_exactly_the_shortfall
{
    lemma_homogeneous_capacity(f, cap, seats);
    if f.len() >= required {
        assert(f.len() * cap >= required * cap) by (nonlinear_arith) requires f.len() >= required, cap >= 0;
        assert(f.len() * seats >= required * seats) by (nonlinear_arith) requires f.len() >= required, seats >= 0;
    }
}

} // mod tr
} // verus!
fn main() {}
