// slice `depot_choice`: WHICH depot a vehicle is spawned at / de-spawned at.  Verbatim bodies of
//   (1) Schedule::find_best_start_depot_for_spawning, (2) Schedule::find_best_end_depot_for_despawning
//       (solution/src/schedule/modifications.rs),
//   (3) Network::start_depots_sorted_by_distance_to, Network::end_depots_sorted_by_distance_from (model/src/network.rs),
//   (4) Schedule::reduces_spawning_at_depot_violation, Schedule::reduces_despawning_at_depot_violation (solution/src/schedule.rs)
// and the lemma lemma_spawn_keeps_depot_limits over these contracts.
//
//   C02  "for every real depot the number of vehicles starting there stays within the depot's total capacity and within the
//        per-type capacity (types not listed for a depot never start there)":
//        find_best_start_depot_for_spawning(vt, first_node, table) returns a member r of network.start_depot_nodes for which
//        can_depot_spawn_vehicle_custom_usage(r, vt, table) holds (Schedule::sp_can_spawn = verbatim the value that function is
//        verified to return in slices/admission.vs: the depot lists the type, fewer vehicles of the type than the per-type
//        capacity and fewer vehicles in total than the total capacity start there according to the GIVEN table);
//        it is the nearest such depot: no start depot node with room is nearer (dead-head distance from the depot to the start
//        location of first_node), and among equally near ones with room it is the one listed first in start_depot_nodes
//        (sort_by_key is stable);
//        lemma_spawn_keeps_depot_limits: after the new vehicle was added to the spawned set of (depot of r, vt) -- what
//        update_depot_usage does after the spawn: its postcondition usage_same_except + "v is in exactly this spawned set" --
//        the depot's per-type and total limits hold for the new table.
//   C06  the `.expect("There should be at least the overflow depot available.")` cannot panic iff SOME start depot node of the
//        network can spawn the type w.r.t. the given table (some_depot_has_room; weakest precondition: with no such node `find`
//        returns None) -- e.g. (lemma_depot_without_type_limit_suffices) a start depot node whose depot lists the type without
//        per-type limit, as the overflow depot does, and where fewer vehicles start in total than its total capacity.
//        find_best_end_depot_for_despawning is Ok iff the network has an end depot node (no panic: the error is returned).
//   C13  "If path does not end with a depot ... Similarly": find_best_end_depot_for_despawning returns the nearest member of
//        network.end_depot_nodes (dead-head distance from the end location of last_node to the depot; ties: the one listed first).
//        CAPACITIES ARE IGNORED -- this is what the code documents ("Capacties of depots are ignored",
//        reassign_end_depots_greedily) and what C02 asks for (it limits the vehicles STARTING at a depot only).
//        The sorted lists are rearrangements (same multiset) of start_depot_nodes / end_depot_nodes in ascending order of the key
//        (Network::sorted_to / sorted_from), equally distant nodes in list order (Network::ties_to / ties_from, opaque).
//        Distances: Network::dist_to(d, loc) = dead-head distance from the START location of node d to loc, dist_from(loc, d) =
//        from loc to the START location of node d (what the code reads; for a depot node start and end location coincide).
//   C09  reduces_spawning_at_depot_violation == (depot balance < 0), reduces_despawning_at_depot_violation == (balance > 0), with
//        the balance of slices/depot_usage.vs (spawned minus despawned of the schedule's own table).
//
// ASSUMPTIONS introduced / used by this slice:
//   A-std9   NEW (env/depot_choice_shim.vs): <[T]>::sort_by_key -- std: stable sort by the key; stated for a key function whose
//            contract fixes ONE key per element: result has the same multiset, is sorted w.r.t. Ord::cmp of the keys, elements
//            with equal keys keep their relative order (sorted_stable_by: ks = the keys, p = the positions in the input; the
//            order clauses only for key types whose OrdSpecImpl says obeys_cmp_spec)
//   A-iter   NEW (env/depot_choice_shim.vs): SeqIter::find (first item the predicate accepts, all items before it refused; None iff
//            all refused; `self` by value), SeqIter::rev / SeqIter::last (NOT used by the unchanged source: they keep edits that
//            search from the far end decidable; text as in env/objective_eval_shim.vs / env/fit_reassign_shim.vs);
//            env/seqiter.vs (`viter`, `copied`), R5 on `.iter()`
//   A-derive NEW (env/depot_choice_shim.vs): derived PartialOrd / Ord of Distance = order of the integer encoding denc (finite
//            distances by metres, Infinity above all); derived Clone of NodeIdx (vstd: Vec::clone of a Vec<NodeIdx> is the same
//            sequence); derived Clone of TrainFormation / Vehicle (not used)
//   A-display `{}` of VehicleTypeIdx (env/depot_choice_shim.vs; text as in env/spawn_vehicle_shim.vs), of NodeIdx (env/model_spec.vs);
//            no-op impls outside verus!
//   A-std4   Option::<&T>::copied (env/im_shim.vs); vstd: <[T]>::first, Option::expect, Vec::clone
//   R7a stubs (verified elsewhere with the SAME contract text): Schedule::can_depot_spawn_vehicle_custom_usage (admission),
//            Schedule::depot_balance (depot_usage); env/model_fns.vs (Network::node, Node::start_location / end_location,
//            Locations::distance: verified in slice `network`), env/time_ops.vs, env/dist_ops.vs included trusted
//   A-im     env/im_shim.vs (opaque im::HashMap), env/admission_shim.vs (opaque im::HashSet; its A-std5 `map[&k]` of std HashMap is
//            included but not used here)
//   plus env/broadcast_model.vs (key model of the index types).  env/depot_choice_shim.vs copies the depot-admission vocabulary
//   (Depot::sp_capacity_for, Network::{has_depot, sp_depot, sp_depot_idx_of}, spawned_of_type, spawned_counts, spawned_total) from
//   slices/admission.vs and sp_spawned / sp_despawned / sp_balance / usage_same_except from env/depot_usage_shim.vs.
//
// PRECONDITIONS the caller must guarantee:
//   * instance validity: Network::wf (dead-head matrix total on the stations; the locations of the network's nodes are locations
//     of the network); first_node / last_node are nodes of the network (`self.network.node(..)` unwraps);
//   * A-index (how Network::new fills the lists; not proved in slice network_new): start_depots_ok -- start_depot_nodes holds
//     StartDepot nodes of the network whose depot is in the network's depot table (get_depot_idx / capacity_of index it);
//     all_in_net(end_depot_nodes); for the sorted lists alone: all_in_net(list) and a location of the network;
//   * magnitude: usage_counts_small -- for the depots of the start depot nodes the table's count of the type and its total over
//     the network's types fit u32 (vehicle ids are 16 bit);
//   * C06: some_depot_has_room(vt, table) for find_best_start_depot_for_spawning (see above);
//   * depot_balance's bound (sets fit i32) for the two reduces_* functions;
//   * lemma_spawn_keeps_depot_limits: the network's type list ids_sorted is duplicate-free (otherwise one vehicle counts twice
//     in the total).
//
// NOT covered:
//   * that callers establish some_depot_has_room: spawn_vehicle_for_path / add_suitable_start_and_end_depot_to_path pass the
//     schedule's own table, improve_depots a PARTIAL table (all listed vehicles taken out); that the overflow depot always has
//     room is C17 (slices/network_new.vs, D5) and is not connected to this precondition here;
//   * C02 "Only the artificial overflow depot is exempt": the code does not exempt it, it gives it a large capacity; nothing is
//     claimed about that here;
//   * the callers' stubs of these functions (slices/spawn_vehicle.vs, slices/depot_ops.vs) carry weaker contracts WITHOUT
//     preconditions (tools/stub_sync.py reports them as differing).  The clauses of the stubs of the two find_best_* functions
//     are repeated verbatim in the contracts below; the clauses of depot_ops' stub of end_depots_sorted_by_distance_from (same
//     length, same members) follow from the multiset equality by lemma_perm_members.  The callers do not establish the new
//     preconditions yet (start_depots_ok, usage_counts_small, some_depot_has_room, Network::wf, has(first / last node));
//   * end depots: nothing about capacities or balances (none is consulted); the text of the error message.
#![feature(allocator_api)]
use vstd::prelude::*;
use std::ops::Add;
use std::ops::Sub;
use std::collections::{BTreeMap, HashMap};
use std::sync::Arc;
//@include env/display_time.rs
//@include env/display_model.rs
impl std::fmt::Display for VehicleTypeIdx { fn fmt(&self, _f: &mut std::fmt::Formatter) -> std::fmt::Result { Ok(()) } }
verus! {
//@include env/std_specs.vs
//@include env/seqiter.vs
//@include env/time_types.vs
//@include-trusted env/time_ops.vs
//@include env/model_types.vs
//@include env/broadcast_model.vs
//@include env/model_network_types.vs
//@include env/model_spec.vs
//@include-trusted env/model_fns.vs
//@include env/solution_types.vs
//@include env/tour_spec.vs
//@include env/sums.vs
//@include-trusted env/dist_ops.vs
//@include env/vsum_impls.vs
//@include env/admission_shim.vs

// ---- solution: Vehicle, TrainFormation (type definitions only; text as in slices/admission.vs) ----------------------
//@item solution/src/vehicle.rs struct Vehicle : plain
//@drop-derive Clone
//@end
//@item solution/src/train_formation.rs struct TrainFormation : plain
//@drop-derive Clone
//@end
impl Clone for TrainFormation {
    #[verifier::external_body]
    fn clone(&self) -> (r: Self)
        ensures r == *self
    { unimplemented!() }
}
impl Clone for Vehicle {
    #[verifier::external_body]
    fn clone(&self) -> (r: Self)
        ensures r == *self
    { unimplemented!() }
}

pub mod tr {
use super::*;
use vstd::prelude::*;
use self::im::HashMap;
use crate::im_set::HashSet;
//@include env/im_shim.vs

//@item solution/src/transition.rs type CycleIdx : plain
//@end
//@item solution/src/transition/transition_cycle.rs struct TransitionCycle : plain
//@end
//@item solution/src/transition.rs struct Transition : plain
//@end
//@item solution/src/schedule.rs type DepotUsage : plain
//@end
//@item solution/src/schedule.rs struct Schedule : plain
//@drop-derive Clone
//@end
//@include env/depot_choice_shim.vs

// =====================================================================================================
// (3) the depot node lists in ascending order of the distance
// =====================================================================================================
//@item model/src/network.rs Network::start_depots_sorted_by_distance_to
//@retname r
//@sig
    requires self.wf(), self.locations.has(location), all_in_net(self, self.start_depot_nodes@),
    ensures
        // a rearrangement of the start depot nodes ...
        r@.to_multiset() == self.start_depot_nodes@.to_multiset(), // @obl C02.start_depots_sorted.rearrangement_of_start_depot_nodes
        // ... in ascending order of the dead-head distance from the node to the location; equally distant nodes in list order
        self.sorted_to(r@, location), // @obl C02.start_depots_sorted.ascending_distance_to_location
        self.ties_to(r@, location), // @obl C02.start_depots_sorted.ties_in_list_order
//@closure-params? 0
    &NodeIdx
//@closure? 0
    -> (k: Distance) requires self.has(*p0) ensures k == self.dist_to(*p0, location) /* @obl C02.start_depots_sorted.ascending_distance_to_location */
//@after "let mut depots"
        let ghost list = self.start_depot_nodes@;
        proof {
            assert(depots@ =~= list); // @obl C02.start_depots_sorted.rearrangement_of_start_depot_nodes
            reveal(Network::ties_to);
        }
//@end
//@item model/src/network.rs Network::end_depots_sorted_by_distance_from
//@retname r
//@sig
    requires self.wf(), self.locations.has(location), all_in_net(self, self.end_depot_nodes@),
    ensures
        r@.to_multiset() == self.end_depot_nodes@.to_multiset(), // @obl C13.end_depots_sorted.rearrangement_of_end_depot_nodes
        // ... in ascending order of the dead-head distance from the location to the node; equally distant nodes in list order
        self.sorted_from(r@, location), // @obl C13.end_depots_sorted.ascending_distance_from_location
        self.ties_from(r@, location), // @obl C13.end_depots_sorted.ties_in_list_order
//@closure-params? 0
    &NodeIdx
//@closure? 0
    -> (k: Distance) requires self.has(*p0) ensures k == self.dist_from(location, *p0) /* @obl C13.end_depots_sorted.ascending_distance_from_location */
//@after "let mut depots"
        let ghost list = self.end_depot_nodes@;
        proof {
            assert(depots@ =~= list); // @obl C13.end_depots_sorted.rearrangement_of_end_depot_nodes
            reveal(Network::ties_from);
        }
//@end

// =====================================================================================================
// R7a stubs: verified elsewhere with the same contract text
// =====================================================================================================
// verified in slice admission; contract text copied from there
//@item solution/src/schedule.rs Schedule::can_depot_spawn_vehicle_custom_usage : trusted
//@retname r
//@sig
    requires
        self.network.has(start_depot), self.network.sp_node(start_depot).sp_is_depot(),
        self.network.has_depot(self.network.sp_depot_idx_of(start_depot)),
        spawned_of_type(depot_usage@, self.network.sp_depot_idx_of(start_depot), vehicle_type) <= u32::MAX,
        spawned_total(depot_usage@, self.network.sp_depot_idx_of(start_depot), self.network.vehicle_types.ids_sorted@) <= u32::MAX,
    ensures
        r == ({
            let d = self.network.sp_depot_idx_of(start_depot);
            &&& self.network.sp_depot(d).sp_capacity_for(vehicle_type) > 0
            &&& spawned_of_type(depot_usage@, d, vehicle_type) < self.network.sp_depot(d).sp_capacity_for(vehicle_type)
            &&& spawned_total(depot_usage@, d, self.network.vehicle_types.ids_sorted@) < self.network.sp_depot(d).total_capacity
        }), // @obl C02.can_depot_spawn.iff_room_for_type_and_in_total
        // in the words of the property: after one more vehicle of this type starts there, the depot is
        // still within its total capacity and within the per-type capacity, and the type is listed
        r ==> ({
            let d = self.network.sp_depot_idx_of(start_depot);
            let dep = self.network.sp_depot(d);
            &&& dep.allowed_types@.contains_key(vehicle_type)
            &&& (dep.allowed_types@[vehicle_type] is Some ==> spawned_of_type(depot_usage@, d, vehicle_type) + 1 <= dep.allowed_types@[vehicle_type].unwrap())
            &&& spawned_total(depot_usage@, d, self.network.vehicle_types.ids_sorted@) + 1 <= dep.total_capacity
        }), // @obl C02.can_depot_spawn.within_capacities_after_spawn
//@end
// verified in slice depot_usage; contract text copied from there
//@item solution/src/schedule.rs Schedule::depot_balance : trusted
//@retname r
//@sig
    requires
        // `len() as i32`: vehicle ids are 16 bit (VehicleIdx::Vehicle(u16) | Dummy(u16)), so a set of them
        // has at most 2^17 members; stated as a bound on the table
        sp_spawned(self.depot_usage@, depot, vehicle_type).len() <= i32::MAX,
        sp_despawned(self.depot_usage@, depot, vehicle_type).len() <= i32::MAX,
    ensures
        r == sp_balance(self.depot_usage@, depot, vehicle_type), // @obl C09.depot_balance.spawned_minus_despawned
//@end
// the admission check on the schedule's OWN table (stub without contract; NOT called by the unchanged source: present so that an
// edit that consults `self.depot_usage` instead of the given table type-checks and is decided by the obligations below)
//@item solution/src/schedule.rs Schedule::can_depot_spawn_vehicle : trusted
//@end

// =====================================================================================================
// (1) the start depot a vehicle is spawned at
// =====================================================================================================
//@item solution/src/schedule/modifications.rs Schedule::find_best_start_depot_for_spawning
//@viter
//@retname r
//@sig
    requires
        // instance validity; `self.network.node(first_node)`
        self.network.wf(), self.network.has(first_node),
        // A-index: the start depot node list holds start depot nodes of the network with a depot of the depot table
        self.network.start_depots_ok(),
        // magnitude: the counts of the given table fit u32
        self.usage_counts_small(vehicle_type_idx, depot_usage@),
        // C06 "it neither panics ...": `.expect("There should be at least the overflow depot available.")` -- the weakest
        // precondition under which `find` returns Some: SOME start depot node of the network (e.g. the overflow depot's) can
        // spawn a vehicle of the type w.r.t. the given table
        self.some_depot_has_room(vehicle_type_idx, depot_usage@), // @obl C06.find_best_start_depot.expect_needs_a_depot_with_room
    ensures
        // a start depot node of the network ...
        self.network.start_depot_nodes@.contains(r), // @obl C02.find_best_start_depot.chosen_depot_has_room
        // ... C02 "the number of vehicles starting there stays within the depot's total capacity and within the per-type capacity
        // (types not listed for a depot never start there)": can_depot_spawn_vehicle_custom_usage(r, type, GIVEN table) holds
        self.sp_can_spawn(r, vehicle_type_idx, depot_usage@), // @obl C02.find_best_start_depot.chosen_depot_has_room
        // the FIRST such depot in the distance order: no start depot node with room is nearer to the start location of first_node ...
        forall|d: NodeIdx| self.network.start_depot_nodes@.contains(d) && #[trigger] self.sp_can_spawn(d, vehicle_type_idx, depot_usage@)
            ==> dist_le(self.network.dist_to(r, self.network.sp_node(first_node).sp_start_location()),
                        self.network.dist_to(d, self.network.sp_node(first_node).sp_start_location())), // @obl C02.find_best_start_depot.nearest_depot_with_room
        // ... and of the equally near ones with room it is the one listed first
        forall|d: NodeIdx| self.network.start_depot_nodes@.contains(d) && #[trigger] self.sp_can_spawn(d, vehicle_type_idx, depot_usage@) && d != r
            && self.network.dist_to(d, self.network.sp_node(first_node).sp_start_location()) == self.network.dist_to(r, self.network.sp_node(first_node).sp_start_location())
            ==> listed_before(self.network.start_depot_nodes@, r, d), // @obl C02.find_best_start_depot.nearest_depot_with_room
//@closure 0
    -> (b: bool)
    requires self.spawn_check_pre(*depot, vehicle_type_idx, depot_usage@)
    ensures b == self.sp_can_spawn(*depot, vehicle_type_idx, depot_usage@) /* @obl C02.find_best_start_depot.chosen_depot_has_room */
//@before "let start_depot"
        let ghost loc = start_location;
        proof {
            lemma_node_locations(&self.network, first_node);
            assert(all_in_net(&self.network, self.network.start_depot_nodes@));
            // whatever list of the start depot nodes in ascending distance is searched: the admission check may be asked for
            // every item, some item is accepted (C06), and the first accepted item is the nearest start depot with room (C02)
            assert forall|s: Seq<NodeIdx>| s.to_multiset() == self.network.start_depot_nodes@.to_multiset() && #[trigger] self.network.sorted_to(s, loc) && self.network.ties_to(s, loc)
                implies self.choice_facts(s, vehicle_type_idx, loc, depot_usage@) by {
                lemma_choice(self, s, vehicle_type_idx, loc, depot_usage@); // @obl C02.find_best_start_depot.nearest_depot_with_room
            }
            // the items of `.iter().copied()` are that list
            assert forall|s: Seq<NodeIdx>, c: Seq<NodeIdx>| #![trigger self.network.sorted_to(s, loc), c.len()]
                c.len() == s.len() && (forall|i: int| 0 <= i < c.len() ==> #[trigger] c[i] == s[i]) implies c == s by { assert(c =~= s); }
        }
//@end

// =====================================================================================================
// (2) the end depot a vehicle is de-spawned at
// =====================================================================================================
//@item solution/src/schedule/modifications.rs Schedule::find_best_end_depot_for_despawning
//@retname r
//@sig
    requires
        // instance validity; `self.network.node(last_node)`; A-index: the end depot node list holds nodes of the network
        self.network.wf(), self.network.has(last_node), all_in_net(&self.network, self.network.end_depot_nodes@),
    ensures
        r is Ok ==> self.network.end_depot_nodes@.contains(r->Ok_0), // @obl C13.find_best_end_depot.member_of_end_depot_nodes
        // C06: no panic; refused iff the network has no end depot node
        r is Ok <==> self.network.end_depot_nodes@.len() > 0, // @obl C06.find_best_end_depot.ok_iff_an_end_depot_exists
        // the nearest end depot node, whatever its capacity or balance: none is nearer to the end location of last_node ...
        r is Ok ==> forall|d: NodeIdx| #[trigger] self.network.end_depot_nodes@.contains(d)
            ==> dist_le(self.network.dist_from(self.network.sp_node(last_node).sp_end_location(), r->Ok_0),
                        self.network.dist_from(self.network.sp_node(last_node).sp_end_location(), d)), // @obl C13.find_best_end_depot.nearest_end_depot_capacities_ignored
        // ... and of the equally near ones it is the one listed first
        r is Ok ==> forall|d: NodeIdx| #[trigger] self.network.end_depot_nodes@.contains(d) && d != r->Ok_0
            && self.network.dist_from(self.network.sp_node(last_node).sp_end_location(), d) == self.network.dist_from(self.network.sp_node(last_node).sp_end_location(), r->Ok_0)
            ==> listed_before(self.network.end_depot_nodes@, r->Ok_0, d), // @obl C13.find_best_end_depot.nearest_end_depot_capacities_ignored
//@before "let end_depot"
        proof {
            lemma_node_locations(&self.network, last_node);
            // whatever list of the end depot nodes in ascending distance is asked for its first item
            assert forall|s: Seq<NodeIdx>| s.to_multiset() == self.network.end_depot_nodes@.to_multiset() && #[trigger] self.network.sorted_from(s, end_location) && self.network.ties_from(s, end_location)
                implies s.len() == self.network.end_depot_nodes@.len() && (s.len() > 0 ==> self.network.nearest_end_depot(s[0], end_location)) by {
                lemma_first_is_nearest(&self.network, s, end_location); // @obl C13.find_best_end_depot.nearest_end_depot_capacities_ignored
            }
        }
//@end

// =====================================================================================================
// (4) does one more spawn / de-spawn at the depot reduce the depot balance violation
// =====================================================================================================
//@item solution/src/schedule.rs Schedule::reduces_spawning_at_depot_violation
//@retname r
//@sig
    requires
        sp_spawned(self.depot_usage@, depot, vehicle_type).len() <= i32::MAX,
        sp_despawned(self.depot_usage@, depot, vehicle_type).len() <= i32::MAX,
    ensures
        // more vehicles of the type end at the depot than start there
        r == (sp_balance(self.depot_usage@, depot, vehicle_type) < 0), // @obl C09.reduces_spawning_violation.iff_negative_balance
//@end
//@item solution/src/schedule.rs Schedule::reduces_despawning_at_depot_violation
//@retname r
//@sig
    requires
        sp_spawned(self.depot_usage@, depot, vehicle_type).len() <= i32::MAX,
        sp_despawned(self.depot_usage@, depot, vehicle_type).len() <= i32::MAX,
    ensures
        // more vehicles of the type start at the depot than end there
        r == (sp_balance(self.depot_usage@, depot, vehicle_type) > 0), // @obl C09.reduces_despawning_violation.iff_positive_balance
//@end

// =====================================================================================================
// C06: when is the precondition of find_best_start_depot_for_spawning met -- "at least the overflow depot"
// =====================================================================================================
/// A start depot node n of the network whose depot lists the type WITHOUT a per-type limit (the overflow depot lists every type
/// of the network so: slices/network_new.vs, C17.overflow_depot.no_per_type_limit_for_any_type) can spawn a vehicle of the type
/// as long as fewer vehicles start there in total than its total capacity -- then `expect` cannot panic.
pub proof fn lemma_depot_without_type_limit_suffices(s: &Schedule, n: NodeIdx, vehicle_type: VehicleTypeIdx, du: UsageMap)
    requires
        s.network.start_depot_nodes@.contains(n),
        // the type is one of the network's types (the total is the sum over them)
        s.network.vehicle_types.ids_sorted@.contains(vehicle_type),
        ({
            let d = s.network.sp_depot_idx_of(n);
            let dep = s.network.sp_depot(d);
            &&& dep.allowed_types@.contains_key(vehicle_type) && dep.allowed_types@[vehicle_type] is None
            &&& spawned_total(du, d, s.network.vehicle_types.ids_sorted@) < dep.total_capacity
        }),
    ensures
        s.sp_can_spawn(n, vehicle_type, du),
        s.some_depot_has_room(vehicle_type, du), // @obl C06.find_best_start_depot.a_depot_without_type_limit_and_room_in_total_suffices
{
    let d = s.network.sp_depot_idx_of(n);
    let types = s.network.vehicle_types.ids_sorted@;
    let c = spawned_counts(du, d, types);
    let k = choose|k: int| 0 <= k < types.len() && types[k] == vehicle_type;
    lemma_isum_nonneg_le(c, k);
    assert(c[k] == spawned_of_type(du, d, vehicle_type));
    let sdn = s.network.start_depot_nodes@;
    let i = choose|i: int| 0 <= i < sdn.len() && sdn[i] == n;
    assert(s.sp_can_spawn(sdn[i], vehicle_type, du));
}

// =====================================================================================================
// C02: the depot limits still hold after the vehicle was booked at the chosen depot
// =====================================================================================================
/// `s` = a schedule, `n` = the start depot node find_best_start_depot_for_spawning(vt, _, du0) returned (first two
/// requirements = its postcondition), `can` = what can_depot_spawn_vehicle_custom_usage(n, vt, du0) returns (third and fourth
/// requirement = its verified postcondition, slices/admission.vs, copied).  du1 = the table after update_depot_usage booked the
/// new vehicle v: its postcondition usage_same_except, and v starts at (depot of n, vt) only.  Then, w.r.t. du1, the depot
/// hosts at most capacity_for(vt) vehicles of the type -- within the per-type limit and the total capacity, and the type is
/// listed -- and at most total_capacity vehicles in total.
pub proof fn lemma_spawn_keeps_depot_limits(s: &Schedule, n: NodeIdx, vehicle_type: VehicleTypeIdx, du0: UsageMap, du1: UsageMap, v: VehicleIdx, can: bool)
    requires
        // find_best_start_depot_for_spawning
        s.network.start_depot_nodes@.contains(n),
        s.sp_can_spawn(n, vehicle_type, du0),
        // can_depot_spawn_vehicle_custom_usage (ensures, verbatim, with r := can, start_depot := n, depot_usage@ := du0)
        can == ({
            let d = s.network.sp_depot_idx_of(n);
            &&& s.network.sp_depot(d).sp_capacity_for(vehicle_type) > 0
            &&& spawned_of_type(du0, d, vehicle_type) < s.network.sp_depot(d).sp_capacity_for(vehicle_type)
            &&& spawned_total(du0, d, s.network.vehicle_types.ids_sorted@) < s.network.sp_depot(d).total_capacity
        }),
        can ==> ({
            let d = s.network.sp_depot_idx_of(n);
            let dep = s.network.sp_depot(d);
            &&& dep.allowed_types@.contains_key(vehicle_type)
            &&& (dep.allowed_types@[vehicle_type] is Some ==> spawned_of_type(du0, d, vehicle_type) + 1 <= dep.allowed_types@[vehicle_type].unwrap())
            &&& spawned_total(du0, d, s.network.vehicle_types.ids_sorted@) + 1 <= dep.total_capacity
        }),
        // update_depot_usage: nobody else moves; v starts at the chosen depot with its type and nowhere else
        usage_same_except(du0, du1, v),
        forall|d: DepotIdx, vt: VehicleTypeIdx| (#[trigger] sp_spawned(du1, d, vt)).contains(v) <==> (d == s.network.sp_depot_idx_of(n) && vt == vehicle_type),
        // A-types: the network lists every vehicle type once
        s.network.vehicle_types.ids_sorted@.no_duplicates(),
    ensures
        ({
            let d = s.network.sp_depot_idx_of(n);
            let dep = s.network.sp_depot(d);
            // "within the per-type capacity (types not listed for a depot never start there)"
            &&& spawned_of_type(du1, d, vehicle_type) <= dep.sp_capacity_for(vehicle_type)
            &&& dep.allowed_types@.contains_key(vehicle_type)
            &&& (dep.allowed_types@[vehicle_type] is Some ==> spawned_of_type(du1, d, vehicle_type) <= dep.allowed_types@[vehicle_type].unwrap())
            // "within the depot's total capacity"
            &&& spawned_total(du1, d, s.network.vehicle_types.ids_sorted@) <= dep.total_capacity
        }), // @obl C02.spawn.depot_limits_hold_after_adding_the_vehicle
{
    let d = s.network.sp_depot_idx_of(n);
    let types = s.network.vehicle_types.ids_sorted@;
    let a = spawned_counts(du0, d, types);
    let b = spawned_counts(du1, d, types);
    // per type: the set of the chosen (depot, type) gains v, the sets of the depot's other types gain nothing
    assert forall|vt: VehicleTypeIdx| spawned_of_type(du1, d, vt) <= #[trigger] spawned_of_type(du0, d, vt) + (if vt == vehicle_type { 1int } else { 0int }) by {
        let s0 = sp_spawned(du0, d, vt);
        let s1 = sp_spawned(du1, d, vt);
        assert(spawned_of_type(du0, d, vt) == s0.len() && spawned_of_type(du1, d, vt) == s1.len());
        if vt == vehicle_type {
            assert forall|u: VehicleIdx| s1.contains(u) implies #[trigger] s0.insert(v).contains(u) by {
                if u != v { assert(sp_spawned(du1, d, vt).contains(u) <==> sp_spawned(du0, d, vt).contains(u)); }
            }
            assert(s1.subset_of(s0.insert(v)));
            vstd::set_lib::lemma_len_subset(s1, s0.insert(v));
        } else {
            assert forall|u: VehicleIdx| s1.contains(u) implies #[trigger] s0.contains(u) by {
                assert(sp_spawned(du1, d, vt).contains(v) <==> (d == s.network.sp_depot_idx_of(n) && vt == vehicle_type));
                assert(u != v);
                assert(sp_spawned(du1, d, vt).contains(u) <==> sp_spawned(du0, d, vt).contains(u));
            }
            assert(s1.subset_of(s0));
            vstd::set_lib::lemma_len_subset(s1, s0);
        }
    }
    // in total: the type is listed at most once
    let k = if types.contains(vehicle_type) { choose|k: int| 0 <= k < types.len() && types[k] == vehicle_type } else { -1int };
    assert forall|i: int| 0 <= i < a.len() && i != k implies #[trigger] b[i] <= a[i] by {
        assert(types[i] != vehicle_type) by {
            if types[i] == vehicle_type { assert(types.contains(vehicle_type)); assert(types[k] == vehicle_type && i != k); }
        }
        assert(spawned_of_type(du1, d, types[i]) <= spawned_of_type(du0, d, types[i]) + 0);
    }
    if 0 <= k < a.len() {
        assert(spawned_of_type(du1, d, types[k]) <= spawned_of_type(du0, d, types[k]) + 1);
    }
    lemma_isum_one_more(a, b, k);
    assert(spawned_of_type(du1, d, vehicle_type) <= spawned_of_type(du0, d, vehicle_type) + 1);
}

} // mod tr
} // verus!
fn main() {}
