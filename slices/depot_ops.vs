// slice `depot_ops`: the depot-only operations of a schedule (solution/src/schedule/modifications.rs), verbatim bodies of
//   (1) Schedule::reassign_end_depots_greedily, (2) Schedule::recompute_transitions_for and its worker
//   Schedule::recompute_transitions_and_violation_fast, (3) Schedule::improve_depots and Schedule::improve_depots_of_tour.
//
//   C13  "depot-only operations change no activity, and all other vehicles' tours, formations elsewhere and the input schedule
//        itself stay untouched":
//        reassign_end_depots_greedily: every vehicle's new tour is the old one with (possibly) another END depot node (a member
//        of network.end_depot_nodes) -- start depot and all activities unchanged, in order (only_end_depot_differs), a valid
//        tour with exact caches; Err iff there is a vehicle and the network has no end depot node;
//        improve_depots_of_tour / improve_depots: a listed vehicle's new tour has the old inner nodes in the same order, only the
//        first / last node may differ (depots_replaced, same_activities; the new depot nodes are members of the network's
//        start / end depot node lists); vehicles that are not listed keep their tours;
//        all three (and recompute_transitions_for): vehicles, dummy tours, both listings, train formations, unserved passengers,
//        the counter and the network are the input's; recompute_transitions_for also keeps tours, depot usage and costs.
//   C09  "cached aggregates equal recomputation": new costs = old costs - sum of the old + sum of the new tour costs of the
//        touched vehicles; the depot usage table is exact (usage_exact) for the new tours given it was exact before -- for
//        improve_depots this is proved for the code that first takes ALL listed vehicles out of the table and then puts them
//        back one by one: loop invariant usage_partial = "improve_depots_of_tour is consulted with a table that is exact for all
//        unlisted vehicles and for the listed vehicles processed so far (at their NEW depots) and does not contain the listed
//        vehicles still to come";  maintenance violation / rotation cycles: recompute_transitions_and_violation_fast puts
//        Transition::new_fast(id list of the type, the given tours) under every listed type, leaves the other types alone and
//        keeps `maintenance_violation == sum over all types` (rc_post; duplicates in the type list are harmless); improve_depots
//        (Some) has the postcondition of update_transitions_and_violation_fast (upd_post, text of slices/sched_guard.vs).
//   C02 / C10  depot limits: improve_depots_of_tour -- the new start depot node could spawn a vehicle of the type w.r.t. the GIVEN
//        usage table (sp_can_spawn: the depot lists the type and has room per type and in total; best_start_depot: it is the
//        nearest start depot node that can), from the contract under which slice depot_choice verifies
//        find_best_start_depot_for_spawning.  improve_depots hands it the partial table described above; NOTHING is claimed about
//        the depot limits w.r.t. the final table of improve_depots.  reassign_end_depots_greedily documents "Capacties of depots
//        are ignored"; end depots are chosen without looking at capacities.
//   C13  WHICH depot: improve_depots_of_tour / reassign_end_depots_greedily put the end depot node NEAREST to the end location of
//        the last activity (nearest_end_depot / end_is_nearest: dead-head distance, ties: the one listed first), from the verified
//        contracts of find_best_end_depot_for_despawning / Network::end_depots_sorted_by_distance_from (slices/depot_choice.vs).
//   C06  `expect("There should be at least the overflow depot available.")` inside find_best_start_depot_for_spawning cannot panic
//        under the preconditions some_depot_has_room (improve_depots_of_tour) / dp_room_ok (improve_depots), see PRECONDITIONS.
//   C10 / C09 / C11  CLOSURE -- the induction step "after any sequence of schedule modifications": the result of every function
//        satisfies the SCHEDULE-INVARIANT part of its own precondition bundle again (obligations C10.<fn>.result_satisfies_the_
//        schedule_invariants_again), derived from the bundle of the input and the EFFECT clauses of the contract by lemmas of
//        env/depot_ops_shim.vs (last section; lemma_close_dp_end_reassigned / lemma_close_dp_improved / lemma_close_dp_same /
//        lemma_rc_closure / lemma_close_transitions_listed take exactly the effect clauses as hypotheses).
//        "Schedule invariant" = dp_ok, rc_base(.., all types / the given types), dp_transitions_ok(n); "about the arguments / the
//        operation" (NOT closed) = listed_ok, dp_room_ok (the partial tables of THIS call), dp_counter_ok / rebuilt_small /
//        rebuilt_all_small (A-counter, quantified over the possible results), `vehicles is Some / None`.
//        * dp_ok (reassign_end_depots_greedily, improve_depots; recompute_transitions_for: `self.dp_ok() ==> r.dp_ok()`): instance
//          validity (same network; improve_depots also: an end depot exists, start_depots_ok), listings (sched_vehicles(r) ==
//          sched_vehicles(self): A-iter frame axiom, see ASSUMPTIONS; duplicate-free, <= 2^17, lists exactly the vehicles with a
//          tour), ids / tours (every vehicle stored under its id, valid real tour of the network, exact caches, A-len), tours' costs
//          <= costs (for improve_depots(Some) by lemma_costs_rest: the unlisted tours are untouched), usage table exact:
//          UNCONDITIONAL (dp_ok_but_cost_bound).  The magnitude `costs <= 2^61` is NOT an invariant of the operations (a tour's
//          costs may grow by one / two legs' costs): `r.costs <= sched_cost_bound() ==> r.dp_ok()`.
//        * rc_base (recompute_transitions_and_violation_fast, recompute_transitions_for, reassign_end_depots_greedily,
//          improve_depots(None)): the network's types duplicate-free and exactly the keys of the transitions, every listed type
//          has an id list, every listed id has a (new) tour, violation == sum: UNCONDITIONAL (rc_struct).  The two magnitude
//          conjuncts are NOT inductive as the bundle is written (rc_base does not relate the number of vehicles in a transition to
//          the length of the id list): `violation <= 2^41 * vehicles of the transition` under lens_cover (hypothesis on the
//          RESULT: every rebuilt transition holds at least as many vehicles as the id list lists), `at most 2^18 vehicles in
//          transitions and id lists` under lens_not_grown (every rebuilt transition holds no more vehicles than the one it
//          replaces); both together ==> rc_base.  lemma_lens_from_exact: how a caller discharges them (given_ok for the id lists:
//          the rebuilt transitions hold EXACTLY the listed vehicles; and the old ones held at least as many).
//        * dp_transitions_ok(n) (improve_depots(Some(list)), same n): all conjuncts UNCONDITIONAL, including the magnitude
//          `len_sum + n <= 2^17`: before and after, every transition holds exactly the vehicles of its type and the vehicles are
//          untouched, so it holds as many vehicles as before (counting: dpcl_lemma_total_len_is_lookup, text of env/sched_ctor_shim.vs).
//        * improve_depots_of_tour returns a tour: the tour part of its precondition (wf, real, network, caches, A-len) holds again.
//   C15 / C10  rebuilt_exact (NEW effect clause of the four functions that rebuild transitions): the transition of every listed
//        type whose id list and (new) tours meet the precondition of Transition::new_fast (given_ok) is consistent with the tours
//        (Transition::wf), holds exactly the listed vehicles, has no empty cycle slot -- from the contract slices/new_fast.vs
//        justifies, see A-stub.
//
// ASSUMPTIONS introduced / used by this slice:
//   A-stub   not verified in any slice, contract written from the body / doc comment:
//            Transition::new_fast  (result = uninterpreted spec_new_fast(ids, tours, network); requires every listed id to have a
//                 tour -- as before.  CHANGED: the stub now also carries the contract that slices/new_fast.vs justifies (see its
//                 header: verified fragments + proved composition lemma, plumbing pinned by token hash), in CONDITIONAL form
//                 `given_ok(network, tours, vehicles) ==> new_fast_post(r, ..)`: wf w.r.t. the tours, exactly the listed
//                 vehicles as members, total_len == number listed, no empty cycle slot, violation within [0, len * 2^41].
//                 given_ok (admissible tours with counters within +-2^40, no vehicle listed twice, <= 2^17 vehicles) is NOT made
//                 a precondition: the functions of this slice do not demand it of their callers (other slices stub them with the
//                 present preconditions); without it nothing but spec_new_fast is known about the result, as before);
//            Tour::last_non_depot / Tour::first_non_depot  (is_last_non_depot / is_first_non_depot: the doc comment)
//   A-iter   Schedule::vehicles_iter_all = sched_vehicles (uninterpreted order; text of slices/reassign.vs), VehicleTypes::iter =
//            ids_sorted (text of slices/admission.vs); `for x in vec.iter()`: vstd's slice iterator
//            NEW (closure): axiom_sched_vehicles_frame (env/depot_ops_shim.vs) -- sched_vehicles(a) == sched_vehicles(b) whenever the
//            two schedules have the same network vehicle types and the same vehicle_ids_grouped_and_sorted (the body of
//            vehicles_iter_all reads nothing else: `network.vehicle_types().iter()` flat-mapped over `vehicle_ids_grouped_and_
//            sorted[&vt].iter().copied()`).  Needed for EVERY listing conjunct of dp_ok of the result (sched_vehicles is
//            uninterpreted per schedule); the alternative is to take `sched_vehicles(r) == sched_vehicles(self)` as a premise.
//   R7a stubs (verified elsewhere with the SAME contract text; tools/stub_sync.py reports no difference):
//            Network::end_depots_sorted_by_distance_from, Schedule::find_best_start_depot_for_spawning,
//            Schedule::find_best_end_depot_for_despawning (depot_choice; WITH their preconditions; the vocabulary of these contracts
//            is COPIED from env/depot_choice_shim.vs into env/depot_ops_shim.vs: that file declares UsageMap / sp_spawned / ... again
//            and expects env/admission_shim.vs' im_set, so it cannot be included), Schedule::tour_of,
//            Schedule::update_depot_usage (depot_usage), Schedule::vehicle_type_of, Schedule::update_transitions_and_violation_fast
//            (sched_guard), Tour::replace_start_depot, Tour::replace_end_depot (tour_mod), Tour::start_depot, Tour::end_depot
//            (env/tour_accessors.vs); env/time_ops.vs, env/model_fns.vs, env/dist_ops.vs included trusted
//   A-im     env/im_shim.vs (im::HashMap new / get / insert / clone), env/schedule_shim.vs (opaque im::HashSet + clone); in
//            env/depot_ops_shim.vs COPIED from env/depot_usage_shim.vs (which clashes with env/schedule_shim.vs: module im_set,
//            type Vehicle; and with env/sched_guard_shim.vs: `keys`): im::HashSet {new, insert, remove}, im::HashMap `entry` +
//            Entry::or_insert, and the depot-usage vocabulary (sp_spawned .. lemma_usage_exact_step);  NEW: im::HashMap::get_mut
//            (Option of a reference INTO the map: the final map is the old one with the key bound to the final value)
//   A-derive derived Clone of Tour and of TransitionCycle are structural (env/solution_types.vs is copied into this file instead of
//            included, because the derive of Tour must be dropped to give `tour.clone()` a specification)
//   A-index  depot_nodes_ok (precondition): network.end_depot_nodes / start_depot_nodes hold EndDepot / StartDepot nodes of the
//            network (how Network::new fills them; not proved in slice network_new); Network::start_depots_ok (precondition of
//            improve_depots / improve_depots_of_tour): ... and the depots of the start depot nodes are in the network's depot table
//   A-counter (magnitudes, stated as PRECONDITIONS over uninterpreted atoms, no caller can discharge them):
//            rebuilt_small / rebuilt_all_small: the violation of a transition built by Transition::new_fast is in [0, 2^41 * number of
//            listed vehicles]; dp_counter_ok: the maintenance counter of an improved tour is within +-2^40 (needed by tour_ok in the
//            precondition of update_transitions_and_violation_fast)
//   plus env/broadcast_model.vs (key model of the index types), A-len (tour_len_ok), Network::wf.
//
// PRECONDITIONS the caller must guarantee (env/depot_ops_shim.vs, each explained there):
//   * dp_ok (all but recompute_transitions_for): Network::wf; depot_nodes_ok; sched_vehicles is duplicate-free, has at most 2^17
//     entries and lists exactly the vehicles with a tour; every such vehicle is stored under its own id and has a valid real tour
//     of the schedule's network with exact caches (the `unwrap`s of tour_of / last_non_depot / replace_*_depot / start_depot);
//     tours' costs <= costs <= 2^61; usage_exact for the input (the `.get_mut(..).unwrap().0.remove(..).unwrap()` of improve_depots
//     and the precondition of update_depot_usage);
//   * rc_base (reassign_end_depots_greedily, recompute_transitions_for, improve_depots(None)): the network's vehicle types are
//     duplicate-free and are exactly the keys of next_period_transitions (`.expect("Each vehicle type must be a key in
//     transitions.")`); every listed type is one of them and has an id list (`.get(vehicle_type).unwrap()`); every listed id has a tour
//     (`tours.get(vehicle_id).unwrap()` in new_fast); C09: maintenance_violation == sum of the transitions' violations; magnitudes:
//     each old violation <= 2^41 * vehicles of the transition, at most 2^18 vehicles in old transitions and id lists together;
//   * improve_depots: the network has an end depot node; Some(list): listed_ok -- the listed vehicles have tours ("Panics if a
//     vehicle is not a real vehicle"), the list has at most 2^17 entries and NO DUPLICATES (see finding below); dp_transitions_ok (the
//     old-schedule clauses of upd_pre: C15 / C10 / C09 for the rotation cycles; real vehicles have Vehicle-kind ids, tours and a type
//     with a transition);
//   * improve_depots_of_tour: Network::wf, depot_nodes_ok, an end depot exists; the tour is a valid real tour of the network with
//     exact caches;
//   * NEW (preconditions of find_best_start_depot_for_spawning, slices/depot_choice.vs, handed up; NOT part of dp_ok):
//       - improve_depots_of_tour: Network::start_depots_ok (A-index); for the GIVEN usage table: usage_counts_small (magnitude: the
//         count of the type and the total over the network's types at the depots of the start depot nodes fit u32) and
//         some_depot_has_room (C06 / C17: SOME start depot node of the network can spawn the type; otherwise
//         `expect("There should be at least the overflow depot available.")` panics);
//       - improve_depots: Network::start_depots_ok and dp_room_ok(listed vehicles) -- usage_counts_small and some_depot_has_room for
//         EVERY partial table the second loop can hand to improve_depots_of_tour (usage_partial + improve_progress: all listed
//         vehicles taken out, the first k put back at their new depots).  It is quantified over the tables because which depots
//         the earlier vehicles got depends on the distances; it cannot be derived from schedule validity: the overflow depot's
//         total capacity is a computed number (slices/network_new.vs, C17, D5).  lemma_depot_without_type_limit_suffices: a start
//         depot node whose depot lists the type without per-type limit (the overflow depot does) and where, according to the
//         table, fewer vehicles start in total than its total capacity suffices for some_depot_has_room;
//       - reassign_end_depots_greedily: nothing new (Network::wf, the location of the last activity, all_in_net(end_depot_nodes)
//         were established already).
//
// NOT covered:
//   * improve_depots: WHICH start depot a listed vehicle gets is not stated at the level of improve_depots (the table consulted
//     is internal: only depots_replaced -- members of the depot node lists); depot capacities (C02) w.r.t. the FINAL table;
//     that the callers establish dp_room_ok (C17 is not connected to it);
//   * what Transition::new_fast builds when its precondition given_ok is NOT met (see A-stub); that the callers meet given_ok
//     (id lists duplicate-free: C10 listing_sorted; counters within +-2^40: A-counter) -- rebuilt_exact is conditional on it;
//   * closure: the two magnitude conjuncts of rc_base only under lens_cover / lens_not_grown, `costs <= 2^61` only as a premise
//     (see CLOSURE above); NOT closed: improve_depots(Some) does not give rc_base and improve_depots(None) /
//     reassign_end_depots_greedily / recompute_transitions_for do not give dp_transitions_ok for the result (neither is in the
//     respective precondition; dp_transitions_ok would need that the id list of a type lists exactly the vehicles of the type,
//     which no bundle of this slice states); the argument-dependent clauses (dp_room_ok, listed_ok, A-counter) are not invariants;
//     error message texts;
//   * improve_depots(Some(list)) with a vehicle listed twice: the first loop's second `.remove(vehicle_id).unwrap()` panics
//     (`called Option::unwrap() on a None value`, modifications.rs:657; confirmed by a cargo test on HEAD).  The doc comment only
//     documents the panic for non-real vehicles; the callers in solver/ never pass duplicates.  Stated as precondition (listed_ok).
#![feature(allocator_api)]
use vstd::prelude::*;
use std::ops::Add;
use std::ops::Sub;
use std::collections::{BTreeMap, HashMap};
use std::sync::Arc;
//@include env/display_time.rs
//@include env/display_model.rs
verus! {
//@include env/std_specs.vs
//@include env/seqiter.vs
//@include env/time_types.vs
//@include-trusted env/time_ops.vs
//@include env/model_types.vs
//@include env/broadcast_model.vs
//@include env/model_network_types.vs
//@include env/model_spec.vs
//@include-trusted env/model_fns.vs
// env/solution_types.vs, copied (not included) because the derived Clone of Tour must be dropped to give it a specification
//@item solution/src/tour.rs type Position : plain
//@end
//@item solution/src/tour.rs struct Tour : plain
//@drop-derive Clone
//@end
// A-derive: the derived Clone of Tour is structural (a Vec, scalars, an Arc)
impl Clone for Tour {
    #[verifier::external_body]
    fn clone(&self) -> (r: Self)
        ensures r == *self
    { unimplemented!() }
}
//@item solution/src/path.rs struct Path : plain
//@end
//@item solution/src/segment.rs struct Segment : plain
//@end
//@include env/tour_spec.vs
//@include env/sums.vs
//@include-trusted env/dist_ops.vs
//@include env/vsum_impls.vs
//@include env/cache_spec.vs
//@include-proved env/cache_lemmas.vs

pub mod tr {
use super::*;
use vstd::prelude::*;
use self::im::HashMap;
use self::im_set::HashSet;
use vstd::std_specs::iter::IteratorSpec;
//@include env/im_shim.vs

//@item solution/src/transition.rs type CycleIdx : plain
//@end
//@item solution/src/transition/transition_cycle.rs struct TransitionCycle : plain
//@drop-derive Clone
//@end
impl Clone for TransitionCycle {
    #[verifier::external_body]
    fn clone(&self) -> (r: Self)
        ensures r == *self
    { unimplemented!() }
}
//@item solution/src/transition.rs struct Transition : plain
//@end
//@include env/transition_spec.vs
//@include env/schedule_shim.vs
//@include env/sched_guard_shim.vs
//@include env/depot_ops_shim.vs

// ---- small functions verified here (verbatim bodies; contract text as in the slices named) --------------
// text as in env/limits_fns.vs / slices/spawn_vehicle.vs
//@item model/src/network.rs Network::vehicle_types
//@retname r
//@sig
    ensures r == self.vehicle_types,
//@end
// text as in slices/depot_usage.vs / slices/sched_guard.vs
//@item solution/src/transition.rs Transition::maintenance_violation
//@retname r
//@sig
    ensures r == self.total_maintenance_violation,
//@end
// text as in slices/depot_usage.vs / slices/spawn_vehicle.vs
//@item solution/src/tour.rs Tour::costs
//@retname r
//@sig
    ensures r == self.costs,
//@end
// text as in slices/reassign.vs / slices/spawn_vehicle.vs / slices/remove_segment.vs / slices/override_reassign.vs
//@item solution/src/schedule.rs Schedule::new
//@retname r
//@sig
    ensures
        r.vehicles == vehicles, r.tours == tours, r.next_period_transitions == next_period_transitions,
        r.train_formations == train_formations, r.depot_usage == depot_usage, r.dummy_tours == dummy_tours,
        r.vehicle_counter == vehicle_counter, r.vehicle_ids_grouped_and_sorted == vehicle_ids_grouped_and_sorted,
        r.dummy_ids_sorted == dummy_ids_sorted, r.unserved_passengers == unserved_passengers,
        r.maintenance_violation == maintenance_violation, r.costs == costs, r.network == network,
//@end

// ---- A-iter stubs (text as in slices/admission.vs, slices/reassign.vs) ---------------------------------------
/// A-iter: `VehicleTypes::iter` yields the ids of `ids_sorted` in order (`self.ids_sorted.iter().cloned()`)
//@item model/src/vehicle_types.rs VehicleTypes::iter : trusted
//@ret SeqIter<VehicleTypeIdx>
//@retname r
//@sig
    ensures r@ == self.ids_sorted@,
//@end
/// A-iter: `Schedule::vehicles_iter_all` yields the vehicles in the order `sched_vehicles` names (uninterpreted: per
/// vehicle type of the network, the type's sorted id list)
//@item solution/src/schedule.rs Schedule::vehicles_iter_all : trusted
//@ret SeqIter<VehicleIdx>
//@retname r
//@sig
    ensures r@ == sched_vehicles(self),
//@end

// ---- R7a stubs: verified elsewhere with the same contract text ----------------------------------------------------
// verified in slice depot_usage; contract text copied from there
//@item solution/src/schedule.rs Schedule::tour_of : trusted
//@retname r
//@sig
    ensures
        self.tours@.contains_key(vehicle) ==> r is Ok && *r->Ok_0 == self.tours@[vehicle],
        !self.tours@.contains_key(vehicle) && self.dummy_tours@.contains_key(vehicle) ==> r is Ok && *r->Ok_0 == self.dummy_tours@[vehicle],
        !self.tours@.contains_key(vehicle) && !self.dummy_tours@.contains_key(vehicle) ==> r is Err,
//@end
// verified in slice tour_mod; contract text copied from there
//@item solution/src/tour/modifications.rs Tour::replace_end_depot : trusted
//@retname r
//@sig
    requires self.wf(), self.caches_ok(), self.network.has(new_end_depot), tour_len_ok(self.nodes@),
    ensures
        r is Ok <==> !self.is_dummy && self.network.sp_node(new_end_depot) is EndDepot,
        r is Ok ==> r->Ok_0.nodes@ == self.nodes@.update(self.len() - 1, new_end_depot) && r->Ok_0.is_dummy == self.is_dummy && r->Ok_0.network == self.network, // @obl C05.replace_end_depot.only_end_depot_changes
        r is Ok ==> r->Ok_0.wf(), // @obl C01.replace_end_depot.wf
        r is Ok ==> r->Ok_0.caches_ok(), // @obl C09.replace_end_depot.caches
//@end
// verified in slice depot_usage; contract text copied from there
//@item solution/src/schedule/modifications.rs Schedule::update_depot_usage : trusted
//@sig
    requires
        // part of C10 for the old schedule and for the new maps: a vehicle is stored under its own id, a
        // real vehicle has a real tour, and an id keeps its vehicle type
        self.sp_is_vehicle(vehicle_idx) ==> self.vehicles@[vehicle_idx].idx == vehicle_idx && self.real_tour_ok(vehicle_idx),
        vehicles@.contains_key(vehicle_idx) ==> vehicles@[vehicle_idx].idx == vehicle_idx,
        vehicles@.contains_key(vehicle_idx) && tours@.contains_key(vehicle_idx) ==> tour_of_net(&self.network, &tours@[vehicle_idx]),
        vehicles@.contains_key(vehicle_idx) && self.sp_is_vehicle(vehicle_idx) ==>
            vehicles@[vehicle_idx].vehicle_type.idx == self.vehicles@[vehicle_idx].vehicle_type.idx,
        // C09 before the step: the table is exact for this vehicle in the OLD schedule (`self`); in
        // particular this bookkeeping step runs once per vehicle and modification
        usage_exact_for(old(depot_usage)@, &self.network, self.vehicles@, self.tours@, vehicle_idx),
    ensures
        usage_exact_for(final(depot_usage)@, &self.network, vehicles@, tours@, vehicle_idx), // @obl C09.depot_usage.exact_for_vehicle_in_new_schedule
        usage_same_except(old(depot_usage)@, final(depot_usage)@, vehicle_idx), // @obl C09.depot_usage.other_vehicles_untouched
//@end

// ---- A-stub: not verified in any slice, contract written from the body / the doc comment --------------------------
/// "returns the last non-depot (service node or maintenance node) of the tour, ignoring depot.  If the tour does only
/// contain depots None is returned."
//@item solution/src/tour.rs Tour::last_non_depot : trusted
//@retname r
//@sig
    requires all_in_net(&self.network, self.nodes@),
    ensures is_last_non_depot(self, r),
//@end
// verified in slice depot_choice; contract text copied from there (tools/stub_sync.py).  The clauses of the former A-stub
// (same length, same members as end_depot_nodes) follow from the multiset equality: lemma_perm_members
//@item model/src/network.rs Network::end_depots_sorted_by_distance_from : trusted
//@retname r
//@sig
    requires self.wf(), self.locations.has(location), all_in_net(self, self.end_depot_nodes@),
    ensures
        r@.to_multiset() == self.end_depot_nodes@.to_multiset(), // @obl C13.end_depots_sorted.rearrangement_of_end_depot_nodes
        // ... in ascending order of the dead-head distance from the location to the node; equally distant nodes in list order
        self.sorted_from(r@, location), // @obl C13.end_depots_sorted.ascending_distance_from_location
        self.ties_from(r@, location), // @obl C13.end_depots_sorted.ties_in_list_order
//@end
/// A-stub: Transition::new_fast (= Transition::one_cluster_per_maintenance).  The result is a function of the arguments
/// (spec_new_fast: uninterpreted); precondition from the body (`tours.get(vehicle_id).unwrap()`) -- both as before.  NEW: the
/// contract slices/new_fast.vs justifies for stubs (its header: verified fragments + proved composition lemma, plumbing pinned by
/// its token hash), in CONDITIONAL form: IF the arguments meet the precondition under which that slice verifies the function
/// (given_ok: admissible tours with counters within +-2^40, no vehicle listed twice, at most 2^17 vehicles) THEN the result is
/// consistent with the tours (Transition::wf), holds exactly the listed vehicles, has no empty cycle slot and a violation within
/// [0, len * 2^41] (new_fast_post).  given_ok is NOT made a precondition here: the depot-only operations do not require it of
/// their callers (other slices stub them with the present preconditions), so what they say about the rebuilt transitions is
/// conditional, too (rebuilt_exact).
//@item solution/src/transition.rs Transition::new_fast : trusted
//@retname r
//@sig
    requires forall|j: int| 0 <= j < vehicles@.len() ==> tours@.contains_key(#[trigger] vehicles@[j]),
    ensures
        r == spec_new_fast(vehicles@, tours@, *network),
        given_ok(network, tours@, vehicles@) ==> new_fast_post(&r, network, tours@, vehicles@),
//@end

// =====================================================================================================
// recompute_transitions_and_violation_fast (verified here)
// =====================================================================================================
//@item solution/src/schedule/modifications.rs Schedule::recompute_transitions_and_violation_fast
//@viter
//@sig
    requires
        self.rc_pre(old(transitions)@, *old(maintenance_violation) as int, vehicle_ids_grouped_by_type@, tours@, vehicle_types@),
    ensures
        // the transition of every listed type is rebuilt from the type's id list and the given tours; the others are untouched
        self.rc_post(old(transitions)@, final(transitions)@, vehicle_ids_grouped_by_type@, tours@, vehicle_types@), // @obl C09.recompute_transitions.listed_types_rebuilt_others_untouched
        // C09: "the schedule's maintenance violation equals its from-scratch value"
        *final(maintenance_violation) == viol_sum(final(transitions)@, sched_types(self)), // @obl C09.recompute_transitions.violation_sum
        // C15 / C10 for the rebuilt transitions (contract of Transition::new_fast, slices/new_fast.vs): the transition of every listed
        // type whose id list / tours meet given_ok is consistent with the given tours and holds exactly the listed vehicles
        rebuilt_exact(&self.network, final(transitions)@, vehicle_ids_grouped_by_type@, tours@, vehicle_types@), // @obl C15.recompute_transitions.rebuilt_consistent_with_tours_exact_members
        // CLOSURE: rc_base holds again for the new transitions / violation.  ids / listings / violation sum (rc_struct): unconditional
        self.rc_struct(final(transitions)@, *final(maintenance_violation) as int, vehicle_ids_grouped_by_type@, tours@, vehicle_types@), // @obl C10.recompute_transitions.result_satisfies_the_schedule_invariants_again
        // magnitudes (not invariants of the operation without a hypothesis on the rebuilt transitions): violation <= 2^41 per vehicle
        // if the rebuilt transitions hold at least the listed vehicles; at most 2^18 vehicles if they hold no more than the old ones
        lens_cover(final(transitions)@, vehicle_ids_grouped_by_type@, vehicle_types@) ==> rc_viol_small(final(transitions)@), // @obl C10.recompute_transitions.result_satisfies_the_schedule_invariants_again
        lens_not_grown(old(transitions)@, final(transitions)@, vehicle_types@) ==> self.rc_cap_small(final(transitions)@, vehicle_ids_grouped_by_type@), // @obl C10.recompute_transitions.result_satisfies_the_schedule_invariants_again
        lens_cover(final(transitions)@, vehicle_ids_grouped_by_type@, vehicle_types@) && lens_not_grown(old(transitions)@, final(transitions)@, vehicle_types@)
            ==> self.rc_base(final(transitions)@, *final(maintenance_violation) as int, vehicle_ids_grouped_by_type@, tours@, vehicle_types@), // @obl C10.recompute_transitions.result_satisfies_the_schedule_invariants_again
//@first
        let ghost trs0 = transitions@;
        let ghost mv0 = *maintenance_violation as int;
        let ghost ids = vehicle_ids_grouped_by_type@;
        let ghost list = vehicle_types@;
        proof {
            assert forall|x: VehicleTypeIdx| !type_done(list, 0, x) by {}
        }
//@loop "for vehicle_type in"
            invariant
                it.snapshot@.remaining().len() == list.len(),
                forall|j: int| 0 <= j < list.len() ==> *(#[trigger] it.snapshot@.remaining()[j]) == list[j],
                0 <= it.index@ <= list.len(),
                list == vehicle_types@, ids == vehicle_ids_grouped_by_type@,
                self.rc_pre(trs0, mv0, ids, tours@, list),
                self.rc_inv(trs0, transitions@, ids, tours@, list, it.index@ as int), // @obl C09.recompute_transitions.listed_types_rebuilt_others_untouched
                forall|vt: VehicleTypeIdx| type_done(list, it.index@ as int, vt) ==> Schedule::rebuilt_small(ids, tours@, *self.network, vt),
                forall|vt: VehicleTypeIdx| type_done(list, it.index@ as int, vt) ==> rebuilt_ok(ids, tours@, *self.network, vt), // @obl C15.recompute_transitions.rebuilt_consistent_with_tours_exact_members
                *maintenance_violation == viol_sum(transitions@, sched_types(self)), // @obl C09.recompute_transitions.violation_sum
//@before "let vehicle_ids"
            let ghost k = it.index@ as int;
            let ghost trs_k = transitions@;
            let ghost vt = *vehicle_type;
            proof {
                let vts = sched_types(self);
                assert(vt == list[k]);
                assert(vts.contains(list[k]) && ids.contains_key(list[k]));
                assert(trs0.contains_key(vt) && trs_k.contains_key(vt));
                // magnitudes
                assert forall|i: int| 0 <= i < vts.len() implies 0 <= (#[trigger] trs0[vts[i]]).total_maintenance_violation <= trs0[vts[i]].total_len() * vehicle_bound() by {
                    assert(vts.contains(vts[i]));
                    assert(trs0.contains_key(vts[i]));
                }
                assert forall|i: int| 0 <= i < vts.len() implies (#[trigger] trs_k[vts[i]]) == trs0[vts[i]]
                    || 0 <= trs_k[vts[i]].total_maintenance_violation <= ids[vts[i]]@.len() * vehicle_bound() by {
                    assert(vts.contains(vts[i]));
                    assert(trs0.contains_key(vts[i]));
                    assert(trs_k.contains_key(vts[i]));
                    if type_done(list, k, vts[i]) { assert(Schedule::rebuilt_small(ids, tours@, *self.network, vts[i])); }
                }
                lemma_viol_cap(trs0, trs_k, ids, vts);
                let cs = cap_sum(trs0, ids, vts);
                assert(0 <= cs * vehicle_bound() <= 0x800_0000_0000_0000) by (nonlinear_arith)
                    requires 0 <= cs <= 0x4_0000, vehicle_bound() == 0x200_0000_0000;
                let i = choose|i: int| 0 <= i < vts.len() && vts[i] == vt;
                assert(0 <= trs0[vts[i]].total_len() + ids[vts[i]]@.len() <= cs);
                let l = ids[vt]@.len() as int;
                lemma_sum_nonneg(lens_of(trs0[vt]@.cycles));
                assert(0 <= l * vehicle_bound() <= 0x800_0000_0000_0000) by (nonlinear_arith)
                    requires 0 <= l <= 0x4_0000, vehicle_bound() == 0x200_0000_0000;
                assert forall|j: int| 0 <= j < ids[list[k]]@.len() implies tours@.contains_key(#[trigger] ids[list[k]]@[j]) by {}
            }
//@before "let old_transition"
            proof {
                assert(new_transition == rebuilt(ids, tours@, *self.network, vt));
                assert(Schedule::rebuilt_small(ids, tours@, *self.network, vt));
                assert(rebuilt_ok(ids, tours@, *self.network, vt)); // @obl C15.recompute_transitions.rebuilt_consistent_with_tours_exact_members
            }
//@after "*maintenance_violation -="
            proof {
                let vts = sched_types(self);
                lemma_type_sums_insert(trs_k, vts, vt, new_transition);
                lemma_type_done_step(list, k);
                assert(transitions@ == trs_k.insert(vt, new_transition));
                assert forall|x: VehicleTypeIdx| #[trigger] transitions@.contains_key(x) implies
                    transitions@[x] == (if type_done(list, k + 1, x) { rebuilt(ids, tours@, *self.network, x) } else { trs0[x] }) by {
                    assert(type_done(list, k + 1, x) <==> (type_done(list, k, x) || x == list[k]));
                    if x != vt { assert(trs_k.contains_key(x)); }
                }
                assert forall|x: VehicleTypeIdx| type_done(list, k + 1, x) implies Schedule::rebuilt_small(ids, tours@, *self.network, x) by {
                    assert(type_done(list, k + 1, x) <==> (type_done(list, k, x) || x == list[k]));
                }
                assert forall|x: VehicleTypeIdx| type_done(list, k + 1, x) implies rebuilt_ok(ids, tours@, *self.network, x) by {
                    assert(type_done(list, k + 1, x) <==> (type_done(list, k, x) || x == list[k]));
                }
            }
//@after "for vehicle_type in"
        proof {
            let n = list.len() as int;
            assert forall|x: VehicleTypeIdx| type_done(list, n, x) <==> list.contains(x) by {
                if type_done(list, n, x) {
                    let j = choose|j: int| 0 <= j < n && #[trigger] list[j] == x;
                    assert(list[j] == x);
                }
                if list.contains(x) {
                    let j = choose|j: int| 0 <= j < list.len() && list[j] == x;
                    assert(0 <= j < n && list[j] == x);
                }
            }
            // C15 / C10 for the rebuilt transitions
            assert(rebuilt_exact(&self.network, transitions@, ids, tours@, list)) by {
                assert forall|i: int| 0 <= i < list.len() && given_ok(&self.network, tours@, ids[#[trigger] list[i]]@)
                    implies new_fast_post(&transitions@[list[i]], &self.network, tours@, ids[list[i]]@) by {
                    assert(type_done(list, n, list[i]));
                    assert(list.contains(list[i]));
                    assert(sched_types(self).contains(list[i]));
                    assert(trs0.contains_key(list[i]) && transitions@.contains_key(list[i]));
                    assert(rebuilt_ok(ids, tours@, *self.network, list[i]));
                }
            }
            // CLOSURE of rc_base
            lemma_rc_closure(self, trs0, mv0, transitions@, *maintenance_violation as int, ids, tours@, list); // @obl C10.recompute_transitions.result_satisfies_the_schedule_invariants_again
        }
//@end

// =====================================================================================================
// (1) reassign_end_depots_greedily: "Reassigns the end depots of all vehicles greedily.  Capacties of depots are ignored."
// =====================================================================================================
//@item solution/src/schedule/modifications.rs Schedule::reassign_end_depots_greedily
//@retname r
//@sig
    requires
        self.dp_ok(),
        // the rotation cycles of all vehicle types are recomputed: what that needs of the schedule (see rc_base)
        self.rc_base(self.next_period_transitions@, self.maintenance_violation as int, self.vehicle_ids_grouped_and_sorted@, self.tours@, sched_types(self)),
        // A-counter (magnitude): whatever tours result, the rebuilt transitions' violations are at most 2^41 per vehicle
        forall|t: Map<VehicleIdx, Tour>| #[trigger] self.all_end_reassigned(t) ==> self.rebuilt_all_small(t),
    ensures
        // Err iff no end depot is found for some vehicle: there is a vehicle and the network has no end depot node
        r is Err <==> sched_vehicles(self).len() > 0 && self.network.end_depot_nodes@.len() == 0, // @obl C13.reassign_end_depots_greedily.err_iff_no_end_depot
        // C13 "depot-only operations change no activity": every vehicle keeps its start depot and all its activities in
        // order; its end depot node is a member of the network's end depot node list; the tour is valid with exact caches
        r is Ok ==> forall|v: VehicleIdx| #[trigger] self.tours@.contains_key(v) ==> self.end_reassigned(v, r->Ok_0.tours@[v]), // @obl C13.reassign_end_depots_greedily.no_activity_changes
        // C13 "Reassigns the end depots of all vehicles greedily.  Capacties of depots are ignored.": every vehicle's new end depot
        // node is the end depot node nearest to the end location of its last activity (ties: the one listed first)
        r is Ok ==> forall|v: VehicleIdx| #[trigger] self.tours@.contains_key(v) ==> self.end_is_nearest(v, r->Ok_0.tours@[v]), // @obl C13.reassign_end_depots_greedily.nearest_end_depot_capacities_ignored
        // C13 "... all other vehicles' tours, formations elsewhere and the input schedule itself stay untouched"
        r is Ok ==> r->Ok_0.tours@.dom() == self.tours@.dom()
            && r->Ok_0.dummy_tours@ == self.dummy_tours@ && r->Ok_0.vehicles@ == self.vehicles@ && r->Ok_0.train_formations@ == self.train_formations@
            && r->Ok_0.vehicle_ids_grouped_and_sorted@ == self.vehicle_ids_grouped_and_sorted@ && r->Ok_0.dummy_ids_sorted@ == self.dummy_ids_sorted@
            && r->Ok_0.vehicle_counter == self.vehicle_counter && r->Ok_0.unserved_passengers == self.unserved_passengers && r->Ok_0.network == self.network, // @obl C13.reassign_end_depots_greedily.everything_else_untouched
        // C09: the schedule's costs follow the tours' costs
        r is Ok ==> r->Ok_0.costs - tours_costs(r->Ok_0.tours@, sched_vehicles(self)) == self.costs - tours_costs(self.tours@, sched_vehicles(self)), // @obl C09.reassign_end_depots_greedily.costs_follow_tours
        // C09: the depot usage table has its from-scratch value for the new tours
        r is Ok ==> usage_exact(r->Ok_0.depot_usage@, &self.network, r->Ok_0.vehicles@, r->Ok_0.tours@), // @obl C09.reassign_end_depots_greedily.depot_usage_exact
        // C09 / C10: the transitions of all vehicle types are rebuilt from the new tours (postcondition of
        // recompute_transitions_and_violation_fast), the maintenance violation is their sum
        r is Ok ==> self.rc_post(self.next_period_transitions@, r->Ok_0.next_period_transitions@, self.vehicle_ids_grouped_and_sorted@, r->Ok_0.tours@, sched_types(self))
            && r->Ok_0.maintenance_violation == viol_sum(r->Ok_0.next_period_transitions@, sched_types(self)), // @obl C09.reassign_end_depots_greedily.transitions_recomputed
        // C15 / C10 for the rebuilt transitions (contract of Transition::new_fast, slices/new_fast.vs): the transition of every type
        // whose id list / new tours meet given_ok is consistent with the new tours and holds exactly the listed vehicles
        r is Ok ==> rebuilt_exact(&r->Ok_0.network, r->Ok_0.next_period_transitions@, r->Ok_0.vehicle_ids_grouped_and_sorted@, r->Ok_0.tours@, sched_types(&r->Ok_0)), // @obl C15.reassign_end_depots_greedily.rebuilt_consistent_with_tours_exact_members
        // CLOSURE (induction step of C10 / C09): the result satisfies the invariant bundle dp_ok + rc_base of this precondition again.
        // dp_ok -- instance validity, listings (the listing is the input's: A-iter frame), ids / tours (every vehicle stored under its
        // id with a valid real tour of the network with exact caches), costs >= the tours' costs, usage table exact: unconditional
        r is Ok ==> sched_vehicles(&r->Ok_0) == sched_vehicles(self), // @obl C10.reassign_end_depots_greedily.result_satisfies_the_schedule_invariants_again
        r is Ok ==> r->Ok_0.dp_ok_but_cost_bound(), // @obl C10.reassign_end_depots_greedily.result_satisfies_the_schedule_invariants_again
        // magnitude `costs <= 2^61`: NOT an invariant of the operation (each tour's costs may grow by one leg's costs)
        r is Ok && r->Ok_0.costs <= sched_cost_bound() ==> r->Ok_0.dp_ok(), // @obl C10.reassign_end_depots_greedily.result_satisfies_the_schedule_invariants_again
        // rc_base -- types / one transition per type / id lists / listed ids have tours / violation sum: unconditional
        r is Ok ==> r->Ok_0.rc_struct(r->Ok_0.next_period_transitions@, r->Ok_0.maintenance_violation as int, r->Ok_0.vehicle_ids_grouped_and_sorted@, r->Ok_0.tours@, sched_types(&r->Ok_0)), // @obl C10.reassign_end_depots_greedily.result_satisfies_the_schedule_invariants_again
        // rc_base magnitudes, under a hypothesis on the rebuilt transitions each (see lens_cover / lens_not_grown, env/depot_ops_shim.vs)
        r is Ok && lens_cover(r->Ok_0.next_period_transitions@, r->Ok_0.vehicle_ids_grouped_and_sorted@, sched_types(&r->Ok_0))
            ==> rc_viol_small(r->Ok_0.next_period_transitions@), // @obl C10.reassign_end_depots_greedily.result_satisfies_the_schedule_invariants_again
        r is Ok && lens_not_grown(self.next_period_transitions@, r->Ok_0.next_period_transitions@, sched_types(&r->Ok_0))
            ==> r->Ok_0.rc_cap_small(r->Ok_0.next_period_transitions@, r->Ok_0.vehicle_ids_grouped_and_sorted@), // @obl C10.reassign_end_depots_greedily.result_satisfies_the_schedule_invariants_again
        r is Ok && lens_cover(r->Ok_0.next_period_transitions@, r->Ok_0.vehicle_ids_grouped_and_sorted@, sched_types(&r->Ok_0))
            && lens_not_grown(self.next_period_transitions@, r->Ok_0.next_period_transitions@, sched_types(&r->Ok_0))
            ==> r->Ok_0.rc_base(r->Ok_0.next_period_transitions@, r->Ok_0.maintenance_violation as int, r->Ok_0.vehicle_ids_grouped_and_sorted@, r->Ok_0.tours@, sched_types(&r->Ok_0)), // @obl C10.reassign_end_depots_greedily.result_satisfies_the_schedule_invariants_again
//@first
        // the closure vocabulary stays folded in this function: the clauses come from lemma_close_dp_end_reassigned_all /
        // lemma_close_rc_all and from the postcondition of recompute_transitions_and_violation_fast
        hide(Schedule::dp_ok_but_cost_bound); hide(Schedule::rc_struct); hide(Schedule::rc_cap_small); hide(rc_viol_small);
        hide(lens_cover); hide(lens_not_grown); hide(rebuilt_exact);
//@loop "for vehicle_id in"
            invariant
                self.dp_ok(),
                it.snapshot@@ == sched_vehicles(self),
                0 <= it.index@ <= it.snapshot@@.len(),
                it.index@ > 0 ==> self.network.end_depot_nodes@.len() > 0,
                tours@.dom() == self.tours@.dom(),
                forall|j: int| 0 <= j < it.index@ ==> self.end_reassigned(#[trigger] it.snapshot@@[j], tours@[it.snapshot@@[j]]), // @obl C13.reassign_end_depots_greedily.no_activity_changes
                forall|j: int| 0 <= j < it.index@ ==> self.end_is_nearest(#[trigger] it.snapshot@@[j], tours@[it.snapshot@@[j]]), // @obl C13.reassign_end_depots_greedily.nearest_end_depot_capacities_ignored
                forall|j: int| it.index@ <= j < it.snapshot@@.len() ==> tours@[#[trigger] it.snapshot@@[j]] == self.tours@[it.snapshot@@[j]], // @obl C13.reassign_end_depots_greedily.no_activity_changes
                costs == self.costs - pre_costs(self.tours@, it.snapshot@@, it.index@ as int) + pre_costs(tours@, it.snapshot@@, it.index@ as int), // @obl C09.reassign_end_depots_greedily.costs_follow_tours
                costs <= self.costs + it.index@ * leg_cost_bound(),
                usage_exact(depot_usage@, &self.network, self.vehicles@, tours@), // @obl C09.reassign_end_depots_greedily.depot_usage_exact
//@before "let tour ="
            let ghost vs = it.snapshot@@;
            let ghost k = it.index@ as int;
            proof {
                assert(vs.contains(vs[k]));
                assert(self.tours@.contains_key(vehicle_id));
                assert(self.dp_vehicle_ok(vehicle_id));
                lemma_pre_costs_mono(self.tours@, vs, k + 1, vs.len() as int);
                lemma_pre_costs_mono(tours@, vs, 0, k);
            }
//@before "let last_node_location"
            proof {
                // whatever `last_non_depot` returns for this valid real tour, it is the last but one node
                assert forall|q: Option<NodeIdx>| is_last_non_depot(tour, q) implies q == Some(tour.nodes@[tour.len() - 2]) && tour.network.has(tour.nodes@[tour.len() - 2]) by {
                    lemma_last_non_depot(tour, q);
                }
            }
//@before "let new_end_depot_node"
            proof {
                // the last activity of the tour is a node of the network; its location is a location of the network
                lemma_node_facts(&self.network, tour.nodes@[tour.len() - 2]);
                assert forall|i: int| 0 <= i < self.network.end_depot_nodes@.len() implies self.network.has(#[trigger] self.network.end_depot_nodes@[i]) by {}
                // whatever list of the end depot nodes in ascending distance is asked for its first item: same length as the list of
                // end depot nodes, and the first item is the nearest end depot node (in particular one of them)
                assert forall|s: Seq<NodeIdx>| s.to_multiset() == self.network.end_depot_nodes@.to_multiset() && #[trigger] self.network.sorted_from(s, last_node_location) && self.network.ties_from(s, last_node_location)
                    implies s.len() == self.network.end_depot_nodes@.len() && (s.len() > 0 ==> self.network.nearest_end_depot(s[0], last_node_location)) by {
                    lemma_first_is_nearest(&self.network, s, last_node_location); // @obl C13.reassign_end_depots_greedily.nearest_end_depot_capacities_ignored
                }
            }
//@before "let new_tour"
            proof {
                assert(self.network.nearest_end_depot(new_end_depot_node, last_node_location)); // @obl C13.reassign_end_depots_greedily.nearest_end_depot_capacities_ignored
                assert(self.network.end_depot_nodes@.contains(new_end_depot_node));
                let i = choose|i: int| 0 <= i < self.network.end_depot_nodes@.len() && self.network.end_depot_nodes@[i] == new_end_depot_node;
                assert(self.network.has(self.network.end_depot_nodes@[i]) && self.network.sp_node(self.network.end_depot_nodes@[i]) is EndDepot);
            }
//@before "costs ="
            proof {
                lemma_end_depot_costs(tour, &new_tour, new_end_depot_node);
                assert((k + 1) * leg_cost_bound() == k * leg_cost_bound() + leg_cost_bound()) by (nonlinear_arith);
                assert(0 <= k * leg_cost_bound() <= max_vehicles() * leg_cost_bound()) by (nonlinear_arith)
                    requires 0 <= k <= max_vehicles(), leg_cost_bound() >= 0;
            }
//@before "tours.insert"
            let ghost tours_before = tours@;
            let ghost nt = new_tour;
            let ghost du_before = depot_usage@;
//@before "self.update_depot_usage"
            proof {
                assert(tours@ == tours_before.insert(vehicle_id, nt)); // @obl C13.reassign_end_depots_greedily.no_activity_changes
                assert(tour_of_net(&self.network, &nt));
                assert(usage_exact_for(du_before, &self.network, self.vehicles@, tours_before, vehicle_id));
                lemma_exact_for_same_tour(du_before, &self.network, self.vehicles@, tours_before, self.tours@, vehicle_id);
            }
//@after "self.update_depot_usage"
            proof {
                lemma_usage_exact_step(du_before, depot_usage@, &self.network, self.vehicles@, tours_before, self.vehicles@, tours@, vehicle_id); // @obl C09.reassign_end_depots_greedily.depot_usage_exact
                assert forall|j: int| 0 <= j < k implies tours_before[#[trigger] vs[j]] == tours@[vs[j]] by { assert(vs[j] != vs[k]); }
                lemma_pre_costs_frame(tours_before, tours@, vs, k);
                assert forall|j: int| 0 <= j < k + 1 implies self.end_reassigned(#[trigger] vs[j], tours@[vs[j]]) by { // @obl C13.reassign_end_depots_greedily.no_activity_changes
                    if j < k { assert(vs[j] != vs[k]); }
                }
                assert forall|j: int| 0 <= j < k + 1 implies self.end_is_nearest(#[trigger] vs[j], tours@[vs[j]]) by { // @obl C13.reassign_end_depots_greedily.nearest_end_depot_capacities_ignored
                    if j < k { assert(vs[j] != vs[k]); }
                }
                assert forall|j: int| k + 1 <= j < vs.len() implies tours@[#[trigger] vs[j]] == self.tours@[vs[j]] by { // @obl C13.reassign_end_depots_greedily.no_activity_changes
                    assert(vs[j] != vs[k]);
                }
                assert(tours@.dom() =~= self.tours@.dom());
            }
//@before "self.recompute_transitions_and_violation_fast"
        proof {
            let vs = sched_vehicles(self);
            assert forall|v: VehicleIdx| #[trigger] self.tours@.contains_key(v) implies self.end_reassigned(v, tours@[v]) by {
                assert(vs.contains(v));
                let j = choose|j: int| 0 <= j < vs.len() && vs[j] == v;
                assert(self.end_reassigned(vs[j], tours@[vs[j]]));
            }
            assert forall|v: VehicleIdx| #[trigger] self.tours@.contains_key(v) implies self.end_is_nearest(v, tours@[v]) by {
                assert(vs.contains(v));
                let j = choose|j: int| 0 <= j < vs.len() && vs[j] == v;
                assert(self.end_is_nearest(vs[j], tours@[vs[j]]));
            }
            // the new tours have the keys of the old ones: every listed id still has a tour
            lemma_rc_base_same_keys(self, self.tours@, tours@, sched_types(self));
            assert(self.all_end_reassigned(tours@));
            assert(self.rebuilt_all_small(tours@));
        }
//@after "self.recompute_transitions_and_violation_fast"
        proof {
            // CLOSURE of dp_ok, from the effect clauses (whatever schedule is built from these parts)
            lemma_close_dp_end_reassigned_all(self); // @obl C10.reassign_end_depots_greedily.result_satisfies_the_schedule_invariants_again
            lemma_close_rc_all(self, next_period_transitions@, maintenance_violation as int, self.vehicle_ids_grouped_and_sorted@, tours@, sched_types(self));
        }
//@end

// =====================================================================================================
// (2) recompute_transitions_for: pure wiring around recompute_transitions_and_violation_fast
// =====================================================================================================
//@item solution/src/schedule/modifications.rs Schedule::recompute_transitions_for
//@retname r
//@sig
    requires
        // what the recomputation needs of the schedule (see rc_pre), for the given types (all types of the network if None)
        self.rc_pre(self.next_period_transitions@, self.maintenance_violation as int, self.vehicle_ids_grouped_and_sorted@, self.tours@,
            if vehicle_types is Some { vehicle_types->Some_0@ } else { sched_types(self) }),
    ensures
        // C13 "nothing else": tours, vehicles, listings, formations, depot usage, costs ... are the input's
        r.tours@ == self.tours@ && r.vehicles@ == self.vehicles@ && r.dummy_tours@ == self.dummy_tours@ && r.train_formations@ == self.train_formations@
            && r.depot_usage@ == self.depot_usage@ && r.vehicle_ids_grouped_and_sorted@ == self.vehicle_ids_grouped_and_sorted@
            && r.dummy_ids_sorted@ == self.dummy_ids_sorted@ && r.vehicle_counter == self.vehicle_counter
            && r.unserved_passengers == self.unserved_passengers && r.costs == self.costs && r.network == self.network, // @obl C13.recompute_transitions_for.everything_else_untouched
        // C09 / C10: the transitions of the given types are rebuilt from the tours, the others are untouched; the
        // maintenance violation is the sum over all types
        self.rc_post(self.next_period_transitions@, r.next_period_transitions@, self.vehicle_ids_grouped_and_sorted@, self.tours@,
            if vehicle_types is Some { vehicle_types->Some_0@ } else { sched_types(self) })
            && r.maintenance_violation == viol_sum(r.next_period_transitions@, sched_types(self)), // @obl C09.recompute_transitions_for.transitions_recomputed
        // C15 / C10 for the rebuilt transitions (contract of Transition::new_fast, slices/new_fast.vs): the transition of every given
        // type whose id list / tours meet given_ok is consistent with the tours and holds exactly the listed vehicles
        rebuilt_exact(&r.network, r.next_period_transitions@, r.vehicle_ids_grouped_and_sorted@, r.tours@,
            if vehicle_types is Some { vehicle_types->Some_0@ } else { sched_types(self) }), // @obl C15.recompute_transitions_for.rebuilt_consistent_with_tours_exact_members
        // CLOSURE: the result satisfies rc_base again (for the same types).  ids / listings / violation sum: unconditional
        r.rc_struct(r.next_period_transitions@, r.maintenance_violation as int, r.vehicle_ids_grouped_and_sorted@, r.tours@,
            if vehicle_types is Some { vehicle_types->Some_0@ } else { sched_types(self) }), // @obl C10.recompute_transitions_for.result_satisfies_the_schedule_invariants_again
        // magnitudes, under a hypothesis on the rebuilt transitions each (see lens_cover / lens_not_grown, env/depot_ops_shim.vs)
        lens_cover(r.next_period_transitions@, r.vehicle_ids_grouped_and_sorted@, if vehicle_types is Some { vehicle_types->Some_0@ } else { sched_types(self) })
            ==> rc_viol_small(r.next_period_transitions@), // @obl C10.recompute_transitions_for.result_satisfies_the_schedule_invariants_again
        lens_not_grown(self.next_period_transitions@, r.next_period_transitions@, if vehicle_types is Some { vehicle_types->Some_0@ } else { sched_types(self) })
            ==> r.rc_cap_small(r.next_period_transitions@, r.vehicle_ids_grouped_and_sorted@), // @obl C10.recompute_transitions_for.result_satisfies_the_schedule_invariants_again
        lens_cover(r.next_period_transitions@, r.vehicle_ids_grouped_and_sorted@, if vehicle_types is Some { vehicle_types->Some_0@ } else { sched_types(self) })
            && lens_not_grown(self.next_period_transitions@, r.next_period_transitions@, if vehicle_types is Some { vehicle_types->Some_0@ } else { sched_types(self) })
            ==> r.rc_base(r.next_period_transitions@, r.maintenance_violation as int, r.vehicle_ids_grouped_and_sorted@, r.tours@,
                if vehicle_types is Some { vehicle_types->Some_0@ } else { sched_types(self) }), // @obl C10.recompute_transitions_for.result_satisfies_the_schedule_invariants_again
        // CLOSURE of dp_ok (not a precondition of this function; everything dp_ok reads is kept): if the input satisfies it, so does the result
        self.dp_ok() ==> r.dp_ok(), // @obl C10.recompute_transitions_for.result_satisfies_the_schedule_invariants_again
//@closure unwrap_or_else#0
    -> (q: Vec<VehicleTypeIdx>) ensures q@ == sched_types(self)
//@after "self.recompute_transitions_and_violation_fast"
        proof {
            if self.dp_ok() { lemma_close_dp_same_all(self); } // @obl C10.recompute_transitions_for.result_satisfies_the_schedule_invariants_again
        }
//@end

// =====================================================================================================
// (3) improve_depots_of_tour and improve_depots
// =====================================================================================================
// R7a stubs: verified in env/tour_accessors.vs (slice tour_ctor) / slice tour_mod / slice sched_guard with the same text
//@item solution/src/tour.rs Tour::start_depot : trusted
//@retname r
//@sig
    requires self.wf(),
    ensures !self.is_dummy ==> r == Ok::<NodeIdx, String>(sp_start_depot(self)),
//@end
//@item solution/src/tour.rs Tour::end_depot : trusted
//@retname r
//@sig
    requires self.wf(),
    ensures !self.is_dummy ==> r == Ok::<NodeIdx, String>(sp_end_depot(self)),
//@end
//@item solution/src/tour/modifications.rs Tour::replace_start_depot : trusted
//@retname r
//@sig
    requires self.wf(), self.caches_ok(), self.network.has(new_start_depot), tour_len_ok(self.nodes@),
    ensures
        r is Ok <==> !self.is_dummy && self.network.sp_node(new_start_depot) is StartDepot,
        // C13/C01: a depot-only operation changes no activity; the tour stays valid
        r is Ok ==> r->Ok_0.nodes@ == self.nodes@.update(0, new_start_depot) && r->Ok_0.is_dummy == self.is_dummy && r->Ok_0.network == self.network,
        r is Ok ==> r->Ok_0.wf(), // @obl C01.replace_start_depot.wf
        r is Ok ==> r->Ok_0.caches_ok(), // @obl C09.replace_start_depot.caches
//@end
// verified in slice depot_choice; contract text copied from there (tools/stub_sync.py): the nearest start depot node that can
// spawn the vehicle according to the GIVEN usage table; `expect("There should be at least the overflow depot available.")`
// cannot panic under the precondition some_depot_has_room
//@item solution/src/schedule/modifications.rs Schedule::find_best_start_depot_for_spawning : trusted
//@retname r
//@sig
    requires
        // instance validity; `self.network.node(first_node)`
        self.network.wf(), self.network.has(first_node),
        // A-index: the start depot node list holds start depot nodes of the network with a depot of the depot table
        self.network.start_depots_ok(),
        // magnitude: the counts of the given table fit u32
        self.usage_counts_small(vehicle_type_idx, depot_usage@),
        // C06 "it neither panics ...": `.expect("There should be at least the overflow depot available.")` -- the weakest
        // precondition under which `find` returns Some: SOME start depot node of the network (e.g. the overflow depot's) can
        // spawn a vehicle of the type w.r.t. the given table
        self.some_depot_has_room(vehicle_type_idx, depot_usage@), // @obl C06.find_best_start_depot.expect_needs_a_depot_with_room
    ensures
        // a start depot node of the network ...
        self.network.start_depot_nodes@.contains(r), // @obl C02.find_best_start_depot.chosen_depot_has_room
        // ... C02 "the number of vehicles starting there stays within the depot's total capacity and within the per-type capacity
        // (types not listed for a depot never start there)": can_depot_spawn_vehicle_custom_usage(r, type, GIVEN table) holds
        self.sp_can_spawn(r, vehicle_type_idx, depot_usage@), // @obl C02.find_best_start_depot.chosen_depot_has_room
        // the FIRST such depot in the distance order: no start depot node with room is nearer to the start location of first_node ...
        forall|d: NodeIdx| self.network.start_depot_nodes@.contains(d) && #[trigger] self.sp_can_spawn(d, vehicle_type_idx, depot_usage@)
            ==> dist_le(self.network.dist_to(r, self.network.sp_node(first_node).sp_start_location()),
                        self.network.dist_to(d, self.network.sp_node(first_node).sp_start_location())), // @obl C02.find_best_start_depot.nearest_depot_with_room
        // ... and of the equally near ones with room it is the one listed first
        forall|d: NodeIdx| self.network.start_depot_nodes@.contains(d) && #[trigger] self.sp_can_spawn(d, vehicle_type_idx, depot_usage@) && d != r
            && self.network.dist_to(d, self.network.sp_node(first_node).sp_start_location()) == self.network.dist_to(r, self.network.sp_node(first_node).sp_start_location())
            ==> listed_before(self.network.start_depot_nodes@, r, d), // @obl C02.find_best_start_depot.nearest_depot_with_room
//@end
// verified in slice depot_choice; contract text copied from there (tools/stub_sync.py): the nearest end depot node; depot
// capacities play no role in it
//@item solution/src/schedule/modifications.rs Schedule::find_best_end_depot_for_despawning : trusted
//@retname r
//@sig
    requires
        // instance validity; `self.network.node(last_node)`; A-index: the end depot node list holds nodes of the network
        self.network.wf(), self.network.has(last_node), all_in_net(&self.network, self.network.end_depot_nodes@),
    ensures
        r is Ok ==> self.network.end_depot_nodes@.contains(r->Ok_0), // @obl C13.find_best_end_depot.member_of_end_depot_nodes
        // C06: no panic; refused iff the network has no end depot node
        r is Ok <==> self.network.end_depot_nodes@.len() > 0, // @obl C06.find_best_end_depot.ok_iff_an_end_depot_exists
        // the nearest end depot node, whatever its capacity or balance: none is nearer to the end location of last_node ...
        r is Ok ==> forall|d: NodeIdx| #[trigger] self.network.end_depot_nodes@.contains(d)
            ==> dist_le(self.network.dist_from(self.network.sp_node(last_node).sp_end_location(), r->Ok_0),
                        self.network.dist_from(self.network.sp_node(last_node).sp_end_location(), d)), // @obl C13.find_best_end_depot.nearest_end_depot_capacities_ignored
        // ... and of the equally near ones it is the one listed first
        r is Ok ==> forall|d: NodeIdx| #[trigger] self.network.end_depot_nodes@.contains(d) && d != r->Ok_0
            && self.network.dist_from(self.network.sp_node(last_node).sp_end_location(), d) == self.network.dist_from(self.network.sp_node(last_node).sp_end_location(), r->Ok_0)
            ==> listed_before(self.network.end_depot_nodes@, r->Ok_0, d), // @obl C13.find_best_end_depot.nearest_end_depot_capacities_ignored
//@end
// A-stub (= `self.all_non_depot_nodes_iter().next()`): the first node of the tour that is no depot
//@item solution/src/tour.rs Tour::first_non_depot : trusted
//@retname r
//@sig
    requires all_in_net(&self.network, self.nodes@),
    ensures is_first_non_depot(self, r),
//@end

//@item solution/src/schedule/modifications.rs Schedule::improve_depots_of_tour
//@retname r
//@sig
    requires
        // instance validity; the network has an end depot (`find_best_end_depot_for_despawning(..).unwrap()`)
        self.network.wf(), depot_nodes_ok(&self.network), self.network.end_depot_nodes@.len() > 0,
        // the tour is a valid real tour of the schedule's network with exact caches (`first_non_depot().unwrap()`,
        // `start_depot().unwrap()`, `replace_start_depot(..).unwrap()`, ...)
        tour.wf(), !tour.is_dummy, *tour.network == *self.network, tour.caches_ok(), tour_len_ok(tour.nodes@),
        // what find_best_start_depot_for_spawning requires (slices/depot_choice.vs) beyond the above:
        // A-index (how Network::new fills the list; not proved in slice network_new): the depots of the start depot nodes are in the
        // network's depot table (that they are StartDepot nodes of the network is part of depot_nodes_ok)
        self.network.start_depots_ok(),
        // magnitude: the counts of the GIVEN usage table fit u32 (vehicle ids are 16 bit)
        self.usage_counts_small(vehicle_type_idx, depot_usage@),
        // C06 / C17: some start depot node of the network has room for the type w.r.t. the GIVEN usage table ("There should be at
        // least the overflow depot available."; that the overflow depot's capacity suffices is C17, slices/network_new.vs, D5;
        // see lemma_depot_without_type_limit_suffices).  Otherwise `expect` panics.
        self.some_depot_has_room(vehicle_type_idx, depot_usage@), // @obl C06.improve_depots_of_tour.expect_needs_a_depot_with_room
    ensures
        // C13 "depot-only operations change no activity": only the start and / or the end depot node may differ
        depots_replaced(&self.network, tour, &r), // @obl C13.improve_depots_of_tour.no_activity_changes
        same_activities(tour, &r), // @obl C13.improve_depots_of_tour.no_activity_changes
        // C02 "the number of vehicles starting there stays within the depot's total capacity and within the per-type capacity (types
        // not listed for a depot never start there)": the new start depot node could spawn a vehicle of the type w.r.t. the GIVEN
        // usage table (sp_can_spawn), and it is the nearest start depot node that can (dead-head distance from the depot to the
        // start location of the first activity; ties: the one listed first)
        self.best_start_depot(sp_start_depot(&r), vehicle_type_idx, self.network.sp_node(tour.nodes@[1]).sp_start_location(), depot_usage@), // @obl C02.improve_depots_of_tour.start_depot_had_room
        // C13: the new end depot node is the end depot node nearest to the end location of the last activity (capacities ignored)
        self.network.nearest_end_depot(sp_end_depot(&r), self.network.sp_node(tour.nodes@[tour.nodes@.len() - 2]).sp_end_location()), // @obl C13.improve_depots_of_tour.nearest_end_depot_capacities_ignored
        // C09 (magnitude): only the first and the last leg change, so the costs change by at most two legs' costs
        -2 * leg_cost_bound() <= r.costs - tour.costs <= 2 * leg_cost_bound(), // @obl C09.improve_depots_of_tour.costs_change_by_two_legs_at_most
        // CLOSURE (the result is a tour, not a schedule): what this precondition demands of the given tour holds for the result again
        r.wf() && !r.is_dummy && *r.network == *self.network && r.caches_ok() && tour_len_ok(r.nodes@), // @obl C10.improve_depots_of_tour.result_satisfies_the_schedule_invariants_again
//@first
        proof {
            assert forall|q: Option<NodeIdx>| is_first_non_depot(tour, q) implies q == Some(tour.nodes@[1]) && self.network.has(tour.nodes@[1]) by { lemma_first_non_depot(tour, q); }
        }
//@before "let intermediate_tour"
        proof {
            let sdn = self.network.start_depot_nodes@;
            let i = choose|i: int| 0 <= i < sdn.len() && sdn[i] == new_start_depot;
            assert(self.network.has(sdn[i]) && self.network.sp_node(sdn[i]) is StartDepot);
        }
//@before "let last_non_depot"
        let ghost it0 = intermediate_tour;
        proof {
            assert(it0.nodes@ =~= tour.nodes@.update(0, sp_start_depot(&it0)));
            if new_start_depot != sp_start_depot(tour) { lemma_start_depot_costs(tour, &it0, new_start_depot); }
            assert forall|q: Option<NodeIdx>| is_last_non_depot(&it0, q) implies q == Some(it0.nodes@[it0.len() - 2]) && self.network.has(it0.nodes@[it0.len() - 2]) by { lemma_last_non_depot(&it0, q); }
            // find_best_end_depot_for_despawning: the end depot node list holds nodes of the network
            assert(all_in_net(&self.network, self.network.end_depot_nodes@)) by {
                assert forall|i: int| 0 <= i < self.network.end_depot_nodes@.len() implies self.network.has(#[trigger] self.network.end_depot_nodes@[i]) by {}
            }
            // the last activity is not touched by the replacement of the start depot
            lemma_tour_kinds(tour, 1);
            assert(it0.nodes@[it0.len() - 2] == tour.nodes@[tour.nodes@.len() - 2]);
        }
//@after "let new_end_depot"
        proof {
            let edn = self.network.end_depot_nodes@;
            let i = choose|i: int| 0 <= i < edn.len() && edn[i] == new_end_depot;
            assert(self.network.has(edn[i]) && self.network.sp_node(edn[i]) is EndDepot);
            let n = tour.len();
            // whichever branch is taken, the result is it0 with the last node set to its own last node
            assert forall|t: Tour| t.nodes@ == it0.nodes@.update(n - 1, sp_end_depot(&t)) implies
                t.nodes@ == tour.nodes@.update(0, sp_start_depot(&t)).update(n - 1, sp_end_depot(&t)) by {
                assert(t.nodes@ =~= tour.nodes@.update(0, sp_start_depot(&t)).update(n - 1, sp_end_depot(&t)));
            }
            assert(it0.nodes@ =~= it0.nodes@.update(n - 1, sp_end_depot(&it0)));
            assert forall|t: Tour| t.nodes@ == it0.nodes@.update(n - 1, new_end_depot) && t.network == it0.network && t.caches_ok() implies
                -leg_cost_bound() <= #[trigger] t.costs - it0.costs <= leg_cost_bound() by {
                lemma_end_depot_costs(&it0, &t, new_end_depot);
            }
        }
//@end

// ---- more stubs / small functions for improve_depots -----------------------------------------------------------------
// verified in slice sched_guard; contract text copied from there
//@item solution/src/schedule.rs Schedule::vehicle_type_of : trusted
//@retname r
//@sig
    ensures
        self.vehicles@.contains_key(vehicle) ==> r == Ok::<VehicleTypeIdx, String>(self.type_of(vehicle)),
        !self.vehicles@.contains_key(vehicle) ==> r is Err,
//@end
// verified here (verbatim bodies); contract text as in slices/depot_usage.vs
//@item model/src/network/nodes.rs DepotNode::depot_idx
//@retname r
//@sig
    ensures r == self.depot_idx,
//@end
//@item model/src/network/nodes.rs Node::as_depot
//@retname r
//@sig
    requires self.sp_is_depot(),
    ensures *r == (match *self { Node::StartDepot((_, d)) => d, Node::EndDepot((_, d)) => d, _ => arbitrary() }),
//@end
//@item model/src/network.rs Network::get_depot_idx
//@retname r
//@sig
    requires self.has(node_idx), self.sp_node(node_idx).sp_is_depot(),
    ensures r == sp_depot_idx_of(self, node_idx),
//@end
// verified in slice sched_guard; contract text copied from there
//@item solution/src/schedule/modifications.rs Schedule::update_transitions_and_violation_fast : trusted
//@sig
    requires
        // the old schedule is consistent (C15, C10, C09), no real vehicle is listed twice, every listed real
        // vehicle is an old and / or a new vehicle with an admissible new tour, magnitudes: see upd_pre
        self.upd_pre(old(transitions)@, *old(maintenance_violation) as int, changed_vehicles@, vehicles@, tours@),
        // (clause of upd_pre, repeated: the caller-side assumption the transition slice names) no real vehicle
        // is listed twice: update_vehicle / remove_vehicle read the previous tour of the vehicle from self.tours
        forall|i: int, j: int| 0 <= i < j < changed_vehicles@.len() && changed_vehicles@[i] is Vehicle
            ==> #[trigger] changed_vehicles@[i] != #[trigger] changed_vehicles@[j],
    ensures
        forall|vt: VehicleTypeIdx| old(transitions)@.contains_key(vt) <==> #[trigger] final(transitions)@.contains_key(vt),
        // C15 / C10: every transition is consistent with the NEW tours ...
        forall|vt: VehicleTypeIdx| #[trigger] final(transitions)@.contains_key(vt) ==> final(transitions)@[vt].wf(&self.network, tours@), // @obl C10.update_transitions.consistent_with_new_tours
        // ... and its cycles hold exactly the NEW vehicles of its type ("every real vehicle belongs to
        // exactly one rotation cycle of its type": one cycle by wf_cycles / wf_lookup)
        forall|vt: VehicleTypeIdx, v: VehicleIdx| #![trigger final(transitions)@[vt].has_vehicle(v)] final(transitions)@.contains_key(vt)
            ==> (final(transitions)@[vt].has_vehicle(v) <==> (vehicles@.contains_key(v) && vtype(vehicles@[v]) == vt)), // @obl C10.update_transitions.membership
        // C09: "the schedule's maintenance violation equals its from-scratch value"
        *final(maintenance_violation) == viol_sum(final(transitions)@, sched_types(self)), // @obl C09.update_transitions.violation_sum
        // the transitions of the other types are untouched
        forall|vt: VehicleTypeIdx| #[trigger] final(transitions)@.contains_key(vt) && !self.touches_type(vehicles@, changed_vehicles@, vt)
            ==> final(transitions)@[vt] == old(transitions)@[vt], // @obl C10.update_transitions.other_types_untouched
//@end

// "Improves the depots of all vehicles given in vehicles.  If None the depots of all vehicles are improved.  Assumes that
// vehicle are real vehicle in schedule.  Panics if a vehicle is not a real vehicle."
//@item solution/src/schedule/modifications.rs Schedule::improve_depots
//@retname r
//@sig
    requires
        self.dp_ok(),
        // the network has an end depot (`find_best_end_depot_for_despawning(..).unwrap()` in improve_depots_of_tour)
        self.network.end_depot_nodes@.len() > 0,
        // what find_best_start_depot_for_spawning (in improve_depots_of_tour; slices/depot_choice.vs) requires beyond dp_ok:
        // A-index (how Network::new fills the list; not proved in slice network_new): the depots of the start depot nodes are in the
        // network's depot table
        self.network.start_depots_ok(),
        // C06 / C17 and magnitude: whenever a start depot is chosen for a listed vehicle -- with the PARTIAL usage table: all listed
        // vehicles taken out, the ones processed so far put back at their new depots -- some start depot node of the network has
        // room for the vehicle's type w.r.t. that table ("There should be at least the overflow depot available."; `expect`
        // panics otherwise; that the overflow depot's capacity suffices is C17, slices/network_new.vs, D5) and the table's counts
        // fit u32 (see dp_room_ok, env/depot_ops_shim.vs)
        self.dp_room_ok(if vehicles is Some { vehicles->Some_0@ } else { sched_vehicles(self) }), // @obl C06.improve_depots.expect_needs_a_depot_with_room
        // Some(list): the listed vehicles are vehicles of the schedule, none is listed twice; what the incremental update of
        // the rotation cycles needs (dp_transitions_ok; A-counter: dp_counter_ok)
        vehicles is Some ==> self.listed_ok(vehicles->Some_0@) && self.dp_transitions_ok(vehicles->Some_0@.len() as int)
            && forall|i: int| 0 <= i < vehicles->Some_0@.len() ==> self.dp_counter_ok(#[trigger] vehicles->Some_0@[i]),
        // None: what the recomputation of the rotation cycles of all types needs (rc_base; A-counter (magnitude): whatever
        // tours result, the rebuilt transitions' violations are at most 2^41 per vehicle)
        vehicles is None ==> self.rc_base(self.next_period_transitions@, self.maintenance_violation as int, self.vehicle_ids_grouped_and_sorted@, self.tours@, sched_types(self))
            && forall|t: Map<VehicleIdx, Tour>| #[trigger] self.all_depots_improved(sched_vehicles(self), t) ==> self.rebuilt_all_small(t),
    ensures
        // C13 "depot-only operations change no activity, and all other vehicles' tours ... stay untouched"
        forall|v: VehicleIdx| #[trigger] self.tours@.contains_key(v) ==>
            self.depots_improved(if vehicles is Some { vehicles->Some_0@ } else { sched_vehicles(self) }, v, r.tours@[v]), // @obl C13.improve_depots.no_activity_changes
        r.tours@.dom() == self.tours@.dom()
            && r.dummy_tours@ == self.dummy_tours@ && r.vehicles@ == self.vehicles@ && r.train_formations@ == self.train_formations@
            && r.vehicle_ids_grouped_and_sorted@ == self.vehicle_ids_grouped_and_sorted@ && r.dummy_ids_sorted@ == self.dummy_ids_sorted@
            && r.vehicle_counter == self.vehicle_counter && r.unserved_passengers == self.unserved_passengers && r.network == self.network, // @obl C13.improve_depots.everything_else_untouched
        // C09: the schedule's costs follow the costs of the touched vehicles' tours
        r.costs - tours_costs(r.tours@, if vehicles is Some { vehicles->Some_0@ } else { sched_vehicles(self) })
            == self.costs - tours_costs(self.tours@, if vehicles is Some { vehicles->Some_0@ } else { sched_vehicles(self) }), // @obl C09.improve_depots.costs_follow_tours
        // C09: the depot usage table has its from-scratch value for the new tours
        usage_exact(r.depot_usage@, &self.network, r.vehicles@, r.tours@), // @obl C09.improve_depots.depot_usage_exact
        // C09 / C10, rotation cycles.  None: the transitions of all types are rebuilt from the new tours (postcondition of
        // recompute_transitions_and_violation_fast); Some(list): the postcondition of update_transitions_and_violation_fast
        vehicles is None ==> self.rc_post(self.next_period_transitions@, r.next_period_transitions@, self.vehicle_ids_grouped_and_sorted@, r.tours@, sched_types(self))
            && r.maintenance_violation == viol_sum(r.next_period_transitions@, sched_types(self)), // @obl C09.improve_depots.transitions_recomputed
        vehicles is Some ==> self.upd_post(self.next_period_transitions@, r.next_period_transitions@, r.maintenance_violation as int, vehicles->Some_0@, self.vehicles@, r.tours@), // @obl C09.improve_depots.transitions_updated
        // C15 / C10 for the rebuilt transitions (None; contract of Transition::new_fast, slices/new_fast.vs): the transition of every
        // type whose id list / new tours meet given_ok is consistent with the new tours and holds exactly the listed vehicles
        vehicles is None ==> rebuilt_exact(&r.network, r.next_period_transitions@, r.vehicle_ids_grouped_and_sorted@, r.tours@, sched_types(&r)), // @obl C15.improve_depots.rebuilt_consistent_with_tours_exact_members
        // CLOSURE (induction step of C10 / C09): the result satisfies the invariant bundle of this precondition again.
        // dp_ok -- instance validity (the network is the input's: also `end depot exists` and start_depots_ok), listings (the listing
        // is the input's: A-iter frame), ids / tours (every vehicle stored under its id with a valid real tour of the network with
        // exact caches), costs >= the tours' costs, usage table exact: unconditional
        sched_vehicles(&r) == sched_vehicles(self), // @obl C10.improve_depots.result_satisfies_the_schedule_invariants_again
        r.dp_ok_but_cost_bound(), // @obl C10.improve_depots.result_satisfies_the_schedule_invariants_again
        r.network.end_depot_nodes@.len() > 0 && r.network.start_depots_ok(), // @obl C10.improve_depots.result_satisfies_the_schedule_invariants_again
        // magnitude `costs <= 2^61`: NOT an invariant of the operation (each listed tour's costs may grow by two legs' costs)
        r.costs <= sched_cost_bound() ==> r.dp_ok(), // @obl C10.improve_depots.result_satisfies_the_schedule_invariants_again
        // Some(list): dp_transitions_ok(n) for the same n -- one transition per type, consistent with the NEW tours, exact membership,
        // violation sum, Vehicle-kind ids, AND the magnitude `len_sum + n <= 2^17` (every transition holds as many vehicles as before)
        vehicles is Some ==> r.dp_transitions_ok(vehicles->Some_0@.len() as int), // @obl C10.improve_depots.result_satisfies_the_schedule_invariants_again
        // None: rc_base -- types / one transition per type / id lists / listed ids have tours / violation sum: unconditional
        vehicles is None ==> r.rc_struct(r.next_period_transitions@, r.maintenance_violation as int, r.vehicle_ids_grouped_and_sorted@, r.tours@, sched_types(&r)), // @obl C10.improve_depots.result_satisfies_the_schedule_invariants_again
        // rc_base magnitudes, under a hypothesis on the rebuilt transitions each (see lens_cover / lens_not_grown, env/depot_ops_shim.vs)
        vehicles is None && lens_cover(r.next_period_transitions@, r.vehicle_ids_grouped_and_sorted@, sched_types(&r))
            ==> rc_viol_small(r.next_period_transitions@), // @obl C10.improve_depots.result_satisfies_the_schedule_invariants_again
        vehicles is None && lens_not_grown(self.next_period_transitions@, r.next_period_transitions@, sched_types(&r))
            ==> r.rc_cap_small(r.next_period_transitions@, r.vehicle_ids_grouped_and_sorted@), // @obl C10.improve_depots.result_satisfies_the_schedule_invariants_again
        vehicles is None && lens_cover(r.next_period_transitions@, r.vehicle_ids_grouped_and_sorted@, sched_types(&r))
            && lens_not_grown(self.next_period_transitions@, r.next_period_transitions@, sched_types(&r))
            ==> r.rc_base(r.next_period_transitions@, r.maintenance_violation as int, r.vehicle_ids_grouped_and_sorted@, r.tours@, sched_types(&r)), // @obl C10.improve_depots.result_satisfies_the_schedule_invariants_again
//@closure unwrap_or_else#0
    -> (q: Vec<VehicleIdx>) ensures q@ == sched_vehicles(self)
//@first
        // the closure vocabulary stays folded in this function: the clauses come from lemma_close_dp_improved_all /
        // lemma_close_transitions_listed_all / lemma_close_rc_all and from the postcondition of recompute_transitions_and_violation_fast
        hide(Schedule::dp_ok_but_cost_bound); hide(Schedule::rc_struct); hide(Schedule::rc_cap_small); hide(rc_viol_small);
        hide(lens_cover); hide(lens_not_grown); hide(rebuilt_exact);
//@after "let vehicle_ids"
        let ghost ids = vehicle_ids@;
        let ghost du0 = self.depot_usage@;
        proof {
            assert(ids == (if vehicles is Some { vehicles->Some_0@ } else { sched_vehicles(self) }));
            assert(self.listed_ok(ids)) by {
                if vehicles is None {
                    assert forall|i: int| 0 <= i < ids.len() implies self.tours@.contains_key(#[trigger] ids[i]) by { assert(ids.contains(ids[i])); }
                }
            }
            assert forall|x: VehicleIdx| !done(ids, 0, x) by {}
        }
//@loop "for vehicle_id in vehicle_ids.iter() { let vehicle_type_id"
            invariant
                self.dp_ok(), self.listed_ok(ids), ids == vehicle_ids@, du0 == self.depot_usage@,
                it.snapshot@.remaining().len() == ids.len(),
                forall|j: int| 0 <= j < ids.len() ==> *(#[trigger] it.snapshot@.remaining()[j]) == ids[j],
                0 <= it.index@ <= ids.len(),
                usage_minus(du0, depot_usage@, ids, it.index@ as int, it.index@ as int), // @obl C09.improve_depots.depot_usage_exact
//@before "let old_tour"
            let ghost k = it.index@ as int;
            let ghost du_a = depot_usage@;
            proof {
                assert(*vehicle_id == ids[k]);
                assert(self.tours@.contains_key(ids[k]));
                assert(self.dp_vehicle_ok(ids[k]));
            }
//@before "depot_usage .get_mut(&( self.network.get_depot_idx(old_tour.start_depot"
            proof {
                lemma_tour_depots(&self.network, old_tour);
                lemma_rm_spawn_pre(self, du_a, ids, k);
            }
//@before "depot_usage .get_mut(&( self.network.get_depot_idx(old_tour.end_depot"
            let ghost du_b = depot_usage@;
            proof {
                lemma_rm_spawn_post(self, du_a, du_b, ids, k); // @obl C09.improve_depots.depot_usage_exact
                lemma_rm_despawn_pre(self, du_b, ids, k);
            }
//@after "depot_usage .get_mut(&( self.network.get_depot_idx(old_tour.end_depot"
            proof {
                lemma_rm_despawn_post(self, du_b, depot_usage@, ids, k); // @obl C09.improve_depots.depot_usage_exact
            }
//@before "for vehicle_id in vehicle_ids.iter() { let tour"
        proof {
            lemma_partial_init(self, depot_usage@, ids);
            lemma_sub_costs(self.tours@, ids, sched_vehicles(self));
        }
//@loop "for vehicle_id in vehicle_ids.iter() { let tour"
            invariant
                self.dp_ok(), self.listed_ok(ids), ids == vehicle_ids@,
                self.network.end_depot_nodes@.len() > 0,
                self.network.start_depots_ok(), self.dp_room_ok(ids),
                pre_costs(self.tours@, ids, ids.len() as int) <= self.costs,
                it.snapshot@.remaining().len() == ids.len(),
                forall|j: int| 0 <= j < ids.len() ==> *(#[trigger] it.snapshot@.remaining()[j]) == ids[j],
                0 <= it.index@ <= ids.len(),
                tours@.dom() == self.tours@.dom(),
                forall|j: int| 0 <= j < it.index@ ==> depots_replaced(&self.network, &self.tours@[#[trigger] ids[j]], &tours@[ids[j]]), // @obl C13.improve_depots.no_activity_changes
                forall|j: int| it.index@ <= j < ids.len() ==> tours@[#[trigger] ids[j]] == self.tours@[ids[j]], // @obl C13.improve_depots.no_activity_changes
                forall|v: VehicleIdx| !ids.contains(v) ==> #[trigger] tours@[v] == self.tours@[v], // @obl C13.improve_depots.no_activity_changes
                costs == self.costs - pre_costs(self.tours@, ids, it.index@ as int) + pre_costs(tours@, ids, it.index@ as int), // @obl C09.improve_depots.costs_follow_tours
                costs <= self.costs + it.index@ * (2 * leg_cost_bound()),
                self.usage_partial(depot_usage@, tours@, ids, it.index@ as int), // @obl C09.improve_depots.depot_usage_exact
//@before "let tour ="
            let ghost k = it.index@ as int;
            let ghost v = ids[k];
            proof {
                assert(*vehicle_id == ids[k]);
                assert(self.tours@.contains_key(ids[k]));
                assert(self.dp_vehicle_ok(v));
                lemma_pre_costs_mono(self.tours@, ids, k + 1, ids.len() as int);
                lemma_pre_costs_mono(self.tours@, ids, 0, k);
                lemma_pre_costs_mono(tours@, ids, 0, k);
            }
//@before "let new_tour"
            proof {
                // C06: the table handed to improve_depots_of_tour is one of those dp_room_ok speaks about
                assert(self.improve_progress(tours@, ids, k));
                assert(self.usage_partial(depot_usage@, tours@, ids, k));
                assert(vehicle_type_id == self.type_of(ids[k]));
            }
//@before "costs ="
            let ghost nt = new_tour;
            proof {
                let l2 = 2 * leg_cost_bound();
                assert((k + 1) * l2 == k * l2 + l2) by (nonlinear_arith);
                assert(0 <= k * l2 <= max_vehicles() * l2) by (nonlinear_arith)
                    requires 0 <= k <= max_vehicles(), l2 >= 0;
            }
//@before "depot_usage .entry(( self.network.get_depot_idx(new_tour.start_depot"
            let ghost du_a = depot_usage@;
            let ghost key_s = (sp_depot_idx_of(&self.network, sp_start_depot(&nt)), self.type_of(v));
            let ghost key_e = (sp_depot_idx_of(&self.network, sp_end_depot(&nt)), self.type_of(v));
            proof {
                assert(tour_of_net(&self.network, &nt));
                lemma_tour_depots(&self.network, &nt);
            }
//@before "depot_usage .entry(( self.network.get_depot_idx(new_tour.end_depot"
            let ghost du_b = depot_usage@;
            proof {
                lemma_add_spawn(du_a, du_b, key_s, v); // @obl C09.improve_depots.depot_usage_exact
            }
//@before "tours.insert"
            let ghost du_c = depot_usage@;
            let ghost tours_before = tours@;
            proof {
                lemma_add_despawn(du_b, du_c, key_e, v); // @obl C09.improve_depots.depot_usage_exact
            }
//@after "tours.insert"
            proof {
                lemma_partial_step(self, du_a, du_c, tours_before, ids, k, nt); // @obl C09.improve_depots.depot_usage_exact
                assert(tours@ == tours_before.insert(v, nt)); // @obl C13.improve_depots.no_activity_changes
                assert forall|j: int| 0 <= j < k implies tours_before[#[trigger] ids[j]] == tours@[ids[j]] by { assert(ids[j] != ids[k]); }
                lemma_pre_costs_frame(tours_before, tours@, ids, k);
                assert forall|j: int| 0 <= j < k + 1 implies depots_replaced(&self.network, &self.tours@[#[trigger] ids[j]], &tours@[ids[j]]) by { // @obl C13.improve_depots.no_activity_changes
                    if j < k { assert(ids[j] != ids[k]); }
                }
                assert forall|j: int| k + 1 <= j < ids.len() implies tours@[#[trigger] ids[j]] == self.tours@[ids[j]] by { // @obl C13.improve_depots.no_activity_changes
                    assert(ids[j] != ids[k]);
                }
                assert forall|u: VehicleIdx| !ids.contains(u) implies #[trigger] tours@[u] == self.tours@[u] by { // @obl C13.improve_depots.no_activity_changes
                    assert(ids.contains(ids[k]));
                }
                assert(tours@.dom() =~= self.tours@.dom());
            }
//@before "if recompute_all"
        proof {
            lemma_partial_finish(self, depot_usage@, tours@, ids); // @obl C09.improve_depots.depot_usage_exact
            assert forall|u: VehicleIdx| #[trigger] self.tours@.contains_key(u) implies self.depots_improved(ids, u, tours@[u]) by {
                if ids.contains(u) {
                    let j = choose|j: int| 0 <= j < ids.len() && ids[j] == u;
                    assert(depots_replaced(&self.network, &self.tours@[ids[j]], &tours@[ids[j]]));
                    assert(self.dp_vehicle_ok(u));
                    lemma_replaced_same_activities(&self.network, &self.tours@[u], &tours@[u]);
                }
            }
            if vehicles is Some {
                lemma_upd_pre_listed(self, ids, tours@); // @obl C09.improve_depots.transitions_updated
            } else {
                // the new tours have the keys of the old ones: every listed id still has a tour
                lemma_rc_base_same_keys(self, self.tours@, tours@, sched_types(self));
                assert(self.all_depots_improved(sched_vehicles(self), tours@));
                assert(self.rebuilt_all_small(tours@));
            }
            // CLOSURE of dp_ok / dp_transitions_ok, from the effect clauses (whatever schedule is built from these parts)
            lemma_close_dp_improved_all(self, ids); // @obl C10.improve_depots.result_satisfies_the_schedule_invariants_again
            if vehicles is Some {
                lemma_close_transitions_listed_all(self, ids, ids.len() as int); // @obl C10.improve_depots.result_satisfies_the_schedule_invariants_again
            }
        }
//@after "if recompute_all"
        proof {
            lemma_close_rc_all(self, next_period_transitions@, maintenance_violation as int, self.vehicle_ids_grouped_and_sorted@, tours@, sched_types(self));
        }
//@end

} // mod tr
} // verus!
fn main() {}
