// slice `depot_usage`: the depot-usage bookkeeping of a schedule modification (C09 last part: "the
// per-depot spawn counts and balances equal their from-scratch value after any modification"; C02
// relies on these counts being exact), the tour / cost bookkeeping of one vehicle (C09) and the depot
// balances read off the table.
//
// ASSUMPTIONS introduced by this slice (all in env/depot_usage_shim.vs):
//   A-im   im::HashSet  {new, len, insert, remove, clone}                           -- external_body shims
//   A-im   im::HashMap  {entry, keys} + Entry::or_insert                            -- external_body shims
//          (`entry` / `or_insert` as a method pair; the `&mut V` returned by `or_insert` is a reference INTO
//          the map: the final map is the old one with the key bound to the final value of the reference)
//   A-im   axiom_key_seq: `keys()` visits every key exactly once                    -- axiom
//   A-std6 i32::unsigned_abs                                                        -- assume_specification
//   A-derive  Vehicle::clone is structural                                          -- external_body
//   plus the shared ones: env/im_shim.vs (im::HashMap new/get/contains_key/insert/remove), env/seqiter.vs
//   (SeqIter map/sum), env/vsum_impls.vs (u32 sum = integer total, no wrap), env/model_fns.vs
//   (Network::node, Node::is_start_depot / is_end_depot: included trusted, verified in slice `network`),
//   env/broadcast_model.vs (key model of the index types).  No function of /repo is stubbed by this slice.
#![feature(allocator_api)]
use vstd::prelude::*;
use std::ops::Add;
use std::ops::Sub;
use std::collections::{BTreeMap, HashMap};
use std::sync::Arc;
//@include env/display_time.rs
//@include env/display_model.rs
verus! {
//@include env/std_specs.vs
//@include env/seqiter.vs
//@include env/time_types.vs
//@include-trusted env/time_ops.vs
//@include env/model_types.vs
//@include env/broadcast_model.vs
//@include env/model_network_types.vs
//@include env/model_spec.vs
//@include-trusted env/model_fns.vs
//@include env/solution_types.vs
//@include env/tour_spec.vs
//@include env/sums.vs
//@include-trusted env/dist_ops.vs
//@include env/vsum_impls.vs

pub mod tr {
use super::*;
use vstd::prelude::*;
use self::im::HashMap;
use self::im_set::HashSet;
//@include env/im_shim.vs
//@include env/depot_usage_shim.vs

//@item solution/src/transition.rs type CycleIdx : plain
//@end
//@item solution/src/transition/transition_cycle.rs struct TransitionCycle : plain
//@end
//@item solution/src/transition.rs struct Transition : plain
//@end
//@item solution/src/train_formation.rs struct TrainFormation : plain
//@end
//@item solution/src/schedule.rs type DepotUsage : plain
//@end
//@item solution/src/schedule.rs struct Schedule : plain
//@drop-derive Clone
//@end

// ---- Tour: depot accessors and costs (verified here, verbatim bodies; contract text of
// start_depot / end_depot / costs as in slices/transition.vs, where they are stubs) ---------------------
//@item solution/src/tour.rs Tour::first_node
//@retname r
//@sig
    requires self.nodes@.len() >= 1,
    ensures r == self.nodes@[0],
//@end
//@item solution/src/tour.rs Tour::last_node
//@retname r
//@sig
    requires self.nodes@.len() >= 1,
    ensures r == self.nodes@[self.nodes@.len() - 1],
//@end
//@item solution/src/tour.rs Tour::start_depot
//@retname r
//@sig
    requires self.wf(),
    ensures !self.is_dummy ==> r == Ok::<NodeIdx, String>(sp_start_depot(self)),
//@first
        proof { assert(self.network.has(self.nodes@[0])); }
//@end
//@item solution/src/tour.rs Tour::end_depot
//@retname r
//@sig
    requires self.wf(),
    ensures !self.is_dummy ==> r == Ok::<NodeIdx, String>(sp_end_depot(self)),
//@first
        proof { assert(self.network.has(self.nodes@[self.nodes@.len() - 1])); }
//@end
//@item solution/src/tour.rs Tour::costs
//@retname r
//@sig
    ensures r == self.costs,
//@end

// ---- small accessors (verified here, verbatim bodies) --------------------------------------------------
//@item model/src/vehicle_types.rs VehicleType::idx
//@retname r
//@sig
    ensures r == self.idx,
//@end
//@item solution/src/vehicle.rs Vehicle::idx
//@retname r
//@sig
    ensures r == self.idx,
//@end
//@item solution/src/vehicle.rs Vehicle::type_idx
//@retname r
//@sig
    ensures r == self.vehicle_type.idx,
//@end
//@item model/src/network/nodes.rs DepotNode::depot_idx
//@retname r
//@sig
    ensures r == self.depot_idx,
//@end
//@item model/src/network/nodes.rs Node::as_depot
//@retname r
//@sig
    requires self.sp_is_depot(),
    ensures *r == (match *self { Node::StartDepot((_, d)) => d, Node::EndDepot((_, d)) => d, _ => arbitrary() }),
//@end
//@item model/src/network.rs Network::get_depot_idx
//@retname r
//@sig
    requires self.has(node_idx), self.sp_node(node_idx).sp_is_depot(),
    ensures r == sp_depot_idx_of(self, node_idx),
//@end

impl Schedule {
    /// a real vehicle of this schedule
    pub open spec fn sp_is_vehicle(&self, v: VehicleIdx) -> bool { self.vehicles@.contains_key(v) }
    pub open spec fn sp_is_dummy(&self, v: VehicleIdx) -> bool { self.dummy_tours@.contains_key(v) }
    /// the type of a real vehicle
    pub open spec fn type_of(&self, v: VehicleIdx) -> VehicleTypeIdx { self.vehicles@[v].vehicle_type.idx }
    /// the depot where the tour of v starts / ends in this schedule
    pub open spec fn start_depot_of(&self, v: VehicleIdx) -> DepotIdx { sp_depot_idx_of(&self.network, sp_start_depot(&self.tours@[v])) }
    pub open spec fn end_depot_of(&self, v: VehicleIdx) -> DepotIdx { sp_depot_idx_of(&self.network, sp_end_depot(&self.tours@[v])) }
    /// part of C10 (schedule validity): a real vehicle has a real (non-dummy) well-formed tour over the
    /// schedule's network
    pub open spec fn real_tour_ok(&self, v: VehicleIdx) -> bool {
        self.tours@.contains_key(v) && tour_of_net(&self.network, &self.tours@[v])
    }
}
/// a real well-formed tour over the network `net`
pub open spec fn tour_of_net(net: &Network, t: &Tour) -> bool { t.wf() && !t.is_dummy && *t.network == *net }
/// both depot nodes of such a tour are depot nodes of the network
pub proof fn lemma_tour_depots(net: &Network, t: &Tour)
    requires tour_of_net(net, t),
    ensures
        net.has(sp_start_depot(t)) && net.sp_node(sp_start_depot(t)).sp_is_depot(),
        net.has(sp_end_depot(t)) && net.sp_node(sp_end_depot(t)).sp_is_depot(),
{
    assert(t.network.has(t.nodes@[0]));
    assert(t.network.has(t.nodes@[t.nodes@.len() - 1]));
}

//@item solution/src/schedule.rs Schedule::is_vehicle
//@retname r
//@sig
    ensures r == self.sp_is_vehicle(vehicle),
//@end
//@item solution/src/schedule.rs Schedule::is_dummy
//@retname r
//@sig
    ensures r == self.sp_is_dummy(vehicle),
//@end
//@item solution/src/schedule.rs Schedule::tour_of
//@retname r
//@sig
    ensures
        self.tours@.contains_key(vehicle) ==> r is Ok && *r->Ok_0 == self.tours@[vehicle],
        !self.tours@.contains_key(vehicle) && self.dummy_tours@.contains_key(vehicle) ==> r is Ok && *r->Ok_0 == self.dummy_tours@[vehicle],
        !self.tours@.contains_key(vehicle) && !self.dummy_tours@.contains_key(vehicle) ==> r is Err,
//@end

// =====================================================================================================
// the two leaf functions: one vehicle leaves its old start (end) depot and enters the new one
// =====================================================================================================
//@item solution/src/schedule/modifications.rs Schedule::update_depot_usage_for_new_start_depot
//@sig
    requires
        // part of C10: a real vehicle of the old schedule has a real tour (`tour_of(..).unwrap().start_depot().unwrap()`)
        self.sp_is_vehicle(vehicle.idx) ==> self.real_tour_ok(vehicle.idx),
        // the table knows the vehicle where the OLD schedule has it (`.remove(&vehicle_id).unwrap()`)
        self.sp_is_vehicle(vehicle.idx) ==>
            sp_spawned(old(depot_usage)@, self.start_depot_of(vehicle.idx), vehicle.vehicle_type.idx).contains(vehicle.idx),
        new_start_depot_node is Some ==> self.network.has(new_start_depot_node->Some_0) && self.network.sp_node(new_start_depot_node->Some_0).sp_is_depot(),
    ensures
        // the vehicle leaves (old depot, type) if it was real in the old schedule and enters (new depot, type)
        // if there is a new start depot; every other spawned set -- over the whole table, absent keys read
        // as empty -- is unchanged
        forall|d: DepotIdx, vt: VehicleTypeIdx| #[trigger] sp_spawned(final(depot_usage)@, d, vt) == moved(
            sp_spawned(old(depot_usage)@, d, vt), vehicle.idx,
            self.sp_is_vehicle(vehicle.idx) && d == self.start_depot_of(vehicle.idx) && vt == vehicle.vehicle_type.idx,
            new_start_depot_node is Some && d == sp_depot_idx_of(&self.network, new_start_depot_node->Some_0) && vt == vehicle.vehicle_type.idx), // @obl C09.depot_usage.new_start_depot.spawned_moved
        forall|d: DepotIdx, vt: VehicleTypeIdx| #[trigger] sp_despawned(final(depot_usage)@, d, vt) == sp_despawned(old(depot_usage)@, d, vt), // @obl C09.depot_usage.new_start_depot.despawned_untouched
//@end

//@item solution/src/schedule/modifications.rs Schedule::update_depot_usage_for_new_end_depot
//@sig
    requires
        self.sp_is_vehicle(vehicle.idx) ==> self.real_tour_ok(vehicle.idx),
        self.sp_is_vehicle(vehicle.idx) ==>
            sp_despawned(old(depot_usage)@, self.end_depot_of(vehicle.idx), vehicle.vehicle_type.idx).contains(vehicle.idx),
        new_end_depot_node is Some ==> self.network.has(new_end_depot_node->Some_0) && self.network.sp_node(new_end_depot_node->Some_0).sp_is_depot(),
    ensures
        forall|d: DepotIdx, vt: VehicleTypeIdx| #[trigger] sp_despawned(final(depot_usage)@, d, vt) == moved(
            sp_despawned(old(depot_usage)@, d, vt), vehicle.idx,
            self.sp_is_vehicle(vehicle.idx) && d == self.end_depot_of(vehicle.idx) && vt == vehicle.vehicle_type.idx,
            new_end_depot_node is Some && d == sp_depot_idx_of(&self.network, new_end_depot_node->Some_0) && vt == vehicle.vehicle_type.idx), // @obl C09.depot_usage.new_end_depot.despawned_moved
        forall|d: DepotIdx, vt: VehicleTypeIdx| #[trigger] sp_spawned(final(depot_usage)@, d, vt) == sp_spawned(old(depot_usage)@, d, vt), // @obl C09.depot_usage.new_end_depot.spawned_untouched
//@end

// =====================================================================================================
// both depots of one vehicle
// =====================================================================================================
//@item solution/src/schedule/modifications.rs Schedule::update_depot_usage_assuming_no_dummies
//@sig
    requires
        self.sp_is_vehicle(vehicle.idx) ==> self.real_tour_ok(vehicle.idx),
        // the table knows the vehicle where the OLD schedule has it
        self.sp_is_vehicle(vehicle.idx) ==>
            sp_spawned(old(depot_usage)@, self.start_depot_of(vehicle.idx), vehicle.vehicle_type.idx).contains(vehicle.idx)
            && sp_despawned(old(depot_usage)@, self.end_depot_of(vehicle.idx), vehicle.vehicle_type.idx).contains(vehicle.idx),
        // the new tour is a real tour (`start_depot().unwrap()`, `end_depot().unwrap()`)
        new_tour is Some ==> tour_of_net(&self.network, new_tour->Some_0),
    ensures
        forall|d: DepotIdx, vt: VehicleTypeIdx| #[trigger] sp_spawned(final(depot_usage)@, d, vt) == moved(
            sp_spawned(old(depot_usage)@, d, vt), vehicle.idx,
            self.sp_is_vehicle(vehicle.idx) && d == self.start_depot_of(vehicle.idx) && vt == vehicle.vehicle_type.idx,
            new_tour is Some && d == sp_depot_idx_of(&self.network, sp_start_depot(new_tour->Some_0)) && vt == vehicle.vehicle_type.idx), // @obl C09.depot_usage.no_dummies.spawned_moved
        forall|d: DepotIdx, vt: VehicleTypeIdx| #[trigger] sp_despawned(final(depot_usage)@, d, vt) == moved(
            sp_despawned(old(depot_usage)@, d, vt), vehicle.idx,
            self.sp_is_vehicle(vehicle.idx) && d == self.end_depot_of(vehicle.idx) && vt == vehicle.vehicle_type.idx,
            new_tour is Some && d == sp_depot_idx_of(&self.network, sp_end_depot(new_tour->Some_0)) && vt == vehicle.vehicle_type.idx), // @obl C09.depot_usage.no_dummies.despawned_moved
//@closure-params 0
    &Tour
//@closure 0
    -> (n: NodeIdx) requires t.wf() && !t.is_dummy ensures n == sp_start_depot(t)
//@closure-params 1
    &Tour
//@closure 1
    -> (n: NodeIdx) requires t.wf() && !t.is_dummy ensures n == sp_end_depot(t)
//@first
        proof { if new_tour is Some { lemma_tour_depots(&self.network, new_tour->Some_0); } }
//@end

// =====================================================================================================
// C09: after the step the table is exact for the vehicle in the NEW schedule (given by `vehicles`, `tours`)
// =====================================================================================================
//@item solution/src/schedule/modifications.rs Schedule::update_depot_usage
//@sig
    requires
        // part of C10 for the old schedule and for the new maps: a vehicle is stored under its own id, a
        // real vehicle has a real tour, and an id keeps its vehicle type
        self.sp_is_vehicle(vehicle_idx) ==> self.vehicles@[vehicle_idx].idx == vehicle_idx && self.real_tour_ok(vehicle_idx),
        vehicles@.contains_key(vehicle_idx) ==> vehicles@[vehicle_idx].idx == vehicle_idx,
        vehicles@.contains_key(vehicle_idx) && tours@.contains_key(vehicle_idx) ==> tour_of_net(&self.network, &tours@[vehicle_idx]),
        vehicles@.contains_key(vehicle_idx) && self.sp_is_vehicle(vehicle_idx) ==>
            vehicles@[vehicle_idx].vehicle_type.idx == self.vehicles@[vehicle_idx].vehicle_type.idx,
        // C09 before the step: the table is exact for this vehicle in the OLD schedule (`self`); in
        // particular this bookkeeping step runs once per vehicle and modification
        usage_exact_for(old(depot_usage)@, &self.network, self.vehicles@, self.tours@, vehicle_idx),
    ensures
        usage_exact_for(final(depot_usage)@, &self.network, vehicles@, tours@, vehicle_idx), // @obl C09.depot_usage.exact_for_vehicle_in_new_schedule
        usage_same_except(old(depot_usage)@, final(depot_usage)@, vehicle_idx), // @obl C09.depot_usage.other_vehicles_untouched
//@end

// =====================================================================================================
// C09: tour and costs of one vehicle
// =====================================================================================================
//@item solution/src/schedule/modifications.rs Schedule::update_tour_and_costs
//@sig
    requires
        // a vehicle that is not a dummy of `self` must have a tour in `tours` (`tours.get(&vehicle).unwrap()`)
        !self.sp_is_dummy(vehicle) ==> old(tours)@.contains_key(vehicle),
        // `(*costs + new) - old` in u64: no overflow, no underflow.  The second bound follows from
        // `costs >= old tour's costs`, which is C09 for the schedule under construction (its costs are the
        // sum of its tours' costs plus non-negative terms, see `sched_ok` in env/schedule_shim.vs)
        !self.sp_is_dummy(vehicle) ==> *old(costs) + new_tour.costs <= u64::MAX
            && old(tours)@[vehicle].costs <= *old(costs) + new_tour.costs,
    ensures
        !self.sp_is_dummy(vehicle) ==> final(tours)@ == old(tours)@.insert(vehicle, new_tour)
            && final(dummy_tours)@ == old(dummy_tours)@, // @obl C09.update_tour_and_costs.real_tour_replaced
        !self.sp_is_dummy(vehicle) ==> *final(costs) == *old(costs) + new_tour.costs - old(tours)@[vehicle].costs, // @obl C09.update_tour_and_costs.costs_follow_tour
        self.sp_is_dummy(vehicle) ==> final(dummy_tours)@ == old(dummy_tours)@.insert(vehicle, new_tour)
            && final(tours)@ == old(tours)@ && *final(costs) == *old(costs), // @obl C09.update_tour_and_costs.dummy_costs_nothing
//@end

// =====================================================================================================
// balances read off the table
// =====================================================================================================
//@item solution/src/schedule.rs Schedule::depot_balance
//@retname r
//@sig
    requires
        // `len() as i32`: vehicle ids are 16 bit (VehicleIdx::Vehicle(u16) | Dummy(u16)), so a set of them
        // has at most 2^17 members; stated as a bound on the table
        sp_spawned(self.depot_usage@, depot, vehicle_type).len() <= i32::MAX,
        sp_despawned(self.depot_usage@, depot, vehicle_type).len() <= i32::MAX,
    ensures
        r == sp_balance(self.depot_usage@, depot, vehicle_type), // @obl C09.depot_balance.spawned_minus_despawned
//@closure-params 0
    &(HashSet<VehicleIdx>, HashSet<VehicleIdx>)
//@closure 0
    -> (c: i32) requires p0.0@.len() <= i32::MAX && p0.1@.len() <= i32::MAX ensures c == p0.0@.len() - p0.1@.len()
//@end

/// the magnitude bound of the table: every set fits `i32`
pub open spec fn usage_small(du: UsageMap) -> bool {
    &&& forall|d: DepotIdx, vt: VehicleTypeIdx| (#[trigger] sp_spawned(du, d, vt)).len() <= i32::MAX
    &&& forall|d: DepotIdx, vt: VehicleTypeIdx| (#[trigger] sp_despawned(du, d, vt)).len() <= i32::MAX
}
//@item solution/src/schedule.rs Schedule::total_depot_balance_violation
//@retname r
//@sig
    requires
        usage_small(self.depot_usage@),
        sp_total_violation(self.depot_usage@) <= u32::MAX,
    ensures
        r == sp_total_violation(self.depot_usage@), // @obl C09.total_depot_balance_violation.sum_of_abs_balances
//@closure-params 0
    &(DepotIdx, VehicleTypeIdx)
//@closure 0
    -> (c: VehicleCount)
    requires usage_small(self.depot_usage@)
    ensures c == abs_int(sp_balance(self.depot_usage@, p0.0, p0.1))
//@first
        proof {
            axiom_key_seq(&self.depot_usage);
            lemma_total_violation(self.depot_usage@, self.depot_usage.key_seq());
        }
//@end

// =====================================================================================================
// C09 (D10): installing next-period transitions re-derives the schedule's maintenance violation
// =====================================================================================================
//@item solution/src/transition.rs Transition::maintenance_violation
//@retname r
//@sig
    ensures r == self.total_maintenance_violation,
//@end
//@item solution/src/schedule.rs Schedule::next_day_transition_of
//@retname r
//@sig
    requires self.next_period_transitions@.contains_key(vehicle_type),
    ensures *r == self.next_period_transitions@[vehicle_type],
//@end
//@item solution/src/schedule.rs Schedule::set_next_day_transitions
//@retname r
//@sig
    requires
        // C12 for each installed transition: its violation is a sum of `max(0, ..)` terms, hence not negative;
        // the i64 total fits (at most 2^17 vehicles, see sched_guard)
        forall|vt: VehicleTypeIdx| transitions@.contains_key(vt) ==> 0 <= (#[trigger] transitions@[vt]).total_maintenance_violation,
        sp_transitions_violation(transitions@) <= i64::MAX,
    ensures
        r.maintenance_violation == sp_transitions_violation(transitions@), // @obl C09.set_next_day_transitions.violation_is_sum_of_installed_transitions
        r.next_period_transitions == transitions, // @obl C16.set_next_day_transitions.installs_exactly_the_given_transitions
        r.vehicles == self.vehicles, r.tours == self.tours, r.train_formations == self.train_formations,
        r.depot_usage == self.depot_usage, r.dummy_tours == self.dummy_tours, r.vehicle_ids_grouped_and_sorted == self.vehicle_ids_grouped_and_sorted,
        r.dummy_ids_sorted == self.dummy_ids_sorted, r.vehicle_counter == self.vehicle_counter,
        r.unserved_passengers == self.unserved_passengers, r.costs == self.costs, r.network == self.network, // @obl C16.set_next_day_transitions.everything_else_unchanged
//@closure-params? 0
    &Transition
//@closure? 0
    -> (c: MaintenanceCounter) ensures c == transition.total_maintenance_violation
//@first
        proof {
            axiom_key_seq(&transitions);
            lemma_transitions_violation(transitions@, transitions.key_seq());
        }
//@end

} // mod tr
} // verus!
fn main() {}
